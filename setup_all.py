"""./check --setup : build the whole framework offline from a fresh restore."""
import glob
import importlib
import os
import sys

import vlib


def main():
    rc = 0
    fams = sorted(os.path.basename(p)[:-3] for p in glob.glob(os.path.join(vlib.ROOT, 'props', 'fam_*.py')))
    mods = []
    for f in fams:
        m = importlib.import_module('props.' + f)
        mods.append(m)
        if hasattr(m, 'gen_tables'):
            try:
                m.gen_tables()
            except Exception as ex:
                print('setup: gen_tables of %s failed: %r' % (f, ex))
                rc = 1
    vlib.coq_project()
    vos = [l.strip()[:-2] + '.vo' for l in open(os.path.join(vlib.COQ, '_CoqProject')) if l.strip().endswith('.v')]
    ok, text = vlib.coq_make(vos, timeout=6000)
    if not ok:
        print(text[-6000:])
        print('setup: coq build failed')
        rc = 1
    for m in mods:
        for fn in ('driver', 'harness'):
            if hasattr(m, fn):
                try:
                    getattr(m, fn)()
                except Exception as ex:
                    print('setup: %s.%s failed: %r' % (m.__name__, fn, ex))
                    rc = 1
    bad = vlib.coq_hygiene()
    if bad:
        print('setup: hygiene gate: ' + '; '.join(bad))
        rc = 1
    print('setup done rc=%d' % rc)
    return rc
