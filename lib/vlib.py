"""Shared machinery for /verif checks: builds, Coq, extraction, evidence, findings."""
import glob
import hashlib
import json
import os
import re
import shutil
import subprocess
import sys
import time

ROOT = os.path.dirname(os.path.dirname(os.path.abspath(__file__)))
REPO = os.environ.get('VERIF_REPO', '/repo')
BUILD = os.path.join(ROOT, 'build')
COQ = os.path.join(ROOT, 'coq')
NPROC = int(os.environ.get('VERIF_JOBS', os.cpu_count() or 4))
GUARD = 'GEMMI_VERIF'

SAN_FLAGS = ['-O1', '-g', '-fsanitize=address,undefined',
             '-fno-sanitize-recover=all', '-fno-omit-frame-pointer']
PLAIN_FLAGS = ['-O1']
CXX_BASE = ['g++', '-std=c++14', '-D' + GUARD, '-I' + REPO + '/include',
            '-I' + REPO + '/third_party', '-I' + ROOT + '/harness', '-w']

os.makedirs(BUILD, exist_ok=True)


def log(*a):
    print('[verif]', *a, file=sys.stderr, flush=True)


def sh(cmd, timeout=None, cwd=None, inp=None, env=None, check=False):
    """Run a command, return (rc, stdout, stderr). rc=-9 on timeout."""
    e = dict(os.environ)
    if env:
        e.update(env)
    try:
        p = subprocess.run(cmd, cwd=cwd, input=inp, env=e, timeout=timeout,
                           stdout=subprocess.PIPE, stderr=subprocess.PIPE)
        rc, out, err = p.returncode, p.stdout, p.stderr
    except subprocess.TimeoutExpired as ex:
        rc, out, err = -9, ex.stdout or b'', ex.stderr or b''
    if check and rc != 0:
        raise RuntimeError('command failed (%d): %s\n%s' % (
            rc, ' '.join(cmd) if isinstance(cmd, list) else cmd,
            err.decode('utf-8', 'replace')[-4000:]))
    return rc, out, err


def sha(*parts):
    h = hashlib.sha256()
    for p in parts:
        if isinstance(p, str):
            p = p.encode()
        h.update(p)
        h.update(b'\0')
    return h.hexdigest()[:24]


def file_sha(path):
    with open(path, 'rb') as f:
        return hashlib.sha256(f.read()).hexdigest()


# ---------------------------------------------------------------- C++ builds

def _deps(src, flags):
    rc, out, err = sh(CXX_BASE + flags + ['-MM', src], timeout=300)
    if rc != 0:
        raise RuntimeError('dependency scan failed for %s:\n%s' % (src, err.decode()[-3000:]))
    toks = out.decode().replace('\\\n', ' ').split()
    return sorted(set(t for t in toks[1:] if os.path.exists(t)))


def cxx_object(src, flags):
    """Compile src to an object cached by the content hash of src + every header it includes."""
    deps = _deps(src, [f for f in flags if f.startswith('-D') or f.startswith('-I')])
    key = sha(' '.join(CXX_BASE + flags), src, *[file_sha(d) for d in deps])
    odir = os.path.join(BUILD, 'obj')
    os.makedirs(odir, exist_ok=True)
    obj = os.path.join(odir, os.path.basename(src).replace('.', '_') + '-' + key + '.o')
    if not os.path.exists(obj):
        tmp = obj + '.tmp%d' % os.getpid()
        rc, out, err = sh(CXX_BASE + flags + ['-c', src, '-o', tmp], timeout=1200)
        if rc != 0:
            raise RuntimeError('compile failed for %s:\n%s' % (src, err.decode()[-6000:]))
        os.replace(tmp, obj)
    return obj


def build_exe(name, srcs, flags=None, libs=None):
    """Build an executable from harness/gen sources + /repo sources (parallel, cached)."""
    from concurrent.futures import ThreadPoolExecutor
    flags = SAN_FLAGS if flags is None else flags
    t0 = time.time()
    with ThreadPoolExecutor(max_workers=NPROC) as ex:
        objs = list(ex.map(lambda s: cxx_object(s, flags), srcs))
    key = sha(name, *objs, ' '.join(libs or []))
    bdir = os.path.join(BUILD, 'bin')
    os.makedirs(bdir, exist_ok=True)
    exe = os.path.join(bdir, name + '-' + key)
    if not os.path.exists(exe):
        tmp = exe + '.tmp%d' % os.getpid()
        rc, out, err = sh(['g++'] + [f for f in flags if f.startswith('-fsanitize') or f == '-g'] +
                          objs + ['-o', tmp] + (libs or []) + ['-lz', '-lpthread'], timeout=600)
        if rc != 0:
            raise RuntimeError('link failed for %s:\n%s' % (name, err.decode()[-6000:]))
        os.replace(tmp, exe)
    log('built %s in %.1fs' % (name, time.time() - t0))
    return exe


def repo_src(*names):
    return [os.path.join(REPO, 'src', n) for n in names]


def prune_build_cache(max_bytes=6 << 30):
    """Keep the object/binary cache bounded (oldest first)."""
    files = []
    for d in ('obj', 'bin'):
        for f in glob.glob(os.path.join(BUILD, d, '*')):
            try:
                st = os.stat(f)
                files.append((st.st_atime, st.st_size, f))
            except OSError:
                pass
    total = sum(s for _, s, _ in files)
    for _, s, f in sorted(files):
        if total <= max_bytes:
            break
        try:
            os.remove(f)
            total -= s
        except OSError:
            pass


# ---------------------------------------------------------------- Coq

def write_if_changed(path, text):
    if isinstance(text, str):
        text = text.encode()
    try:
        with open(path, 'rb') as f:
            if f.read() == text:
                return False
    except OSError:
        pass
    os.makedirs(os.path.dirname(path), exist_ok=True)
    with open(path, 'wb') as f:
        f.write(text)
    return True


def coq_project():
    """(Re)generate _CoqProject and Makefile when the set of .v files changes."""
    vs = sorted(os.path.relpath(p, COQ) for p in
                glob.glob(os.path.join(COQ, '**', '*.v'), recursive=True))
    # generated tables that have not been produced yet are declared by their producers
    text = '-Q . GV\n-arg -w -arg -all\n' + '\n'.join(vs) + '\n'
    changed = write_if_changed(os.path.join(COQ, '_CoqProject'), text)
    if changed or not os.path.exists(os.path.join(COQ, 'Makefile')):
        sh(['coq_makefile', '-f', '_CoqProject', '-o', 'Makefile'], cwd=COQ, check=True)


def coq_make(targets, timeout=3000, jobs=None):
    """make -k the given .vo targets. Returns (ok, log_text)."""
    coq_project()
    t0 = time.time()
    rc, out, err = sh(['make', '-k', '-j%d' % (jobs or NPROC)] + targets,
                      cwd=COQ, timeout=timeout, env={'TIMED': ''})
    text = out.decode('utf-8', 'replace') + err.decode('utf-8', 'replace')
    log('coq make %s rc=%d %.1fs' % (' '.join(targets), rc, time.time() - t0))
    return rc == 0, text


THEOREM_RE = re.compile(r'^\s*(?:Theorem|Corollary)\s+([A-Za-z0-9_\']+)', re.M)


def theorems_in(vfile):
    with open(vfile) as f:
        return THEOREM_RE.findall(f.read())


def coq_failure_location(logtext):
    """Extract (file, line, message) of Coq errors from a make log."""
    res = []
    for m in re.finditer(r'File "([^"]+)", line (\d+), characters [0-9-]+:\nError:((?:.|\n)*?)(?=\n\n|\nmake|\Z)', logtext):
        res.append((m.group(1), int(m.group(2)), m.group(3).strip()[:600]))
    return res


def print_assumptions(prop_v):
    """Compile a Properties file alone (deps must be built), return {theorem: [axioms]} and ok."""
    rel = os.path.relpath(prop_v, COQ)
    cache = os.path.join(BUILD, 'assump', rel.replace('/', '_') + '.json')
    vo = prop_v[:-2] + '.vo'
    if os.path.exists(cache) and os.path.exists(vo) and os.path.getmtime(cache) >= os.path.getmtime(vo):
        with open(cache) as f:
            return json.load(f)
    rc, out, err = sh(['coqc', '-Q', '.', 'GV', '-w', '-all', rel], cwd=COQ, timeout=1800)
    text = out.decode('utf-8', 'replace')
    res = {}
    if rc == 0:
        names = theorems_in(prop_v)
        # Print Assumptions outputs appear in order, one per theorem
        blocks = re.split(r'(?=^Closed under the global context|^Axioms:)', text, flags=re.M)
        blocks = [b for b in blocks if b.startswith('Closed under') or b.startswith('Axioms:')]
        for i, n in enumerate(names):
            if i < len(blocks):
                b = blocks[i]
                if b.startswith('Closed'):
                    res[n] = []
                else:
                    ax = re.findall(r'^([A-Za-z_][A-Za-z0-9_\.\']*)\s*:', b, flags=re.M)
                    res[n] = sorted(set(a for a in ax if a != 'Axioms'))
            else:
                res[n] = ['<no Print Assumptions output>']
        os.makedirs(os.path.dirname(cache), exist_ok=True)
        with open(cache, 'w') as f:
            json.dump(res, f)
    return res


FORBIDDEN = re.compile(r'\b(Admitted|admit|Axiom|Axioms|Parameter|Parameters|Conjecture|'
                       r'Unset\s+Guard|bypass_check|Admit\s+Obligations|type-in-type|'
                       r'impredicative-set|Unset\s+Positivity|Unset\s+Universe)\b')


def coq_hygiene():
    """Grep gate: no Admitted/Axiom/... anywhere in the development. Returns list of offences."""
    bad = []
    for p in glob.glob(os.path.join(COQ, '**', '*.v'), recursive=True) + \
            glob.glob(os.path.join(ROOT, 'extract', '*.v')):
        with open(p) as f:
            for i, line in enumerate(f, 1):
                code = re.sub(r'\(\*.*?\*\)', '', line)
                if FORBIDDEN.search(code) and 'Print Assumptions' not in code:
                    # Variable/Hypothesis outside sections are checked by coqchk; here the keywords
                    bad.append('%s:%d: %s' % (os.path.relpath(p, ROOT), i, line.strip()))
    return bad


# ---------------------------------------------------------------- extraction / OCaml driver

def ocaml_driver(fam, deps_vo):
    """Extract coq/../extract/Extract_<fam>.v and build extract/<fam>_drv.ml against it."""
    ok, text = coq_make(deps_vo)
    if not ok:
        raise RuntimeError('model files for %s do not compile:\n%s' % (fam, text[-4000:]))
    ev = os.path.join(ROOT, 'extract', 'Extract_%s.v' % fam)
    drv = os.path.join(ROOT, 'extract', '%s_drv.ml' % fam)
    vos = [os.path.join(COQ, v) for v in deps_vo]
    key = sha(file_sha(ev), file_sha(drv), file_sha(os.path.join(ROOT, 'extract', 'prelude.ml')), *[file_sha(v) for v in vos])
    mdir = os.path.join(BUILD, 'ml', fam + '-' + key)
    exe = os.path.join(mdir, 'drv')
    if os.path.exists(exe):
        return exe
    for old in glob.glob(os.path.join(BUILD, 'ml', fam + '-*')):
        shutil.rmtree(old, ignore_errors=True)
    os.makedirs(mdir, exist_ok=True)
    t0 = time.time()
    sh(['coqc', '-Q', COQ, 'GV', '-w', '-all', ev, '-o', os.path.join(mdir, os.path.basename(ev) + 'o')],
       cwd=mdir, timeout=1800, check=True)
    mls = sorted(glob.glob(os.path.join(mdir, '*.ml')))
    mod = [m for m in mls if not m.endswith('drv.ml')]
    with open(os.path.join(mdir, 'drv.ml'), 'w') as f:
        for m in mod:
            f.write('open %s\n' % os.path.basename(m)[:-3].capitalize())
        f.write(open(os.path.join(ROOT, 'extract', 'prelude.ml')).read())
        f.write(open(drv).read())
    cmd = ['ocamlfind', 'ocamlopt', '-O3', '-w', '-a', '-package', 'str', '-linkpkg']
    rc, _, _ = sh(['ocamlfind', 'ocamlopt', '-config'], timeout=60)
    cmd = ['ocamlfind', 'ocamlopt', '-w', '-a', '-package', 'str', '-linkpkg']
    srcs = []
    for m in mod:
        if os.path.exists(m + 'i'):
            srcs.append(m + 'i')
        srcs.append(m)
    srcs.append(os.path.join(mdir, 'drv.ml'))
    sh(cmd + srcs + ['-o', exe], cwd=mdir, timeout=1800, check=True)
    log('built OCaml driver %s in %.1fs' % (fam, time.time() - t0))
    return exe


# ---------------------------------------------------------------- findings / evidence / verdict

def load_known():
    p = os.path.join(ROOT, 'known_findings.json')
    try:
        with open(p) as f:
            return json.load(f)
    except OSError:
        return {'known': [], 'fixed': []}


class Check:
    """Book-keeping for one run of one property's check."""

    def __init__(self, pid, tier, seed):
        self.pid, self.tier, self.seed = pid, tier, seed
        self.t0 = time.time()
        self.obligations = []       # (theorem, ok, axioms)
        self.evaluations = 0
        self.nontrivial = set()
        self.samples = []
        self.rule = ''
        self.hist = {}
        self.trusted = []
        self.assumptions = []
        self.violations = []        # dict(kind=, key=, detail=, replay=)
        self.known_hits = []
        self.extra = {}
        self.checker_cmd = 'make -k -C coq Properties_%s.vo (coqc 8.16.1, full .vo build)' % pid
        self.known = [k for k in load_known().get('known', []) if k.get('property') == pid]
        self.replay_mode = False

    # -- proof side
    def prove(self, prop_file=None, extra_targets=(), timeout=3000):
        pf = prop_file or 'Properties_%s.v' % self.pid
        target = pf[:-2] + '.vo'
        bad = coq_hygiene()
        ok, text = coq_make([target] + list(extra_targets), timeout=timeout)
        names = theorems_in(os.path.join(COQ, pf))
        if bad:
            for n in names:
                self.obligations.append((n, False, ['hygiene gate failed']))
            self.violate('proof', 'hygiene', 'forbidden keyword in development: ' + '; '.join(bad[:5]))
            return False
        if ok and os.path.exists(os.path.join(COQ, target)):
            ax = print_assumptions(os.path.join(COQ, pf))
            for n in names:
                self.obligations.append((n, True, ax.get(n, [])))
            if self.tier == 'thorough' and os.environ.get('VERIF_NO_COQCHK') != '1':
                # independent re-check of the compiled property file and everything it depends on
                t0 = time.time()
                rc, out, err = sh(['coqchk', '-silent', '-o', '-Q', '.', 'GV', 'GV.' + pf[:-2]], cwd=COQ, timeout=3600)
                txt = (out.decode(errors='replace') + err.decode(errors='replace'))
                self.extra['coqchk'] = {'rc': rc, 'wall_s': round(time.time() - t0, 1),
                                        'report': [l.rstrip() for l in txt[txt.find('* Theory'):].splitlines() if l.strip()][:40]}
                log('coqchk %s rc=%s %.0fs' % (pf, rc, time.time() - t0))
                if rc == -9:
                    # the independent re-check did not finish within its hour (a loaded machine: it takes 10-40 min when
                    # idle). This says nothing about the proofs - coqc's kernel has accepted them above - so it is
                    # recorded in the evidence, not reported as a violation.
                    self.extra['coqchk']['note'] = 'timed out after 3600 s: independent re-check not completed in this run'
                elif rc != 0:
                    self.failed_theorems = list(names)
                    self.coq_log_tail = txt[-3000:]
                    return False
            return True
        locs = coq_failure_location(text)
        self.extra['coq_errors'] = [{'file': f, 'line': l, 'error': m} for f, l, m in locs][:10]
        failing = set()
        for f, l, m in locs:
            if os.path.basename(f) == os.path.basename(pf):
                # theorem enclosing line l
                with open(os.path.join(COQ, pf)) as fh:
                    cur = None
                    for i, line in enumerate(fh, 1):
                        mm = THEOREM_RE.match(line)
                        if mm:
                            cur = mm.group(1)
                        if i == l and cur:
                            failing.add(cur)
        if not failing:
            failing = set(names)     # a dependency broke: nothing in this file is shown
        for n in names:
            self.obligations.append((n, n not in failing, []))
        self.failed_theorems = sorted(failing)
        self.coq_log_tail = text[-3000:]
        return False

    # -- exploration side
    def case(self, key, nontrivial=True, sample=None, bucket=None):
        self.evaluations += 1
        if nontrivial:
            self.nontrivial.add(key if len(str(key)) < 80 else sha(str(key)))
        if sample is not None and len(self.samples) < 12:
            self.samples.append(sample)
        if bucket is not None:
            self.hist[bucket] = self.hist.get(bucket, 0) + 1

    def violate(self, kind, key, detail, replay=None, found_input=True):
        for k in self.known:
            if k.get('match') and re.search(k['match'], str(key)):
                if k['id'] not in [h['id'] for h in self.known_hits]:
                    self.known_hits.append(k)
                return False
        self.violations.append({'kind': kind, 'key': str(key), 'detail': detail,
                                'replay': replay, 'found_input': found_input})
        return True

    def clear_old_replays(self):
        for old in glob.glob(os.path.join(ROOT, 'evidence', 'replay', self.pid + '-*.json')):
            try:
                os.remove(old)
            except OSError:
                pass

    def finish(self):
        wall = time.time() - self.t0
        rdir = os.path.join(ROOT, 'evidence', 'replay')
        os.makedirs(rdir, exist_ok=True)
        if self.replay_mode:
            # a replay reports, it does not rewrite the evidence of the last full run
            for v in self.violations:
                print('VIOLATION property=%s replay=%s' % (self.pid, v.get('replay_path', 'replayed-input')))
            return 1 if self.violations else 0
        lines = []
        for k in self.known_hits:
            lines.append('KNOWN-FINDING: property=%s %s' % (self.pid, k.get('what', k['id'])))
        # group violations: one line per distinct key (at most 20 lines)
        seen = set()
        for v in self.violations:
            if v['key'] in seen:
                continue
            seen.add(v['key'])
            if len(seen) > 20:
                break
            rp = os.path.join(rdir, '%s-%s.json' % (self.pid, sha(v['key'], v['detail'])[:12]))
            with open(rp, 'w') as f:
                json.dump({'property': self.pid, 'tier': self.tier, 'seed': self.seed,
                           'kind': v['kind'], 'key': v['key'], 'detail': v['detail'],
                           'replay': v['replay'],
                           'how_to_replay': './check %s --replay %s' % (self.pid, rp)}, f, indent=1)
            tail = '' if v['found_input'] else ' no-failing-input-found'
            lines.append('VIOLATION property=%s replay=%s%s' % (self.pid, rp, tail))
        nobl = len(self.obligations)
        ndis = sum(1 for o in self.obligations if o[1])
        axioms = sorted(set(a for o in self.obligations for a in o[2]))
        ev = {
            'property_id': self.pid, 'tier': self.tier, 'seed': self.seed, 'level': 'proof',
            'coverage': {
                'obligations': nobl, 'discharged': ndis,
                'checker_cmd': self.checker_cmd,
                'trusted_base': ['Coq 8.16.1 kernel + vm_compute (no native_compute)'] + self.trusted +
                                ['axioms reported by Print Assumptions: ' + (', '.join(axioms) if axioms else 'none (closed under the global context)')],
                'theorems': [{'name': n, 'checked': ok, 'axioms': ax} for n, ok, ax in self.obligations],
                'evaluations': self.evaluations,
                'distinct_nontrivial': len(self.nontrivial),
                'rule': self.rule,
                'samples': self.samples,
                'input_distribution': self.hist,
                'known_findings_seen': [k['id'] for k in self.known_hits],
            },
            'assumptions': self.assumptions,
            'wall_s': round(wall, 2),
            'violations': len(seen),
        }
        ev['coverage'].update(self.extra)
        with open(os.path.join(ROOT, 'evidence', '%s.json' % self.pid), 'w') as f:
            json.dump(ev, f, indent=1, default=str)
        for l in lines:
            print(l, flush=True)
        if not self.violations:
            print('OK property=%s tier=%s theorems=%d/%d cases=%d distinct=%d wall=%.0fs' % (
                self.pid, self.tier, ndis, nobl, self.evaluations, len(self.nontrivial), wall), flush=True)
        prune_build_cache()
        return 1 if self.violations else 0


def run_lines(exe, args, inp=None, timeout=3000, env=None):
    """Run a harness/driver, return (rc, list of output lines, stderr text)."""
    e = {'ASAN_OPTIONS': 'detect_leaks=0:abort_on_error=0:allocator_may_return_null=1',
         'UBSAN_OPTIONS': 'print_stacktrace=1'}
    if env:
        e.update(env)
    rc, out, err = sh([exe] + list(args), inp=inp, timeout=timeout, env=e)
    return rc, out.decode('utf-8', 'replace').splitlines(), err.decode('utf-8', 'replace')


# ---------------------------------------------------------------- correspondence runner

def _run_chunk(exe, lines, timeout, env=None):
    """Run the harness over input lines, surviving crashes: returns (out_lines, crashes)."""
    out_all, crashes = [], []
    todo = lines
    guard = 0
    while todo and guard < 50:
        guard += 1
        rc, out, err = run_lines(exe, [], inp=('\n'.join(todo) + '\n').encode(), timeout=timeout, env=env)
        out_all.extend(out)
        if rc == 0:
            break
        # find the input line being processed when the process died: the first one with no output
        done = 0
        oi = 0
        for i, l in enumerate(todo):
            key = l + '\t'
            if l.split('\t')[0] in BULK_CMDS:
                done = i + 1   # cannot attribute precisely; assume completed unless it is the last seen
                continue
            if oi < len(out) and out[oi].startswith(key):
                oi += 1
                done = i + 1
            else:
                # skip bulk outputs
                while oi < len(out) and not out[oi].startswith(key):
                    oi += 1
                if oi < len(out):
                    oi += 1
                    done = i + 1
                else:
                    break
        if done >= len(todo):
            break
        culprit = todo[done]
        kind = 'TIMEOUT' if rc == -9 else 'CRASH'
        crashes.append((culprit, kind, err[-1500:]))
        out_all.append(culprit + '\t' + kind)
        todo = todo[done + 1:]
    return out_all, crashes


BULK_CMDS = set()


def correspond(chk, harness, driver, lines, timeout=3000, jobs=None, env=None):
    """Run `lines` (cmd \\t args) through the C++ harness and the extracted model.
    Returns dict(outputs=[...], mismatches=[(cmd,args,impl,model)], crashes=[...], oracle_fail=[(cmd,args,res)])."""
    from concurrent.futures import ThreadPoolExecutor
    jobs = jobs or NPROC
    n = max(1, min(jobs, (len(lines) + 199) // 200))
    chunks = [lines[i::n] for i in range(n)]
    t0 = time.time()
    with ThreadPoolExecutor(max_workers=n) as ex:
        results = list(ex.map(lambda c: _run_chunk(harness, c, timeout, env), chunks))
    outs, crashes = [], []
    for o, c in results:
        outs.extend(o)
        crashes.extend(c)
    t1 = time.time()
    oracle_fail = []
    model_lines = []
    for l in outs:
        parts = l.split('\t')
        if len(parts) != 3:
            continue
        if parts[0].startswith('o_'):
            if not (parts[2] in ('1', 'ok', 'skip') or parts[2].startswith('0 count') and False):
                oracle_fail.append(tuple(parts))
        else:
            model_lines.append(l)
    mismatches = []
    summary = (0, 0, 0)
    if driver and model_lines:
        m = max(1, min(jobs, (len(model_lines) + 499) // 500))
        mchunks = [model_lines[i::m] for i in range(m)]
        with ThreadPoolExecutor(max_workers=m) as ex:
            dres = list(ex.map(lambda c: run_lines(driver, [], inp=('\n'.join(c) + '\n').encode(),
                                                   timeout=timeout), mchunks))
        tot = bad = skip = 0
        for rc, dout, derr in dres:
            ok = False
            for dl in dout:
                p = dl.split('\t')
                if p[0] == 'MISMATCH' and len(p) >= 5:
                    mismatches.append((p[1], p[2], p[3][5:], p[4][6:]))
                elif p[0] == 'SUMMARY':
                    tot += int(p[1]); bad += int(p[2]); skip += int(p[3]); ok = True
            if not ok:
                mismatches.append(('DRIVER', 'rc=%s' % rc, '', derr[-500:]))
        summary = (tot, bad, skip)
    log('correspond: %d inputs -> %d outputs, %d mismatches, %d crashes, %d oracle failures (%.1fs + %.1fs)' % (
        len(lines), len(outs), len(mismatches), len(crashes), len(oracle_fail), t1 - t0, time.time() - t1))
    return {'outputs': outs, 'mismatches': mismatches, 'crashes': crashes, 'oracle_fail': oracle_fail,
            'summary': summary}
