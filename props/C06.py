"""C06: PDB files written by gemmi read back to the same model; padding is irrelevant.
Theorems (Properties_C06.v) + correspondence of the codec / line-buffer / record model with gemmi
+ the property oracles evaluated on gemmi (write->read->write fixed point, field-by-field equality,
independence of trailing blanks / CR-LF / earlier lines)."""
import json
import random

import vlib
from props import fam_pdb as F


MANIFEST = {'technique': 'Coq proof (ATOM/HETATM and CRYST1 records: text fields round-trip for all fitting values, layout derived from the format strings of the source by a printf interpreter; hybrid-36 round trips for the whole ranges, line-buffer independence from earlier lines) + exact differential check of codecs/record parser + round-trip oracles on gemmi', 'text': 'ATOM / HETATM RECORD (Pdb/AtomLine.v, compared with gemmi one record at a time): for EVERY atom whose fields fit their columns and whatever follows the line in the buffer, record name, serial, atom name (with the alignment rule of padded_name), altloc, residue name, chain, residue number, insertion code, segment, element columns and charge are read back exactly and the numeric columns byte for byte (C06_atom_record_roundtrip). TIE TO THE SOURCE TEXT: the printf format strings of the ATOM/HETATM and CRYST1 records are copied out of src/to_pdb.cpp on every run (gen/extract_atom_fmt.py) and a printf interpreter in Coq shows that the line of the model IS what those formats produce (C06_atom_line_is_source_format): an edited width, precision or blank in the source changes the statement the kernel checks. CRYST1: 80 columns, space-group name and Z read back exactly (C06_cryst1_roundtrip). A lower-case altloc is written as its capital (refuted witness). Theorems: read_serial(encode n) = n for all 0 <= n <= 43770015 and read_seq_id(write_seq_id n icode) = (n, icode) for all -999 <= n <= 1223055 (general proofs, tight bounds shown by Examples); charge and altloc round trips; C06_no_stale_bytes: after next_line the whole 122-byte buffer, length and stream rest depend on the stream alone, hence every record parse is independent of earlier longer lines (the snapshot behaviour is refuted with the SEQRES witness); invariant of the line buffer; padding/CR-LF variants give the same buffer up to blank<->terminator (_partial). Model of codecs, copy_line and the SEQRES/DBREF/MODRES/HELIX/SHEET/CONECT handlers compared exactly with gemmi on generated line sequences; oracles on gemmi: write->read->write byte-identical + field equality on generated structures x options, padding/strip/CR-LF invariance on generated and repository files, every record kind cut at every length under ASan.', 'note': 'Trusted: Coq kernel; extraction; harness. No axioms. Binary<->decimal conversion (fast_float, stb), ATOM/ANISOU/CRYST1 numerics, REMARK metadata and polyheur are oracle-only. Excluded from generation (documented upstream behaviour): bytes >= 0x80 in over-long lines, CISPEP angles below -99.99, ANISOU with zero trace.'}

def oracle_lines(rng, quick):
    lines = []
    # hybrid-36 codecs on the implementation, exhaustively over the ranges of the theorems
    step = 200000
    hi = 43770015
    if quick:
        for lo in (0, 16796160 - 100000 - step // 2, hi - step):
            lines.append('o_ser\t%d %d' % (max(lo, 0), min(max(lo, 0) + step, hi)))
        for k in range(1, 5):
            for d in (1, 9, 25):
                c = 100000 + d * 36 ** k
                if c < hi:
                    lines.append('o_ser\t%d %d' % (c - 500, min(c + 500, hi)))
        lines.append('o_sid\t-999 120000 32')
        lines.append('o_sid\t1103055 1223055 65')
    else:
        for lo in range(0, hi + 1, 2000000):
            lines.append('o_ser\t%d %d' % (lo, min(lo + 1999999, hi)))
        for ic in (32, 65, 122, 48):
            lines.append('o_sid\t-999 1223055 %d' % ic)
    # minimized failures of earlier runs come first (LINK / SSBOND partners in residues that carry a segment id)
    for l in REGRESSION_RT:
        lines.append('o_rt\t' + l)
    # generated structures x write options x read options
    n = 700 if quick else 20000
    wms = [0, 0, 0, 1, 2, 4, 8, 16, 32, 64, 128, 256, 512, 1024, 2048, 2048, 2048, 2048 + 512, 4096, 4096 + 128, 4096 + 512]
    for i in range(n):
        seed = rng.randrange(1, 2 ** 40)
        wm = rng.choice(wms + [rng.randrange(8192)])
        rm = rng.choice([0, 0, 0, 1, 2, 4, 8, rng.randrange(16)])
        fl = 1 if (wm & 4096 and rng.random() < 0.5) else 0
        lines.append('o_rt\t%d %d %d %d %d %d %d' % (seed, rng.choice([1, 1, 2, 3]), rng.choice([1, 2, 3, 5]),
                                                     rng.choice([1, 3, 6, 15]), wm, rm, fl))
    # LINKR records (Refmac link ids) to a copy of the partner in a neighbouring cell, in the same asu, or unrestricted
    for i in range(60 if quick else 3000):
        lines.append('o_linkr\t%d' % rng.randrange(1, 2 ** 40))
    # repository files and line-length mutations of them
    for path in F.repo_pdb_files():
        lines.append('o_file\t%s 0' % path)
        for _ in range(3 if quick else 40):
            lines.append('o_file\t%s %d' % (path, rng.randrange(1, 2 ** 40)))
    return lines


REGRESSION_RT = [
    '503058674936 1 3 15 0 1 0', '844320534170 1 1 6 0 8 0', '373180728215 1 5 15 256 8 0', '911119249164 2 3 6 2 0 0',
    '1043145518308 1 2 3 64 0 0',           # LINK partner with a 4-character name in a residue with a segment id
    '955497375907 1 5 15 0 0 0', '803215209370 1 5 6 0 8 0', '388748210267 2 3 6 0 1 0',   # SSBOND partner with a segment id
]


def atomline_cases(rng, n):
    """ATOM / HETATM records one at a time (model Pdb/AtomLine.v): mostly fields that fit their columns - at both ends of
    every range (hybrid-36 serials and residue numbers, 4-character names, the padded_name alignment rule, two-character
    chains, segments with an inner blank, charges -9..9) - and some that do not (names and residue names longer than
    their columns are truncated by the writer; the reader model must still agree)."""
    def hx(t):
        return t.encode().hex() if t else '-'
    names = ['CA', 'N', 'C', 'O', 'CB', "C1'", "HO5'", "O5'", 'OXT', 'H', 'HA', '1HB', 'HB1', 'D', 'DA', 'FE', 'CL', 'ZN', 'MG',
             'O1P', 'N9', 'C4A', 'SE', 'X', 'Q', 'UNK', 'CA1', 'HH11', 'A', 'C\'', 'N"', 'ABCDE', '']
    els = ['C', 'N', 'O', 'H', 'D', 'Ca', 'Fe', 'Cl', 'Zn', 'Mg', 'Se', 'S', 'P', 'X', 'Na', 'K', 'U', 'He', 'Hg']
    resn = ['ALA', 'GLY', 'HOH', 'A', 'DA', 'UNL', '0PR', 'MSE', 'NA', 'ZN', 'ABCD', 'ABCDE', 'a1', '']
    chains = ['A', 'B', 'AA', 'a', '1', 'Z9', 'x', 'Ax']
    segs = ['', '', '', 'SEG1', 'A B', 'S', 'AB', 'S 1']
    serials = [0, 1, 9, 99999, 100000, 100001, 43770015, 1000, 12345, 2436111, 2436112]
    seqs = [-999, -1, 0, 1, 9, 10, 999, 9999, 10000, 10001, 1223055, 476655, 476656, 100]
    lines = []
    for _ in range(n):
        name = rng.choice(names)
        el = rng.choice(els)
        if rng.random() < 0.6 and name:      # a compatible element most of the time
            cand = [e for e in els if name.lstrip('0123456789').upper().startswith(e.upper())]
            el = rng.choice(cand) if cand else el
        lines.append('atomline\t%d %d %s %s %d %s %s %d %d %s %d %s %s %s %s %s' % (
            rng.randint(0, 1), rng.choice(serials + [rng.randrange(0, 43770016)]), hx(name), el,
            rng.choice([0, 0, 0, 65, 66, 49, 97]), hx(rng.choice(resn)), hx(rng.choice(chains)),
            rng.choice(seqs + [rng.randrange(-999, 1223056)]), rng.choice([32, 32, 32, 65, 90, 49]), hx(rng.choice(segs)),
            rng.choice([0, 0, 0, 1, -1, 2, -2, 9, -9, 5]),
            '%.3f' % rng.uniform(-999, 9999), '%.4f' % rng.uniform(-99, 99), rng.choice(['0', '-0.0004', '123.4565', '-999.9994', '9999.999']),
            rng.choice(['1', '0.5', '0', '0.335', '1.00']), rng.choice(['0', '20.55', '999.99', '1234.5', '0.005', '15.125'])))
    return lines


def record_lines(rng, quick):
    lines = []
    for _ in range(600 if quick else 20000):
        text = F.record_text(rng, rng.choice([2, 3, 4, 6, 10]))
        maxlen = rng.choice([0, 0, 0, 80, 100, 120, 30, 72])
        lines.append('recs\t%s %d' % (F.hx(text), maxlen))
        # the padding oracle is for complete records (as written, with or without trailing blanks)
        lines.append('o_pad\t%s 0' % F.hx(F.record_text(rng, rng.choice([2, 3, 4, 6, 10]), wellformed=True)))
    # the probe of the stale-buffer defect: a 13-residue SEQRES line, then an unpadded 2-residue one
    probe = ('SEQRES   1 A   13  MET LYS THR ALA TYR ILE ALA LYS GLN ARG GLN ILE SER\n'
             'SEQRES   1 B    2  ALA GLY\n')
    lines.append('recs\t%s 0' % F.hx(probe))
    lines.append('o_pad\t%s 0' % F.hx(probe))
    # a last line without newline keeps its last character
    lines.append('o_pad\t%s 0' % F.hx('KEYWDS    HYDROLASE\nTITLE     SOMETHING'))
    # every record kind cut at every length: no memory error (ASan)
    for _ in range(2 if quick else 40):
        lines.append('o_cutall\t%d %d %d %d' % (rng.randrange(1, 2 ** 40), rng.choice([1, 2]), 2, 3))
    return lines


def nontrivial(cmd, args, res):
    if res in ('EXC', 'skip', '-', '?'):
        return False
    if cmd == 'rint':
        return res != '0'
    if cmd in ('rser', 'rsid'):
        return res not in ('0', 'N:32')
    return True


def run(chk):
    quick = chk.tier == 'quick'
    rng = random.Random(chk.seed)
    chk.trusted += ['extraction (ExtrOcamlBasic only; Z kept as Coq Z) + extract/pdb_drv.ml',
                    'harness/h_pdb.cpp + harness/pdb_struct.hpp (structure generator, field dump) built from the repo with ASan+UBSan',
                    'g++/libstdc++/glibc strtol as the execution platform of the implementation side']
    chk.assumptions += ['C int arithmetic does not overflow in the fixed-column integer readers (fields of at most 9 digits are generated)',
                        'record identifiers and field bytes below 128 in the first four columns (signed-char effects of ialpha4_id are not modelled)',
                        'coordinates/occupancies/B factors: binary<->decimal conversion (fast_float, stb_sprintf) is not modelled; '
                        'covered by the write->read->write oracle on generated structures only',
                        'metadata REMARK parsing and entity/sub-chain heuristics (polyheur.cpp) are outside the model; exercised by the oracle only']
    F.gen_tables()
    chk.trusted.append('translator gen/extract_atom_fmt.py (copies the printf format strings of the ATOM/HETATM and CRYST1 records out of src/to_pdb.cpp)')
    proved = chk.prove()
    h, d = F.harness(), F.driver()
    lines = F.codec_lines(rng, 400 if quick else 20000)
    lines += atomline_cases(rng, 1500 if quick else 60000)
    lines += F.copyline_lines(rng, 300 if quick else 10000)
    lines += record_lines(rng, quick)
    lines += oracle_lines(rng, quick)
    res = vlib.correspond(chk, h, d, lines, timeout=1500)
    for l in res['outputs']:
        p = l.split('\t')
        if len(p) == 3:
            key = p[0] + ' ' + p[1]
            chk.case(key, nontrivial(*p),
                     sample={'cmd': p[0], 'args': p[1][:300], 'impl': p[2][:300]} if chk.evaluations % 397 == 0 else None,
                     bucket=p[0] + (':EXC' if p[2] == 'EXC' else ''))
    for (cmd, args, impl, model) in res['mismatches']:
        chk.violate('correspondence', 'pdb-model disagrees with gemmi on command ' + cmd,
                    'input=%s impl=%s model=%s' % (args[:2000], impl[:1500], model[:1500]),
                    replay={'harness': 'h_pdb', 'line': cmd + '\t' + args}, found_input=False)
    for (cmd, args, r) in res['oracle_fail']:
        # keep the key short and stable: command + seed/options, the text travels in the detail
        chk.violate('oracle', 'C06 %s fails on gemmi for %s' % (cmd, args[:200]), 'oracle result: ' + r[:6000],
                    replay={'harness': 'h_pdb', 'line': cmd + '\t' + args})
    for (line, kind, err) in res['crashes']:
        chk.violate('crash', 'h_pdb %s on %s' % (kind, line[:200]), err,
                    replay={'harness': 'h_pdb', 'line': line})
    chk.extra['correspondence_summary'] = {'compared': res['summary'][0], 'mismatching': res['summary'][1],
                                           'model_silent': res['summary'][2]}
    chk.rule = ('codecs: every boundary of the decimal/base-36 blocks + random values and random field bytes, compared exactly '
                'with the extracted model (ser/sid/b36/rser/rsid/rint/rstr/rchg); copy_line on random buffers and lines '
                '(NUL and high bytes, over-long lines, all sizes); record handlers on generated line SEQUENCES '
                '(SEQRES/DBREF/DBREF1/DBREF2/MODRES/HELIX/SHEET/CONECT/END, padded / unpadded / cut / CR-LF, max_line_length) '
                'compared field by field with the model; oracles on gemmi: o_ser/o_sid exhaustive ranges, '
                'o_rt = generated structure -> make_pdb_string -> read -> make_pdb_string byte-identical + field equality + '
                're-read equality + padding variants, x PdbWriteOptions x PdbReadOptions; o_pad/o_file = stripped/CR-LF/padded '
                'variants read the same, on generated record texts and on tests/*.pdb with line-length mutations. '
                'non-trivial = the result is not an exception / empty dump / zero field')
    if not proved:
        chk.violate('proof', 'Properties_C06 ' + ','.join(getattr(chk, 'failed_theorems', [])),
                    getattr(chk, 'coq_log_tail', ''), found_input=False)


def replay(chk, path):
    r = json.load(open(path))['replay']
    h = F.harness()
    rc, out, err = vlib.run_lines(h, [], inp=(r['line'] + '\n').encode())
    print('\n'.join(o[:3000] for o in out), err[-3000:])
    if not r['line'].startswith('o_'):
        d = F.driver()
        rc, out2, err2 = vlib.run_lines(d, [], inp=('\n'.join(out) + '\n').encode())
        print('\n'.join(o[:3000] for o in out2))
