"""C13: moving reflections to symmetry-equivalent indices preserves the data they carry."""
import random

import vlib
from props import fam_move as F
from props import fam_sym

MANIFEST = dict(
    technique='Coq proof (phase transport over Z/24 for every group, list and symmetry-consistent phase function) + differential check + sphere-function oracles on gemmi',
    text='ensure_asu is also run on a file with two datasets that use the same (+)/(-) labels (each pair must be swapped within its own dataset). Theorems for every row of the regenerated table, both ASU conventions and every hkl: ensure_asu never fails; the phase it stores after moving a reflection (shift -(h.t) of the ORIGINAL index, negation for Friedel mates) is the true phase of the new index for any phase function obeying F(hR)=F(h)exp(-2 pi i h.t) and Friedel law; original -> (ASU index, ISYM) -> original restores unmerged indices; expand_to_p1 (for ANY operation list and hkl): the original and its copies are pairwise distinct with no Friedel pair, every image of every operation is present itself or as its mate (whole orbit for every table group), and each copy carries the phase shift of the operation that produced it, hence the true phase of its index. THE ROW RULE OF RE-INDEXING (Move/ReindexRows.v, compared exactly with Mtz::reindex on fractional operators): a row stays iff all three new indices are integral and then carries exactly h P; the list after re-indexing is, in order, the integral images. RE-INDEXING (Move/Reindex.v): with new index hP and new operation P^-1 g P computed as GroupOps::change_basis_impl does, in the integer arithmetic of the library (the exact divisions the code performs are the hypotheses), the relabelled operation acts on the relabelled index as the old one on the old index, with the same phase shift modulo whole turns, an operation fixing an index becomes one fixing its new label (absences, centricity, epsilon preserved) and the inverse operator restores the index. THE (+)/(-) ASSIGNMENT (Move/PlusMinus.v, a model of Mtz::positions_of_plus_minus_columns on label bytes, column type and dataset id, and of the swap loop of ensure_asu): a pair is reported exactly when a column with the (-) spelling of the first (+) sign, the same type and the same dataset exists anywhere in the file, before or after the (+) column (soundness + completeness, the partner is the first such column and never the column itself); for an ordinary column set (at most one opening parenthesis per label, no two columns with the same label, type and dataset) the pairs are disjoint, the swap exchanges exactly the two values of every pair, leaves every other column alone and is an involution (moving back through the Friedel mate restores the row); compared with the code on generated column layouts (pairs in either order, interleaved, duplicated candidates, near misses in type / dataset / spelling, labels with several signs) through positions_of_plus_minus_columns and the real ensure_asu. The index/phase/(+)/(-)-swap bookkeeping model is compared exactly with Mtz::ensure_asu, AsuData::ensure_asu and Mtz::expand_to_p1 (order, indices and phase shifts of the appended rows) on every row; oracles on gemmi compare F, phase, HL coefficients, F(+)/F(-)/DANO of transformed lists (ensure_asu, AsuData::ensure_asu, expand_to_p1) with structure factors of a point-atom model, check unmerged original<->ASU round trips with M/ISYM flags, and reindexing (d-spacing, absences, centricity, epsilon preserved; undone by the inverse operator).',
    note='Trusted: Coq kernel + vm_compute; translator; extraction; harness (its point-atom structure-factor oracle in double precision, tolerances 1e-3 relative on amplitudes, 0.05 degree on phases). No axioms. HL rotation is decided by the oracles only (no theorem); reindexing: theorem per operation, the new cell, the space-group lookup and the row removal by the oracle.')


def run(chk):
    quick = chk.tier == 'quick'
    rng = random.Random(chk.seed)
    F.gen_tables()
    chk.trusted += ['translator gen/dump_sg.cpp', 'extraction + extract/move_drv.ml',
                    'harness/h_move.cpp: point-atom structure factors as the symmetry-consistent truth']
    chk.assumptions += ['float phases are identified with multiples of 15 degrees + 5 within 0.01 degree',
                        'oracle tolerances: 1e-3 relative (amplitudes), 0.05 degree (phases)']
    proved = chk.prove(timeout=3000)
    h, d = F.harness(), F.driver()
    lines = []
    rows = list(range(fam_sym.NROWS))
    for i in rows:
        for tnt in (0, 1):
            for _ in range(6 if quick else 100):
                m = rng.choice([3, 6, 12])
                hkl = [rng.randint(-m, m) for _ in range(3)]
                if rng.random() < 0.3:
                    hkl[rng.randint(0, 2)] = 0
                if rng.random() < 0.15:
                    hkl[1] = hkl[0]
                lines.append('move\t%d %d %d %d %d' % (i, tnt, *hkl))
                if tnt == 0:
                    lines.append('expand\t%d %d %d %d' % (i, *hkl))
    lines += pm_lines(rng, 400 if quick else 20000)
    # the row rule of Mtz::reindex (model Move/ReindexRows.v): operators with fractional entries (h/2, (h+k)/2, l/3 ...) on
    # index lists with every parity combination; a row stays iff all three new indices are integral
    rx_ops = [[24, 0, 0, 0, 24, 0, 0, 0, 12], [12, 0, 0, 0, 24, 0, 0, 0, 24], [24, 0, 0, 0, 12, 0, 0, 0, 24], [12, 12, 0, -12, 12, 0, 0, 0, 24],
              [24, 0, 0, 0, 24, 0, 0, 0, 8], [8, 0, 0, 0, 8, 0, 0, 0, 8], [12, 12, 0, 0, 24, 0, 0, 0, 12], [0, 24, 0, 0, 0, 12, 24, 0, 0],
              [24, 0, 0, 0, 24, 0, 0, 0, 24], [48, 0, 0, 0, 24, 0, 0, 0, 12], [16, 8, 0, -8, 8, 0, 0, 0, 24], [6, 0, 0, 0, 24, 0, 0, 0, 24]]
    for _ in range(300 if quick else 10000):
        o = rng.choice(rx_ops)
        hk = [rng.randint(-7, 7) for _ in range(3 * rng.randint(1, 8))]
        lines.append('rx\t%s | %s' % (' '.join(map(str, o)), ' '.join(map(str, hk))))
    orows = rows if not quick else sorted(set(rng.sample(rows, 150) + [0, 1, 3, 12, 114, 146, 170, 200, 353, 409, 434, 500, 529, 530, 563]))
    for i in orows:
        seed = rng.randint(1, 10 ** 6)
        n = 40 if quick else 200
        lines.append('o_ensure\t%d %d %d 3 %d 6' % (i, rng.randint(0, 1), seed, n))
        lines.append('o_asudata\t%d %d %d 3 %d 6' % (i, rng.randint(0, 1), seed + 1, n))
        lines.append('o_expand\t%d 0 %d 3 %d 5' % (i, seed + 2, 12 if quick else 40))
        lines.append('o_switch\t%d %d %d 8' % (i, seed + 3, n))
        # reindexing operators: axis permutations with sign changes of determinant +1, and a few others
        for opr in rng.sample(REINDEX_OPS, 2 if quick else len(REINDEX_OPS)):
            lines.append('o_reindex\t%d %d %d 6 %s 0 0 0 %d' % (i, seed + 4, 25, ' '.join(map(str, opr)), rng.choice([104, 120])))
    res = vlib.correspond(chk, h, d, lines, timeout=3000)
    for l in res['outputs']:
        p = l.split('\t')
        if len(p) == 3:
            moved = p[0] == 'move' and not p[2].endswith(' 1 0') 
            chk.case(p[0] + ' ' + p[1], p[2] not in ('skip', 'EXC'),
                     sample={'cmd': p[0], 'args': p[1], 'impl': p[2]} if chk.evaluations % 1999 == 0 else None,
                     bucket=p[0] + (':' + p[2] if p[2] in ('skip', 'EXC') else ''))
    for (cmd, args, impl, model) in res['mismatches']:
        chk.violate('correspondence', 'move-model disagrees with gemmi on command ' + cmd,
                    'input=%s impl=%s model=%s' % (args, impl[:300], model[:300]),
                    replay={'harness': 'h_move', 'line': cmd + '\t' + args}, found_input=False)
    for (cmd, args, r) in res['oracle_fail']:
        if r == 'EXC' and cmd == 'o_reindex':
            continue   # operator rejected (e.g. space group cannot be determined): not a data transformation
        chk.violate('oracle', 'C13 %s row=%s: %s' % (cmd, args.split()[0], r), 'args: ' + args,
                    replay={'harness': 'h_move', 'line': cmd + '\t' + args})
    for (line, kind, err) in res['crashes']:
        chk.violate('crash', 'h_move %s on %s' % (kind, line), err, replay={'harness': 'h_move', 'line': line})
    chk.rule = ('rx: index lists through Mtz::reindex with fractional operators vs the row-rule model; pm: generated column layouts ((+)/(-) pairs in both orders, duplicates, near misses) through positions_of_plus_minus_columns and ensure_asu vs the model; move/expand: every row x both conventions x random/special hkl through Mtz::ensure_asu, AsuData::ensure_asu and Mtz::expand_to_p1, compared '
                'exactly with the model (new index, phase sign and shift in 1/24 turn, (+)/(-) swap); oracles o_ensure/o_asudata/'
                'o_expand/o_switch/o_reindex on gemmi with point-atom truth. non-trivial = not skipped/rejected')
    if not proved:
        chk.violate('proof', 'Properties_C13 ' + ','.join(getattr(chk, 'failed_theorems', [])),
                    getattr(chk, 'coq_log_tail', ''), found_input=False)


def pm_lines(rng, n):
    """Column layouts for positions_of_plus_minus_columns + the swap of ensure_asu (model Move/PlusMinus.v): (+)/(-)
    pairs in either order, interleaved, duplicated, with near misses (other type, other dataset, other spelling), labels
    with several signs; special column types P/A/D are left out so that the swap is the only change of the row."""
    hx = lambda t: ''.join('%02x' % ord(c) for c in t)
    bases = ['F', 'I', 'SIGF', 'SIGI', 'E', 'FPH1', 'X', '', 'F(+)', 'I(-)', 'K_']
    types = [ord(c) for c in 'GLKMRFJQW']
    out = []
    for _ in range(n):
        cols = []
        for _ in range(rng.randint(0, 4)):
            b, t, d = rng.choice(bases), rng.choice(types), rng.randint(0, 2)
            tail = rng.choice(['', '', '', '_1', 'x'])
            grp = [(b + '(+)' + tail, t, d), (b + '(-)' + tail, t, d)]
            if rng.random() < 0.5:
                grp.reverse()
            r = rng.random()
            if r < 0.15:
                grp.append((b + '(-)' + tail, t, d))              # a second candidate: the first one in file order wins
            elif r < 0.3:
                grp[rng.randint(0, 1)] = (grp[0][0], rng.choice(types), d)   # type mismatch (or a duplicate)
            elif r < 0.45:
                grp[rng.randint(0, 1)] = (grp[1][0], t, (d + 1) % 3)         # other dataset
            elif r < 0.55:
                grp.pop(rng.randint(0, 1))                        # partner missing
            cols += grp
        for _ in range(rng.randint(0, 3)):
            cols.append((rng.choice(bases) + rng.choice(['', '(+', '+)', '()', '(+)(+)', '(-)(+)', '(+)(-)', '( +)', '(*)']),
                         rng.choice(types), rng.randint(0, 2)))
        rng.shuffle(cols)
        if rng.random() < 0.3:
            cols.sort(key=lambda c: c[0])     # all (+) before their (-)
        elif rng.random() < 0.3:
            cols.sort(key=lambda c: c[0], reverse=True)
        cols = [('H', 72, 0), ('K', 72, 0), ('L', 72, 0)] + cols
        row = [-1, -2, -3] + [10 + i for i in range(len(cols) - 3)]
        out.append('pm\t' + ' '.join('%s:%d:%d' % (hx(l) or '', t, d) for l, t, d in cols) + ' | ' + ' '.join(map(str, row)))
    return out


REINDEX_OPS = [
    [0, 24, 0, 0, 0, 24, 24, 0, 0],      # k,l,h
    [0, 0, 24, 24, 0, 0, 0, 24, 0],      # l,h,k
    [0, 24, 0, 24, 0, 0, 0, 0, -24],     # k,h,-l
    [-24, 0, 0, 0, -24, 0, 0, 0, 24],    # -h,-k,l
    [24, 0, 0, 0, -24, 0, 0, 0, -24],    # h,-k,-l
    [0, 0, 24, 0, -24, 0, 24, 0, 0],     # l,-k,h
    [24, 0, 0, 0, 24, 0, 0, 0, 24],      # identity
    [24, 24, 0, 0, 24, 0, 0, 0, 24],     # h+k,k,l
    [24, 0, 0, 0, 24, 0, 24, 0, 24],     # h,k,h+l
    [48, 0, 0, 0, 24, 0, 0, 0, 12],      # non-unimodular: 2h,k,l/2
]


def replay(chk, path):
    import json
    r = json.load(open(path))['replay']
    rc, out, err = vlib.run_lines(F.harness(), [], inp=(r['line'] + '\n').encode())
    print('\n'.join(out), err[-2000:])
