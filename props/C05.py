"""C05: reciprocal-space ASU, absences, centricity and epsilon exact for every group."""
import random

import vlib
from props import fam_sym as F


MANIFEST = {'technique': 'Coq proof: lia over all hkl per Laue case, lifted to all rows by a kernel-evaluated conjugation link + differential check', 'text': 'ENUMERATION TO A RESOLUTION LIMIT: over the reals, for any cell, a reflection inside the resolution sphere has |h| <= floor(a/dmin) (Cauchy-Schwarz with the dual basis), so the box scanned by for_all_reflections (get_hkl_limits) misses none (C05_hkl_limits_cover_the_sphere; real-number axioms of the standard library); the listing itself is compared with brute force by the o_miller oracle. C05_exactly_one: for every row of the regenerated table, both conventions and EVERY hkl in Z^3 exactly one member of the Friedel-extended orbit satisfies is_in (uniqueness and existence proved per Laue group with lia, lifted through R*C = C*R-prime links checked by the kernel for all 564 rows); C05_to_asu: to_asu never fails and returns that member with an operation index/sign that produces it; absence/centricity/epsilon equal their definitions over the operation lists. The model is tied to gemmi by an exact differential run over all rows x conventions x an hkl cube and random/special indices, and an orbit-count oracle runs on gemmi itself.', 'note': 'Trusted: Coq kernel + vm_compute; translator; extraction; harness. No axioms. int overflow excluded (|h| < 2^24).'}

def run(chk):
    quick = chk.tier == 'quick'
    rng = random.Random(chk.seed)
    F.gen_tables()
    chk.trusted += ['translator gen/dump_sg.cpp -> coq/Sym/SgTable_gen.v',
                    'extraction (ExtrOcamlBasic only) + extract/sym_drv.ml', 'harness/h_sym.cpp (ASan+UBSan)']
    chk.assumptions += ['int arithmetic on Miller indices does not overflow (|h| < 2^24)']
    proved = chk.prove(timeout=3000)
    h, d = F.harness(), F.driver()
    ncube = 3 if quick else 8
    norb = 6 if quick else 12
    lines = []
    for i in range(F.NROWS):
        for tnt in (0, 1):
            lines.append('asucube\t%d %d %d' % (i, tnt, ncube))
            lines.append('o_orbit\t%d %d %d' % (i, tnt, norb))
            if tnt == 0:
                lines.append('o_pred\t%d %d' % (i, 4 if quick else 8))
            for _ in range(4 if quick else 200):
                m = rng.choice([10, 100, 10000])
                hkl = [rng.randint(-m, m) for _ in range(3)]
                if rng.random() < 0.4:   # aim at special positions: axes, diagonals, zero
                    p = rng.choice(['h00', 'hh0', 'hhh', 'h-h0', '0kl', 'hk0', 'h0l', '000'])
                    a, b = rng.randint(-m, m), rng.randint(-m, m)
                    hkl = {'h00': [a, 0, 0], 'hh0': [a, a, 0], 'hhh': [a, a, a], 'h-h0': [a, -a, 0],
                           '0kl': [0, a, b], 'hk0': [a, b, 0], 'h0l': [a, 0, b], '000': [0, 0, 0]}[p]
                    rng.shuffle(hkl) if rng.random() < 0.3 else None
                lines.append('asu\t%d %d %d %d %d' % (i, tnt, *hkl))
    res = vlib.correspond(chk, h, d, lines, timeout=3000)
    for l in res['outputs']:
        p = l.split('\t')
        if len(p) == 3:
            if p[0] == 'asu':
                w = p[2].split()
                special = ' P 0 0 1 1' not in p[2] + ' ' or w[0] == '1'
                chk.case(p[1], nontrivial=True, bucket='asu:' + ('special' if ' P 0 0 1 1' not in p[2] else 'general'),
                         sample={'row tnt h k l': p[1], 'impl': p[2]} if chk.evaluations % 49999 == 0 else None)
            else:
                chk.case(p[0] + p[1], True, bucket=p[0])
    for (cmd, args, impl, model) in res['mismatches']:
        chk.violate('correspondence', 'sym-model disagrees with gemmi on command ' + cmd,
                    'input=%s impl=%s model=%s' % (args, impl[:300], model[:300]),
                    replay={'harness': 'h_sym', 'line': cmd + '\t' + args}, found_input=False)
    for (cmd, args, r) in res['oracle_fail']:
        w = args.split()
        chk.violate('oracle', 'C05 %s: row %s %s: %s' % (cmd, w[0], ('tnt=' + w[1]) if cmd == 'o_orbit' else '', r),
                    'oracle on gemmi: orbit members inside the ASU / predicates vs their definitions (first offending hkl given)',
                    replay={'harness': 'h_sym', 'line': cmd + '\t' + args})
    for (line, kind, err) in res['crashes']:
        chk.violate('crash', 'h_sym %s on %s' % (kind, line), err, replay={'harness': 'h_sym', 'line': line})
    # make_miller_vector / count_reflections (reciproc.hpp): the unique list is exactly the ASU members of the sphere
    from props import fam_move
    hm = fam_move.harness()
    mrows = list(range(F.NROWS)) if not quick else sorted(set(rng.sample(range(F.NROWS), 140) + [0, 1, 3, 114, 146, 170, 353, 409, 434, 500, 529, 563]))
    ml = []
    for i in mrows:
        ml.append('o_miller\t%d %d %d' % (i, rng.choice([250, 300, 333, 400, 520]), rng.choice([0, 0, 800, 1300])))
    res2 = vlib.correspond(chk, hm, None, ml, timeout=3000)
    for l in res2['outputs']:
        p = l.split('\t')
        if len(p) == 3:
            chk.case(p[0] + p[1], p[2] == 'ok', bucket=p[0] + (':' + p[2] if p[2] != 'ok' else ''))
    for (cmd, args, r) in res2['oracle_fail']:
        chk.violate('oracle', 'C05 %s: row %s: %s' % (cmd, args.split()[0], r), 'make_miller_vector / count_reflections vs brute force',
                    replay={'harness': 'h_move', 'line': cmd + '\t' + args})
    for (line, kind, err) in res2['crashes']:
        chk.violate('crash', 'h_move %s on %s' % (kind, line), err, replay={'harness': 'h_move', 'line': line})
    chk.extra['exhaustive_cube'] = {'correspondence_N': ncube, 'oracle_N': norb, 'rows': F.NROWS, 'conventions': 2}
    chk.rule = ('all 564 rows x {CCP4, TNT} x every hkl in the cube |h|,|k|,|l| <= N compared exactly with the extracted model '
                '(is_in, to_asu, to_asu_sign, absent, centric, epsilon), orbit-count oracle on gemmi over a larger cube, '
                'random indices up to 10^4 aimed at special positions; make_miller_vector / count_reflections vs brute force over the resolution sphere. Every (row, convention, hkl) is a distinct case')
    if not proved:
        chk.violate('proof', 'Properties_C05 ' + ','.join(getattr(chk, 'failed_theorems', [])),
                    getattr(chk, 'coq_log_tail', ''), found_input=False)


def replay(chk, path):
    import json
    r = json.load(open(path))['replay']
    if r.get('harness') == 'h_move':
        from props import fam_move
        rc, out, err = vlib.run_lines(fam_move.harness(), [], inp=(r['line'] + '\n').encode())
        print('\n'.join(out), err[-2000:])
        if out and not out[-1].endswith('\tok'):
            chk.violate('oracle', 'replayed oracle fails', out[-1][:500])
        return
    from props import C10
    C10.replay(chk, path)
