"""Reflection-moving family (C13)."""
import vlib
from props import fam_sym

MODEL_VO = ['Move/Move.vo', 'Move/Expand.vo', 'Move/PlusMinus.vo', 'Move/ReindexRows.vo']


def gen_tables():
    return fam_sym.gen_tables()


def harness():
    return vlib.build_exe('h_move', [vlib.ROOT + '/harness/h_move.cpp'] +
                          vlib.repo_src('mtz.cpp', 'symmetry.cpp', 'sprintf.cpp', 'gz.cpp'))


def driver():
    return vlib.ocaml_driver('move', MODEL_VO)
