"""C02: text-format readers are safe on arbitrary and truncated input."""
import glob
import os
import random

import vlib
from props import fam_readers as F
from props import fam_sym

MANIFEST = dict(
    technique='Coq proof (operation-expression parser total, in bounds and with bounded output; PIR/FASTA reader total and in bounds, triplet parser terminates, Hall-symbol interpreter in bounds, for every byte string) + exact differential check of the modelled parsers on arbitrary bytes + sanitizer-instrumented runs of every reader entry point',
    text='parse_operation_expr (oper_expression of assemblies; Readers/OperExpr.v, compared exactly with the function of src/mmcif.cpp, which a harness translation unit includes textually because it lives in an anonymous namespace) is proved to stop on every byte string, never to ask for a substring beyond the end of the text, and - after the repair - to return at most a million names plus the length of the text; the unbounded expansion of the snapshot is refuted by 1-2000000000. Besides ASan+UBSan, every whole sample file goes through every reader under valgrind/memcheck in a build without sanitizers (accesses inside libstdc++ and uses of uninitialised values are visible only there). Theorems for ALL byte strings: read_pir_or_fasta never indexes outside its string or an empty vector and always returns or throws; parse_triplet and parse_triplet_part terminate (the loop consumes at least one byte per iteration); the Hall-symbol interpreter (symops_from_hall incl. change of basis and Dimino closure) never indexes Op::tran outside {0,1,2} (the model makes the index explicit; the snapshot wrote tran[-120]). The models of the triplet parser, Hall-symbol interpreter (incl. Dimino closure) and space-group name lookup are compared exactly (value or exception) with gemmi on arbitrary, grammar-derived and mutated byte strings; the Hall model predicted an out-of-bounds write that was confirmed under UBSan and repaired. Memory safety, termination and resource limits of the remaining C++ readers are NOT theorems: every entry point named by the property (CIF at 3 check levels, mmJSON, PDB with options, XDS_ASCII, PIR/FASTA, triplets, Hall symbols, names, selections, and the block->structure / small structure / chemical component / reflection-table conversions) is run under ASan+UBSan with a 10 s alarm on random bytes, grammar-derived texts, seeded byte/line mutations and truncation points of every sample file under /repo/tests; outcome classes OK/EXC are accepted, CRASH/TIMEOUT are violations with the input as replay.',
    note='Trusted: Coq kernel; extraction; harness; ASan/UBSan. No axioms. PARTIAL by nature: safety of PEGTL, sajson and the conversion code is observed by the sanitizer run (testing), not proved. Signed-integer-overflow reports in number parsing of absurdly long digit strings are treated as crashes too.')

KINDS_FOR_EXT = {
    '.cif': ['cif', 'st_cif', 'small', 'chemcomp', 'refln'],
    '.ent': ['cif', 'refln', 'pdb'],
    '.pdb': ['pdb'],
    '.json': ['json'],
    '.HKL': ['xds'],
    '.hkl': ['cif', 'xds'],
}


def sample_files():
    out = []
    for p in sorted(glob.glob(vlib.REPO + '/tests/*')):
        ext = os.path.splitext(p)[1]
        if ext in KINDS_FOR_EXT and os.path.getsize(p) < 200000:
            out.append((p, ext))
    return out


def linecut_cases(rng, quick):
    """PDB records cut short at EVERY column: for each record type (first 6 bytes, REMARK with its number) the first
    occurrences over the sample files and data/all_records.pdb (one line of every record type the reader knows)."""
    lines = []
    seen = {}
    files = [vlib.ROOT + '/data/all_records.pdb'] + [p for (p, ext) in sample_files() if ext in ('.pdb', '.ent')]
    per_type = 1 if quick else 4
    for path in files:
        data = open(path, 'rb').read()[:65536]
        if not (data.startswith(b'HEADER') or b'\nATOM  ' in data or b'\nHETATM' in data):
            continue
        pos = 0
        for ln in data.split(b'\n'):
            key = ln[:10] if ln.startswith(b'REMARK') else ln[:6]
            if ln.startswith(b'REMARK   3') or ln.startswith(b'REMARK 200'):
                key = ln[:10] + b'|' + ln[10:].split(b':')[0].strip()[:24]
            k = seen.get(key, 0)
            if k < per_type and len(ln.rstrip()) > (11 if ln.startswith(b'REMARK') else 6):
                seen[key] = k + 1
                for col in range(0, len(ln) + 1):
                    for pad in ((0,) if quick else (0, 1, 2)):
                        lines.append('linecut\tpdb %d %s %d %d %d' % (rng.randint(0, 7), path, pos, col, pad))
            pos += len(ln) + 1
    return lines


def linedel_cases(rng, quick):
    """PDB records with a span deleted in the middle: every word of the line (a keyword such as ANGSTROM that a strstr()
    looks for, a number, a name) is moved to the column just behind the record key (6, 10 or 11), and the line is
    also cut right after that word.  Reaches code that indexes a fixed column after finding a keyword anywhere."""
    import re
    lines = []
    seen = {}
    files = [vlib.ROOT + '/data/all_records.pdb'] + [p for (p, ext) in sample_files() if ext in ('.pdb', '.ent')]
    per_type = 1 if quick else 3
    for path in files:
        data = open(path, 'rb').read()[:65536]
        if not (data.startswith(b'HEADER') or b'\nATOM  ' in data or b'\nHETATM' in data):
            continue
        pos = 0
        for ln in data.split(b'\n'):
            key = ln[:10] if ln.startswith(b'REMARK') else ln[:6]
            if ln.startswith(b'REMARK   3') or ln.startswith(b'REMARK 200'):
                key = ln[:10] + b'|' + ln[10:].split(b':')[0].strip()[:24]
            k = seen.get(key, 0)
            words = list(re.finditer(rb'[^ ]+', ln[11:]))
            if k < per_type and words:
                seen[key] = k + 1
                for m in words:
                    ws, we = 11 + m.start(), 11 + m.end()
                    for col in (6, 10, 11):
                        if ws > col:
                            for cut in (0, we - ws, we - ws + 1):
                                lines.append('linedel\tpdb %d %s %d %d %d %d' % (rng.randint(0, 7), path, pos, col, ws - col, cut))
            pos += len(ln) + 1
    return lines


def json_cases(rng, n):
    """Structure-aware mmJSON: documents of the shape {data_x: {category: {tag: [values]}}} whose values are ANY JSON
    value (string, number spellings, null, booleans, arrays of mixed / nested elements, objects), with columns of
    equal and unequal length, empty arrays, wrong nesting depth, and non-object top levels."""
    def scalar():
        return rng.choice(['"a"', '"a b"', '""', '"\\u00e9"', '1', '-2.5', '1e5', '1.e5', '0', '-0', '1E-3', '12345678901234567890',
                           'null', 'true', 'false', '"?"', '"."', '"\\n"', '1.5(3)'])
    def value(depth=0):
        r = rng.random()
        if r < 0.55 or depth > 2:
            return scalar()
        if r < 0.85:
            return '[' + ','.join(value(depth + 1) for _ in range(rng.choice([0, 1, 2, 2, 3]))) + ']'
        return '{' + ','.join('"k%d":%s' % (i, value(depth + 1)) for i in range(rng.choice([0, 1, 2]))) + '}'
    lines = []
    for _ in range(n):
        blocks = []
        for bi in range(rng.choice([1, 1, 2])):
            cats = []
            for ci in range(rng.choice([0, 1, 2, 3])):
                nrow = rng.choice([0, 1, 1, 2, 3])
                cols = []
                for ti in range(rng.choice([0, 1, 2, 3])):
                    r = rng.random()
                    if r < 0.75:
                        col = '[' + ','.join(value() for _ in range(nrow if rng.random() < 0.85 else rng.choice([0, 1, 4]))) + ']'
                    else:
                        col = value()
                    cols.append('"%s":%s' % (rng.choice(['x', 'y', 'id', 'x']) if rng.random() < 0.2 else 't%d' % ti, col))
                cat = '{' + ','.join(cols) + '}' if rng.random() < 0.9 else value()
                cats.append('"%s":%s' % (rng.choice(['c%d' % ci, 'atom_site', 'cell', '']), cat))
            blk = '{' + ','.join(cats) + '}' if rng.random() < 0.93 else value()
            blocks.append('"%s":%s' % (rng.choice(['data_a', 'data_', 'a', 'data_B2']), blk))
        doc = '{' + ','.join(blocks) + '}' if rng.random() < 0.95 else value()
        if rng.random() < 0.05 and doc:
            k = rng.randrange(len(doc))
            doc = doc[:k] + rng.choice(['', ',', ']', '[', '"', '\\', '}']) + doc[k + 1:]
        lines.append('bytes\tjson %d %s' % (rng.randint(0, 7), fam_sym.hx(doc.encode())))
    return lines


def small_inputs(rng, n):
    """Grammar-derived and random small inputs for the string-level entry points."""
    lines = []
    alph = b'xyzhklabcXYZ+-*/.,0123456789 _()\'"\t;:mPRIFCABnduvw\n\r\x00\xff\x80>*|[]{}=<'
    seeds = {
        'triplet': [b'x,y,z', b'-y,x-y,z+1/3', b'1/2+x,y,-z', b'h,k,l', b'a/2+b/2,a/2-b/2,-c', b'x+0.25,y,z', b'1000001x,y,z',
                    b'276447231x,y,z', b'x,y,z+99999999999', b'1000000*x+1000000*x+1000000*x+1000000*x+1000000*x,y,z', b'999999.5x,y,z'],
        'hall': [b'P 2yb', b'-P 2ac 2ab', b'F 4d 2 3', b'P 31 2"', b'-I 4bd 2c 3', b'R 3 -2"c', b'P 2 2 (0 0 1)', b'C 2y (x+1/4,y+1/4,z)'],
        'sgname': [b'P 21 21 21', b'R 3:H', b'C 1 2 1', b'P21/c', b'F d -3 m:2', b'I4(1)/amd', b'19', b'H3', b'B 2'],
        'sel': [b'/1/A/10-20/CA[C]:A', b'//*/(ALA,GLY)', b'A/10.A-20.B/O*', b'/1/*//N,C;q<0.5;b>10', b'[C,N]', b';polymer', b'!/1'],
        'pir': [b'>P1;x\ntitle\nABC(10)DE*\n', b'>sp|P0\nMKV\nLLA\n\n>two\nAC-D\n', b'>a\nB*\nC', b'>\n', b'>x\n((\n'],
    }
    for kind, ss in seeds.items():
        for _ in range(n):
            r = rng.random()
            if r < 0.5:
                b = bytearray(rng.choice(ss))
                for _k in range(rng.randint(0, 4)):
                    pos = rng.randint(0, len(b))
                    q = rng.random()
                    if q < 0.3 and b:
                        del b[min(pos, len(b) - 1)]
                    elif q < 0.7:
                        b.insert(pos, rng.choice(alph))
                    elif b:
                        b[min(pos, len(b) - 1)] = rng.choice(alph)
                if rng.random() < 0.1:
                    b = b * rng.randint(2, 40)
            elif r < 0.8:
                b = bytearray(rng.choice(alph) for _ in range(rng.randint(0, 30)))
            else:
                b = bytearray(rng.randint(0, 255) for _ in range(rng.randint(0, 64)))
            lines.append(('bytes\t%s %d %s' % (kind, rng.randint(0, 7), fam_sym.hx(bytes(b))), kind, bytes(b)))
    return lines


def run(chk):
    quick = chk.tier == 'quick'
    rng = random.Random(chk.seed)
    chk.trusted += ['harness/h_readers.cpp built from ALL /repo/src/*.cpp with ASan+UBSan, 10 s alarm per case',
                    'extraction + extract/readers_drv.ml, extract/sym_drv.ml']
    chk.assumptions += ['inputs are at most 64 KiB', 'allocation failures surface as std::bad_alloc (ASan allocator_may_return_null)']
    fam_sym.gen_tables()
    proved = chk.prove(timeout=3000)
    h, d = F.harness(), F.driver()
    hs, ds = fam_sym.harness(), fam_sym.driver()

    # (1) modelled parsers on arbitrary bytes: exact correspondence
    small = small_inputs(rng, 400 if quick else 20000)
    mlines = []
    for (line, kind, b) in small:
        if kind == 'triplet':
            mlines.append(('sym', 'parse\t%s 32' % fam_sym.hx(b)))
        elif kind == 'hall' and b'\x00' not in b:
            mlines.append(('sym', 'hall\t%s' % fam_sym.hx(b)))
        elif kind == 'sgname' and len(b) > 0:
            mlines.append(('sym', 'byname\t%s %d null' % (fam_sym.hx(b), rng.choice([0, 1, 2]))))
        elif kind == 'pir' and b'\x00' not in b:
            mlines.append(('readers', 'pirfull\t%s' % fam_sym.hx(b)))
    for fam, hh, dd in (('sym', hs, ds), ('readers', h, d)):
        ls = [l for f, l in mlines if f == fam]
        res = vlib.correspond(chk, hh, dd, ls, timeout=3000)
        for l in res['outputs']:
            p = l.split('\t')
            if len(p) == 3:
                chk.case(p[0] + p[1], p[2] not in ('EXC', '-1'), bucket='model:' + p[0] + (':EXC' if p[2] == 'EXC' else ''),
                         sample={'cmd': p[0], 'input_hex': p[1][:80], 'impl': p[2][:80]} if chk.evaluations % 499 == 0 else None)
        for (cmd, args, impl, model) in res['mismatches']:
            chk.violate('correspondence', 'reader model disagrees with gemmi on ' + cmd,
                        'input=%s impl=%s model=%s' % (args, impl[:200], model[:200]),
                        replay={'harness': 'h_sym' if fam == 'sym' else 'h_readers', 'line': cmd + '\t' + args},
                        found_input=(model in ('OOB', 'OUT-OF-FUEL') or impl in ('CRASH', 'TIMEOUT')))
        for (line, kind, err) in res['crashes']:
            chk.violate('crash', 'C02 %s in modelled parser: %s' % (kind, line[:300]), err,
                        replay={'harness': 'h_sym' if fam == 'sym' else 'h_readers', 'line': line})

    # (1b) parse_operation_expr (model Readers/OperExpr.v): grammar-derived expressions (lists, ranges, brackets, products,
    # names), ranges around the cap of a million and around INT_MAX / 2^32, unbalanced brackets, arbitrary bytes
    olines = []
    atoms = ['1', '2', '60', 'X0', 'a', '', ' 3', '1-3', '5-2', '1-60', '3-3', '0-0', '1-1000000', '1-1000001', '2-1000001',
             '999990-1999990', '999990-1999991', '2147483647-2147483647', '2147483640-2147483647', '4294967297-4294967299',
             '1-2000000000', '-5', '1-', '-', '1--3', '1-2-3', 'P', '1 - 3', '7-x', 'x-7']
    for _ in range(600 if quick else 30000):
        r = rng.random()
        if r < 0.15:
            t = bytes(rng.choice(b'(),-0123456789 aX') for _ in range(rng.randint(0, 12)))
        elif r < 0.2:
            t = bytes(rng.randrange(256) for _ in range(rng.randint(0, 10)))
        else:
            body = ','.join(rng.choice(atoms) for _ in range(rng.choice([1, 1, 2, 3, 5])))
            form = rng.choice(['%s', '%s', '(%s)', '(%s)', '(%s', '%s)', '(%s)(%s)', '((%s))', '(%s),4', '1,(%s)'])
            t = (form % ((body,) * form.count('%s'))).encode()
        if b'\x00' in t:
            continue
        olines.append('operexpr\t' + (fam_sym.hx(t) if t else '-'))
    res = vlib.correspond(chk, F.harness_oper(), d, olines, timeout=3000)
    for l in res['outputs']:
        p = l.split('\t')
        if len(p) == 3:
            chk.case(p[0] + p[1], p[2] != 'EXC', bucket='model:' + p[0] + (':EXC' if p[2] == 'EXC' else ''),
                     sample={'cmd': p[0], 'input_hex': p[1][:80], 'impl': p[2][:80]} if chk.evaluations % 499 == 0 else None)
    for (cmd, args, impl, model) in res['mismatches']:
        chk.violate('correspondence', 'operation-expression model disagrees with gemmi on ' + args[:80],
                    'input=%s impl=%s model=%s' % (args, impl[:200], model[:200]),
                    replay={'harness': 'h_oper', 'line': cmd + '\t' + args},
                    found_input=(model == 'OUT-OF-FUEL' or impl in ('CRASH', 'TIMEOUT')))
    for (line, kind, err) in res['crashes']:
        chk.violate('crash', 'C02 %s in parse_operation_expr: %s' % (kind, line[:300]), err,
                    replay={'harness': 'h_oper', 'line': line})

    # (2) every entry point under sanitizers: small inputs + sample files (truncations, mutations)
    lines = [l for (l, k, b) in small]
    files = sample_files()
    for (path, ext) in files:
        size = min(os.path.getsize(path), 65536)
        data = open(path, 'rb').read()[:size]
        line_starts = [0] + [i + 1 for i, c in enumerate(data) if c == 10]
        for kind in KINDS_FOR_EXT[ext]:
            opt = rng.randint(0, 7)
            lines.append('file\t%s %d %s -1 0 1' % (kind, opt, path))
            if quick:
                cuts = sorted(set(rng.sample(range(size), min(size, 60)) + rng.sample(line_starts, min(len(line_starts), 40))
                                  + [c + d for c in rng.sample(line_starts, min(len(line_starts), 25)) for d in (1, 5, 12, 30) if c + d < size]))
            else:
                cuts = range(0, size)
            for c in cuts:
                lines.append('file\t%s %d %s %d 0 1' % (kind, rng.randint(0, 7), path, c))
            for _ in range(60 if quick else 3000):
                lines.append('file\t%s %d %s %d %d %d' % (kind, rng.randint(0, 7), path,
                                                         -1 if rng.random() < 0.7 else rng.randint(0, size),
                                                         rng.choice([1, 1, 2, 3, 5, 10, 30]), rng.randint(1, 10 ** 9)))
    # minimized failures of earlier runs (thorough tier): a mutated 4hhh_frag.pdb whose SSBOND partners lie more than 2^31
    # cells apart (the periodic shift overflowed an int)
    lines.append('file\tpdb 3 %s/tests/4hhh_frag.pdb -1 10 142536293' % vlib.REPO)
    lines += linecut_cases(rng, quick)
    lines += linedel_cases(rng, quick)
    lines += json_cases(rng, 3000 if quick else 100000)
    # one value of a parsed CIF file replaced by a special value (missing, zero, negative, huge, wrong type ...),
    # then the conversions: aimed at index arithmetic on category values (sequence numbers, ids, operation expressions)
    cif_files = [p_ for (p_, ext) in files if ext in ('.cif', '.ent')]
    rc_, out_, err_ = vlib.run_lines(h, [], inp=''.join('cifcount\t%s\n' % p_ for p_ in cif_files).encode())
    # indices of the integer-flavoured special values, and of the list / range / parenthesised spellings that columns
    # such as _pdbx_struct_assembly_gen.oper_expression accept in place of a number (1-2, (1-3)(4,5), (X0)(1-60), 1,2,,3)
    INT_VALS = [0, 1, 2, 3, 4, 5, 6, 7, 8, 9, 12, 25, 26, 22, 23, 24, 34, 43, 44, 45, 46]
    for p_, l in zip(cif_files, out_):
        try:
            ncol, flags = l.split('\t')[2].split()
            ncol = int(ncol)
        except (ValueError, IndexError):
            continue
        kinds = ['st_cif', 'small', 'chemcomp', 'refln']
        is_sf = p_.endswith('.ent') or 'hkl' in p_ or '-sf' in p_
        todo = []
        for c in range(ncol):
            if flags[c] == 'i':      # ids, sequence numbers, counts: every integer-flavoured value
                todo += [(c, v) for v in INT_VALS]
            elif not quick:
                todo += [(c, v) for v in range(47)]
            else:
                todo += [(c, rng.randrange(47)) for _ in range(2)]
        for (c, v) in todo:
            kind = 'refln' if is_sf and rng.random() < 0.7 else ('st_cif' if rng.random() < 0.7 else rng.choice(kinds))
            lines.append('cifval\t%s %s %d %d %d' % (kind, p_, c, rng.randint(0, 10 ** 6), v))
        # every column (or pair) removed in turn: the "optional tag absent" paths of the conversions
        for c in range(ncol):
            for kind in (['refln'] if is_sf else ['st_cif', 'small']) + ([rng.choice(kinds)] if not quick or rng.random() < 0.2 else []):
                lines.append('cifdrop\t%s %s %d' % (kind, p_, c))
    rng.shuffle(lines)
    res = vlib.correspond(chk, h, None, lines, timeout=3000,
                          env={'ASAN_OPTIONS': 'detect_leaks=0:abort_on_error=0:allocator_may_return_null=1:max_allocation_size_mb=2048'})
    for l in res['outputs']:
        p = l.split('\t')
        if len(p) == 3:
            kind = p[1].split()[0]
            chk.case(p[0] + p[1], p[2] == 'OK', bucket='%s:%s:%s' % (p[0], kind, p[2]),
                     sample={'cmd': p[0], 'args': p[1][:120], 'outcome': p[2]} if chk.evaluations % 2999 == 0 else None)
            if p[2] not in ('OK', 'EXC', 'CRASH', 'TIMEOUT'):
                chk.violate('outcome', 'C02 unexpected outcome class %s for %s' % (p[2], p[1][:200]), l[:500],
                            replay={'harness': 'h_readers', 'line': p[0] + '\t' + p[1]})
    seen = {}
    for (line, kind, err) in res['crashes']:
        import re
        m = re.search(r'SUMMARY: \S+ (\S+) (\S+?)(:\d+)* in (\S+)|(\S+:\d+):\d+: runtime error: ([^\n]*)|TIMEOUT-IN-READER', err)
        cls = (m.group(0) if m else 'no sanitizer summary')[:200]
        cls = re.sub(r'0x[0-9a-f]+', 'ADDR', cls)
        entry = line.split('\t')[1].split()[0] if '\t' in line else '?'
        key = 'C02 %s in %s reader: %s' % (kind, entry, cls)
        if key in seen:
            continue
        seen[key] = 1
        chk.violate('crash', key, 'input line: %s\n%s' % (line[:400], err[-1500:]),
                    replay={'harness': 'h_readers', 'line': line})
    # (3) memcheck: the whole sample files through every reader in a build without sanitizers. ASan cannot see an
    # access made inside libstdc++ (e.g. std::string::append through a dangling pointer); valgrind can, and it
    # reports uses of uninitialised values as well.
    vg_lines = ['linecut\tpdb 0 %s 0 80 0' % (vlib.ROOT + '/data/all_records.pdb'),
                'linecut\tpdb 3 %s 0 80 0' % (vlib.ROOT + '/data/all_records.pdb')]
    for (path, ext) in files:
        for kind in KINDS_FOR_EXT[ext]:
            vg_lines.append('file\t%s %d %s -1 0 1' % (kind, rng.randint(0, 3), path))
    hv_ = F.harness_vg()
    import subprocess, time as _t
    t0 = _t.time()
    pr = subprocess.run(['valgrind', '--quiet', '--error-exitcode=99', '--leak-check=no', hv_],
                        input=('\n'.join(vg_lines) + '\n').encode(), stdout=subprocess.PIPE, stderr=subprocess.PIPE, timeout=3000)
    vg_out = pr.stdout.decode(errors='replace').splitlines()
    vg_err = pr.stderr.decode(errors='replace')
    for l in vg_out:
        p = l.split('\t')
        if len(p) == 3:
            chk.case('vg ' + p[1], p[2] == 'OK', bucket='memcheck:' + p[1].split()[0] + ':' + p[2])
    vlib.log('memcheck: %d whole-file cases, rc=%d, %.0fs' % (len(vg_out), pr.returncode, _t.time() - t0))
    if pr.returncode != 0 or len(vg_out) != len(vg_lines) or 'Invalid ' in vg_err or 'uninitialised' in vg_err:
        import re
        m = re.search(r'==\d+== (Invalid [^\n]*|Conditional jump[^\n]*|Use of uninitialised[^\n]*|Syscall param[^\n]*)(\n==\d+==    [^\n]*){0,6}', vg_err)
        first = re.sub(r'==\d+== ', '', m.group(0)) if m else vg_err[-600:]
        last_ok = vg_out[-1].split('\t')[1] if vg_out else ''
        chk.violate('crash', 'C02 memcheck (valgrind) reports an error in a reader: ' + re.sub(r'0x[0-9A-Fa-f]+', 'ADDR', first.split('\n')[0])[:160],
                    first[:1500] + '\n(last completed case: %s)' % last_ok,
                    replay={'harness': 'h_readers_vg', 'line': vg_lines[min(len(vg_out), len(vg_lines) - 1)]})
    chk.rule = ('(1) triplet / Hall / name / PIR parsers on arbitrary, grammar-derived and mutated bytes, exact comparison with the extracted models; '
                '(2) every reader entry point and conversion under ASan+UBSan+alarm on the same small inputs and on every sample file of /repo/tests: '
                'whole, truncated (quick: ~150 offsets per file incl. line starts and in-line cuts; thorough: every offset), and with 1-30 seeded byte/line mutations; every PDB record type (sample files + data/all_records.pdb) with one line cut short at every column; one value of each parsed sample CIF replaced by 43 special values, and each column or pair removed in turn, before the block conversions. '
                '(3) valgrind/memcheck on every whole sample file through every reader in a build without sanitizers. non-trivial = the reader accepted the input (OK)')
    if not proved:
        chk.violate('proof', 'Properties_C02 ' + ','.join(getattr(chk, 'failed_theorems', [])),
                    getattr(chk, 'coq_log_tail', ''), found_input=False)


def replay(chk, path):
    import json
    r = json.load(open(path))['replay']
    if r['harness'] == 'h_readers_vg':
        import subprocess
        pr = subprocess.run(['valgrind', '--error-exitcode=99', '--leak-check=no', F.harness_vg()], input=(r['line'] + '\n').encode(), stdout=subprocess.PIPE, stderr=subprocess.PIPE)
        print(pr.stdout.decode(), pr.stderr.decode()[-3000:])
        if pr.returncode != 0:
            chk.violate('crash', 'replayed input fails under valgrind', pr.stderr.decode()[-2000:])
        return
    exe = F.harness() if r['harness'] == 'h_readers' else F.harness_oper() if r['harness'] == 'h_oper' else fam_sym.harness()
    rc, out, err = vlib.run_lines(exe, [], inp=(r['line'] + '\n').encode())
    print('\n'.join(out), err[-3000:])
    if rc != 0:
        chk.violate('crash', 'replayed input crashes', err[-2000:])
