"""Geometry family (C11 unit cell, C20 neighbour search): harness/driver builders, input generators."""
import math
import os
import random
from fractions import Fraction as Fr

import vlib

MODEL_VO = ['Geo/CellQ.vo', 'Geo/Neighbor.vo']


def gen_tables():
    return False      # no generated tables in this family


def harness():
    return vlib.build_exe('h_geo', [vlib.ROOT + '/harness/h_geo.cpp'] + vlib.repo_src('symmetry.cpp'))


def driver():
    return vlib.ocaml_driver('geo', MODEL_VO)


def fr(x):
    x = Fr(x)
    return '%d/%d' % (x.numerator, x.denominator) if x.denominator != 1 else '%d' % x.numerator


# ---------------------------------------------------------------- exact ("q") cells
# angle tokens: 'R' exactly 90 deg, 'H-' 120 deg, 'H+' 60 deg, or t = tan(angle/2) as p/q

T_VALUES = sorted(set(Fr(p, q) for q in range(1, 13) for p in range(1, 34)
                      if math.tan(math.radians(20)) <= p / q <= math.tan(math.radians(70)) and p != q))


def tok_cos(tok):
    if tok == 'R':
        return Fr(0)
    if tok == 'H-':
        return Fr(-1, 2)
    if tok == 'H+':
        return Fr(1, 2)
    t = Fr(tok)
    return (1 - t * t) / (1 + t * t)


def tok_deg(tok):
    return {'R': 90.0, 'H-': 120.0, 'H+': 60.0}.get(tok) or math.degrees(2 * math.atan(Fr(tok)))


def discr(ca, cb, cg):
    return 1 - ca * ca - cb * cb - cg * cg + 2 * ca * cb * cg


def qcell_ok(toks, dmin=Fr(1, 50)):
    h = [t for t in toks if t in ('H-', 'H+')]
    # an irrational sine needs sqrt D = that sine: exactly one 60/120 angle, the other two right
    if h and not (len(h) == 1 and sum(1 for t in toks if t == 'R') == 2):
        return False
    return discr(*[tok_cos(t) for t in toks]) >= dmin


def rand_edge(rng):
    r = rng.random()
    if r < 0.15:
        return Fr(rng.randint(9, 80), 8)           # 1 .. 10 (a = 1 exactly means "not a crystal")
    if r < 0.8:
        return Fr(rng.randint(80, 1600), 8)        # 10 .. 200
    if r < 0.97:
        return Fr(rng.randint(1600, 4000), 8)      # 200 .. 500
    return Fr(rng.choice([9, 4000]), 8)            # ends of the range (a = 1 exactly means "not a crystal")


def angle_patterns():
    """every pattern of exact 90 / 120(60) / oblique angles that is a valid q-cell"""
    pats = []
    for a in 'ROH':
        for b in 'ROH':
            for g in 'ROH':
                pats.append(a + b + g)
    return pats


def rand_qcell(rng, pattern=None):
    """(tokens a b c ta tb tg) with positive discriminant"""
    for _ in range(1000):
        pat = pattern or rng.choice(['OOO', 'OOO', 'ROO', 'ORO', 'OOR', 'RRO', 'ROR', 'ORR', 'RRR', 'RRH', 'HRR', 'RHR'])
        toks = []
        for ch in pat:
            if ch == 'R':
                toks.append('R')
            elif ch == 'H':
                toks.append(rng.choice(['H-', 'H-', 'H+']))
            else:
                toks.append(fr(rng.choice(T_VALUES)))
        if not qcell_ok(toks):
            if pattern and 'H' in pattern and pattern.count('R') != 2:
                return None
            continue
        a, b, c = rand_edge(rng), rand_edge(rng), rand_edge(rng)
        syst = rng.random()
        if syst < 0.15:
            b = a
        elif syst < 0.25:
            b = c = a
        if syst < 0.25 and pat == 'OOO' and rng.random() < 0.5:
            toks = [toks[0]] * 3          # rhombohedral
            if not qcell_ok(toks):
                continue
        return [fr(a), fr(b), fr(c)] + toks
    raise RuntimeError('no valid cell')


def qcell_degrees(cell):
    return [float(Fr(cell[0])), float(Fr(cell[1])), float(Fr(cell[2]))] + [tok_deg(t) for t in cell[3:6]]


def dyadic(rng, lo, hi, den=64):
    return Fr(rng.randint(int(lo * den), int(hi * den)), den)


# ---------------------------------------------------------------- cells in degrees (oracles)

def deg_cell_ok(al, be, ga, dmin=0.02):
    ca, cb, cg = (math.cos(math.radians(x)) for x in (al, be, ga))
    return 1 - ca * ca - cb * cb - cg * cg + 2 * ca * cb * cg >= dmin


SPECIAL = [90.0, 120.0, 60.0]


def rand_dcell(rng, pattern=None):
    """a b c alpha beta gamma (floats): edges 1-500, angles 40-140, positive volume; pattern over
    'R' (90), 'H' (120/60), 'O' (oblique)"""
    for _ in range(1000):
        pat = pattern or rng.choice(['OOO', 'OOO', 'ROO', 'ORO', 'OOR', 'RRO', 'ROR', 'ORR', 'RRR', 'RRH', 'HRR', 'RHR',
                                     'HOO', 'OHO', 'OOH', 'RHO', 'HHR'])
        ang = []
        for ch in pat:
            if ch == 'R':
                ang.append(90.0)
            elif ch == 'H':
                ang.append(rng.choice([120.0, 120.0, 60.0]))
            else:
                r = rng.random()
                if r < 0.6:
                    ang.append(round(rng.uniform(40, 140), rng.choice([0, 1, 2, 3])))
                elif r < 0.8:
                    ang.append(rng.uniform(40, 140))
                else:
                    ang.append(rng.choice([89.99, 90.01, 90.0000001, 89.5, 100.0, 45.0, 135.0, 40.0, 140.0, 109.47]))
        if not deg_cell_ok(*ang):
            continue
        e = [float(rand_edge(rng)) if rng.random() < 0.7 else round(rng.uniform(1.01, 500), 3) for _ in range(3)]
        s = rng.random()
        if s < 0.15:
            e[1] = e[0]
        elif s < 0.25:
            e[1] = e[2] = e[0]
        if s < 0.25 and pat == 'OOO' and rng.random() < 0.5 and deg_cell_ok(ang[0], ang[0], ang[0]):
            ang = [ang[0]] * 3
        return e + ang
    raise RuntimeError('no valid cell')


def dcell_str(c):
    return ' '.join(repr(float(x)) for x in c)


def pattern_of(angles):
    return ''.join('R' if a == 90.0 else ('H' if a in (120.0, 60.0) else 'O') for a in angles)


SPACEGROUPS = ['P 1', 'P -1', 'P 1 2 1', 'C 1 2 1', 'P 1 21/c 1', 'P 1 1 2', 'P 2 1 1', 'P 2 2 2', 'P 21 21 21',
               'C m c m', 'F d d d', 'I b c a', 'P 4', 'P 41 21 2', 'I 41/a m d', 'P 3', 'P 31 2 1', 'R 3:H',
               'R 3:R', 'R -3 c:H', 'P 6', 'P 63/m m c', 'P 61 2 2', 'P 2 3', 'F m -3 m', 'I a -3 d', 'P 43 3 2']


def cell_for_system(rng, name, exact=True):
    """a cell (degrees) of the crystal system the named group belongs to (by its conventional name)"""
    n = name.replace(' ', '')
    a, b, c = (round(rng.uniform(5, 120), 2) for _ in range(3))
    ob = lambda: round(rng.uniform(60, 120), 2)
    if name in ('P 1', 'P -1'):
        for _ in range(100):
            ang = [ob(), ob(), ob()]
            if deg_cell_ok(*ang):
                return [a, b, c] + ang
    if name in ('P 1 2 1', 'C 1 2 1', 'P 1 21/c 1'):
        return [a, b, c, 90.0, ob(), 90.0]
    if name == 'P 1 1 2':
        return [a, b, c, 90.0, 90.0, ob()]
    if name == 'P 2 1 1':
        return [a, b, c, ob(), 90.0, 90.0]
    if name in ('P 2 2 2', 'P 21 21 21', 'C m c m', 'F d d d', 'I b c a'):
        return [a, b, c, 90.0, 90.0, 90.0]
    if name in ('P 4', 'P 41 21 2', 'I 41/a m d'):
        return [a, a, c, 90.0, 90.0, 90.0]
    if name.endswith(':R'):
        for _ in range(100):
            x = ob()
            if deg_cell_ok(x, x, x):
                return [a, a, a, x, x, x]
    if name[0] in 'PR' and name[2] in '36':
        return [a, a, c, 90.0, 90.0, 120.0]
    return [a, a, a, 90.0, 90.0, 90.0]


# ---------------------------------------------------------------- neighbour search (C20)

NS_GROUPS = ['-', 'P 1', 'P -1', 'P 1 21 1', 'C 1 2 1', 'P 21 21 21', 'P 41 21 2', 'P 31 2 1', 'R 3:H', 'P 63', 'P 2 3',
             'I 4', 'F 2 3']


def ns_cell_for(rng, sg, tiny=False, oblique=False):
    lo, hi = (2.0, 6.0) if tiny else (8.0, 40.0)
    a, b, c = (round(rng.uniform(lo, hi), 2) for _ in range(3))
    ob = lambda: round(rng.uniform(50, 130) if oblique else rng.uniform(75, 115), 2)
    if sg in ('-', 'P 1', 'P -1'):
        for _ in range(200):
            ang = [ob(), ob(), ob()] if rng.random() < 0.8 else [90.0, 90.0, 90.0]
            if deg_cell_ok(*ang, dmin=0.05):
                return [a, b, c] + ang
    if sg in ('P 1 21 1', 'C 1 2 1'):
        return [a, b, c, 90.0, ob(), 90.0]
    if sg == 'P 21 21 21':
        return [a, b, c, 90.0, 90.0, 90.0]
    if sg in ('P 41 21 2', 'I 4'):
        return [a, a, c, 90.0, 90.0, 90.0]
    if sg in ('P 31 2 1', 'R 3:H', 'P 63'):
        return [a, a, c, 90.0, 90.0, 120.0]
    return [a, a, a, 90.0, 90.0, 90.0]


def rand_rotation(rng):
    ax = [rng.gauss(0, 1) for _ in range(3)]
    n = math.sqrt(sum(x * x for x in ax))
    x, y, z = (v / n for v in ax)
    t = rng.uniform(0.2, 3.0)
    c, s = math.cos(t), math.sin(t)
    C = 1 - c
    return [c + x * x * C, x * y * C - z * s, x * z * C + y * s,
            y * x * C + z * s, c + y * y * C, y * z * C - x * s,
            z * x * C - y * s, z * y * C + x * s, c + z * z * C]


def gen_ns_case(rng, kind=None, rbuild_factors=(1,)):
    """o_ns lines (one per build radius; same model and queries): cell, group, ncs, build radius, atoms, queries"""
    kind = kind or rng.choice(['normal', 'normal', 'oblique', 'tiny', 'tiny', 'noncrystal', 'ncs', 'bigk', 'elongated'])
    ncs = []
    if kind == 'noncrystal':
        sg = '-'
        cell = [1.0, 1.0, 1.0, 90.0, 90.0, 90.0]
        for _ in range(rng.choice([0, 0, 1, 2])):
            ncs.append(rand_rotation(rng) + [round(rng.uniform(-15, 15), 3) for _ in range(3)])
    else:
        sg = rng.choice(NS_GROUPS[1:])
        if kind == 'elongated':
            # one axis ten times longer than the others, one or two atoms: the nearest image can be many bins away along
            # that axis only (find_nearest_atom must widen its search up to the LONGEST bin count)
            sg = rng.choice(['P 1', 'P 21 21 21', 'P 1 21 1'])
        cell = ns_cell_for(rng, sg, tiny=(kind == 'tiny'), oblique=(kind == 'oblique'))
        if kind == 'elongated':
            cell[:3] = [round(rng.uniform(8, 15), 2) for _ in range(3)]
            cell[rng.randrange(3)] = round(rng.uniform(90, 220), 2)
        if kind == 'ncs':
            ncs.append(rand_rotation(rng) + [round(rng.uniform(-5, 5), 3) for _ in range(3)])
    natoms = rng.choice([1, 2, 3, 5, 8, 15, 30]) if kind not in ('tiny', 'elongated') else rng.choice([1, 2, 3, 5])
    if kind == 'elongated':
        natoms = rng.choice([1, 1, 2])
    span = max(cell[:3]) if kind != 'noncrystal' else rng.choice([5.0, 20.0, 40.0])
    atoms = []
    for i in range(natoms):
        r = rng.random()
        if r < 0.8 or not atoms:
            pos = [round(rng.uniform(-0.3 * span, 1.3 * span), 3) for _ in range(3)]
        else:   # close to another atom
            pos = [round(v + rng.uniform(-2, 2), 3) for v in rng.choice(atoms)[:3]]
        if rng.random() < 0.12:
            # on a cell face, just below / above it: the wrapped fractional coordinate is at the very end of [0, 1)
            pos[rng.randrange(3)] = rng.choice([-1e-17, -1e-18, -1e-13, 0.0, 1e-17, -3e-16])
        alt = rng.choice(['-', '-', '-', 'A', 'B'])
        el = rng.choice(['C', 'C', 'C', 'H', 'D'])
        atoms.append(pos + [alt, el])
    if kind == 'elongated':
        rbuild = rng.choice([3.0, 4.0, 5.0])
    elif kind == 'tiny':
        rbuild = round(rng.uniform(1.0, 2.5) * max(cell[:3]), 2) if rng.random() < 0.6 else round(rng.uniform(2, 6), 2)
    else:
        rbuild = rng.choice([3.0, 4.0, 5.0, 7.5, 10.0, round(rng.uniform(1.5, 12), 2)])
    inc_h = rng.choice([1, 1, 0])
    queries = []
    for _ in range(rng.choice([2, 3, 4])):
        r = rng.random()
        if r < 0.5:
            pos = [round(rng.uniform(-0.2 * span, 1.2 * span), 3) for _ in range(3)]
        elif r < 0.75:
            pos = [round(v + rng.uniform(-1.5, 1.5), 3) for v in rng.choice(atoms)[:3]]
        else:     # far outside the cell
            pos = [round(rng.uniform(-6 * span, 6 * span), 3) for _ in range(3)]
        f = rng.choice([0.1, 0.5, 0.9, 1.0, 1.0, 1.3, 2.0, 2.9]) if kind != 'bigk' else rng.choice([2.0, 2.9, 3.0, 1.0001])
        radius = round(rbuild * f, 4) if rng.random() < 0.9 else 0
        min_dist = rng.choice([0, 0, 0, 0.01, 0.5, round(rng.uniform(0, radius), 3)])
        queries.append(pos + [rng.choice(['-', '-', 'A', 'B']), radius, min_dist])
    out = []
    for fac in rbuild_factors:
        toks = [repr(float(x)) for x in cell] + [sg.replace(' ', '_'), str(len(ncs))]
        for n in ncs:
            toks += [repr(x) for x in n]
        toks += [repr(round(rbuild * fac, 4)), str(inc_h), str(natoms)]
        for a in atoms:
            toks += [repr(a[0]), repr(a[1]), repr(a[2]), a[3], a[4]]
        toks.append(str(len(queries)))
        for q in queries:
            # radius 0 means "the build radius": only meaningful for the base variant
            rad = q[4] if (q[4] != 0 or fac == 1) else rbuild
            toks += [repr(q[0]), repr(q[1]), repr(q[2]), q[3], repr(float(rad)), repr(float(q[5]))]
        out.append('o_ns\t' + ' '.join(toks))
    return out, kind


def gen_walk_case(rng):
    r = rng.random()
    if r < 0.3:
        cell = [round(rng.uniform(2, 6), 2) for _ in range(3)] + [90.0, 90.0, 90.0]
    else:
        cell = rand_dcell(rng)
        cell[:3] = [round(rng.uniform(3, 60), 2) for _ in range(3)]
    rbuild = rng.choice([2.0, 3.0, 5.0, 8.0, round(rng.uniform(1, 15), 2)])
    span = max(cell[:3])
    pos = [round(rng.uniform(-3 * span, 3 * span), 3) for _ in range(3)]
    if rng.random() < 0.2:
        pos = [0.0, 0.0, 0.0]
    k = rng.choice([1, 1, 1, 2, 2, 3, 4, 7])

    def volume(k, rbuild):     # upper estimate of the number of (bin, shift) pairs walked
        v = 1
        for e in cell[:3]:
            v *= 2 * math.ceil(k * max(1.0, 2 * rbuild / e)) + 1
        return v
    while volume(k, rbuild) > 20000 and k > 1:     # the extracted list functions are not tail-recursive
        k -= 1
    if volume(k, rbuild) > 20000:
        rbuild = min(cell[:3])
    return 'walk\t%s %r %s %d' % (dcell_str(cell), rbuild, ' '.join(repr(x) for x in pos), k)
