"""C15: calculated structure factors obey symmetry; direct and FFT routes agree."""
import random

import vlib
from props import fam_sfc as F
from props import fam_sym

MANIFEST = dict(
    technique='Coq proof of the symmetry law of the direct sum (isotropic and anisotropic weights) and of its consequences (absent reflections zero, Friedel) for every tabulated group (abstract character, permutation of the group by left multiplication checked by the kernel per row) + textbook-sum / symmetry / R-factor oracles on gemmi',
    text='THE FORM-FACTOR CACHE (Sfc/SfCache.v, a model of set_stol2_and_scattering_factors + get_scattering_factor with an abstract value type): for any sequence of calls made for one reflection - any elements and charges in any order - every call returns the value of its own (element, charge), table value plus addend, and the cache only holds neutral values (the snapshot logic is refuted by Fe then Fe3+); SEVERAL REFLECTIONS on one calculator object (resets install reflection + addends and empty the cache): every history of resets and calls returns the value of the world installed last (C15_form_factor_cache_histories); compared with the code on generated call histories, also across reflections that share sin(theta)/lambda but not the addends (real StructureFactorCalculator<IT92>, returned value bit-identical to the table value plus addend, and the occupancy of the private cache after every call). The direct-sum oracle sets per-element addends (always when ions are present). The FFT-vs-direct oracle includes anomalous addends (IT92) and small cells in which one atom spans more than half a cell edge. CONSEQUENCES PROVED (Sfc/SfConseq.v, Sfc/SfAniso.v): (1) the symmetry law also holds when the weight of an image depends on the image through the index rotated into its frame, i.e. with ANISOTROPIC Debye-Waller factors exactly as calculate_sf_from_atom_sf evaluates them (any weight function of rot(g)^T h); (2) SYSTEMATICALLY ABSENT REFLECTIONS ARE ZERO: for every tabulated group and every reflection that is_systematically_absent flags (screw/glide and centring, the latter by a kernel-checked permutation of the operation list under each centring vector) the direct sum is 0, in any field with a faithful character; (3) FRIEDEL: with real weights F(-h) = conj F(h). Theorems: for every group of the table regenerated from /repo, every rotation part R, every hkl, every rational position and every weight, the sum over all symmetry images satisfies F(hR) = F(h) exp(-2 pi i h.t) (in any commutative ring with a character of period 24d; the re-indexing g -> R*g is a permutation of the operation list, kernel-checked for all 564 rows); the anisotropic image factor identity (hR)^T U (hR) = h^T (R U R^T) h. Oracles on gemmi: calculate_sf_from_model / _from_small_structure equal an independent long-double textbook sum (occupancy x form factor x iso/aniso DWF x phase over all images) for random structures incl. special positions, partial occupancies, ions, three tables; symmetry-equivalent reflections, Friedel mates, systematic absences checked on gemmi outputs; two ions of one element with different charges get their own form factors; FFT route (DensityCalculator + transform_map_to_f_phi) vs direct: R < 1% at default settings and not growing when rate/cutoff are refined.',
    note='Trusted: Coq kernel + vm_compute; translator; harness (long double reference sum using gemmi form-factor tables, which are property C16). No axioms. The numerical agreement of the C++ sum with the textbook sum and the FFT accuracy are oracle-only (libm, float).')


def run(chk):
    quick = chk.tier == 'quick'
    rng = random.Random(chk.seed)
    F.gen_tables()
    chk.trusted += ['translator gen/dump_sg.cpp', 'harness/h_sfc.cpp: independent textbook sum in long double', 'extraction (ExtrOcamlBasic only) + extract/sfc_drv.ml (symbolic replay of the cache model)']
    chk.assumptions += ['tolerances: 1e-8 relative for direct sums, R-factor < 0.01 for the FFT route at default settings']
    proved = chk.prove(timeout=3000)
    h = F.harness()
    rows = list(range(fam_sym.NROWS))
    pick = sorted(set(rng.sample(rows, 40 if quick else 300) + [0, 1, 3, 114, 146, 170, 353, 409, 434, 500, 529, 563]))
    lines = []
    for i in pick:
        seed = rng.randint(1, 10 ** 6)
        lines.append('o_direct\t%d %d %d %d 0 3 %d' % (i, seed, rng.randint(1, 8), rng.randint(0, 1), rng.randint(0, 1)))
        lines.append('o_direct\t%d %d %d 1 %d 3 0' % (i, seed + 1, rng.randint(1, 6), rng.choice([1, 2])))
        lines.append('o_small\t%d %d %d 3' % (i, seed + 2, rng.randint(1, 6)))
        lines.append('o_charge\t%d %d' % (i, seed + 3))
    # the FFT route for a sample of rows and ALWAYS for the centred triclinic settings (number 1 and 2 with a centring
    # lattice: the only groups whose grid operations are pure translations)
    tri = [k for k, rr in enumerate(fam_sym.table_strings()) if rr['number'] <= 2 and not rr['hm'].startswith(b'P')]
    for i in sorted(set((pick[::4] if quick else pick) + tri)):
        seed = rng.randint(1, 10 ** 6)
        lines.append('o_fft\t%d %d %d %d %d' % (i, seed, rng.randint(3, 12), rng.randint(0, 1), rng.choice([0, 0, 1, 2])))
        # small cells: the density of one atom spans more than half a cell edge (periodic wrap-around of the box)
        lines.append('o_fft\t%d %d %d %d %d %d' % (i, seed + 7, rng.randint(1, 3), rng.randint(0, 1), rng.choice([0, 0, 1]),
                                                   rng.choice([50, 60, 75])))
    # the per-element form-factor cache: call histories of (element, charge) for one reflection, with and without
    # IT92::ignore_charge, neutral atoms and ions of one element in every order, repeated calls
    ions = [(26, 2), (26, 3), (8, -1), (20, 2), (30, 2), (16, 0), (6, 0), (7, 0), (26, 0), (8, 0), (20, 0), (30, 0), (11, 1), (17, -1),
            (1, -1), (1, 0), (25, 2), (25, 3), (25, 4), (25, 0), (6, 5), (8, 7)]
    for _ in range(300 if quick else 20000):
        calls = [rng.choice(ions) for _ in range(rng.randint(1, 10))]
        if rng.random() < 0.5:     # concentrate on one element: neutral and ions interleaved
            z = rng.choice([26, 25, 8, 20])
            calls = [(z, rng.choice([0, 0, 2, 3, -1, 1])) for _ in range(rng.randint(2, 8))]
        lines.append('sfseq\t0 %d %d %s' % (rng.choice([0, 0, 1]), rng.choice([0, 1, 25, 100, 250, 900]),
                                             ' '.join('%d:%d' % c for c in calls)))
    # several reflections on one calculator object: worlds that share the reflection but not the addends (w, w+5) and
    # vice versa, the same world twice, gets before the first reset excluded (every entry point resets first)
    for _ in range(300 if quick else 20000):
        ops = []
        for _ in range(rng.randint(1, 5)):
            ops.append('R%d' % rng.choice([0, 1, 2, 5, 6, 10, 0, 5]))
            ops += ['G%d:%d' % rng.choice(ions) for _ in range(rng.randint(1, 4))]
        lines.append('sfhist\t0 ' + ' '.join(ops))
    res = vlib.correspond(chk, h, F.driver(), lines, timeout=3000)
    for (cmd, args, impl, model) in res['mismatches']:
        chk.violate('correspondence', 'form-factor cache model disagrees with gemmi on ' + cmd + ' ' + args,
                    'impl=%s model=%s (T = the call returned the value of its own element and charge; after the colon: filled cache slots)' % (impl[:300], model[:300]),
                    replay={'harness': 'h_sfc', 'line': cmd + '\t' + args}, found_input='F' in impl)
    for l in res['outputs']:
        p = l.split('\t')
        if len(p) == 3:
            chk.case(p[0] + ' ' + p[1], p[2] not in ('skip', 'EXC'),
                     sample={'cmd': p[0], 'args': p[1], 'impl': p[2][:200]} if chk.evaluations % 37 == 0 else None,
                     bucket=p[0] + (':' + p[2] if p[2] in ('skip', 'EXC') else ''))
    for (cmd, args, r) in res['oracle_fail']:
        chk.violate('oracle', 'C15 %s row=%s: %s' % (cmd, args.split()[0], r.split(' R1=')[0]), 'args: %s result: %s' % (args, r),
                    replay={'harness': 'h_sfc', 'line': cmd + '\t' + args})
    for (line, kind, err) in res['crashes']:
        chk.violate('crash', 'h_sfc %s on %s' % (kind, line), err, replay={'harness': 'h_sfc', 'line': line})
    chk.rule = ('sfseq: call histories of (element, charge) through get_scattering_factor vs the cache model (value identity + cache occupancy); random structures (1-12 atoms, 10 elements, iso/aniso, partial occupancies, special positions, ions) in a spread of rows covering all '
                'crystal systems: direct sum vs textbook sum on every hkl of a cube, symmetry/Friedel/absence relations, small-structure path, '
                'per-ion form factors, FFT-route R-factors for three tables. non-trivial = not skipped')
    if not proved:
        chk.violate('proof', 'Properties_C15 ' + ','.join(getattr(chk, 'failed_theorems', [])),
                    getattr(chk, 'coq_log_tail', ''), found_input=False)


def replay(chk, path):
    import json
    r = json.load(open(path))['replay']
    rc, out, err = vlib.run_lines(F.harness(), [], inp=(r['line'] + '\n').encode())
    print('\n'.join(out), err[-2000:])
