"""Map family (C09, C03): CCP4 maps, grid index arithmetic, symmetrisation, ASU mask, stream/gzip safety."""
import os
import random

import vlib
from props import fam_sym as S

MODEL_VO = ['Map/MapSg.vo', 'Map/Stream.vo', 'Map/GzGrow.vo', 'Map/Setup.vo', 'Map/GridOps.vo', 'Map/Arr.vo', 'Map/GridIndex.vo', 'Map/BrickEnd.vo']
PERMS = [(1, 2, 3), (1, 3, 2), (2, 1, 3), (2, 3, 1), (3, 1, 2), (3, 2, 1)]
NAN_Z = -1000000


def gen_tables():
    return S.gen_tables()


def harness():
    return vlib.build_exe('h_map', [vlib.ROOT + '/harness/h_map.cpp'] + vlib.repo_src('symmetry.cpp', 'gz.cpp'))


def driver():
    return vlib.ocaml_driver('map', MODEL_VO)


def harness_mtz():
    """MTZ reader under ASan+UBSan on structure-aware corruptions of valid files (no model: outcome class only)."""
    return vlib.build_exe('h_mtzfuzz', [vlib.ROOT + '/harness/h_mtzfuzz.cpp'] +
                          vlib.repo_src('mtz.cpp', 'symmetry.cpp', 'sprintf.cpp', 'gz.cpp'))


def rows_info(h):
    """Per table row: grid factors + related directions (from the implementation), ccp4 number usable in a file."""
    rows = S.table_strings()
    rc, out, err = vlib.run_lines(h, [], inp=''.join('gridfac\t%d\n' % i for i in range(len(rows))).encode())
    first_ccp4 = {}
    for i, r in enumerate(rows):
        if r['ccp4'] and r['ccp4'] not in first_ccp4:
            first_ccp4[r['ccp4']] = i
    info = []
    for i, l in enumerate(out):
        w = [int(x) for x in l.split('\t')[2].split()]
        info.append({'row': i, 'fac': w[:3], 'rel': w[3:], 'number': rows[i]['number'], 'ccp4': rows[i]['ccp4'],
                     'storable': rows[i]['ccp4'] != 0 and first_ccp4.get(rows[i]['ccp4']) == i})
    return info


def compatible_size(rng, ri, maxn=24, small=False):
    """A grid size accepted by check_grid_factors for this row (multiples of the factors, equal where related)."""
    cand = [n for n in range(2, maxn + 1)]
    for _ in range(200):
        n = []
        for i in range(3):
            f = ri['fac'][i]
            c = [x for x in cand if x % f == 0 and (not small or x <= 12)]
            n.append(rng.choice(c))
        if ri['rel'][0]:
            n[1] = n[0]
        if ri['rel'][1]:
            n[2] = n[0]
        if ri['rel'][2]:
            n[2] = n[1]
        if ri['rel'][0]:
            n[1] = n[0]
        if all(n[i] % ri['fac'][i] == 0 for i in range(3)):
            return n
    return [24, 24, 24]


def pick_rows(rng, info, k, storable=False):
    pool = [r for r in info if (r['storable'] or not storable)]
    # always include a few structurally different groups: P1, monoclinic, orthorhombic F, tetragonal I41, trigonal R, hexagonal, cubic
    names = {1, 4, 5, 19, 22, 70, 80, 88, 96, 142, 146, 152, 155, 167, 178, 194, 198, 212, 227, 230}
    fixed = []
    seen = set()
    for r in pool:
        if r['number'] in names and r['number'] not in seen:
            fixed.append(r)
            seen.add(r['number'])
    # every triclinic setting (the centred ones share number 1 with P1)
    fixed += [r for r in pool if r['number'] <= 2 and r not in fixed]
    rest = rng.sample(pool, min(k, len(pool)))
    return fixed + rest


def harness_ub():
    """The same harness without ASan (UBSan only) and with RLIMIT_AS 2 GiB: absurd allocations throw bad_alloc."""
    return vlib.build_exe('h_map_ub', [vlib.ROOT + '/harness/h_map.cpp'] + vlib.repo_src('symmetry.cpp', 'gz.cpp'),
                          flags=['-O1', '-g', '-fsanitize=undefined', '-fno-sanitize-recover=all'])


def harness_mtz_ub():
    return vlib.build_exe('h_mtzfuzz_ub', [vlib.ROOT + '/harness/h_mtzfuzz.cpp'] +
                          vlib.repo_src('mtz.cpp', 'symmetry.cpp', 'sprintf.cpp', 'gz.cpp'),
                          flags=['-O1', '-g', '-fsanitize=undefined', '-fno-sanitize-recover=all'])


INT_MIN, INT_MAX = -2 ** 31, 2 ** 31 - 1


def mutations(true):
    """The structure-aware values for one header word."""
    vals = [0, 1, -1, INT_MIN, INT_MAX, INT_MAX - 1, INT_MIN + 1, true + 1, true - 1, true * 2, -true, 2 ** 31 // 3]
    return [v for v in vals if INT_MIN <= v <= INT_MAX]


def gz_member(data):
    import gzip
    return gzip.compress(data, mtime=0)
