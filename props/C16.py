"""C16: form-factor tables are consistent; atomic density is their Fourier transform."""
import json
import math
import random
from fractions import Fraction

import vlib
from props import fam_sf as F

ION_PD_EXCEPTIONS = {112, 115, 198}     # Sc3+, Ti4+, Bi5+ (enumerated in Properties_C16.v)


MANIFEST = {'technique': 'Coq proof: vm_compute over the regenerated tables + interval arithmetic over the continuum [0, 2 A^-1] per element + coefficient algebra over R; differential check and quadrature oracles on gemmi', 'text': 'Theorems over the tables regenerated from /repo: |c + sum a - (Z - q)| <= 0.15% for every X-ray row (elements and ions); for every neutral atom f(x) > 0 and f\'(x) <= 0 for EVERY real x in [0,4] (one interval proof per element, X-ray and electron tables), hence non-increasing by the mean value theorem; ions: same with three explicit exceptions (Sc3+, Ti4+, Bi5+, as published); ion lookup returns exactly the requested row, other charges fall back to the neutral atom, get_exact is null iff absent (exhaustive over el x charge); lookups executed by the compiled library equal the model; density normalisation and Fourier-transform identities as coefficient algebra given the Gaussian integral. "Exactly the published values" is decided only as equality with a frozen dump (no published copy offline) plus independent cross-checks (electron counts, known neutron lengths). Differential run: all rows bit-exact, calculate_sf/density iso/aniso double and float; oracles: radial and 3-D quadrature of gemmi densities vs f(s) exp(-B s^2/4).', 'note': 'Trusted: Coq kernel + vm_compute + Interval tactic (primitive-integer axioms of the standard library, Reals axioms: sig_forall_dec, sig_not_dec, classic, functional_extensionality_dep); translator gen/dump_formfact.cpp; extraction; harness. Gaussian integral/Fourier transform are Section hypotheses. LIMITATION: published values = frozen copy gen/golden.'}

def dy(x, bits=6):
    """nearest dyadic rational with `bits` fractional bits, printed exactly (exact in float and double)."""
    k = round(x * (1 << bits))
    return repr(k / float(1 << bits))


def rand_u(rng, los=(2, 5, 10, 20, 40)):
    """random anisotropic U (float-exact entries), B eigenvalues between 2 and 120 A^2 (or from `los`)."""
    # random rotation from a random unit quaternion
    q = [rng.gauss(0, 1) for _ in range(4)]
    n = math.sqrt(sum(x * x for x in q))
    a, b, c, d = [x / n for x in q]
    R = [[a*a+b*b-c*c-d*d, 2*(b*c-a*d), 2*(b*d+a*c)],
         [2*(b*c+a*d), a*a-b*b+c*c-d*d, 2*(c*d-a*b)],
         [2*(b*d-a*c), 2*(c*d+a*b), a*a-b*b-c*c+d*d]]
    lo = rng.choice(list(los))
    ev = [rng.uniform(lo, lo * rng.choice([1.0, 1.5, 3, 6])) / (8 * math.pi ** 2) for _ in range(3)]
    U = [[sum(R[i][k] * ev[k] * R[j][k] for k in range(3)) for j in range(3)] for i in range(3)]
    return [dy(U[0][0], 14), dy(U[1][1], 14), dy(U[2][2], 14), dy(U[0][1], 14), dy(U[0][2], 14), dy(U[1][2], 14)], ev


def gen_lines(rng, t, quick):
    lines = ['o_floattab\t-', 'o_ionlookup\t-']
    nx, ne, nn = len(t['X']), len(t['E']), len(t['N'])
    tabs = [('X', nx), ('E', ne), ('N', nn)]
    for tb, n in tabs:
        for i in range(n):
            lines += ['row\t%s %d' % (tb, i), 'rowf\t%s %d' % (tb, i)]
    qs = list(range(-8, 9)) + ([-128, -100, -9, 9, 100, 127] if quick else [])
    if not quick:
        qs = list(range(-128, 128))
    for el in range(0, 120):
        for q in qs:
            lines += ['get\t%d %d 0' % (el, q), 'getx\t%d %d 0' % (el, q)]
            if -3 <= q <= 3:
                lines += ['get\t%d %d 1' % (el, q), 'getx\t%d %d 1' % (el, q)]
    # documented domain is [-88, 88]; below -87.33 the true result is a denormal float and the routine returns 0
    # (absolute error < 1.2e-38, harmless), so the relative-error claim is tested on [-87.3, 88]
    for k in range(200 if quick else 5000):
        lines.append('o_expapprox\t%s' % dy(rng.uniform(-87.3, 88), 10))
    lines += ['o_expapprox\t-87.25', 'o_expapprox\t88', 'o_expapprox\t0', 'o_expapprox\t-1', 'o_expapprox\t1']
    Bs = [0.5, 1, 2, 5, 10, 20, 40, 80, 150, 300, 500]
    svals = ['0', '0.25', '0.5', '1', '1.5', '2', '3', '4']
    rows = [(tb, i) for tb, n in tabs for i in range(n)]
    for tb, i in rows:
        # structure factor on a grid of x = s^2 in [0,4] (validity range) and a little beyond
        xs = [0, 4] + [rng.randint(0, 256) / 64.0 for _ in range(4 if quick else 40)] + [rng.choice([5.5, 6.25, 9.0])]
        for x in xs:
            lines.append('sf\t%s %d %s' % (tb, i, repr(float(x))))
        lines.append('sff\t%s %d %s' % (tb, i, repr(float(rng.randint(0, 256) / 64.0))))
        if tb == 'N' and t['N'][i] == 0:
            continue
        # radial quadrature / Fourier transform oracle on the implementation
        for B in ([rng.choice(Bs[:4]), rng.choice(Bs[4:])] if quick else Bs):
            lines.append('o_radial\t%s %d %s %s' % (tb, i, repr(float(B)), ' '.join(svals)))
        # densities against the model
        for _ in range(3 if quick else 30):
            B = rng.choice(Bs + [dy(rng.uniform(0.5, 500), 3)])
            B = float(B)
            if tb == 'X':     # a few published ion rows have a negative b: the density needs b + B > 0
                B = max(B, 1.0 - float(min(t['X'][i][4:8])))
            r2 = dy(rng.uniform(0, min(36.0, 2.0 * B + 1)) * rng.choice([1, 1, 0.1, 0.01]), 8)
            ad = rng.choice(['0', '0', '-0.5', '0.25', '-2.125', '3.5'])
            lines.append('diso\t%s %d %s %r' % (tb, i, r2, B))
            lines.append('disof\t%s %d %s %r' % (tb, i, r2, B))
            lines.append('piso\t%s %d %s %r %s' % (tb, i, r2, B, ad))
            lines.append('pisof\t%s %d %s %r %s' % (tb, i, r2, B, ad))
            r = dy(math.sqrt(float(r2)), 8)
            lines.append('pisod\t%s %d %s %r %s' % (tb, i, r, B, ad))
            lines.append('pisodf\t%s %d %s %r %s' % (tb, i, r, B, ad))
        for _ in range(2 if quick else 20):
            U, ev = rand_u(rng)
            sig = math.sqrt(max(ev))
            r = ' '.join(dy(rng.gauss(0, 1.5 * sig), 8) for _ in range(3))
            ad = rng.choice(['0', '0', '-0.5', '1.25'])
            lines.append('daniso\t%s %d %s %s' % (tb, i, r, ' '.join(U)))
            lines.append('paniso\t%s %d %s %s %s' % (tb, i, r, ' '.join(U), ad))
            lines.append('panisof\t%s %d %s %s %s' % (tb, i, r, ' '.join(U), ad))
            Bm = [repr(float(x) * 8 * math.pi ** 2) for x in U]
            lines.append('panisob\t%s %d %s %s %s' % (tb, i, r, ' '.join(Bm), ad))
        # far tails of sharp atoms: the exponent of the narrowest Gaussian is far below -88, where the float
        # path clamps the argument of its approximate exp (iso and aniso)
        for _ in range(1 if quick else 10):
            if tb == 'X' and float(min(t['X'][i][4:8])) < 0:
                break     # published ion rows with a negative b need b + B > 0: no sharp atoms there
            U, ev = rand_u(rng, (0.5, 1, 2, 5))
            d = [rng.gauss(0, 1) for _ in range(3)]
            nd = math.sqrt(sum(x * x for x in d)) or 1.0
            rad = rng.uniform(1.2, 8.0)
            r = ' '.join(dy(x / nd * rad, 8) for x in d)
            ad = rng.choice(['0', '0', '1.25'])
            lines.append('paniso\t%s %d %s %s %s' % (tb, i, r, ' '.join(U), ad))
            lines.append('panisof\t%s %d %s %s %s' % (tb, i, r, ' '.join(U), ad))
            Biso = float(dy(rng.choice([0.5, 1, 2, 5]), 3))
            if tb == 'X':
                Biso = max(Biso, 1.0 - float(min(t['X'][i][4:8])))
            r2 = dy(rad * rad, 8)
            lines.append('piso\t%s %d %s %r %s' % (tb, i, r2, Biso, ad))
            lines.append('pisof\t%s %d %s %r %s' % (tb, i, r2, Biso, ad))
    # 3-D quadrature oracle (expensive): a sample of rows with random anisotropic tensors and s vectors
    pick = rng.sample(rows, 14 if quick else 250) + [('X', 6), ('X', 26), ('E', 8), ('N', 1)]
    for tb, i in pick:
        if tb == 'N' and t['N'][i] == 0:
            continue
        U, ev = rand_u(rng)
        s = ['0', '0', '0'] if rng.random() < 0.3 else [dy(rng.uniform(-0.8, 0.8), 6) for _ in range(3)]
        lines.append('o_aniso\t%s %d %s %s' % (tb, i, ' '.join(U), ' '.join(s)))
    return lines


def table_findings(chk, t):
    """Localise table defects independently of Coq: rows that break the electron count or the
    positivity / monotonicity claim, with a concrete witness (row, x)."""
    for i, row in enumerate(t['X']):
        if i == 0:
            continue
        if i < 99:
            n = i
            name = t['labels']['X'][i]
        else:
            el, q = t['ions'][i - 99]
            n = (1 if el == 119 else el) - q
            name = t['labels']['X'][i]
        s = sum(row[:4]) + row[8]
        if abs(s - n) > Fraction(15, 10000) * n:
            chk.violate('table', 'C16 IT92 row %d (%s): c + sum a = %s but the atom has %d electrons' % (
                i, name, float(s), n), 'electron count off by %.4f%%' % (100 * float(s - n) / n),
                replay={'harness': 'h_sf', 'line': 'sf\tX %d 0' % i})
    for kind, nm in (('X', 'IT92'), ('E', 'C4322')):
        for i, w in t['pd_failing'][kind]:
            if kind == 'X' and i in ION_PD_EXCEPTIONS:
                continue
            if kind == 'X' and i >= 99:
                what = 'ion row outside the enumerated exceptions'
            else:
                what = 'neutral atom'
            chk.violate('table', 'C16 %s row %d (%s): %s at x=s^2=%s (value %.6g)' % (
                nm, i, t['labels'][kind][i], w[0], w[1], w[2]), what + ': form factor must be positive and non-increasing on [0,4]',
                replay={'harness': 'h_sf', 'line': 'sf\t%s %d %r' % (kind, i, w[1])})
    # difference from the frozen copy (stands in for "exactly the published values")
    with open(vlib.ROOT + '/gen/golden/FormFactGolden.v') as f:
        g = F.parse_formfact(f.read().replace('Definition g_', 'Definition '))
    for kind, nm in (('X', 'IT92'), ('E', 'C4322')):
        if len(g[kind]) != len(t[kind]):
            chk.violate('table', 'C16 %s has %d rows, frozen copy %d' % (nm, len(t[kind]), len(g[kind])), 'row count changed',
                        found_input=False)
        for i, (a, b) in enumerate(zip(t[kind], g[kind])):
            for k, (x, y) in enumerate(zip(a, b)):
                if x != y:
                    chk.violate('table', 'C16 %s row %d (%s) coefficient %d is %s, frozen copy of the published table has %s' % (
                        nm, i, t['labels'][kind][i], k, float(x), float(y)), 'table differs from the frozen copy',
                        replay={'harness': 'h_sf', 'line': 'row\t%s %d' % (kind, i)})
    for i, (x, y) in enumerate(zip(t['N'], g['N'])):
        if x != y:
            chk.violate('table', 'C16 Neutron92 entry %d is %s, frozen copy has %s' % (i, float(x), float(y)),
                        'table differs from the frozen copy', replay={'harness': 'h_sf', 'line': 'row\tN %d' % i})
    if t['ions'] != g['ions']:
        chk.violate('table', 'C16 IT92 ion_list differs from the frozen copy', str([p for p in zip(t['ions'], g['ions']) if p[0] != p[1]][:5]),
                    replay={'harness': 'h_sf', 'line': 'o_ionlookup\t-'})
    known = {1: Fraction(-3739, 1000), 119: Fraction(6671, 1000), 6: Fraction(6646, 1000), 7: Fraction(936, 100),
             8: Fraction(5803, 1000)}
    for el, v in known.items():
        if t['N'][el] != v:
            chk.violate('table', 'C16 Neutron92 entry %d = %s, well-known value %s' % (el, float(t['N'][el]), float(v)),
                        'neutron scattering length differs from the reference value',
                        replay={'harness': 'h_sf', 'line': 'row\tN %d' % el})


def run(chk):
    quick = chk.tier == 'quick'
    rng = random.Random(chk.seed)
    t = F.gen_tables()
    chk.trusted += ['translator gen/dump_formfact.cpp -> coq/Sf/FormFact_gen.v (IT92 211 rows + 112 ions, C4322 99 rows, '
                    'Neutron92 121 entries; lookups executed for every element x charge -8..8)',
                    'props/fam_sf.py generates one interval-arithmetic lemma per table row (coq/Sf/FormFactPd*_gen.v)',
                    'coq-interval (interval tactic) and Coquelicot', 'extraction (ExtrOcamlBasic only) + extract/sf_drv.ml '
                    '(model arithmetic instantiated with IEEE doubles and libm)', 'harness/h_sf.cpp (ASan+UBSan)',
                    'frozen copy gen/golden/FormFactGolden.v stands in for the published tables (none available offline)']
    chk.assumptions += ['3-D Gaussian integral and Fourier transform enter C16_density_normalised / C16_density_is_ft_iso as hypotheses; '
                        'they are tested numerically on the implementation (radial and 3-D quadrature oracles)',
                        'anisotropic density and the float / unsafe_expapprox paths are covered by correspondence and oracles, not by a theorem',
                        '"exactly the published values" is checked against a frozen dump of the pinned tree, cross-checked by the '
                        'electron-count, positivity, monotonicity and reference-value theorems']
    proved = chk.prove(timeout=2400)
    table_findings(chk, t)
    h, d = F.harness(), F.driver()
    lines = gen_lines(rng, t, quick)
    res = vlib.correspond(chk, h, d, lines, timeout=3000)
    for l in res['outputs']:
        p = l.split('\t')
        if len(p) == 3:
            chk.case(p[0] + ' ' + p[1], p[2] not in ('EXC', 'skip'),
                     sample={'cmd': p[0], 'args': p[1], 'impl': p[2][:200]} if chk.evaluations % 2999 == 0 else None,
                     bucket=p[0] + (':EXC' if p[2] == 'EXC' else ':skip' if p[2] == 'skip' else ''))
    for (cmd, args, impl, model) in res['mismatches']:
        chk.violate('correspondence', 'sf-model disagrees with gemmi on command ' + cmd,
                    'input=%s impl=%s model=%s' % (args, impl[:300], model[:300]),
                    replay={'harness': 'h_sf', 'line': cmd + '\t' + args}, found_input=False)
    for (cmd, args, r) in res['oracle_fail']:
        chk.violate('oracle', 'C16 %s %s: %s' % (cmd, args, r), 'property oracle evaluated on gemmi failed',
                    replay={'harness': 'h_sf', 'line': cmd + '\t' + args})
    for (line, kind, err) in res['crashes']:
        chk.violate('crash', 'h_sf %s on %s' % (kind, line), err, replay={'harness': 'h_sf', 'line': line})
    chk.rule = ('exhaustive over the tables: every row of IT92 (211), C4322 (99), Neutron92 (121) x {double bits, float bits, '
                'sf on a grid of s^2 in [0,4] and beyond, radial-quadrature/Fourier oracle for several B in [0.5,500] and s in [0,4], '
                'iso densities direct/precalculated/with derivative in double and float, aniso densities for random tensors}; '
                'lookups for every element x charge (x ignore_charge); 3-D quadrature oracle on a sample. '
                'non-trivial = not an exception and not skipped')
    if not proved:
        chk.violate('proof', 'Properties_C16 ' + ','.join(getattr(chk, 'failed_theorems', [])),
                    getattr(chk, 'coq_log_tail', ''), found_input=False)


def replay(chk, path):
    r = json.load(open(path))['replay']
    h = F.harness()
    rc, out, err = vlib.run_lines(h, [], inp=(r['line'] + '\n').encode())
    print('\n'.join(out), err[-2000:])
    d = F.driver()
    rc, out2, err2 = vlib.run_lines(d, [], inp=('\n'.join(out) + '\n').encode())
    print('\n'.join(out2))
