"""C17: anomalous f' and f'' are pure, well-behaved functions of element and energy."""
import json
import math
import os
import random

import vlib
from props import fam_sf as F


MANIFEST = {'technique': 'Coq proof (table well-formedness by vm_compute, f" >= 0 over R) + bit-exact purity oracle (array/scalar/order/threads, TSan in thorough) + pole/edge scans on gemmi', 'text': 'Theorems over the orbital table regenerated from /repo: index table contiguous, nparm consistent with the data present, energies positive/descending and equal to the Gauss nodes the branch uses, >= 3 usable points per orbital (the seeded Ce row is reported by this theorem); f" >= 0 for the real-number model of the f" sum (_partial: f\' quadrature not modelled). Oracles on gemmi: cromer_liberman_for_array = per-energy calls bit-exactly in any order and from 1-16 threads, Z outside 3..92 leaves outputs untouched, finite values, f" >= 0, jumps only at tabulated edges on a dense log grid 1-80 keV plus brackets of every edge and of every computed sigma-pole energy, documentation values reproduced; f-prime and f-double-prime of every element at 12 energies compared (1e-6) with a reference tabulation frozen from the repaired snapshot (detects changes of value; it does not validate the snapshot). Five spurious f\' poles caused by inconsistent table energies are recorded as KNOWN FINDINGS (not repairable without the reference data).', 'note': 'Trusted: Coq kernel + vm_compute; Reals axioms for the f" theorem; translator gen/dump_fprime.cpp; extraction; harness. Purity across threads is a runtime fact: tested bit-exactly, not proved.'}

def exact_edge_energy(binden):
    """an energy (eV) for which 0.001*E is exactly the float binden, so that cromer() sees bena == energa
    (the branch condition `bena <= energa` is decided exactly there); falls back to 1000*binden."""
    import struct
    b = struct.unpack('f', struct.pack('f', float(binden)))[0]
    e = 1000.0 * b
    c = e
    for _ in range(6):
        c = math.nextafter(c, 0.0)
    for _ in range(13):
        if 0.001 * c == b:
            return c
        c = math.nextafter(c, math.inf)
    return e


def gen_lines(rng, t, quick):
    lines = ['o_doc\t-']
    idx, rows = t['index'], t['rows']
    # purity: array == scalar, any order, 1..16 threads; every Z in 1..100 (outside 3..92: outputs untouched)
    for z in range(1, 101):
        for rep in range(1 if quick else 6):
            n = rng.choice([0, 1, 2, 3, 7, 16, 33, 64]) if rep else rng.choice([5, 17, 64])
            es = [repr(round(1000 * 80 ** rng.random(), rng.choice([0, 1, 3, 6]))) for _ in range(n)]
            if 3 <= z <= 92 and es:       # put an exact edge and a pole energy into the array as well
                off, no = [(o, k) for zz, o, k in idx if zz == z][0]
                b = float(rows[off + rng.randrange(no)][1])
                es[rng.randrange(len(es))] = repr(1000.0 * b)
            rng.shuffle(es)
            nth = rng.choice([1, 2, 4, 8, 16]) if (quick and z % 3) else rng.choice([4, 16])
            lines.append('o_pure\t%d %d %s' % (z, nth, ' '.join(es)))
    for z in (0, -1, 101, 1000, -2147483648, 2147483647):
        lines.append('o_pure\t%d 2 1000 12345.5 80000' % z)
    # well-behavedness: dense grid, edge brackets, computed pole energies
    for z in range(3, 93):
        lines.append('o_scan\t%d %d' % (z, 2500 if quick else 60000))
    # f'' against the model: log grid, exact edges and their neighbours
    for z, off, no in idx:
        for _ in range(12 if quick else 200):
            lines.append('fpp\t%d %r' % (z, round(1000 * 80 ** rng.random(), rng.choice([0, 2, 6]))))
        for i in range(no):
            b = float(rows[off + i][1])
            e = 1000.0 * b
            if e < 50:
                continue
            for v in (exact_edge_energy(rows[off + i][1]), e * (1 - 1e-9), e * (1 + 1e-9), e * 1.001):
                lines.append('fpp\t%d %r' % (z, v))
        lines.append('cl\t%d %r' % (z, round(1000 * 80 ** rng.random(), 2)))
    return lines


def table_findings(chk, t, d):
    """Rows of the orbital table that fail the well-formedness checker (the extracted checker, element by element)."""
    if t['source_rows'] != len(t['rows']):
        chk.violate('table', 'C17 index table covers %d rows but src/fprime.cpp initialises %d' % (len(t['rows']), t['source_rows']),
                    'indices[] and coefs[] out of step', found_input=False)
    inp = ''.join('wfrow\t%d\t1\n' % k for k in range(len(t['index'])))
    out = vlib.run_lines(d, [], inp=inp.encode())[1]
    for l in out:
        p = l.split('\t')
        if p[0] == 'MISMATCH':
            z, off, n = t['index'][int(p[2])]
            # find the orbital: python re-implementation of the main structural conditions
            what = []
            for i in range(n):
                np_, b, xn, xs = t['rows'][off + i]
                if np_ not in (10, 11):
                    what.append('orbital %d: nparm=%d' % (i, np_))
                elif (np_ == 10) != (xn[5] == 0 and xs[10] == 0):
                    what.append('orbital %d (binden %s keV): nparm=%d but xnrg[5]=%s xsc[10]=%s' % (
                        i, float(b), np_, float(xn[5]), float(xs[10])))
            chk.violate('table', 'C17 orbital table of Z=%d is not well formed: %s' % (z, '; '.join(what) or 'see element_ok_b'),
                        'row block %d..%d of coefs[] fails the checker proved for all rows in C17_fprime_table_wf' % (off, off + n - 1),
                        replay={'harness': 'h_sf', 'line': 'o_scan\t%d 4000' % z})


def run(chk):
    quick = chk.tier == 'quick'
    rng = random.Random(chk.seed)
    # known findings for C17 live in /verif/known_findings.json (loaded by vlib.Check)
    F.gen_tables()
    t = F.gen_fprime_tables()
    chk.trusted += ['translator gen/dump_fprime.cpp -> coq/Sf/Fprime_gen.v (index table, 1249 orbital rows, Kissel-Pratt correction); '
                    'the length of the static coefs[] array is counted in the source text (not reachable through the API)',
                    'extraction (ExtrOcamlBasic only) + extract/sf_drv.ml (model of f\'\' instantiated with IEEE doubles, libm, '
                    'float rounding of table entries and of their logarithms)', 'harness/h_sf.cpp + h_sf_fprime.hpp (ASan+UBSan)']
    chk.assumptions += ["f' (Gauss quadrature over sigma0..3) is not modelled: it is covered by the oracles only "
                        '(purity, finiteness, pole scan, documentation values)',
                        'purity and thread-safety are runtime facts: tested bit-exactly from 1..16 threads, not proved',
                        'Addends::add_cl_fprime exists only in the Python binding (python/sf.cpp), not reachable from the C++ harness']
    proved = chk.prove(timeout=2400)
    h, d = F.harness(), F.driver()
    table_findings(chk, t, d)
    lines = gen_lines(rng, t, quick)
    res = vlib.correspond(chk, h, d, lines, timeout=3000)
    for l in res['outputs']:
        p = l.split('\t')
        if len(p) == 3:
            chk.case(p[0] + ' ' + p[1], p[2] not in ('EXC', 'skip'),
                     sample={'cmd': p[0], 'args': p[1][:200], 'impl': p[2][:200]} if chk.evaluations % 499 == 0 else None,
                     bucket=p[0])
    # the reference tabulation: f', f'' frozen from the repaired snapshot (gen/golden/fprime_golden.tsv), 1e-6
    gold = [l.split('\t') for l in open(vlib.ROOT + '/gen/golden/fprime_golden.tsv').read().splitlines() if l and l[0] != '#']
    glines = ['cl\t%s %s' % (g[0], g[1]) for g in gold]
    rc, gout, gerr = vlib.run_lines(h, [], inp=('\n'.join(glines) + '\n').encode(), timeout=600)
    if rc != 0 or len(gout) != len(gold):
        chk.violate('crash', 'C17 harness failed on the reference energies', gerr[-1500:], found_input=False)
    else:
        nbad = 0
        for g, l in zip(gold, gout):
            fp, fpp = [float(x) for x in l.split('\t')[2].split()]
            rfp, rfpp = float(g[2]), float(g[3])
            ok = abs(fp - rfp) <= 1e-6 * (1 + abs(rfp)) and abs(fpp - rfpp) <= 1e-6 * (1 + abs(rfpp))
            chk.case('gold %s %s' % (g[0], g[1]), True, bucket='reference' if ok else 'reference:DIFF')
            if not ok:
                nbad += 1
                if nbad <= 3:
                    chk.violate('oracle', "C17 reference tabulation: Z=%s E=%s eV gives f'=%r f''=%r, reference %s %s" % (g[0], g[1], fp, fpp, g[2], g[3]),
                                'frozen reference values gen/golden/fprime_golden.tsv', replay={'harness': 'h_sf', 'line': 'cl\t%s %s' % (g[0], g[1])})
    for (cmd, args, impl, model) in res['mismatches']:
        chk.violate('correspondence', 'sf-model disagrees with gemmi on command ' + cmd,
                    'input=%s impl=%s model=%s' % (args, impl[:300], model[:300]),
                    replay={'harness': 'h_sf', 'line': cmd + '\t' + args}, found_input=False)
    for (cmd, args, r) in res['oracle_fail']:
        if cmd == 'o_scan':
            for item in r.split(' | '):
                key = item.split(':')[0]
                chk.violate('oracle', 'C17 o_scan %s: %s' % (args.split()[0], key), item,
                            replay={'harness': 'h_sf', 'line': cmd + '\t' + args})
        else:
            chk.violate('oracle', 'C17 %s %s: %s' % (cmd, args[:120], r[:200]), 'property oracle evaluated on gemmi failed: ' + r,
                        replay={'harness': 'h_sf', 'line': cmd + '\t' + args})
    for (line, kind, err) in res['crashes']:
        chk.violate('crash', 'h_sf %s on %s' % (kind, line[:200]), err, replay={'harness': 'h_sf', 'line': line})
    if not quick:
        # data-race detection on the purity oracle (ThreadSanitizer build of the same harness)
        try:
            ht = vlib.build_exe('h_sf_tsan', [vlib.ROOT + '/harness/h_sf.cpp'], flags=['-O1', '-g', '-fsanitize=thread'])
            pure = [l for l in lines if l.startswith('o_pure')]
            rc, out, err = vlib.run_lines(ht, [], inp=('\n'.join(pure) + '\n').encode(), timeout=1200,
                                          env={'TSAN_OPTIONS': 'halt_on_error=0 exitcode=66'})
            if 'unexpected memory mapping' in err or ('FATAL' in err and 'ThreadSanitizer' in err and not out):
                chk.extra['tsan'] = 'ThreadSanitizer could not start in this environment: ' + err[-200:]
            else:
                chk.extra['tsan'] = '%d o_pure lines under ThreadSanitizer, rc=%d' % (len(out), rc)
                if 'WARNING: ThreadSanitizer' in err or rc != 0:
                    chk.violate('oracle', 'C17 data race reported by ThreadSanitizer in cromer_liberman_for_array', err[-3000:],
                                replay={'harness': 'h_sf_tsan', 'line': pure[0]})
                for l in out:
                    p = l.split('\t')
                    if len(p) == 3 and p[2] != '1':
                        chk.violate('oracle', 'C17 (tsan build) o_pure %s: %s' % (p[1][:100], p[2][:200]), p[2],
                                    replay={'harness': 'h_sf_tsan', 'line': l})
        except RuntimeError as ex:
            chk.extra['tsan'] = 'ThreadSanitizer build failed: ' + str(ex)[-300:]
    chk.rule = ("Z = 1..100 (and out-of-range ints): arrays of 0-64 random energies in 1-80 keV (plus exact edge energies) evaluated as "
                "array / scalar / permuted / from 1-16 threads, bit-exact; per element a dense log grid 1-80 keV, brackets of every "
                "tabulated edge and the energies where a sigma denominator vanishes (computed from the table); f'' compared with the "
                "extracted model on a log grid and at/around every edge; documentation values. non-trivial = not skipped")
    if not proved:
        chk.violate('proof', 'Properties_C17 ' + ','.join(getattr(chk, 'failed_theorems', [])),
                    getattr(chk, 'coq_log_tail', ''), found_input=False)


def replay(chk, path):
    from props import C16
    C16.replay(chk, path)
