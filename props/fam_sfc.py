"""Structure-factor calculation family (C15)."""
import vlib
from props import fam_sym


def gen_tables():
    return fam_sym.gen_tables()


def harness():
    return vlib.build_exe('h_sfc', [vlib.ROOT + '/harness/h_sfc.cpp'] +
                          vlib.repo_src('symmetry.cpp', 'polyheur.cpp', 'resinfo.cpp'))


MODEL_VO = ['Sfc/SfCache.vo']


def driver():
    return vlib.ocaml_driver('sfc', MODEL_VO)
