"""C12: numbers are read and printed exactly. Theorems (Properties_C12.v) + correspondence of the
Num model with gemmi and libc (three-way, on IEEE bit patterns) + property oracles evaluated on gemmi,
under the C locale and under a locale whose decimal point is ','."""
import random

import vlib
from props import fam_num as F

ORACLE_LIKE = ('prec', 'tostr')      # a model mismatch here is a printed text outside the half-unit bound


MANIFEST = {'technique': 'Coq proof (acceptance set of as_number = CIF number grammar, integer readers = strtol, buffer bounds, nearest-even rounding) + three-way differential check on IEEE bit patterns (gemmi / extracted model / glibc) under two locales', 'text': 'Theorems: for every string and every digit-to-double conversion, cif::as_number returns the conversion of the CIF decimal value exactly when the string is a CIF number (with optional s.u.) and NaN otherwise (snapshot behaviour refuted: "+-1", "1.5()"); string_to_int / read_int / simple_atoi / no_sign_atoi equal strtol on every string they accept; the repaired (unsigned-accumulating) readers return, for EVERY string with no size precondition, the unbounded value wrapped to 32 bits (the signed accumulation of the snapshot is refuted on 4294967295); to_str_prec<P> fits its buffer for P <= 6, |d| < 1e8 (16 bytes refuted for P = 6); the reference rounding is round-to-nearest-even (half-ulp bound _partial). Three-way comparison of gemmi, the extracted model and glibc strtod/strtol on bit patterns over grammar-derived strings, near misses, halfway cases, subnormals, overflow, in the C locale and in a generated comma-decimal locale; print->parse half-unit oracle for to_str/to_str_prec; snprintf_z contract.', 'note': 'Trusted: Coq kernel; extraction; harness. No axioms. fast_float digit conversion and stb_sprintf digit generation are not modelled (as_number theorems quantify over every conversion; the executable model is compared with glibc). Strings shorter than 2^28 bytes.'}

def near_tie_excess(cmd, args, impl_hex):
    """True when the printed decimal misses the half-unit bound by at most 2^-57 of the value (1/16 of the spacing of
    doubles at that value), in exact arithmetic: the value is then closer to a rounding tie than the accuracy of
    stb_sprintf's digit generator, which is the recorded finding C12-stb-near-tie (one call site, any such value)."""
    from fractions import Fraction
    import struct
    try:
        kind, bh = args.split()
        txt = bytes.fromhex(impl_hex).decode('ascii').replace(',', '.')
        if kind == 'f':
            val = Fraction(struct.unpack('>f', bytes.fromhex(bh))[0])
        else:
            val = Fraction(struct.unpack('>d', bytes.fromhex(bh))[0])
        mant, _, exp = txt.lower().partition('e')
        printed = Fraction(mant) * Fraction(10) ** int(exp or 0)
        digits = mant.lstrip('+-')
        frac_digits = len(digits.partition('.')[2])
        unit = Fraction(10) ** (int(exp or 0) - frac_digits)
        if cmd == 'tostr':
            # %.9g / %.6g may have dropped trailing zeros: the unit of the LAST KEPT digit is an upper bound of the
            # unit of the 9th (6th) significant digit, so use the significant-digit position instead
            import math
            sig = 9 if kind == 'd' else 6
            if val == 0:
                return False
            e10 = math.floor(math.log10(abs(val)))
            while Fraction(10) ** (e10 + 1) <= abs(val):
                e10 += 1
            while Fraction(10) ** e10 > abs(val):
                e10 -= 1
            unit = Fraction(10) ** (e10 - sig + 1)
        err = abs(printed - val)
        return unit / 2 < err <= unit / 2 + abs(val) * Fraction(1, 2 ** 57)
    except Exception:
        return False


def gen_lines(rng, n_num, n_int, n_print, bufs):
    lines = []
    # character tables: exhaustive
    for c in range(256):
        lines.append('tbl\t%d' % c)
    # CIF numbers, near misses, halfway cases, long mantissas, sub-normals, overflow
    strs = F.gen_number_strings(rng, n_num)
    for s in strs:
        h = F.hx(s)
        lines.append('num\t' + h)
        lines.append('o_num\t' + h)
        if '\x00' not in s:
            pre = rng.choice(['', '', ' ', '  ', '\t ', '+', ' +'])
            post = rng.choice(['', '', ' ', 'x', ' 1', '(3)'])
            lines.append('atof\t' + F.hx(pre + s + post))
            lines.append('o_dbl\t%s 0' % F.hx(pre + s + post))
            # fixed-column field: the number somewhere in a field, bytes after the field arbitrary
            width = rng.choice([len(s), len(s) + 1, len(s) + 3, max(1, len(s) - 1), 8, 6])
            field = (pre + s).rjust(width) if rng.random() < 0.5 else (pre + s).ljust(width)
            after = rng.choice(['', '5', '-1', 'e5', '.5', ' 7', '1.0'])
            ln = rng.choice([len(field), len(field), width])
            if 0 < ln <= len(field) and len(field) < 60:
                lines.append('rdbl\t%s %d' % (F.hx(field + after), ln))
                lines.append('o_dbl\t%s %d' % (F.hx(field + after), ln))
    for s in ['', ' ', '    ', '   1.5  ', ' 1.5 2.5', '1e', '1e5', '1e+', '  -', '--1', '0x10', ' nan', 'inf', '1.5(3)',
              '12345678', '-1234.567', ' 999.999', '  .5', '5.', '+5', ' +5.5', '+ 5', '1 .5', '1,5', '1.5\n', '\n1.5']:
        for ln in sorted(set([len(s), max(1, len(s) - 1), 4, 8])):
            if 0 < ln <= len(s) + 8:
                lines.append('rdbl\t%s %d' % (F.hx(s + rng.choice(['', '7', ' 1'])), ln))
                lines.append('o_dbl\t%s %d' % (F.hx(s + rng.choice(['', '7', ' 1'])), ln))
        lines.append('atof\t' + F.hx(s))
        lines.append('o_dbl\t%s 0' % F.hx(s))
    # integers
    for _ in range(n_int):
        s = F.gen_int_string(rng)
        cut = s.split('\x00')[0]
        if F.int_value_fits(cut):
            lines.append('sti\t%s %d 0' % (F.hx(s), rng.randint(0, 1)))
            lines.append('sti\t%s 1 0' % F.hx(s))
            lines.append('satoi\t' + F.hx(s))
            lines.append('asint\t' + F.hx(s))
            if F.int_value_fits(cut, no_sign=True):
                lines.append('o_int\t%s 0' % F.hx(s))
        if F.int_value_fits(cut, no_sign=True):
            lines.append('nsatoi\t' + F.hx(s))
        # the repaired readers are defined on numbers of any size: the same string with more digits
        big = s if rng.random() < 0.3 else s.replace(cut.strip(' \t\n\r\v\f+-')[:1] or '1', rng.choice(['4294967296', '2147483648', '99999999999', '18446744073709551617', '4294967295', '21474836479', '1' + '0' * rng.randint(9, 25), str(rng.getrandbits(rng.randint(30, 70)))]), 1)
        lines.append('wsti\t%s %d 0' % (F.hx(big), rng.randint(0, 1)))
        lines.append('wsti\t%s 0 %d' % (F.hx(big), rng.randint(1, 14)))
        lines.append('wsatoi\t' + F.hx(big))
        lines.append('wnsatoi\t' + F.hx(big))
        # fixed-column: field of length ln inside a longer record
        ln = rng.randint(1, 8)
        fcut = cut[:ln]
        if F.int_value_fits(fcut):
            lines.append('sti\t%s 0 %d' % (F.hx(s), ln))
            lines.append('rint\t%s %d' % (F.hx(s), ln))
            lines.append('o_int\t%s %d' % (F.hx(s), ln))
    for s, ln in [('   -5', 3), ('   -5', 4), ('   +5', 4), ('  12', 2), ('  12', 3), ('12345', 3), ('-', 1), (' ', 1),
                  ('1 2', 3), ('  -', 3), ('  -7', 3), ('\t\n 42', 6), ('0042', 4), ('4 2 ', 4), ('+-5', 3), ('-+5', 3)]:
        lines.append('sti\t%s 0 %d' % (F.hx(s), ln))
        lines.append('rint\t%s %d' % (F.hx(s), ln))
        lines.append('sti\t%s 1 %d' % (F.hx(s), ln))
        lines.append('o_int\t%s %d' % (F.hx(s), ln))
    for s in ['', ' ', '?', '.', '-', '+', '12', ' 12 ', '12 3', '1.0', '1e3', '0x1', '--1', '+-1', '- 1', '12\n', '\x0012']:
        lines.append('asint\t' + F.hx(s))
        lines.append('sti\t%s 1 0' % F.hx(s))
    # printing (the first value is the recorded witness of the stb_sprintf near-tie finding, see known_findings.json)
    for b in [0xc0eb0b728a0902de, 0x4069b7c38194c016] + list(F.gen_print_doubles(rng, n_print)):
        bh = '%016x' % b
        d = F.bits2d(b)
        lines.append('tostr\td ' + bh)
        lines.append('o_print\td ' + bh)
        lines.append('o_buf\td %s %d' % (bh, bufs['d']))
        if d == d and abs(d) != float('inf'):
            ps = [rng.randint(0, 6)] if abs(d) < 1e8 else [rng.randint(0, 6)] if rng.random() < 0.3 else []
            if abs(d) >= 9999999:
                ps = list(range(7)) if abs(d) < 1.0000001e8 else ps
            for p in ps:
                lines.append('prec\t%d %s' % (p, bh))
                lines.append('o_print\t%d %s' % (p, bh))
                lines.append('o_buf\t%d %s %d' % (p, bh, bufs['p']))
        try:
            import struct
            f = struct.unpack('<f', struct.pack('<f', d))[0]
            fb = F.f2bits(f)
            lines.append('tostr\tf ' + fb)
            lines.append('o_print\tf ' + fb)
            lines.append('o_buf\tf %s %d' % (fb, bufs['f']))
        except OverflowError:
            pass
        if rng.random() < 0.3:
            lines.append('o_snp\t%d %d %s' % (rng.choice([1, 2, 3, 5, 8, 12, 16, 24, 40]), rng.randint(0, 7), bh))
    for v in [0, 1, -1, 9, 10, 99, 100, 2147483647, -2147483648, 12345, -99999] + \
            [rng.randint(-2 ** 31, 2 ** 31 - 1) for _ in range(40)]:
        lines.append('o_tcz\t%d %d' % (v, rng.choice([12, 16, 32])))
    return lines


def nontrivial(cmd, args, res):
    """A case exercises a reader/printer beyond the trivial answer."""
    if res in ('skip', 'EXC'):
        return cmd in ('asint', 'sti')
    if cmd == 'tbl':
        return True
    if cmd in ('num', 'atof', 'rdbl'):
        return not res.startswith('g=0000000000000000')
    return True


def shrink_string(h, cmd, s, suffix=''):
    """Greedy deletion of bytes while the oracle still fails (s is bytes)."""
    cur = s
    for _ in range(60):
        cands = [cur[:i] + cur[i + 1:] for i in range(len(cur))]
        if not cands:
            break
        inp = ''.join('%s\t%s%s\n' % (cmd, c.hex() if c else '-', suffix) for c in cands).encode()
        rc, out, err = vlib.run_lines(h, [], inp=inp, timeout=120)
        nxt = None
        for c, l in zip(cands, out):
            p = l.split('\t')
            if len(p) == 3 and p[2] not in ('1', 'ok', 'skip'):
                nxt = c
                break
        if nxt is None:
            break
        cur = nxt
    return cur


def run(chk):
    quick = chk.tier == 'quick'
    rng = random.Random(chk.seed)
    chk.trusted += ['extraction (ExtrOcamlBasic only; Z kept as Coq Z) + extract/num_drv.ml',
                    'harness/h_num.cpp built from the repo with ASan+UBSan (src/pdb.cpp included textually)',
                    'glibc strtod_l/strtol_l in the "C" locale as third party of the comparison',
                    'buffer sizes of to_str/to_str_prec read from sprintf.hpp by regular expression (stb_sprintf '
                    'is exempt from ASan by its own attribute, so the overrun is detected by length)']
    chk.assumptions += ['fast_float digit-to-binary conversion and stb_sprintf digit generation are not modelled: '
                        'the theorems about as_number hold for every conversion function rnd; the executable '
                        'model uses Num/Nearest.v (nearest, ties to even) and is compared three-way',
                        'int arithmetic of the integer readers: inputs whose value does not fit int are outside the '
                        'documented precondition ("no checking for overflow") and are not generated',
                        'strings shorter than 2^28 bytes (fast_float saturates the explicit exponent there)']
    proved = chk.prove()
    bufs = F.buffer_sizes()
    h, d = F.harness(), F.driver()
    loc_env = F.comma_locale()
    if loc_env:
        rc, out, err = vlib.run_lines(h, [], inp=b'locale\t\n', env=loc_env)
        active = any('dp=2c' in l for l in out)
        if not active:
            loc_env = None
    chk.extra['locales'] = ['C'] + (['xx_XX (built by localedef from gen/comma_locale.src: decimal_point ",", '
                                     'thousands_sep ".")'] if loc_env else [])
    if not loc_env:
        chk.assumptions.append('no non-C locale could be installed or built here (locale -a: C, C.utf8, POSIX): '
                               'locale independence was exercised under "C" only')
    reps = 1 if quick else 6
    for rep in range(reps):
        lines = gen_lines(rng, 2500 if quick else 6000, 1200 if quick else 3000, 1500 if quick else 4000, bufs)
        runs = [('C', None, lines)]
        if loc_env:
            sub = [l for l in lines if l.split('\t')[0] not in ('tbl',)]
            if quick:
                sub = sub[::2]
            runs.append(('xx_XX', loc_env, sub))
        for (lname, env, ls) in runs:
            res = vlib.correspond(chk, h, d, ls, env=env)
            for l in res['outputs']:
                p = l.split('\t')
                if len(p) == 3:
                    chk.case(lname + ' ' + p[0] + ' ' + p[1], nontrivial(*p),
                             sample={'locale': lname, 'cmd': p[0], 'args': p[1], 'impl': p[2]}
                             if chk.evaluations % 1499 == 0 else None,
                             bucket=lname + ':' + p[0])
            for (cmd, args, impl, model) in res['mismatches']:
                if cmd in ORACLE_LIKE:
                    if near_tie_excess(cmd, args, impl):
                        # stb_sprintf rounds from an approximation: a value within ~1e-12 (relative) of a rounding tie
                        # can be printed on the wrong side. One class of finding, whatever the value.
                        chk.violate('oracle', 'C12 stb_sprintf near-tie double rounding (printed text beyond half a unit of '
                                    'the last digit by at most 2^-57 of the value)', 'first instance: %s %s impl=%s (locale %s)' % (cmd, args, impl, lname),
                                    replay={'harness': 'h_num', 'line': cmd + '\t' + args, 'locale': lname})
                        continue
                    chk.violate('oracle', 'C12 printed text of %s %s is not within half a unit of the last digit '
                                '(locale %s)' % (cmd, args, lname), 'impl=%s model=%s' % (impl, model),
                                replay={'harness': 'h_num', 'line': cmd + '\t' + args, 'locale': lname})
                else:
                    chk.violate('correspondence', 'num-model disagrees with gemmi/libc on command %s (locale %s)'
                                % (cmd, lname), 'input=%s impl=%s model=%s' % (args, impl, model),
                                replay={'harness': 'h_num', 'line': cmd + '\t' + args, 'locale': lname},
                                found_input=False)
            seen = set()
            for (cmd, args, r) in res['oracle_fail']:
                key_args = args
                if cmd in ('o_num',) and len(seen) < 6:
                    raw = bytes.fromhex(args) if args != '-' else b''
                    small = shrink_string(h, cmd, raw)
                    seen.add((cmd, small))
                    key_args = (small.hex() or '-') + ' (text %r, shrunk from %r)' % (
                        small.decode('latin-1'), raw.decode('latin-1')[:60])
                chk.violate('oracle', 'C12 oracle %s fails on gemmi for %s (locale %s)' % (cmd, key_args, lname),
                            'oracle result: ' + r,
                            replay={'harness': 'h_num', 'line': cmd + '\t' + args, 'locale': lname})
            for (line, kind, err) in res['crashes']:
                chk.violate('crash', 'h_num %s on %s (locale %s)' % (kind, line, lname), err,
                            replay={'harness': 'h_num', 'line': line, 'locale': lname})
    chk.rule = ('strings: CIF-grammar derived (signs, leading zeros, missing integer/fraction part, exponents, s.u.), '
                'listed near misses and one/two-byte mutations, exact halfway decimals between adjacent doubles and '
                'their neighbours, long mantissas, sub-normals, overflow; integer fields with blanks/signs/trailing '
                'bytes and fixed-column cuts; doubles/floats stratified over the exponent range plus decimal ties and '
                'the 1e7/1e8 boundaries. Commands tbl/sti/rint/satoi/nsatoi/wsti/wsatoi/wnsatoi (numbers beyond int)/asint/num/atof/rdbl compared exactly '
                '(IEEE bit patterns) gemmi vs extracted model vs glibc strtod_l/strtol_l("C"); prec/tostr checked by the '
                'exact half-unit checker of the model; oracles o_num/o_int/o_dbl/o_print/o_buf/o_snp/o_tcz evaluated on gemmi; '
                'everything repeated under a locale with decimal point ",". non-trivial = result is not the all-zero '
                'double / not skipped')
    if not proved:
        chk.violate('proof', 'Properties_C12 ' + ','.join(getattr(chk, 'failed_theorems', [])),
                    getattr(chk, 'coq_log_tail', ''), found_input=False)


def replay(chk, path):
    import json
    r = json.load(open(path))['replay']
    h = F.harness()
    env = F.comma_locale() if r.get('locale') == 'xx_XX' else None
    rc, out, err = vlib.run_lines(h, [], inp=(r['line'] + '\n').encode(), env=env)
    print('\n'.join(out), err[-2000:])
    d = F.driver()
    rc, out2, err2 = vlib.run_lines(d, [], inp=('\n'.join(out) + '\n').encode())
    print('\n'.join(out2))
