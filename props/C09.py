"""C09: maps survive write-read; axis order and ASU-only storage do not change the map.
Theorems (Properties_C09.v) + correspondence of the Map model with gemmi + oracles evaluated on gemmi."""
import json
import random

import vlib
from props import fam_map as F


MANIFEST = {'technique': 'Coq proof (C remainder/index lemmas for all integers, set-up permutation for all headers/axis orders/extents, scaled operations in range for all table rows and compatible grid sizes) + exact differential check + oracles on gemmi', 'text': 'AsuBrick::uvw_end (Map/BrickEnd.v): along an axis with n points the grid points below the end are exactly those with u/n <= size/24 (bound included) or < size/24 (whole cell), for every n - compared with gemmi for every brick size and samplings up to a million. Theorems: modulo a n = a mod n for every a (n > 0) with C remainder semantics; index_n exact on [-n, 2n) and wrong outside it; index_s total; for all 564 rows of the regenerated table and EVERY grid size accepted by check_grid_factors each scaled operation maps in-grid points into [-n, 2n) (kernel-evaluated checker, soundness proved for all sizes and points); axis_positions accepts exactly the six permutations; in all three set-up modes, for each axis order, any start and any extent, file voxel (c,r,s) lands at grid[(start+crs) permuted mod sampling] and uncovered voxels hold the default - hence the axis order of the file does not change the map. Exact correspondence on all rows (grid factors, scaled operations, written header words), hand-made files in 6 axis orders x modes 0/1/2/6 x 2 byte orders x 3 set-up modes; oracles on gemmi: write->read identity (file, memory, other byte order), permuted / ASU-box files expand to the invariant full grid, Ccp4::set_extent (ASU brick and random boxes, also beyond the cell) keeps exactly the grid points inside the box and its file expands back to the map it was cut from, ASU mask marks one point per orbit, every symmetrize_* makes the grid invariant and is idempotent. NOT theorems (oracle only): orbit fill, idempotence/invariance of the symmetrisation functions, ASU mask, float header words.', 'note': 'Trusted: Coq kernel + vm_compute; table translator; extraction; harness. No axioms. Voxel values are small integers (exact in every mode); find_asu_brick is not re-implemented (its result is an input of the mask model).'}

def gen_cases(rng, h, info, quick):
    lines = []
    # ---- index arithmetic, aimed at the case-split boundaries of modulo / index_n
    for n in [1, 2, 3, 5, 24, 100, 2147483647]:
        for a in [-2 * n - 1, -2 * n, -n - 1, -n, -n + 1, -1, 0, 1, n - 1, n, n + 1, 2 * n - 1, 2 * n, 2 * n + 1,
                  -2147483648, 2147483647]:
            if -2147483648 <= a <= 2147483647:
                lines.append('modulo\t%d %d' % (a, n))
    for _ in range(300 if quick else 20000):
        n = rng.choice([1, 2, 3, 4, 7, 24, rng.randint(1, 1000), rng.randint(1, 2 ** 31 - 1)])
        a = rng.choice([rng.randint(-3 * n, 3 * n), rng.randint(-2 ** 31, 2 ** 31 - 1)])
        a = max(-2 ** 31, min(2 ** 31 - 1, a))
        lines.append('modulo\t%d %d' % (a, n))
    for _ in range(300 if quick else 20000):
        n = [rng.randint(1, 12) for _ in range(3)]
        u = [rng.choice([-n[i], -1, 0, n[i] - 1, n[i], 2 * n[i] - 1, rng.randint(-n[i], 2 * n[i] - 1)]) for i in range(3)]
        lines.append('idx\t%d %d %d %d %d %d' % (*n, *u))
    # ---- per-row: factors, scaled operations, compatibility test
    rows_all = info if not quick else info[::1]
    for ri in rows_all:
        lines.append('gridfac\t%d' % ri['row'])
        n = F.compatible_size(rng, ri)
        lines.append('sops\t%d %d %d %d' % (ri['row'], *n))
        lines.append('chkfac\t%d %d %d %d' % (ri['row'], *n))
        m = [rng.randint(1, 24) for _ in range(3)]
        lines.append('chkfac\t%d %d %d %d' % (ri['row'], *m))
        lines.append('hdrw\t%d %d %d %d %d' % (ri['row'], *F.compatible_size(rng, ri, small=True), rng.choice([0, 1, 2, 6])))
    # ---- symmetrisation / mask on the model and on gemmi (covering sample of rows x compatible sizes)
    sample = F.pick_rows(rng, info, 25 if quick else 300)
    bricks = []
    for ri in sample:
        n = F.compatible_size(rng, ri, small=quick or rng.random() < 0.7)
        bricks.append((ri, n))
        for which in range(5):
            lines.append('symm\t%d %d %d %d %d %d %d' % (which, ri['row'], *n, rng.randint(0, 99), rng.choice([-6, 0, 3])))
        for which in range(6):
            lines.append('o_symm\t%d %d %d %d %d %d' % (which, ri['row'], *n, rng.randint(0, 99)))
        lines.append('o_asu\t%d %d %d %d' % (ri['row'], *n))
    # the ASU brick and mask of EVERY tabulated setting, also in the quick tier (a defect in find_asu_brick
    # typically concerns a handful of settings), and the file cut to the ASU box for every storable one
    sampled = set(ri['row'] for ri in sample)
    for ri in info:
        if ri['row'] not in sampled:
            n = F.compatible_size(rng, ri, small=True)
            lines.append('o_asu\t%d %d %d %d' % (ri['row'], *n))
            if ri['storable']:
                lines.append('o_extent\t%d %d %d %d %d 9999 0 0 0 0 0' % (ri['row'], *n, rng.randint(0, 99)))
    # ---- setup(): hand-made files, every axis order / mode / byte order / set-up mode
    stor = F.pick_rows(rng, info, 30 if quick else 400, storable=True)
    for ri in stor:
        for rep in range(2 if quick else 6):
            n = F.compatible_size(rng, ri, small=quick)
            perm = rng.randrange(6)
            T = rng.choice('ffb')
            mode = rng.choice([0, 1, 2, 6]) if T == 'f' else rng.choice([0, 2])
            swap = rng.randrange(2)
            smode = rng.randrange(3)
            dflt = F.NAN_Z if T == 'f' else -1
            # box along X,Y,Z then permuted into columns/rows/sections
            ext = [rng.choice([n[i], rng.randint(1, n[i]), rng.randint(1, n[i] + 2)]) for i in range(3)]
            start = [rng.choice([0, 0, rng.randint(-n[i], n[i])]) for i in range(3)]
            if rng.random() < 0.3:
                ext, start = list(n), [0, 0, 0]
            axes = F.PERMS[perm]
            pos = [axes.index(k + 1) for k in range(3)]
            fn = [0, 0, 0]
            fs = [0, 0, 0]
            for i in range(3):
                fn[pos[i]] = ext[i]
                fs[pos[i]] = start[i]
            lines.append('setup\t%s %d %d %d %d %d %d %d %d %d %d %d %d %d %d %d %d %d %d' % (
                T, *fn, mode, *fs, *n, *axes, ri['ccp4'], swap, smode, dflt, rng.randint(0, 99)))
            # oracle: file derived from an invariant full-cell grid; e<=0 means "cover the ASU brick plus -e"
            for sm in range(3):
                cover = rng.random() < 0.7
                s3 = [rng.choice([0, 0, -1, -rng.randint(0, n[i])]) for i in range(3)] if cover else start
                e3 = [-rng.choice([0, 0, 1, 2]) for i in range(3)] if cover else ext
                lines.append('o_perm\t%s %d %d %d %d %d %d %d %d %d %d %d %d %d %d %d' % (
                    T, ri['row'], *n, perm, mode, swap, sm, rng.randint(0, 99), *s3, *e3))
            # a mask (Ccp4<int8_t>) read from 16-bit data modes, in either byte order (oracle only)
            lines.append('o_perm\tb %d %d %d %d %d %d %d %d %d %d %d %d %d %d %d' % (
                ri['row'], *n, perm, rng.choice([1, 6]), rng.randrange(2), rng.randrange(3), rng.randint(0, 99), 0, 0, 0, 0, 0, 0))
        n = F.compatible_size(rng, ri, small=quick)
        for T, mode in (('f', 0), ('f', 1), ('f', 2), ('f', 6), ('b', 0)):
            if quick and rng.random() < 0.5:
                continue
            lines.append('o_wr\t%s %d %d %d %d %d %d' % (T, ri['row'], *n, mode, rng.randint(0, 99)))
        # Ccp4::set_extent: the ASU brick, and random boxes (also beyond the cell and with negative corners)
        lines.append('o_extent\t%d %d %d %d %d 9999 0 0 0 0 0' % (ri['row'], *n, rng.randint(0, 99)))
        for _ in range(1 if quick else 4):
            lo = [rng.choice([0, -1, rng.randint(-600, 400), -rng.randint(0, 3) * 125]) for _ in range(3)]
            hi = [lo[i] + rng.choice([rng.randint(50, 1500), 1000, 999, 500, 1001]) for i in range(3)]
            lines.append('o_extent\t%d %d %d %d %d %d %d %d %d %d %d' % (ri['row'], *n, rng.randint(0, 99), *lo, *hi))
    # grids held in ZYX order (fast index along Z), header made from scratch: all three sizes different, two equal, cubic
    for _ in range(12 if quick else 300):
        n = rng.choice([[3, 4, 5], [5, 4, 3], [2, 7, 3], [6, 6, 4], [4, 6, 6], [5, 5, 5], [1, 2, 3],
                        [rng.randint(1, 12), rng.randint(1, 12), rng.randint(1, 12)]])
        lines.append('o_zyx\t%d %d %d %d %d' % (n[0], n[1], n[2], rng.randint(0, 99), rng.choice([0, 1, 2, 2, 6])))
    # AsuBrick::uvw_end (model Map/BrickEnd.v): every brick size the search may return x every sampling up to 200, and large ones
    sizes = [3, 4, 6, 8, 12, 16, 18, 24]
    ns = list(range(1, 60 if quick else 201)) + [255, 256, 1000, 4095, 4096, 65536, 1000000]
    for a in sizes:
        for n in ns:
            lines.append('bend\t%d %d %d %d %d %d' % (a, rng.choice(sizes), rng.choice(sizes), n, rng.choice(ns), rng.choice(ns)))
    return lines, bricks


def nontrivial(cmd, args, res):
    if res in ('EXC', 'skip'):
        return False
    if cmd in ('sops',):
        return not res.startswith('0')
    if cmd == 'setup':
        return ' 1 2 3 ' not in args[:60] or True
    return True


def report(chk, res):
    for l in res['outputs']:
        p = l.split('\t')
        if len(p) == 3:
            chk.case(p[0] + ' ' + p[1], nontrivial(*p),
                     sample={'cmd': p[0], 'args': p[1][:200], 'impl': p[2][:200]} if chk.evaluations % 397 == 0 else None,
                     bucket=p[0] + (':EXC' if p[2] == 'EXC' else ':skip' if p[2] == 'skip' else ''))
    for (cmd, args, impl, model) in res['mismatches']:
        chk.violate('correspondence', 'map-model disagrees with gemmi on command ' + cmd,
                    'input=%s impl=%s model=%s' % (args, impl[:300], model[:300]),
                    replay={'harness': 'h_map', 'line': cmd + '\t' + args}, found_input=False)
    for (cmd, args, r) in res['oracle_fail']:
        chk.violate('oracle', 'C09 %s fails on gemmi for %s' % (cmd, args), 'oracle result: ' + r,
                    replay={'harness': 'h_map', 'line': cmd + '\t' + args})
    for (line, kind, err) in res['crashes']:
        chk.violate('crash', 'h_map %s on %s' % (kind, line), err, replay={'harness': 'h_map', 'line': line})


def run(chk):
    quick = chk.tier == 'quick'
    rng = random.Random(chk.seed)
    F.gen_tables()
    chk.trusted += ['translator gen/dump_sg.cpp (space-group table used by scaled_ops_in_range and by the model)',
                    'extraction (ExtrOcamlBasic only; Z kept as Coq Z) + extract/map_drv.ml',
                    'harness/h_map.cpp built from the repository with ASan+UBSan (hand-made CCP4 files, independent orbit computation)']
    chk.assumptions += ['voxel values are small integers, exactly representable in every data mode (0,1,2,6)',
                        'C int arithmetic does not overflow for grids below 2^31 points (model uses unbounded Z)',
                        'find_asu_brick is not re-implemented: its uvw_end is an input of the mask model',
                        'the flattened voxel counter k of the model (k mod n0, k/n0 mod n1, k/(n0 n1)) stands for the three nested loops of setup()',
                        'floating-point header words (cell, statistics) are checked by the oracles only']
    proved = chk.prove()
    h, d = F.harness(), F.driver()
    info = F.rows_info(h)
    for rep in range(1 if quick else 6):
        lines, bricks = gen_cases(rng, h, info, quick)
        # the ASU brick is an input of the mask model: ask the implementation first
        rc, out, err = vlib.run_lines(h, [], inp=''.join('brick\t%d %d %d %d\n' % (ri['row'], *n) for ri, n in bricks).encode())
        for l in out:
            p = l.split('\t')
            if len(p) == 3 and p[2] != 'EXC':
                lines.append('asumask\t%s %s' % (p[1], p[2]))
        res = vlib.correspond(chk, h, d, lines)
        report(chk, res)
    chk.rule = ('index arithmetic at the boundaries of every case split and random ints; all 564 rows: grid factors, scaled '
                'operations, check_grid_factors, written header words; covering sample of rows (quick ~55, thorough 6 x ~330) x compatible grid sizes <= 24: '
                'symmetrize_{min,max,abs_max,sum,nondefault} and get_asu_mask compared exactly with the extracted model; hand-made '
                'files with 6 axis orders x modes 0/1/2/6 x 2 byte orders x 3 set-up modes x random boxes compared with the model '
                '(dimensions, header words, voxel hash); oracles on gemmi: write-read identity (file, memory, other byte order, '
                're-write), permuted/ASU-box file expands to the invariant full grid, one mask point per orbit, each symmetrize_* '
                'invariant/idempotent with the expected orbit value. non-trivial = not skipped and not an exception')
    if not proved:
        chk.violate('proof', 'Properties_C09 ' + ','.join(getattr(chk, 'failed_theorems', [])),
                    getattr(chk, 'coq_log_tail', ''), found_input=False)


def replay(chk, path):
    r = json.load(open(path))['replay']
    h = F.harness()
    rc, out, err = vlib.run_lines(h, [], inp=(r['line'] + '\n').encode())
    print('\n'.join(out), err[-2000:])
    d = F.driver()
    rc, out2, err2 = vlib.run_lines(d, [], inp=('\n'.join(out) + '\n').encode())
    print('\n'.join(out2))
