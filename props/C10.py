"""C10: operator algebra and triplet notation. Theorems (Properties_C10.v) + correspondence of
Op/Triplet model with gemmi + law oracles evaluated on gemmi."""
import random

import vlib
from props import fam_sym as F


MANIFEST = {'technique': 'Coq proof (lia/ring, unbounded in operator entries) + differential check of extracted Op/Triplet model vs gemmi', 'text': 'Theorems over all operators: composition agrees with successive application when representable, operator* = combine modulo lattice, exact inverse for all integral unimodular rotation parts, hkl action is the transpose action with phase h.t, printed fractions are in lowest terms; LOSSLESS TRIPLET NOTATION proved unbounded for all six letter styles (x X a A h H): parse_triplet(triplet(op, style)) = op for every operator with non-zero rotation rows (columns for reciprocal-space operators) and arbitrary integer entries (one Section proof over an abstract letter set, induction over printed terms; strtol inverts decimal printing), cross-checked on every operation of every tabulated group and by the exact differential run and the o_rt/o_spell oracles on gemmi.', 'note': 'Trusted: Coq kernel; extraction; harness. No axioms. C int overflow excluded by |entries| < 2^26. Decimal fractions exactly at the 0.05 tolerance are excluded from generation.'}

def gen_cases(rng, h, n_ops, n_str):
    rots = F.table_rotations(h)
    ops = F.gen_ops(rng, rots, n_ops)
    lines = []
    for (rot, tran) in ops:
        a = F.op_str(rot, tran, rng.choice([32, 120, 120, 32, 104]))
        (rot2, tran2) = rng.choice(ops)
        b = F.op_str(rot2, tran2, rng.choice([32, 120, 32, 104]))
        lines.append('mul\t%s %s' % (a, b))
        lines.append('combine\t%s %s' % (a, b))
        lines.append('inverse\t' + a)
        lines.append('rottype\t' + a)
        for style in (32, 120, 88, 97, 65):
            lines.append('triplet\t%s %d' % (F.op_str(rot, tran, rng.choice([32, 120])), style))
        lines.append('triplet\t%s %d' % (F.op_str(rot, [0, 0, 0], 104), rng.choice([104, 72, 32])))
        lines.append('triplet\t%s %d' % (a, rng.choice([104, 120, 32, 113, 0, 97])))
        h3 = [rng.randint(-30, 30) for _ in range(3)]
        lines.append('hklops\t%s %d %d %d' % (a, *h3))
        x = [rng.randint(-50, 50) for _ in range(3)]
        d = rng.choice([1, 2, 3, 7, 10])
        lines.append('xyz\t%s %d %d %d %d' % (a, x[0], x[1], x[2], d))
        if all(abs(v) < 200 for v in rot + tran):
            lines.append('seitz\t' + F.op_str(rot, tran, 120))
        # oracles on the implementation
        lines.append('o_rt\t' + F.op_str(rot, tran, 120))
        lines.append('o_inv\t' + F.op_str(rot, tran, 32))
        lines.append('o_comp\t%s %s %d %d %d %d' % (F.op_str(rot, tran, 32), F.op_str(rot2, tran2, 32),
                                                    x[0], x[1], x[2], d))
        lines.append('o_dual\t%s %d %d %d %d %d %d' % (F.op_str(rot, tran, 32), *h3, *x))
    # documented spellings of one operator: fractions vs decimal fractions, case, '_' as blank, multipliers
    dec = {'1/2': ['0.5', '.5', '0.50000'], '1/4': ['0.25', '.25'], '3/4': ['0.75', '.750'], '1/3': ['0.3333', '0.33333', '.333'],
           '2/3': ['0.6667', '0.66667', '.667'], '1/6': ['0.1667', '0.16667'], '5/6': ['0.8333', '0.83333'], '1/8': ['0.125'],
           '1/12': ['0.0833', '0.08333'], '5/24': ['0.2083', '0.20833'], '4/3': ['1.3333', '1.33333'], '5/4': ['1.25000', '1.25']}
    # long decimals (10 to 25 digits after the point), as written by programs that print doubles in full
    longdec = {'1/2': ['0.5000000000', '0.50000000000000000', '.5000000000000000000000000'], '1/3': ['0.3333333333', '0.33333333333333331', '0.333333333333333333333'],
               '2/3': ['0.6666666667', '0.66666666666666663', '0.666666666666666666667'], '1/4': ['0.2500000000', '0.250000000000'],
               '1/6': ['0.1666666667', '0.16666666666666666'], '5/6': ['0.8333333333', '0.83333333333333337'], '3/4': ['0.75000000000'],
               '1/8': ['0.1250000000000'], '1/12': ['0.0833333333', '0.083333333333333329'], '4/3': ['1.3333333333']}
    for fr, ds in longdec.items():
        dec.setdefault(fr, [])
        dec[fr] = dec[fr] + ds
        for dsp in ds:
            lines.append('parse\t%s 32' % F.hx('x+%s,y,z' % dsp))
            lines.append('parse\t%s 32' % F.hx('-y,x-y,%s+z' % dsp))
    for fr, ds in dec.items():
        for dsp in ds:
            for tmpl in ('x+%s,y,z', '-y,x-y,z+%s', 'x,%s+y,z', 'x-%s,-y,z', '%s*x,y,z', 'x,y,%s*x+z'):
                lines.append('o_spell\t%s %s' % (F.hx(tmpl % fr), F.hx(tmpl % dsp)))
    for a_, b_ in [('x,y,z', 'X,Y,Z'), ('x,y,z', ' x , y , z '), ('-x+1/2,y,z', '-x_+_1/2,y,z'), ('x,y,z+1/2', 'x,y,1/2+z'),
                   ('2*x,y,z', '+2*x,y,z'), ('x/2,y,z', '1/2*x,y,z'), ('h,k,l', 'H,K,L'), ('a,b,c', 'A,B,C'),
                   ('x-y,x,z+1/6', 'x-y,x,z+4/24'), ('-x,-y,z', '- x,- y,+ z')]:
        lines.append('o_spell\t%s %s' % (F.hx(a_), F.hx(b_)))
    for s in F.gen_triplet_strings(rng, n_str):
        nt = rng.choice([32, 32, 32, 120, 104, 97, 88, 113])
        lines.append('parse\t%s %d' % (F.hx(s), nt))
        if rng.random() < 0.3:
            lines.append('parse\t%s %d' % (F.hx(F.mutate_bytes(rng, s)), nt))
    for s in ['x,y,z', 'x,y', 'x,y,z,', '', ',,', 'x+,y,z', '1/0*x,y,z', 'x/5,y,z', '0.5+x,y,z', '.5+Y,x,z',
              '1.25000-y,x,z', 'x+0.1,y,z', '-x+1/2,-y,z+1/2', 'h,k,l', 'h+1/2,k,l',
              'x,k,z', 'a,b,c', 'a/2+b/2,a/2-b/2,-c', '2*x,y,z', 'x*2,y,z', '--x,y,z',
              'x-,y,z', 'x,y,z\x00', '\xe9,y,z', 'x y,z,x', '1/2*,y,z', 'x/-2,y,z', 'x/24,y,z', 'x/48,y,z']:
        lines.append('parse\t%s 32' % F.hx(s))
    return lines


def nontrivial(cmd, args, res):
    if res in ('EXC', 'skip'):
        return False
    if cmd in ('mul', 'combine', 'inverse', 'triplet', 'rottype', 'seitz'):
        return not args.startswith('24 0 0 0 24 0 0 0 24 0 0 0')
    return True


def run(chk):
    quick = chk.tier == 'quick'
    rng = random.Random(chk.seed)
    F.gen_tables()
    chk.trusted += ['translator gen/dump_sg.cpp (tables used by the finite theorems)',
                    'extraction (ExtrOcamlBasic only; Z kept as Coq Z) + extract/sym_drv.ml',
                    'harness/h_sym.cpp built from /repo with ASan+UBSan']
    chk.assumptions += ['C int arithmetic does not overflow for |entries| < 2^26 (model uses unbounded Z)',
                        'decimal fractions in triplets are compared away from the 0.05 tolerance boundary']
    proved = chk.prove()
    h, d = F.harness(), F.driver()
    total = 0
    for rep in range(1 if quick else 20):
        lines = gen_cases(rng, h, 1200 if quick else 20000, 1500 if quick else 30000)
        res = vlib.correspond(chk, h, d, lines)
        for l in res['outputs']:
            p = l.split('\t')
            if len(p) == 3:
                chk.case(p[0] + ' ' + p[1], nontrivial(*p), sample={'cmd': p[0], 'args': p[1], 'impl': p[2]}
                         if chk.evaluations % 997 == 0 else None, bucket=p[0] + (':EXC' if p[2] == 'EXC' else ''))
        for (cmd, args, impl, model) in res['mismatches']:
            chk.violate('correspondence', 'sym-model disagrees with gemmi on command ' + cmd,
                        'input=%s impl=%s model=%s' % (args, impl, model),
                        replay={'harness': 'h_sym', 'line': cmd + '\t' + args},
                        found_input=False)
        for (cmd, args, r) in res['oracle_fail']:
            chk.violate('oracle', 'C10 law %s fails on gemmi for %s' % (cmd, args), 'oracle result: ' + r,
                        replay={'harness': 'h_sym', 'line': cmd + '\t' + args})
        for (line, kind, err) in res['crashes']:
            chk.violate('crash', 'h_sym %s on %s' % (kind, line), err,
                        replay={'harness': 'h_sym', 'line': line})
    # a correspondence mismatch without an oracle failure: property no longer shown (model != code)
    chk.rule = ('operators: table rotations x translations in 1/24, general entries in -48..48; commands '
                'mul/combine/inverse/rot_type/triplet(styles)/parse(grammar+mutations)/hkl/xyz/seitz compared '
                'exactly with the extracted model; laws o_rt/o_inv/o_comp/o_dual evaluated on gemmi. '
                'non-trivial = not the identity operator and not an exception')
    if not proved:
        chk.violate('proof', 'Properties_C10 ' + ','.join(getattr(chk, 'failed_theorems', [])),
                    getattr(chk, 'coq_log_tail', ''), found_input=False)


def replay(chk, path):
    import json
    r = json.load(open(path))['replay']
    h = F.harness()
    rc, out, err = vlib.run_lines(h, [], inp=(r['line'] + '\n').encode())
    print('\n'.join(out), err[-2000:])
    d = F.driver()
    rc, out2, err2 = vlib.run_lines(d, [], inp=('\n'.join(out) + '\n').encode())
    print('\n'.join(out2))
