"""C11: unit-cell geometry. Theorems over R (Properties_C11.v) + correspondence of the same model, evaluated
exactly at Q(sqrt D), with gemmi's doubles (tolerance 1e-9) + law oracles evaluated on gemmi itself."""
import json
import random

import vlib
from props import fam_geo as F

ORACLE_WHAT = {
    'o_inv': 'fractionalize/orthogonalize are not mutually inverse',
    'o_vol': 'volume differs from det(orth)',
    'o_recip': 'reciprocal of the reciprocal cell is not the original / G* G != I',
    'o_d2': '1/d^2 differs from the squared length of the reciprocal-lattice vector',
    'o_box': 'orthogonalize_box does not contain a corner of the fractional box',
    'o_dist': 'distance_sq changes under a lattice translation',
    'o_cb': 'changed_basis_forward then _backward does not restore the cell',
    'o_compat': 'is_compatible_with_groupops disagrees with metric-tensor preservation',
}


MANIFEST = {'technique': 'Coq proof over the reals (field/nra/ring) for every valid cell + exact Q(sqrt D) executable mirror compared with gemmi within 1e-9 + identity oracles on gemmi', 'text': 'Theorems over R for all cells with positive edges and sines, s^2+c^2=1 and positive volume discriminant: frac.orth = I, volume = det(orth) = abc sqrt(D) > 0, reciprocal metric G* = G^-1 for the closed forms the code uses, the reciprocal cell is valid and the reciprocal of the reciprocal is the original, 1/d^2 = h^T G* h = |frac^T h|^2, is_compatible_with_groupops <=> every rotation preserves the metric tensor (exactly for eps = 0, within eps otherwise), change of basis acts as M^T G M and forward-then-backward restores G, orthogonalize_box contains all eight corner images (snapshot angle test refuted with a rational witness, over R and over Q), distance_sq invariant under lattice translations away from rounding ties, find_nearest_pbc_image consistent. The same definitions instantiated at Q(sqrt D) are extracted and compared with gemmi doubles (1e-9 relative; booleans exactly with a 1e-6 guard band) over every 90/120/oblique angle pattern; oracles on gemmi for each identity with 27 space groups.', 'note': 'Trusted: Coq kernel; Reals axioms (sig_forall_dec, sig_not_dec, functional_extensionality_dep); extraction; harness. libm and double rounding are assumed and tested with tolerance; set_from_vectors (sqrt/acos) assumed to reproduce the Gram matrix.'}

def hkl_cube(rng, n):
    out = [(0, 0, 0), (1, 0, 0), (0, 1, 0), (0, 0, 1), (1, 1, 1), (-1, 2, -3)]
    while len(out) < n:
        r = rng.choice([2, 5, 20, 60])
        out.append(tuple(rng.randint(-r, r) for _ in range(3)))
    return out[:n]


def rand_box(rng):
    lo = [F.dyadic(rng, -3, 2) for _ in range(3)]
    size = [rng.choice([F.Fr(0), F.Fr(1), F.Fr(1, 2), F.dyadic(rng, 0, 3)]) for _ in range(3)]
    if rng.random() < 0.3:
        lo = [F.Fr(0)] * 3
        size = [F.Fr(1)] * 3
    return lo, [a + b for a, b in zip(lo, size)]


def rot_candidates(rng, sgops):
    """integer (x24) matrices: rotations of space groups and change-of-basis-like matrices"""
    mats = []
    for ops in sgops.values():
        mats.extend(ops)
    extra = [[0, 24, 0, 24, 0, 0, 0, 0, -24], [24, 24, 0, -24, 24, 0, 0, 0, 24], [12, 12, 0, -12, 12, 0, 0, 0, 24],
             [24, 0, 0, 0, 24, 0, 24, 0, 24], [16, 8, 8, -8, 8, 8, -8, -16, 8], [0, 24, 24, 24, 0, 24, 24, 24, 0],
             [12, 12, 0, 0, 12, 12, 12, 0, 12], [48, 0, 0, 0, 24, 0, 0, 0, 24], [24, 0, 24, 0, 24, 0, 0, 0, 24]]
    return mats + extra


def load_sgops(h):
    rc, out, err = vlib.run_lines(h, [], inp=''.join('sgops\t%s\n' % n for n in F.SPACEGROUPS).encode())
    res = {}
    for l in out:
        p = l.split('\t')
        if len(p) == 3 and p[2] != 'none':
            w = [int(x) for x in p[2].split()]
            res[p[1]] = [w[1 + 9 * i: 10 + 9 * i] for i in range(w[0])]
    return res


def gen_cases(rng, sgops, n_cells, patterns_each):
    lines = []
    buckets = {}

    def add(line, bucket):
        lines.append(line)
        buckets[line] = bucket

    mats = rot_candidates(rng, sgops)
    # ---------------- exact cells: correspondence
    qcells = []
    for pat in F.angle_patterns():
        for _ in range(patterns_each):
            c = F.rand_qcell(rng, pat)
            if c:
                qcells.append((c, pat))
    for _ in range(n_cells):
        c = F.rand_qcell(rng)
        qcells.append((c, ''.join('R' if t == 'R' else ('H' if t[0] == 'H' else 'O') for t in c[3:6])))
    for c, pat in qcells:
        cs = ' '.join(c)
        add('props\t' + cs, 'q:' + pat)
        add('recip\t' + cs, 'q:' + pat)
        for hkl in hkl_cube(rng, 3):
            add('d2\t%s %d %d %d' % ((cs,) + hkl), 'q:' + pat)
        for _ in range(2):
            lo, hi = rand_box(rng)
            add('box\t%s %s %s' % (cs, ' '.join(map(F.fr, lo)), ' '.join(map(F.fr, hi))), 'q:' + pat)
        for _ in range(2):
            p = [F.dyadic(rng, -4, 4) for _ in range(3)]
            q = [F.dyadic(rng, -4, 4) if rng.random() < 0.7 else x + F.Fr(rng.choice([1, -1, 3, 5, -7]), 2)
                 for x in p]
            add('dist\t%s %s %s' % (cs, ' '.join(map(F.fr, p)), ' '.join(map(F.fr, q))), 'q:' + pat)
        m = rng.choice(mats)
        add('cb\t%s %s' % (cs, ' '.join(map(str, m))), 'q:' + pat)
        name = rng.choice(sorted(sgops))
        ops = sgops[name]
        eps = rng.choice(['1/1000', '1/1000', '1/100000', '1/10', '0', '5'])
        add('compat\t%s %s %d %s' % (cs, eps, len(ops), ' '.join(str(x) for o in ops for x in o)), 'q:' + pat)
    # ---------------- cells in degrees: oracles on gemmi
    dcells = []
    pats = ['RRR', 'ROO', 'ORO', 'OOR', 'RRO', 'ROR', 'ORR', 'OOO', 'RRH', 'HRR', 'RHR', 'HOO', 'OHO', 'OOH',
            'RHO', 'ROH', 'HRO', 'ORH', 'HOR', 'OHR']
    for pat in pats:
        for _ in range(patterns_each):
            dcells.append(F.rand_dcell(rng, pat))
    for _ in range(n_cells):
        dcells.append(F.rand_dcell(rng))
    dcells.append([10.0, 20.0, 30.0, 90.0, 70.0, 65.0])
    for c in dcells:
        cs = F.dcell_str(c)
        b = 'd:' + F.pattern_of(c[3:])
        f = [round(rng.uniform(-3, 3), 4) for _ in range(3)]
        add('o_inv\t%s %r %r %r' % (cs, *f), b)
        add('o_vol\t' + cs, b)
        add('o_recip\t' + cs, b)
        for hkl in hkl_cube(rng, 3):
            add('o_d2\t%s %d %d %d' % ((cs,) + hkl), b)
        for _ in range(3):
            lo, hi = rand_box(rng)
            add('o_box\t%s %s %s' % (cs, ' '.join(repr(float(x)) for x in lo), ' '.join(repr(float(x)) for x in hi)), b)
        for _ in range(2):
            p = [round(rng.uniform(-2, 2), 5) for _ in range(3)]
            q = [round(rng.uniform(-2, 2), 5) for _ in range(3)]
            n = [rng.randint(-6, 6) for _ in range(6)]
            add('o_dist\t%s %s %s %s' % (cs, ' '.join(map(repr, p)), ' '.join(map(repr, q)), ' '.join(map(str, n))), b)
        m = rng.choice(mats)
        add('o_cb\t%s %s' % (cs, ' '.join(map(str, m))), b)
    # compatibility: cells of the right system, of a wrong one, and near misses
    for name in sorted(sgops):
        for _ in range(max(1, patterns_each // 2)):
            good = F.cell_for_system(rng, name)
            for c in (good, F.rand_dcell(rng), [x + rng.choice([0, 0, 0.01, -0.003, 1e-5]) for x in good]):
                if not F.deg_cell_ok(*c[3:]):
                    continue
                eps = rng.choice(['0.001', '0.001', '1e-6', '0.1'])
                add('o_compat\t%s %s %s' % (F.dcell_str(c), eps, name), 'compat:' + name)
    return lines, buckets


def run(chk):
    quick = chk.tier == 'quick'
    rng = random.Random(chk.seed)
    chk.trusted += ['extraction (ExtrOcamlBasic only) + extract/geo_drv.ml (exact Q(sqrt D) values -> float for the comparison)',
                    'harness/h_geo.cpp built from the repository with ASan+UBSan',
                    'Coq Reals library (classical real-number axioms listed per theorem)']
    chk.assumptions += ['IEEE double arithmetic and libm (sin, cos, acos, sqrt, atan) are accurate to the 1e-9 relative '
                        'tolerance of the comparison (cells with discriminant >= 0.02)',
                        'angles enter gemmi in degrees computed as 2*atan(t) from the rational half-angle tangent',
                        'set_from_vectors (sqrt/acos) reproduces the Gram matrix of its three vectors (compared, not proved)',
                        'rounding ties of round() are excluded in the periodic-distance theorem; the comparison uses '
                        'dyadic fractional coordinates so that ties are exact and decided identically']
    proved = chk.prove()
    h, d = F.harness(), F.driver()
    sgops = load_sgops(h)
    for rep in range(1 if quick else 12):
        lines, buckets = gen_cases(rng, sgops, 150 if quick else 1500, 6 if quick else 40)
        res = vlib.correspond(chk, h, d, lines)
        for l in res['outputs']:
            p = l.split('\t')
            if len(p) == 3:
                key = p[0] + ' ' + p[1]
                trivial = p[2] in ('EXC', 'skip') or (p[0] in ('d2', 'o_d2') and p[1].endswith(' 0 0 0'))
                chk.case(key, not trivial, sample={'cmd': p[0], 'args': p[1], 'impl': p[2][:200]}
                         if chk.evaluations % 1499 == 0 else None,
                         bucket=p[0] + ' ' + buckets.get(p[0] + '\t' + p[1], '?') + (':skip' if p[2] == 'skip' else ''))
        for (cmd, args, impl, model) in res['mismatches']:
            chk.violate('correspondence', 'geo-model disagrees with gemmi on command ' + cmd,
                        'input=%s impl=%s model=%s' % (args, impl, model),
                        replay={'harness': 'h_geo', 'line': cmd + '\t' + args}, found_input=False)
        for (cmd, args, r) in res['oracle_fail']:
            chk.violate('oracle', 'C11 %s: %s for %s' % (cmd, ORACLE_WHAT.get(cmd, 'law fails'), args),
                        'oracle result: ' + r, replay={'harness': 'h_geo', 'line': cmd + '\t' + args})
        for (line, kind, err) in res['crashes']:
            chk.violate('crash', 'h_geo %s on %s' % (kind, line), err, replay={'harness': 'h_geo', 'line': line})
    chk.rule = ('exact cells: every R/H/O angle pattern (R = 90 exactly, H = 120 or 60, O = tan(angle/2) = p/q, q <= 12, '
                '40-140 deg) x rational edges 1-500, discriminant >= 0.02; commands props/recip/d2/box/dist/cb/compat '
                'compared with the exact Q(sqrt D) model within 1e-9 (booleans exactly, 1e-6 guard band). cells in degrees: '
                'the same patterns + random, oracles o_inv/o_vol/o_recip/o_d2/o_box/o_dist/o_cb/o_compat on gemmi. '
                'non-trivial = not skipped, hkl != 0')
    if not proved:
        chk.violate('proof', 'Properties_C11 ' + ','.join(getattr(chk, 'failed_theorems', [])),
                    getattr(chk, 'coq_log_tail', ''), found_input=False)


def replay(chk, path):
    r = json.load(open(path))['replay']
    h = F.harness()
    rc, out, err = vlib.run_lines(h, [], inp=(r['line'] + '\n').encode())
    print('\n'.join(out), err[-2000:])
    d = F.driver()
    rc, out2, err2 = vlib.run_lines(d, [], inp=('\n'.join(out) + '\n').encode())
    print('\n'.join(out2))
    for l in out:
        p = l.split('\t')
        if len(p) == 3 and p[0].startswith('o_') and p[2] not in ('1', 'ok', 'skip'):
            chk.violate('oracle', 'C11 %s: %s for %s' % (p[0], ORACLE_WHAT.get(p[0], 'law fails'), p[1]), p[2],
                        replay=r)
    for l in out2:
        if l.startswith('MISMATCH'):
            chk.violate('correspondence', 'geo-model disagrees with gemmi (replay)', l, replay=r, found_input=False)
