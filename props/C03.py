"""C03: binary-format readers are safe on arbitrary and truncated input (CCP4 maps + set-up, gzip container,
memory stream). Theorems (Properties_C03.v) + correspondence of the model with gemmi on structure-aware
corruptions + crash/timeout oracles on gemmi."""
import json
import random
import struct

import vlib
from props import fam_map as F

FIELDS = ['nx', 'ny', 'nz', 'mode', 'sx', 'sy', 'sz', 'mx', 'my', 'mz', 'mapc', 'mapr', 'maps', 'ispg']


MANIFEST = {'technique': 'Coq proof (CCP4 set-up index bounds from exactly the checks the code makes, symmetry expansion in bounds for every table row, gzip growth loop terminates, MemoryStream never past the end; snapshot behaviour refuted with witnesses) + outcome-class differential check + sanitizer/timeout runs on corrupted and truncated files', 'text': 'Theorems (repaired code): THE WHOLE OF Ccp4::setup() - re-indexing and, in Full mode, the symmetry expansion - returns or throws for every header (any space-group number and sampling), grid, default value and mode: the compatibility test (check_grid_factors) that the repaired code makes before the expansion is exactly the hypothesis the expansion theorem needs (C03_ccp4_setup_whole_in_bounds; the behaviour without that test is refuted by the header P 4/n, one stored point, sampling 3 x 1 x 1); for every header and data vector the re-indexing of setup() in every mode returns or throws and never indexes outside the grid, assuming only the tests the code itself makes; symmetrize_using_ops is in bounds for every table row on an accepted grid; the gzip buffer-growth loop finishes within `total` iterations with an exception or exactly `total` bytes; the MemoryStream cursor stays in [0, size] and every copied range is inside the buffer over arbitrary operation sequences. For ANY 20 prologue bytes of an MTZ file an accepted header offset converts to a word count and a byte position without leaving int64 (byte-level model Mtz/Data.v, compared with read_first_bytes of gemmi). The snapshot versions are refuted by vm_compute witnesses (zero sampling word -> remainder by zero, wrapped point counts, ISIZE = 0 non-termination, skip past the end, MTZ header offset 2^62+21). Outcome class (OK/EXC) of gemmi vs model for 14 header words x boundary values x modes x Ccp4<float>/<int8_t>; truncation at every offset through memory/file/gzip; random multi-word corruption (ASan+UBSan build and a UBSan+RLIMIT_AS build with per-case alarm). MTZ: valid merged / unmerged-with-batch-headers / sample / empty files written by gemmi, every integer field of the text header set to boundary values, totals and their parts changed consistently, prologue words, truncation, random record corruption, with and without data, through memory / file / gzip, under ASan+UBSan with alarm: OK|EXC required. Beyond its first 20 bytes the MTZ reader is NOT modelled here (sanitizer runs only; the header-record parsers are modelled for C08).', 'note': 'Trusted: Coq kernel; extraction; harness; sanitizers. No axioms. zlib, allocation failure and real pointer overflow are outside the model.'}

def setup_line(T, f, swap, smode, dflt, seed):
    return 'setup\t%s %s %d %d %d %d' % (T, ' '.join(str(f[k]) for k in FIELDS), swap, smode, dflt, seed)


def gen_setup_cases(rng, quick):
    """Valid hand-made headers, then each modelled field set to each structure-aware value."""
    lines = []
    bases = []
    for perm in range(6):
        axes = F.PERMS[perm]
        pos = [axes.index(k + 1) for k in range(3)]
        n = [4, 6, 2]
        ext = [3, 6, 2]
        st = [1, -2, 0]
        fn, fs = [0] * 3, [0] * 3
        for i in range(3):
            fn[pos[i]], fs[pos[i]] = ext[i], st[i]
        for ispg in (1, 19, 75):
            bases.append(dict(nx=fn[0], ny=fn[1], nz=fn[2], mode=2, sx=fs[0], sy=fs[1], sz=fs[2], mx=n[0], my=n[1], mz=n[2],
                              mapc=axes[0], mapr=axes[1], maps=axes[2], ispg=ispg))
    if quick:
        bases = [bases[i] for i in (0, 4, 8, 11, 13, 17)]
    for b in bases:
        for T, mode in (('f', 2), ('f', 0), ('b', 0), ('b', 2)) if not quick else (('f', 2), ('b', 0)):
            dflt = F.NAN_Z if T == 'f' else -1
            base = dict(b, mode=mode)
            for smode in range(3):
                for swap in (0, 1):
                    lines.append(setup_line(T, base, swap, smode, dflt, 3))
                for k in FIELDS:
                    for v in F.mutations(base[k]):
                        if k == 'mode' and v not in (0, 1, 2, 6):
                            f = dict(base, **{k: v})
                            lines.append(setup_line(T, f, rng.randrange(2), smode, dflt, 3))
                            continue
                        if k == 'mode':
                            continue
                        f = dict(base, **{k: v})
                        lines.append(setup_line(T, f, rng.randrange(2), smode, dflt, 3))
                # pairs: two extents / two sampling words negative, zero sampling with data, wrapped counts
                for (k1, k2) in (('nx', 'ny'), ('mx', 'my'), ('ny', 'nz'), ('my', 'mz')):
                    f = dict(base, **{k1: -base[k1], k2: -base[k2]})
                    lines.append(setup_line(T, f, 0, smode, dflt, 3))
                lines.append(setup_line(T, dict(base, mx=4194304, my=4194304, mz=4194304), 0, smode, dflt, 3))
                lines.append(setup_line(T, dict(base, mx=65536, my=65536, mz=65536), 0, smode, dflt, 3))
    # space group with sampling it is not compatible with (set-up must throw or succeed, never index outside)
    for _ in range(60 if quick else 3000):
        n = [rng.randint(2, 9) for _ in range(3)]
        ext = [rng.randint(1, n[i]) for i in range(3)]
        ispg = rng.choice([75, 76, 80, 89, 92, 143, 146, 150, 168, 177, 195, 198, 207, 212, 213, 16, 19, 22, 5])
        lines.append('setup\tf %d %d %d 2 0 0 0 %d %d %d 1 2 3 %d 0 0 %d 1' % (*ext, *n, ispg, F.NAN_Z))
    # the same with very small sampling along one or two axes and ANY space-group number: on such grids a symmetry mate
    # leaves the window [-n, 2n) of index_n before any collision of mates makes the expansion throw
    # (found on the unchanged tree: P 4/n, one stored point, sampling 3 x 1 x 1)
    lines.append('setup\tf 1 1 1 2 0 0 0 3 1 1 1 2 3 85 0 0 %d 1' % F.NAN_Z)
    for _ in range(400 if quick else 20000):
        n = [rng.choice([1, 1, 2, 3, 4, 5, 7, 12]) for _ in range(3)]
        ext = [rng.randint(1, n[i]) for i in range(3)]
        if rng.random() < 0.5:
            ext = [1, 1, 1]
        st = [rng.choice([0, 0, -1, 2]) for _ in range(3)]
        lines.append('setup\tf %d %d %d 2 %d %d %d %d %d %d 1 2 3 %d 0 0 %d 1' % (*ext, *st, *n, rng.randint(1, 230), F.NAN_Z))
    return lines


def gen_stream_cases(rng, quick):
    lines = ['mstream\t20 s30 t', 'mstream\t20 s20 t r0 c g5', 'mstream\t20 s19 c c t', 'mstream\t0 r0 r1 s0 s1 g2 c t',
             'mstream\t10 r4611686018427387903 s4611686018427387903 t', 'mstream\t10 r5 r4611686018427387000 r5 s4611686018427387000 c t']
    for _ in range(300 if quick else 20000):
        size = rng.choice([0, 1, 6, 7, 8, 20, 80, rng.randint(0, 200)])
        ops = []
        for _k in range(rng.randint(1, 8)):
            o = rng.choice('rrssggct')
            if o in 'rs':
                ops.append(o + str(rng.choice([0, 1, size, size + 1, rng.randint(0, max(1, size)), rng.randint(0, 3 * size + 3),
                                                2 ** 31, 2 ** 40])))
            elif o == 'g':
                ops.append('g' + str(rng.choice([1, 2, 7, 8, 81, rng.randint(1, 100)])))
            else:
                ops.append(o)
        lines.append('mstream\t%d %s' % (size, ' '.join(ops)))
    return lines


def gen_gz_cases(rng, quick):
    lines = []

    def rand_bytes(n, compressible):
        return bytes(rng.choice(b'ab') if compressible else rng.randrange(256) for _ in range(n))
    cases = [[b'hello\n', b''], [b'', b''], [b''], [b'x'], [b'hello\n'], [b'a' * 70000], [b'a' * 70000, b''],
             [b'abc' * 30000, b'z'], [b'q' * 10, b'', b''], [b'', b'q' * 10]]
    for _ in range(20 if quick else 150):
        k = rng.randint(1, 3)
        cases.append([rand_bytes(rng.choice([0, 0, 1, 5, 50, 300, 5000, 70000]), rng.random() < 0.7) for _ in range(k)])
    for members in cases:
        g = b''.join(F.gz_member(m) for m in members)
        total = sum(len(m) for m in members)
        lines.append('gz\t%d %d %d %s' % (len(members[-1]), total, len(g), g.hex()))
        # corrupted containers: ISIZE trailer set to the structure-aware values, truncation, byte flips
        for v in [0, 1, total + 1, max(0, total - 1), total * 2, 2 ** 31 - 1, 2 ** 31, 2 ** 31 + 1, 2 ** 32 - 1]:
            g2 = g[:-4] + struct.pack('<I', v)
            lines.append('o_gzx\t%d %d %d %s' % (v, total, len(g2), g2.hex()))
        if len(g) < 400:
            for cut in range(len(g)):
                lines.append('o_gzx\t0 0 %d %s' % (cut, g[:cut].hex() if cut else '-'))
        for _ in range(3):
            b = bytearray(g)
            b[rng.randrange(len(b))] ^= 1 << rng.randrange(8)
            lines.append('o_gzx\t0 0 %d %s' % (len(b), bytes(b).hex()))
    return lines


def gen_oracles(rng, quick):
    lines = []
    for T, mode in (('f', 2), ('f', 0), ('f', 1), ('f', 6), ('b', 0), ('b', 2)):
        for swap in (0, 1):
            for via in (0, 1, 2):
                if quick and via and (swap or mode not in (0, 2)):
                    continue
                lines.append('o_trunc\t%s %d %d %d %d %d' % (T, mode, swap, rng.choice([1, 19, 75]), rng.randrange(6), via))
            for rep in range(2 if quick else 12):
                lines.append('o_fuzz\t%s %d %d %d %d %d' % (T, mode, swap, rng.choice([0, 0, 1, 2]), rng.randint(0, 10 ** 6),
                                                             60 if quick else 300))
    return lines


MTZ_VALUES = ['0', '-1', '1', '2', '7', '13', '28', '30', '155', '157', '185', '186', '500', '1000', '1001', '65536',
              '2147483647', '-2147483648', '99999999', '4294967295', '-99', '276447231x', '276447231x,', '99999999999', '-89478486*x,', '1000001/24']


def gen_mtz_cases(rng, quick, hm):
    """Structure-aware corruptions of valid MTZ files written by gemmi (merged, unmerged with batch headers, the
    sample file of /repo/tests, a file with no reflections): every integer field of the text header set to boundary
    values, adjacent length fields changed consistently (a total and its parts), the binary prologue words, truncation,
    random byte/record corruption; with and without the data section; through memory, file and gzip."""
    lines = []
    rc, out, err = vlib.run_lines(hm, [], inp=b''.join(b'mtz_toks\t%d\nmtz_size\t%d\n' % (v, v) for v in range(4)))
    for v in range(4):
        toks = out[2 * v].split('\t')[2].split()
        size = int(out[2 * v + 1].split('\t')[2])
        for mode in range(8):       # memory / file / gzip / gzip + corrupt second member, with and without data
            lines.append('mtz_valid\t%d %d' % (v, mode))
        # text records rewritten: symmetry triplets with numbers at / beyond the parser limits, odd names and titles
        for key, text in (('SYMM', '276447231x,y,z'), ('SYMM', 'x,y,z+99999999999'), ('SYMM', '1000001*X,  Y,  Z'),
                          ('SYMM', '1000000*x+1000000*x+1000000*x+1000000*x+1000000*x,y,z'), ('SYMM', ',,'), ('SYMM', 'x,y'),
                          ('SYMINF', '99999999 99999999 Z 99999999 99999999 PG222'), ('SYMINF', "4 1 P 19 'P 21 21 21"),
                          ('NCOL', '2147483647 2147483647 2147483647'), ('CELL', 'nan inf -1 1e999 0 0'), ('SORT', '99999999999 1 2 3 4'),
                          ('COLUMN', 'x'), ('COLUMN', 'H H'), ('NDIF', '-5'), ('DATASET', '99999999999'), ('DCELL', '1'),
                          ('BATCH', '1 2 3 4 5 6 7 8 9 10 11 12 13 14 15 16 17 18 19 20')):
            lines.append('mtz_rec\t%d %d %s %s' % (v, rng.choice([0, 1]), key, text.encode().hex()))
        for _ in range(4 if quick else 200):
            lines.append('mtz_cut\t%d %d %d' % (v, rng.randint(size - 200, size + 5), rng.choice([6, 7])))
        vals = [int(t) for t in toks]
        for i, a in enumerate(vals):
            cand = set(MTZ_VALUES) | {str(a + 1), str(a - 1), str(2 * a), str(-a)}
            if quick and v in (2, 3):
                cand = set(rng.sample(sorted(cand), 6))
            for val in sorted(cand):
                for mode in ((0, 1) if not quick else (rng.choice([0, 1]),)):
                    lines.append('mtz_tok\t%d %d %d %s' % (v, mode, i, val))
            if not quick:
                lines.append('mtz_tok\t%d %d %d %s' % (v, rng.choice([2, 3, 4, 5]), i, rng.choice(MTZ_VALUES)))
            if i + 1 < len(vals):
                b = vals[i + 1]
                for (x, y) in ((a + 1, b - 1), (a - 1, b + 1), (a + b, 0), (0, a + b), (a + 1, b + 1), (b, a), (1000, 1000)):
                    lines.append('mtz_tok\t%d %d %d %d %d %d' % (v, rng.choice([0, 1]), i, x, i + 1, y))
            if i + 2 < len(vals):
                b, c = vals[i + 1], vals[i + 2]
                if a == b + c or not quick:
                    for (x, y, z) in ((a, b + 1, c - 1), (a, b - 1, c + 1), (a + 1, b + 1, c), (a + 1, b, c + 1), (1000, 500, 500),
                                      (1000, 1000, 0), (1000, 0, 1000), (1001, 501, 500), (0, 0, 0), (a, a, 0), (a, 0, a),
                                      (2 * a, 2 * b, 2 * c), (-a, -b, -c)):
                        for mode in (0, 1):
                            lines.append('mtz_tok\t%d %d %d %d %d %d %d %d' % (v, mode, i, x, i + 1, y, i + 2, z))
        cuts = range(size) if not quick else sorted(set(list(range(0, 100)) + rng.sample(range(size), 150) + list(range(size - 90, size))))
        for c in cuts:
            lines.append('mtz_cut\t%d %d %d' % (v, c, rng.choice([0, 1, 1, 1, 3, 5]) if not quick else rng.choice([0, 1])))
        for wi in range(20):
            for vi in range(14):
                if quick and wi > 3 and vi % 5:
                    continue
                lines.append('mtz_word\t%d %d %d %d' % (v, wi, vi, rng.choice([0, 1])))
        true_off = (size - 80) // 4   # not exact (headers follow) - only a scale for the neighbourhood values
        for off in [0, 1, 20, 21, 22, -1, -2, 2 ** 31 - 1, 2 ** 31, 2 ** 32, 2 ** 32 + 21, 2 ** 61 - 1, 2 ** 61, 2 ** 61 + 1, 2 ** 62,
                    2 ** 62 + 21, 2 ** 62 + 22, 2 ** 63 - 1, -2 ** 63, -2 ** 63 + 1, 3 * 2 ** 61 + 21, true_off, true_off + 21] + \
                   [rng.getrandbits(64) - 2 ** 63 for _ in range(4 if quick else 400)] + \
                   [rng.randint(21, true_off + 40) for _ in range(4 if quick else 400)]:
            for mode in (0, 1):
                lines.append('mtz_off64\t%d %d %d' % (v, off, mode))
        for _ in range(150 if quick else 20000):
            lines.append('mtz_rand\t%d %d %d %d' % (v, rng.randint(0, 10 ** 9), rng.choice([1, 1, 2, 3, 6]), rng.choice([0, 1, 1, 1, 3, 5])))
    return lines


def report(chk, res, hname):
    for l in res['outputs']:
        p = l.split('\t')
        if len(p) == 3:
            outcome = 'EXC' if p[2] == 'EXC' else 'skip' if p[2].startswith('skip') else 'CRASH' if p[2] in ('CRASH', 'TIMEOUT') else 'OK'
            chk.case(hname + ' ' + p[0] + ' ' + p[1][:300], outcome in ('OK', 'EXC'),
                     sample={'cmd': p[0], 'args': p[1][:160], 'impl': p[2][:160]} if chk.evaluations % 499 == 0 else None,
                     bucket=p[0] + ':' + outcome)
    for (cmd, args, impl, model) in res['mismatches']:
        if impl == 'skip-alloc':
            continue     # run by the build without ASan
        if impl in ('CRASH', 'TIMEOUT'):
            continue     # reported below with its sanitizer output
        chk.violate('correspondence', 'map-model disagrees with gemmi on command ' + cmd,
                    'input=%s impl=%s model=%s' % (args[:300], impl[:300], model[:300]),
                    replay={'harness': hname, 'line': cmd + '\t' + args}, found_input=False)
    for (cmd, args, r) in res['oracle_fail']:
        chk.violate('oracle', 'C03 %s fails on gemmi for %s' % (cmd, args[:200]), 'oracle result: ' + r,
                    replay={'harness': hname, 'line': cmd + '\t' + args})
    for (line, kind, err) in res['crashes']:
        what = 'TIMEOUT (non-termination)' if 'ALARM' in err or kind == 'TIMEOUT' else 'CRASH'
        chk.violate('crash', '%s %s on %s' % (hname, what, line[:300]), err[-1500:], replay={'harness': hname, 'line': line})


def run(chk):
    quick = chk.tier == 'quick'
    rng = random.Random(chk.seed)
    F.gen_tables()
    chk.trusted += ['extraction (ExtrOcamlBasic only) + extract/map_drv.ml',
                    'harness/h_map.cpp built twice from the repository: ASan+UBSan, and UBSan-only with RLIMIT_AS 2 GiB '
                    '(cases whose header implies an allocation above 2^27 elements run only in the second build)',
                    'per-case alarm (10-20 s) in the harness: a non-terminating reader is reported as a crash of that case']
    chk.assumptions += ['zlib is abstract in the gzip model: gzread delivers min(len, remaining) bytes',
                        'MemoryStream model tracks positions only; buffer contents (newline positions) are supplied by the driver',
                        'the MTZ reader skeleton is not modelled (harness/h_mtzfuzz.cpp: sanitizer runs on structure-aware corruptions only); std::bad_alloc / '
                        'std::length_error from absurd sizes count as exceptions',
                        'Full-mode symmetry expansion on a grid NOT accepted by check_grid_factors is tested, not proved '
                        '(the model predicts EXC/OK/OOB per case; no OOB was found)']
    proved = chk.prove()
    h, hub, d = F.harness(), F.harness_ub(), F.driver()
    lines = gen_setup_cases(rng, quick) + gen_stream_cases(rng, quick) + gen_gz_cases(rng, quick) + gen_oracles(rng, quick)
    res = vlib.correspond(chk, h, d, lines, timeout=1500)
    report(chk, res, 'h_map')
    # the cases skipped under ASan because of the allocation size, and the fuzz oracles, in the build without ASan
    again = [l.split('\t')[0] + '\t' + l.split('\t')[1] for l in res['outputs'] if l.endswith('\tskip-alloc')]
    again += [l for l in lines if l.startswith('o_fuzz') or l.startswith('o_trunc')]
    res2 = vlib.correspond(chk, hub, d, again, timeout=1500)
    report(chk, res2, 'h_map_ub')
    hm = F.harness_mtz()
    res3 = vlib.correspond(chk, hm, None, gen_mtz_cases(rng, quick, hm), timeout=1500,
                           env={'ASAN_OPTIONS': 'detect_leaks=0:abort_on_error=0:allocator_may_return_null=1:max_allocation_size_mb=2048'})
    # ASan aborts on an allocation it cannot satisfy (operator new never returns null): those cases are decided by
    # the UBSan build under RLIMIT_AS 2 GiB, where the same request throws std::bad_alloc
    oom = [c for c in res3['crashes'] if 'out-of-memory' in c[2] or 'allocation-size-too-big' in c[2]]
    res3['crashes'] = [c for c in res3['crashes'] if c not in oom]
    report(chk, res3, 'h_mtzfuzz')
    if oom:
        res4 = vlib.correspond(chk, F.harness_mtz_ub(), None, [c[0] for c in oom], timeout=1500)
        report(chk, res4, 'h_mtzfuzz_ub')
    # read_cif_gz / read_mmjson_gz / read_pdb_gz / read_structure_gz on corrupted gzip containers of the text samples
    from props import fam_readers, C02
    gzl = []
    for (path, ext) in C02.sample_files():
        kinds = {'.cif': ['cif', 'st'], '.ent': ['cif', 'pdb'], '.pdb': ['pdb', 'st'], '.json': ['json']}.get(ext, [])
        for kind in kinds:
            for mode in range(7):
                for _ in range(1 if quick else 40):
                    gzl.append('gzfile\t%s %s %d %d' % (kind, path, mode, rng.randint(1, 10 ** 9)))
    if quick:
        gzl = rng.sample(gzl, min(len(gzl), 300))
    res6 = vlib.correspond(chk, fam_readers.harness(), None, gzl, timeout=1500,
                           env={'ASAN_OPTIONS': 'detect_leaks=0:abort_on_error=0:allocator_may_return_null=1:max_allocation_size_mb=3072'})
    report(chk, res6, 'h_readers')
    # the first 20 bytes (signature, byte-order stamp, 32/64-bit header offset) against the byte-level model Mtz/Data.v
    from props import fam_mtz, C08
    res5 = vlib.correspond(chk, fam_mtz.harness(), fam_mtz.driver(), C08.first_bytes_cases(rng, 400 if quick else 20000), timeout=600)
    report(chk, res5, 'h_mtz')
    import glob, os
    for f in glob.glob('/tmp/gv_map_*') + glob.glob('/tmp/verif_mtzfuzz_*'):      # scratch files left behind by cases that crashed or timed out
        try:
            os.remove(f)
        except OSError:
            pass
    chk.rule = ('CCP4: 18 valid hand-made headers (6 axis orders x 3 space groups) x Ccp4<float>/Ccp4<int8_t> x 3 set-up modes x '
                'each of the 14 modelled header words set to {0, +-1, INT_MIN(+1), INT_MAX(-1), true+-1, 2*true, -true, 2^16, 2^21, 2^22}, '
                'pairs of negative extents / sampling words, wrapped point counts, incompatible sampling: outcome and result '
                'compared with the model (OK line / EXC); truncation at every offset (memory) or every 37th (file, gzip) and random '
                'multi-word corruption through memory / file / gzip streams in both builds: OK|EXC required. '
                'MemoryStream: random op sequences incl. lengths beyond the end and near 2^64 vs model. gzip: valid single- and '
                'multi-member files vs the growth-loop model; corrupted ISIZE trailers, every truncation, bit flips: OK|EXC, no timeout. '
                'read_cif_gz / read_mmjson_gz / read_pdb_gz / read_structure_gz on gzip containers of the text samples: valid, truncated, bit-flipped, ISIZE trailer set to boundary values, extra partial member, text cut before compression, header bytes corrupted: OK|EXC. '
                'MTZ: 4 valid files x every integer header token x ~25 values, consistent pairs/triples of adjacent length fields, 20 prologue words x 14 values, truncations, seeded random corruptions, 6 reading modes: OK|EXC. '
                'non-trivial = the reader returned or threw (not skipped)')
    if not proved:
        chk.violate('proof', 'Properties_C03 ' + ','.join(getattr(chk, 'failed_theorems', [])),
                    getattr(chk, 'coq_log_tail', ''), found_input=False)


def fam_readers_harness():
    from props import fam_readers
    return fam_readers.harness()


def fam_mtz_harness():
    from props import fam_mtz
    return fam_mtz.harness()


def replay(chk, path):
    r = json.load(open(path))['replay']
    h = fam_readers_harness() if r.get('harness') == 'h_readers' else fam_mtz_harness() if r.get('harness') == 'h_mtz' else F.harness_mtz() if r.get('harness') == 'h_mtzfuzz' else F.harness_mtz_ub() if r.get('harness') == 'h_mtzfuzz_ub' else F.harness() if r.get('harness') != 'h_map_ub' else F.harness_ub()
    rc, out, err = vlib.run_lines(h, [], inp=(r['line'] + '\n').encode(), timeout=120)
    print('\n'.join(out), err[-2000:], 'rc=%s' % rc)
    if r.get('harness', '').startswith('h_mtzfuzz') or r.get('harness') == 'h_readers':
        if rc != 0:
            chk.violate('crash', 'replayed input crashes', err[-2000:])
        return
    d = F.driver()
    if r.get('harness') == 'h_mtz':
        from props import fam_mtz
        d = fam_mtz.driver()
    rc, out2, err2 = vlib.run_lines(d, [], inp=('\n'.join(out) + '\n').encode())
    print('\n'.join(out2))
