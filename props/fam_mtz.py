"""MTZ family (C08 write/read round trip, C18 MTZ <-> SF-mmCIF): builders and input generators."""
import glob
import os
import random
import shutil
import struct

import vlib

MODEL_VO = ['Mtz/Header.vo', 'Mtz/Data.vo', 'Mtz/RowBuf.vo', 'Mtz/Spec_gen.vo', 'Mtz/Recipe.vo']
SPEC_VO = ['Mtz/SpecCheck.vo']


# short sanitizer reports: the SUMMARY line must survive vlib's 1500-character tail
SAN_ENV = {'ASAN_OPTIONS': 'detect_leaks=0:abort_on_error=0:allocator_may_return_null=1:print_legend=0'}


def gen_tables():
    """Translator: regenerate coq/Mtz/Spec_gen.v (default spec tables of MtzToCif / CifToMtz) from the repo."""
    exe = vlib.build_exe('dump_mtzspec', [vlib.ROOT + '/gen/dump_mtzspec.cpp'], flags=['-O0'])
    rc, out, err = vlib.sh([exe], timeout=120)
    if rc != 0:
        raise RuntimeError('dump_mtzspec failed: ' + err.decode()[-2000:])
    changed = vlib.write_if_changed(vlib.COQ + '/Mtz/Spec_gen.v', out)
    if changed:
        vlib.log('Spec_gen.v changed -> proofs over the spec tables will be re-checked')
    return changed


def harness():
    return vlib.build_exe('h_mtz', [vlib.ROOT + '/harness/h_mtz.cpp'] +
                          vlib.repo_src('mtz.cpp', 'mtz2cif.cpp', 'intensit.cpp', 'eig3.cpp', 'read_cif.cpp', 'json.cpp', 'symmetry.cpp', 'sprintf.cpp', 'gz.cpp'))


def driver():
    gen_tables()    # the recipe model runs on the default specification text regenerated from the repo
    return vlib.ocaml_driver('mtz', MODEL_VO)


def clean_scratch():
    for d in glob.glob('/tmp/hmtz-*'):
        shutil.rmtree(d, ignore_errors=True)


def hx(s):
    if isinstance(s, str):
        s = s.encode('latin-1')
    return s.hex() if s else '-'


# ---------------------------------------------------------------- MTZ object specs

SGS = ['P 1', 'P 21 21 21', 'C 1 2 1', 'P 43 21 2', 'I a -3 d', 'F 2 3', 'R 3 2:H', 'R 3:R', 'P 1 21 1',
       'P 61 2 2', 'I 2 2 2', 'P -1', 'F d -3 m:1', 'B 1 1 2', 'P 3 1 2', 'H 3', 'I 1 21 1', 'P 63/m m c']
TYPES = 'HJFDQGLKMEPWABYIR'
WORDCH = ''.join(chr(c) for c in range(33, 127))


def word(rng, n, alphabet=None):
    a = alphabet or 'ABCDEFGHIJKLMNOPQRSTUVWXYZabcdefghijklmnopqrstuvwxyz0123456789_()+-/.'
    if rng.random() < 0.15:
        a = WORDCH
    return ''.join(rng.choice(a) for _ in range(n))


def text(rng, n, alphabet):
    """n characters, blanks allowed inside but not at the ends."""
    if n == 0:
        return ''
    core = alphabet.replace(' ', '').replace('\t', '')
    t = [rng.choice(alphabet) for _ in range(n)]
    t[0] = rng.choice(core)
    t[-1] = rng.choice(core)
    return ''.join(t)


def f32bits(x):
    return struct.unpack('<I', struct.pack('<f', x))[0]


def cell6(rng, kind=None):
    kind = kind if kind is not None else rng.random()
    if kind < 0.08:
        return [0, 0, 0, 0, 0, 0]     # not set
    r4 = lambda lo, hi: round(rng.uniform(lo, hi), rng.choice([0, 1, 2, 3, 4]))
    if kind < 0.2:
        return [rng.choice([9999.9999, 1000, 9999.99994, 0.0001, 1234.56789, 999.99995])
                for _ in range(3)] + [rng.choice([90, 179.9999, 0.0001, 120]) for _ in range(3)]
    if kind < 0.4:   # more decimals than the header holds
        return [rng.uniform(5, 500) for _ in range(3)] + [rng.uniform(50, 130) for _ in range(3)]
    return [r4(5, 500) for _ in range(3)] + [r4(60, 125) for _ in range(3)]


def fnum(x):
    return repr(float(x))


class Spec:
    """A generated MTZ object. `fits` = inside the documented field widths (the FitsMtz precondition)."""

    def __init__(self):
        self.fits = True
        self.tags = []

    def line(self):
        w = [hx(self.sg), hx(self.title), str(self.valm)] + [str(s) for s in self.sort]
        w += [fnum(c) for c in self.cell] + [str(self.symmode), str(self.nrefl), str(self.seed), str(self.mode)]
        w.append(str(len(self.dss)))
        for d in self.dss:
            w += [str(d['id']), hx(d['proj']), hx(d['crys']), hx(d['name'])] + [fnum(c) for c in d['cell']]
            w.append(fnum(d['wave']))
        w.append(str(len(self.cols)))
        for c in self.cols:
            w += [hx(c['label']), str(ord(c['type'])), str(c['ds']), hx(c['src'])]
        w.append(str(len(self.batches)))
        for b in self.batches:
            w += [str(b['num']), hx(b['title'])] + [hx(a) for a in b['axes']]
        w.append(str(len(self.hist)))
        w += [hx(h) for h in self.hist]
        w.append(hx(self.app))
        return ' '.join(w)


def gen_spec(rng, quick=True, force=None):
    """force: dict of overrides (nbatch, ncol, nrefl, lablen, ...)."""
    force = force or {}
    s = Spec()
    s.sg = rng.choice(SGS)
    # title: printable, no leading/trailing blank (the reader trims), up to 70 in range
    tl = force.get('titlelen', rng.choice([0, 1, 5, 20, 40, 69, 70]))
    s.title = text(rng, tl, 'abcdefghij KLMNOP 0123456789.:-')
    # valm: NaN or a value that "%f" prints exactly
    s.valm = rng.choice([0x7fc00000, 0x7fc00000, f32bits(-999.0), f32bits(0.0), f32bits(-1e10), f32bits(0.5),
                         f32bits(1234.25), 0x7fc00001])
    s.sort = [rng.choice([0, 1, 2, 3, 4, 5, rng.randint(-99, 999)]) for _ in range(5)]
    s.cell = cell6(rng, force.get('cellkind'))
    if s.cell[0] == 0:
        s.cell = cell6(rng, 0.9)       # a global cell is needed for the resolution limits
    if s.sg in ('R 3 2:H', 'H 3'):      # the header stores 'R 3 2'/'H 3': the setting is recognised from the cell
        s.cell = [s.cell[0], s.cell[0], s.cell[2], 90.0, 90.0, 120.0]
    elif s.sg == 'R 3:R':
        s.cell = [s.cell[0], s.cell[0], s.cell[0], 75.5, 75.5, 75.5]
    s.symmode = rng.choice([0, 0, 1, 2, 3])
    s.nrefl = force.get('nrefl', rng.choice([0, 1, 2, 3, 7, 20, 50] + ([200, 2000] if rng.random() < 0.1 else [])))
    s.seed = rng.getrandbits(40)
    s.mode = force.get('mode', rng.choice([0, 0, 0, 1, 2]))
    nds = force.get('nds', rng.randint(1, 5))
    s.dss = []
    ids = rng.sample([0, 1, 2, 3, 4, 5, 7, 12, 99, 1000, 9999], nds)
    if rng.random() < 0.7:
        ids = list(range(nds))
    if nds >= 2 and rng.random() < 0.12:
        ids[rng.randrange(1, nds)] = ids[0]      # two datasets with one ID (files merged from two sources), each with its own cell
    for i in range(nds):
        nl = rng.choice([1, 3, 8, 20, 63, 64])
        d = {'id': ids[i], 'proj': word(rng, rng.choice([1, 5, nl])), 'crys': word(rng, rng.choice([1, 7, nl])),
             'name': word(rng, nl), 'cell': cell6(rng), 'wave': rng.choice([0.0, 1.0, 0.97918, 1.54178, 0.123456, 12.5])}
        s.dss.append(d)
    ncol = force.get('ncol', rng.choice([3, 3, 4, 5, 8, 12, 17, 25, 40] + ([1, 2] if rng.random() < 0.05 else [])))
    s.cols = []
    used = set()
    for i in range(ncol):
        ll = force.get('lablen', rng.choice([1, 1, 2, 4, 8, 12, 29, 30]))
        while True:
            lab = 'HKL'[i] if i < 3 and ll == 1 else word(rng, ll)
            if lab not in used:
                break
            ll = min(30, ll + 1) if ll < 30 else ll
        used.add(lab)
        ty = 'H' if i < 3 else (TYPES[(i - 3) % len(TYPES)] if rng.random() < 0.7 else rng.choice(TYPES))
        src = rng.choice(['', '', 'CREATED_07/08/2019_11:00:23', word(rng, rng.choice([1, 10, 35, 36]))])
        s.cols.append({'label': lab, 'type': ty, 'ds': rng.choice(ids), 'src': src})
    nb = force.get('nbatch', rng.choice([0, 0, 0, 1, 2, 5, 11, 12, 13, 24, 25, 30]))
    s.batches = []
    for i in range(nb):
        tl = rng.choice([0, 1, 10, 40, 69, 70])
        bt = text(rng, tl, 'abcdefgh IJKL 0123456789:')
        axes = [word(rng, rng.choice([1, 3, 6, 7]), 'ABCDEFGHIJKLMNOPQRSTUVWXYZ0123456789') for _ in range(rng.randint(0, 3))]
        axes += [''] * (3 - len(axes))
        s.batches.append({'num': rng.choice([i + 1, 100 + i, rng.randint(1, 999999), rng.randint(-99999, 0)]),
                          'title': bt, 'axes': axes})
    nh = rng.choice([0, 0, 1, 3, 30])
    s.hist = []
    for i in range(nh):
        hl = rng.choice([1, 10, 50, 79, 80])
        h = text(rng, hl, 'abcdefgh ijkl MNOP 0123456789:/.')
        s.hist.append(h)
    # (first bytes 0xFF / 0x00 / 0x1A: what a reader that tests one byte ahead with a char, a C string or a text-mode EOF loses)
    s.app = rng.choice(['', '', 'appended text\n', '\xff', '\xff\xfeA\x00p\x00', '\x00after a NUL', '\x1aafter ctrl-Z', '\xff' * 40, bytes(rng.getrandbits(8) for _ in range(rng.choice([1, 100, 700]))).decode('latin-1')])
    return s


def gen_unfit(rng, s):
    """Push one field of a fitting spec outside its width (correspondence of the header text only)."""
    s.fits = False
    k = rng.choice(['label31', 'title', 'src', 'dsname', 'histlong', 'bignum', 'histblank', 'titleblank',
                    'emptylabel', 'batchtitle', 'dsid', 'axes', 'valm'])
    s.tags.append(k)
    if k == 'label31':
        rng.choice(s.cols)['label'] = word(rng, rng.choice([31, 32, 40, 80]))
    elif k == 'title':
        s.title = 'T' + word(rng, rng.choice([70, 73, 74, 75, 90, 200]), 'abc def')[:-1] + 'e'
    elif k == 'src':
        rng.choice(s.cols)['src'] = word(rng, rng.choice([37, 38, 60]))
    elif k == 'dsname':
        rng.choice(s.dss)[rng.choice(['proj', 'crys', 'name'])] = word(rng, rng.choice([65, 66, 100]))
    elif k == 'histlong':
        s.hist = s.hist[:5] + ['H' + word(rng, rng.choice([80, 81, 100]), 'abc def') + 'x']
    elif k == 'bignum':
        s.sort = [rng.choice([1000, -100, 99999, -2147483647, 2147483647]) for _ in range(5)]
    elif k == 'histblank':
        s.hist = s.hist[:5] + [rng.choice([' ', '  ', '\t', '   ']) + 'indented ' + word(rng, rng.choice([0, 3, 60]))]
    elif k == 'titleblank':
        s.title = rng.choice([' lead', 'trail ', ' both ', 'tab\t'])
    elif k == 'emptylabel':
        rng.choice(s.cols[-1:])['label'] = ''
    elif k == 'batchtitle':
        if not s.batches:
            s.batches = [{'num': 1, 'title': '', 'axes': ['', '', '']}]
        rng.choice(s.batches)['title'] = rng.choice(['T' + word(rng, 75, 'abc d') + 'x', ' lead', 'trail  '])
    elif k == 'dsid':
        ds = rng.choice(s.dss)
        old = ds['id']
        ds['id'] = rng.choice([10000, 123456, 99999999, -5])
        for c in s.cols:
            if c['ds'] == old:
                c['ds'] = ds['id']
    elif k == 'axes':
        if not s.batches:
            s.batches = [{'num': 1, 'title': 'bt', 'axes': ['', '', '']}]
        rng.choice(s.batches)['axes'] = [word(rng, rng.choice([8, 9, 20]), 'ABCDEFG') for _ in range(3)]
    elif k == 'valm':
        s.valm = rng.choice([f32bits(1e-10), f32bits(3.4e38), f32bits(1.2345678), 0x7f800000])
    return s


# ---------------------------------------------------------------- C18: MTZ -> SF-mmCIF -> MTZ cases

# (label alternatives, type) groups of the default merged specification, in its order
CONV_GROUPS = [
    ([('FREE', 'I'), ('RFREE', 'I'), ('FREER', 'I'), ('FreeR_flag', 'I'), ('R-free-flags', 'I'), ('FreeRflag', 'I')], None),
    ([('IMEAN', 'J'), ('I', 'J'), ('IOBS', 'J'), ('I-obs', 'J')], 'Q'),
    ([('I(+)', 'K'), ('IOBS(+)', 'K'), ('I-obs(+)', 'K'), ('Iplus', 'K')], 'M'),
    ([('I(-)', 'K'), ('IOBS(-)', 'K'), ('I-obs(-)', 'K'), ('Iminus', 'K')], 'M'),
    ([('F', 'F'), ('FP', 'F'), ('FOBS', 'F'), ('F-obs', 'F')], 'Q'),
    ([('F(+)', 'G'), ('FOBS(+)', 'G'), ('F-obs(+)', 'G'), ('Fplus', 'G')], 'L'),
    ([('F(-)', 'G'), ('FOBS(-)', 'G'), ('F-obs(-)', 'G'), ('Fminus', 'G')], 'L'),
]
CONV_SINGLES = [[('DP', 'D'), ('SIGDP', 'Q')], [('FC', 'F')], [('PHIC', 'P')], [('FOM', 'W')],
                [('HLA', 'A'), ('HLB', 'A'), ('HLC', 'A'), ('HLD', 'A')],
                [('FWT', 'F'), ('PHWT', 'P')], [('2FOFCWT', 'F'), ('PH2FOFCWT', 'P')],
                [('DELFWT', 'F'), ('PHDELWT', 'P')], [('FOFCWT', 'F'), ('PHFOFCWT', 'P')]]


def gen_conv(rng, force=None):
    """One conversion case: subset of the labels of the default specification (or a custom spec)."""
    force = force or {}
    cols = []
    for alts, sig in CONV_GROUPS:
        if rng.random() < 0.5:
            lab, ty = rng.choice(alts)
            cols.append((lab, ty))
            if sig and rng.random() < 0.8:
                cols.append(('SIG' + lab, sig))
            # sometimes a second alternative of the same group is present too, before or after the first
            # (the specification takes the first alternative in ITS order, not in file order)
            if rng.random() < 0.2:
                lab2, ty2 = rng.choice([a for a in alts if a[0] != lab])
                extra = [(lab2, ty2)] + ([('SIG' + lab2, sig)] if sig and rng.random() < 0.8 else [])
                if rng.random() < 0.5:
                    cols[-(2 if cols[-1][0].startswith('SIG') else 1):-(2 if cols[-1][0].startswith('SIG') else 1)] = extra
                else:
                    cols += extra
    used_f = any(l in ('FWT', '2FOFCWT') for l, _ in cols)
    for grp in CONV_SINGLES:
        if rng.random() < 0.35:
            if grp[0][0] in ('2FOFCWT', 'FWT') and any(l in ('FWT', '2FOFCWT') for l, _ in cols):
                continue
            if grp[0][0] in ('DELFWT', 'FOFCWT') and any(l in ('DELFWT', 'FOFCWT') for l, _ in cols):
                continue
            cols += grp
    if 'cols' in force:
        cols = force['cols']
    spec = force.get('spec', [])
    if not spec and not force.get('exact_spec') and rng.random() < 0.3 and cols:
        # custom spec lines for the columns present, with assorted (valid) formats incl. wide ones
        fmts = ['', '', 'g', '.5g', '.3f', 'f', '.10f', '12.4f', '_10.2f', '-12.5e', '+.4g', '32.3f', '.15f', '#g', '20.12e', 'e']
        tags = {}
        spec = ['H H index_h', 'K H index_k', 'L H index_l']
        known = {'FREE': 'status', 'RFREE': 'status', 'FREER': 'status', 'FreeR_flag': 'status', 'R-free-flags': 'status', 'FreeRflag': 'status'}
        tagmap = {'J': 'intensity_meas', 'Q': None, 'F': 'F_meas_au', 'P': 'phase_calc', 'W': 'fom', 'D': 'pdbx_anom_difference'}
        seen = set()
        for lab, ty in cols:
            if ty == 'I':
                spec.append('%s I status S' % lab)
                continue
            tag = {'IMEAN': 'intensity_meas', 'I': 'intensity_meas', 'IOBS': 'intensity_meas', 'I-obs': 'intensity_meas',
                   'F': 'F_meas_au', 'FP': 'F_meas_au', 'FOBS': 'F_meas_au', 'F-obs': 'F_meas_au', 'FC': 'F_calc',
                   'PHIC': 'phase_calc', 'FOM': 'fom', 'DP': 'pdbx_anom_difference', 'SIGDP': 'pdbx_anom_difference_sigma',
                   'FWT': 'pdbx_FWT', 'PHWT': 'pdbx_PHWT', 'DELFWT': 'pdbx_DELFWT', 'PHDELWT': 'pdbx_DELPHWT',
                   'HLA': 'pdbx_HL_A_iso', 'HLB': 'pdbx_HL_B_iso', 'HLC': 'pdbx_HL_C_iso', 'HLD': 'pdbx_HL_D_iso'}.get(lab)
            if lab.startswith('SIG') and ty == 'Q' and lab[3:] in ('IMEAN', 'I', 'IOBS', 'I-obs'):
                tag = 'intensity_sigma'
            if lab.startswith('SIG') and ty == 'Q' and lab[3:] in ('F', 'FP', 'FOBS', 'F-obs'):
                tag = 'F_meas_sigma_au'
            if tag is None or tag in seen:
                continue
            seen.add(tag)
            spec.append(('%s %s %s %s' % (lab, ty, tag, force.get('fmt', rng.choice(fmts)))).strip())
    w = [str(force.get('skip_empty', int(rng.random() < 0.3))), str(force.get('trim', rng.choice([0, 0, 0, 3, 5]))),
         str(force.get('less_anom', rng.choice([0, 0, 0, 1, 2]))), str(force.get('free', rng.choice([-1, -1, 0, 1, 5]))),
         str(force.get('nrefl', rng.choice([0, 1, 2, 5, 8, 9, 30, 100, 400]))), str(rng.getrandbits(40)),
         str(force.get('mode', rng.choice([0, 0, 1, 1, 2, 3])))]
    w.append(str(len(cols)))
    for lab, ty in cols:
        w += [hx(lab), str(ord(ty))]
    w.append(str(len(spec)))
    w += [hx(l) for l in spec]
    # optional trailing token: row of the space-group table (default P 21 21 21); the harness skips settings that the
    # PDB-style name written to the mmCIF cannot identify (origin choices, non-standard settings sharing a name)
    if not force.get('nosg') and ('sgrow' in force or rng.random() < 0.5):
        w.append(str(force.get('sgrow', rng.choice([rng.randrange(564), -rng.randint(1, 14)]))))   # -k: k-th rhombohedral row
    return ' '.join(w)
