"""C08: MTZ write -> read is bit-identical in either byte order.
Theorems (Properties_C08.v) + byte-exact correspondence of the header text and of the parsed header
with the extracted model + the round-trip ORACLE evaluated on gemmi (memory / file / gzip, native / swapped)."""
import random
import re

import vlib
from props import fam_mtz as F


MANIFEST = {'technique': 'Coq proof (80-byte record/buffer bound for all header values, data bytes and byte-swap, offset arithmetic, per-record round trips) + byte-exact differential check of header text + write/read oracles on gemmi', 'text': 'Theorems: every emitted header record is exactly 80 bytes and no store leaves the 81-byte buffer for ANY field values and ANY number of batches (the snapshot packer is refuted with 13 batches); the WRITE macro semantics under the untruncated snprintf length; data words incl. NaN payloads read back bit-identically, swap is an involution and the byte-swapped file reads to the same offset and data; header-offset arithmetic incl. the 64-bit escape; print->parse round trip of NCOL, COLUMN, PROJECT, CRYSTAL, DATASET, SORT, SYMINF, MTZHIST, BH and batch TITLE records under explicit fits-preconditions (SYMM records are the triplet round trip of C10; the float-text records CELL/DCELL/DWAVEL/RESO/VALM and COLSRC are covered by the byte-exact correspondence only); every accepted header offset converts to a word count and byte position inside int64. Oracles on gemmi: write_to_string -> read from memory / file / gzip, native and byte-swapped, every field compared and data memcmp, for generated objects (1-40 columns, 0-2000 reflections, 0-30 batches, arbitrary float bit patterns, history, appended text).', 'note': 'Trusted: Coq kernel; extraction; harness. No axioms. Float text of %f/%g directives is supplied by the implementation (not modelled); little-endian host; C int overflow excluded.'}

def first_bytes_cases(rng, n):
    """hand-made 20-byte prefixes for read_first_bytes (incl. the 64-bit escape) and small written files."""
    import struct
    lines = []
    for _ in range(n):
        le = rng.random() < 0.5
        off = rng.choice([21, 22, 100, 2 ** 31 - 1, 2 ** 31, 2 ** 32 + 5, 2 ** 40 + 7, rng.getrandbits(rng.randint(5, 60)) + 21,
                          # the boundaries of the reader's range test and of int64
                          0, 1, 20, -1, -2, -2 ** 31, 2 ** 61 - 1, 2 ** 61, 2 ** 61 + 1, 2 ** 62 + 21, 2 ** 63 - 1, -2 ** 63,
                          rng.getrandbits(64) - 2 ** 63])
        e = '<' if le else '>'
        if off > 2 ** 31 - 1 or off < -2 ** 31 or rng.random() < 0.1:
            b = b'MTZ ' + struct.pack(e + 'i', -1) + (b'\x44\x41\0\0' if le else b'\x11\x11\0\0') + struct.pack(e + 'q', off)
        else:
            b = b'MTZ ' + struct.pack(e + 'i', off) + (b'\x44\x41\0\0' if le else b'\x11\x11\0\0') + struct.pack(e + 'q', rng.choice([0, rng.getrandbits(60)]))
        if rng.random() < 0.1:
            b = b[:8] + bytes([rng.getrandbits(8), rng.getrandbits(8), 0, 0]) + b[12:]
        lines.append('rd1\t' + b.hex())
    for _ in range(n // 4):
        lines.append('wr1\t%d %d' % (rng.choice([3, 4, 7, 40]), rng.choice([0, 1, 5, 100, 1000])))
    for _ in range(n // 2):
        nw = rng.choice([0, 1, 2, 5, 12])
        le = rng.random() < 0.5
        e = '<' if le else '>'
        words = bytes(rng.getrandbits(8) for _ in range(4 * nw))
        b = b'MTZ ' + struct.pack(e + 'i', nw + 21) + (b'\x44\x41\0\0' if le else b'\x11\x11\0\0') + bytes(8) + bytes(60) + words
        b += bytes(rng.getrandbits(8) for _ in range(rng.choice([0, 3, 80])))
        lines.append('rdd\t' + b.hex())
    return lines


def gen_cases(rng, n, quick):
    lines = []
    # aimed cases first: the batch-line boundaries, label widths, reflection counts
    aimed = []
    for nb in (1, 11, 12, 13, 14, 24, 25, 26, 30):
        aimed.append({'nbatch': nb})
    for ll in (1, 29, 30):
        aimed.append({'lablen': ll, 'ncol': 5})
    for nr in (0, 1, 2000):
        aimed.append({'nrefl': nr})
    for nc in (1, 2, 3, 40):
        aimed.append({'ncol': nc})
    aimed.append({'titlelen': 70})
    aimed.append({'mode': 1, 'nrefl': 50})
    for f in aimed:
        s = F.gen_spec(rng, quick, f)
        lines.append(('o_rt', s))
        lines.append(('hdr', s))
    for i in range(n):
        s = F.gen_spec(rng, quick)
        lines.append(('o_rt', s))
        if i % 2 == 0:
            lines.append(('hdr', s))
        if i % 3 == 0:
            # outside the field widths: only the header text and what the reader makes of it are compared
            u = F.gen_unfit(rng, F.gen_spec(rng, quick))
            lines.append(('hdr', u))
            if u.tags[0] in ('histblank', 'histlong', 'bignum', 'title', 'batchtitle'):
                lines.append(('o_crash', u))
    return lines


def bucket_of(cmd, s, res):
    if cmd in ('rd1', 'wr1', 'rdd'):
        return cmd
    b = cmd + (':unfit-' + s.tags[0] if not s.fits else '')
    if res in ('EXC', 'skip'):
        b += ':' + res
    return b


def run(chk):
    quick = chk.tier == 'quick'
    rng = random.Random(chk.seed)
    chk.trusted += ['extraction (ExtrOcamlBasic only; Z kept as Coq Z) + extract/mtz_drv.ml '
                    '(glue: spec parsing, the loop of read_history_and_batch_headers over the Coq per-record parsers)',
                    'harness/h_mtz.cpp built from the repo with ASan+UBSan (byte swapping of the file, field comparison)',
                    'zlib (gzip stream) and stb_sprintf (text of each float directive is an input of the model)']
    chk.assumptions += ['floats are abstract in the header model: the text of every %f directive is supplied by the '
                        'implementation; the parser model skips a float as one blank-delimited token',
                        'C int arithmetic does not overflow (field values are int32; the model uses Z)',
                        'little-endian host (the machine stamp written is 0x44 0x41); the swapped file is what a '
                        'big-endian writer would produce: every 4-byte item reversed, stamp 0x11 0x11',
                        'the 64-bit header-offset escape of the WRITER is covered by the theorems only '
                        '(a file above 8 GiB is not generated); the reader side is exercised on hand-made prefixes',
                        'round trip of VALM holds only for values that %f prints exactly; cell lengths below 10000 (DCELL has no separators)']
    proved = chk.prove()
    h, d = F.harness(), F.driver()
    n = 1200 if quick else 12000
    reps = 1 if quick else 4
    found = {}
    for rep in range(reps):
        cases = gen_cases(rng, n, quick)
        lines = []
        by_line = {}
        for cmd, s in cases:
            c = 'o_rt' if cmd == 'o_crash' else cmd
            l = c + '\t' + s.line()
            by_line[l] = (cmd, s)
            lines.append(l)
        lines += first_bytes_cases(rng, 200 if quick else 3000)
        res = vlib.correspond(chk, h, d, lines, env=F.SAN_ENV)
        F.clean_scratch()
        for l in res['outputs']:
            p = l.split('\t')
            if len(p) != 3:
                continue
            cmd, s = by_line.get(p[0] + '\t' + p[1], (p[0], None))
            nontriv = p[2] not in ('EXC', 'skip')
            chk.case(p[0] + ' ' + p[1], nontriv,
                     sample={'cmd': p[0], 'args': p[1][:300], 'impl': p[2][:200]} if chk.evaluations % 499 == 0 else None,
                     bucket=bucket_of(cmd, s, p[2]) if s is not None else p[0])
        for (cmd, args, impl, model) in res['mismatches']:
            if impl in ('CRASH', 'TIMEOUT'):
                continue
            found.setdefault(('correspondence', cmd), []).append(
                (len(args), 'mtz-model disagrees with gemmi on command ' + cmd,
                 'input=%s impl=%s model=%s' % (args[:2000], impl[:3000], model[:3000]), cmd + '\t' + args))
        for (cmd, args, r) in res['oracle_fail']:
            c0, s = by_line.get(cmd + '\t' + args, (cmd, None))
            if c0 == 'o_crash' or r in ('CRASH', 'TIMEOUT'):
                continue      # outside the field widths: only memory safety is required
            cls = re.sub(r'[0-9]+', 'N', re.sub(r'\[.*', '', r)).strip()
            found.setdefault(('oracle', cls), []).append(
                (len(args), 'C08 round trip fails on gemmi (%s) for spec %s' % (cls, args[:600]),
                 'oracle result: ' + r, cmd + '\t' + args))
        for (line, kind, err) in res['crashes']:
            m = re.search(r'SUMMARY: \S+ (\S+) (\S+?)(:\d+)* in (\S+)|(\S+:\d+):\d+: runtime error: ([^;\n]*)', err)
            cls = kind + ' ' + (m.group(0)[:160] if m else 'no sanitizer summary')
            cls = re.sub(r'0x[0-9a-f]+', 'ADDR', cls)
            found.setdefault(('crash', cls), []).append(
                (len(line), 'h_mtz %s on %s' % (cls, line[:600]), err, line))
    for (kind, cls), lst in sorted(found.items()):
        lst.sort()
        n, key, detail, line = lst[0]
        chk.violate(kind, key, detail + '\n(%d inputs of this class)' % len(lst),
                    replay={'harness': 'h_mtz', 'line': line}, found_input=(kind != 'correspondence'))
    chk.rule = ('generated MTZ objects: 1-40 columns of every type, 0-2000 reflections, 1-5 datasets, 0-30 batches '
                '(aimed at 11/12/13/24/25), labels of length 1..30 (31+ for the header text only), titles up to 70, '
                'data = arbitrary bit patterns incl. signalling NaNs/inf/denormals, history, appended text. '
                'hdr: all 80-byte records + the fields gemmi parses back, byte-exact against the extracted model; '
                'o_rt: write_to_string -> read from memory / file / gzip, native and byte-swapped, every field '
                'compared, data memcmp. non-trivial = the object is writable (>= 3 columns)')
    if not proved:
        chk.violate('proof', 'Properties_C08 ' + ','.join(getattr(chk, 'failed_theorems', [])),
                    getattr(chk, 'coq_log_tail', ''), found_input=False)


def replay(chk, path):
    import json
    r = json.load(open(path))['replay']
    h = F.harness()
    rc, out, err = vlib.run_lines(h, [], inp=(r['line'] + '\n').encode())
    print('\n'.join(o[:3000] for o in out), err[-3000:])
    d = F.driver()
    rc, out2, err2 = vlib.run_lines(d, [], inp=('\n'.join(out) + '\n').encode())
    print('\n'.join(o[:3000] for o in out2))
    F.clean_scratch()
