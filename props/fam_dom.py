"""DOM family (C19): harness/driver builders, history generators, shrinking."""
import glob
import os
import random

import vlib

MODEL_VO = ['Dom/Dom.vo']


def gen_tables():
    return False      # no generated tables: the model is written against cifdoc.hpp / util.hpp directly


def harness():
    return vlib.build_exe('h_dom', [vlib.ROOT + '/harness/h_dom.cpp'])


def driver():
    return vlib.ocaml_driver('dom', MODEL_VO)


def hx(s):
    if isinstance(s, str):
        s = s.encode('latin-1')
    return s.hex() if s else '-'


def lst(xs):
    return ' '.join([str(len(xs))] + [hx(x) for x in xs])


def lsts(xss):
    return ' '.join([str(len(xss))] + [lst(x) for x in xss])


# ---------------------------------------------------------------- vocabulary

CATS = ['_a.', '_b.', '_Cc.']
NAMES = ['x', 'y', 'z', 'id', 'W']
PLAIN = ['_t1', '_T2', '_u']
VALUES = ['1', '2.5', 'abc', "'a b'", '"x\'y"', '?', '.', "C1'", '-3', 'N', 'val_7', "'?'"]
BLOCKS = ['b1', 'B2', 'blk', 'x-3']


def rcase(rng, s):
    if rng.random() < 0.25:
        return ''.join(c.upper() if rng.random() < 0.5 else c.lower() for c in s)
    return s


def rval(rng):
    # now and then a value around / beyond the 3584-byte threshold of the writer's buffer (BufOstream::write)
    if rng.random() < 0.004:
        n = rng.choice([3583, 3584, 3585, 4000, 4096, 9000])
        k = rng.randrange(3)
        if k == 0:
            return 'L' + 'q' * (n - 1)
        if k == 1:
            return "'" + 'a b' * ((n - 2) // 3) + 'z' * ((n - 2) % 3) + "'"
        return 'M' + 'xy' * ((n - 1) // 2)
    return rng.choice(VALUES)


def rint(rng, lo=-3, hi=5):
    if rng.random() < 0.04:
        return rng.choice([-100, 99, 2147483647, -2147483648, 1000000])
    return rng.randint(lo, hi)


class Blk:
    def __init__(self, name, items):
        self.name = name
        self.items = items        # ('P', tag, value) | ('L', tags, nvalues) | ('O',) | ('E',)

    def loops(self):
        return [it for it in self.items if it[0] == 'L' and it[1]]

    def pairs(self):
        return [it for it in self.items if it[0] == 'P']

    def cats(self):
        """category prefix (as written) -> ('L', item) or ('P', [tags])"""
        res = {}
        for it in self.items:
            if it[0] == 'L' and it[1] and '.' in it[1][0]:
                res.setdefault(it[1][0][:it[1][0].index('.') + 1].lower(), ('L', it))
            elif it[0] == 'P' and '.' in it[1]:
                c = it[1][:it[1].index('.') + 1].lower()
                if c not in res:
                    res[c] = ('P', [])
                if res[c][0] == 'P':
                    res[c][1].append(it[1])
        return res


def parse_dump(dump):
    """The document dump of the harness -> list of Blk (exact state, used to aim the generator)."""
    w = dump.split(' ')
    i = 1
    blocks = []
    dec = lambda t: '' if t == '-' else bytes.fromhex(t).decode('latin-1')
    for _ in range(int(w[0][1:])):
        name, n = dec(w[i + 1]), int(w[i + 2])
        i += 3
        items = []
        for _k in range(n):
            k = w[i]
            if k == 'P':
                items.append(('P', dec(w[i + 1]), dec(w[i + 2])))
                i += 3
            elif k == 'L':
                nt, nv = int(w[i + 1]), int(w[i + 2])
                items.append(('L', [dec(t) for t in w[i + 3:i + 3 + nt]], nv))
                i += 3 + nt + nv
            elif k == 'O':
                items.append(('O',))
                i += 2
            else:
                items.append(('E',))
                i += 1
        blocks.append(Blk(name, items))
    return blocks


def pick_block(rng, st):
    if not st or rng.random() < 0.03:
        return rng.choice([len(st), len(st) + 3, 0])
    return rng.randrange(len(st))


def split_tag(tag):
    if '.' in tag:
        k = tag.index('.') + 1
        return tag[:k], tag[k:]
    return '', tag


def gen_finder(rng, blk):
    """-> (finder text, expected width or None, number of rows or None)"""
    cats = blk.cats() if blk else {}
    if cats and rng.random() < 0.8:
        cat = rng.choice(sorted(cats))
        kind, info = cats[cat]
    else:
        cat, kind, info = rng.choice(CATS).lower(), None, None
    if kind == 'L':
        present = [split_tag(t)[1] for t in info[1]]
        nrows = info[2] // len(info[1])
        catw = len(info[1])
    elif kind == 'P':
        present = [split_tag(t)[1] for t in info]
        nrows = 1
        catw = len(info)
    else:
        present, nrows, catw = [], None, None
    r = rng.random()
    if r < 0.17:
        c = rng.choice([cat, cat[:-1], rcase(rng, cat), cat.upper()] + (['a.', '', '_zz'] if rng.random() < 0.2 else []))
        return 'cat %s' % hx(c), catw, nrows
    fk = 'find' if r < 0.6 else 'any' if r < 0.75 else 'oradd'
    absent = [n for n in NAMES if n.lower() not in [p.lower() for p in present]] or ['q']
    if present and rng.random() < 0.85:
        k = rng.randint(1, len(present))
        tags = rng.sample(present, k) if rng.random() < 0.5 else present[:k]
    else:
        tags = rng.sample(NAMES, rng.randint(1, 3))
    tags = [rcase(rng, t) for t in tags]
    if fk != 'any' and rng.random() < 0.45:
        # ?optional columns: absent (position -1) or present
        extra = ['?' + rng.choice(absent)] if rng.random() < 0.75 else []
        tags = tags[:1] + [('?' + t if rng.random() < 0.3 else t) for t in tags[1:]]
        tags.insert(rng.randint(1, len(tags)), extra[0]) if extra else None
    if rng.random() < 0.08:
        tags.insert(rng.randint(0, len(tags)), rng.choice(absent))     # a required tag that is missing
    if rng.random() < 0.02:
        tags[0] = '?' + tags[0]
    if rng.random() < 0.02:
        tags = []
    seen, uniq = set(), []          # assumption of the check: tags of one finder call are distinct
    for t in tags:
        k = t.lstrip('?').lower()
        if k not in seen:
            seen.add(k)
            uniq.append(t)
    tags = uniq
    prefix = rcase(rng, cat)
    if rng.random() < 0.15:
        tags = [('?' if t.startswith('?') else '') + prefix + t.lstrip('?') for t in tags]
        prefix = ''
    if blk and rng.random() < 0.08:
        plain = [it[1] for it in blk.pairs() if '.' not in it[1]] or PLAIN
        tags, prefix, nrows = [rng.choice(plain)], '', 1
    return '%s %s %s' % (fk, hx(prefix), lst(tags)), len(tags), nrows


def gen_row(rng, n):
    if n is None:
        n = rng.randint(1, 3)
    elif rng.random() < 0.2:
        n = max(0, n + rng.choice([-1, 1, 2]))
    return [rval(rng) for _ in range(n)]


def row_index(rng, nrows, lo=-1):
    """a row index: mostly valid for a table with nrows rows"""
    if nrows and rng.random() < 0.75:
        return rng.randrange(nrows) if rng.random() < 0.8 else -rng.randint(1, nrows)
    return rint(rng, lo - 2, 4)


def any_tag(rng, blk):
    """some tag: mostly one that exists in the block"""
    if blk and blk.items and rng.random() < 0.8:
        it = rng.choice(blk.items)
        if it[0] == 'P':
            return rcase(rng, it[1])
        if it[0] == 'L' and it[1]:
            return rcase(rng, rng.choice(it[1]))
    if rng.random() < 0.2:
        return rng.choice(PLAIN)
    return rcase(rng, rng.choice(CATS) + rng.choice(NAMES))


def gen_op(rng, st):
    r = rng.random()
    if r < 0.03 or not st:
        used = [b.name for b in st]
        fresh = [n for n in BLOCKS if n not in used]
        name = rng.choice(fresh) if fresh and rng.random() < 0.8 else rng.choice(BLOCKS)
        pos = rng.choice([-1, -1, 0, len(st), rng.randint(0, len(st)), len(st) + 1, rint(rng, -3, 4)])
        return 'addblock %s %d' % (hx(name), pos)
    b = pick_block(rng, st)
    blk = st[b] if b < len(st) else None
    nitems = len(blk.items) if blk else 0
    if r < 0.14:
        tag = any_tag(rng, blk)
        if rng.random() < 0.05:
            tag = rng.choice(['x', '', 'a.x'])
        return 'setpair %d %s %s' % (b, hx(tag), hx(rval(rng)))
    if r < 0.23:
        mm = rng.random() < 0.4
        cats = sorted(blk.cats()) if blk else []
        cat = rng.choice(cats) if cats and rng.random() < 0.6 else rng.choice(CATS)
        names = rng.sample(NAMES, rng.randint(1, 4))
        if rng.random() < 0.03:
            names = []
        rows = [gen_row(rng, len(names)) for _ in range(rng.choice([0, 1, 1, 2, 3]))]
        prefix = rcase(rng, cat)
        if mm:
            prefix = rng.choice([prefix, cat[:-1], prefix] + (['b', ''] if rng.random() < 0.1 else []))
        elif rng.random() < 0.05:
            prefix = rng.choice(['', 'q.'])
        elif rng.random() < 0.1:
            names = [prefix + n for n in names]
            prefix = ''
        return '%s %d %s %s %s' % ('initmm' if mm else 'initloop', b, hx(prefix), lst(names), lsts(rows))
    if r < 0.28:
        def ipos():
            if nitems and rng.random() < 0.8:
                return rng.randrange(nitems) if rng.random() < 0.7 else -rng.randint(1, nitems)
            return rint(rng, -4, 8)
        return 'moveitem %d %d %d' % (b, ipos(), ipos())
    if r < 0.62:
        f, width, nrows = gen_finder(rng, blk)
        q = rng.random()
        if q < 0.18:
            t = 'look'
        elif q < 0.45:
            t = 'append ' + lst(gen_row(rng, width))
        elif q < 0.60:
            s = row_index(rng, nrows, 0)
            if s < 0 and rng.random() < 0.5:
                s = 0
            t = 'rmrows %d %d' % (s, min(s + rng.choice([1, 1, 1, 2]), 2147483647) if rng.random() < 0.8 else rint(rng, -1, 4))
        elif q < 0.74:
            t = 'moverow %d %d' % (row_index(rng, nrows), row_index(rng, nrows))
        elif q < 0.85:
            t = 'ensure'
        elif q < 0.89:
            t = 'erase'
        else:
            t = 'colerase %d' % (rng.randrange(width) if width and rng.random() < 0.8 else rint(rng, -1, 4))
        return 'table %d %s %s' % (b, f, t)
    if r < 0.86:
        loops = blk.loops() if blk else []
        if loops and rng.random() < 0.9:
            lp = rng.choice(loops)
            tag, width, nrows = rcase(rng, rng.choice(lp[1])), len(lp[1]), lp[2] // len(lp[1])
            cat = split_tag(lp[1][0])[0] or '_'
        else:
            tag, width, nrows, cat = any_tag(rng, blk), None, None, rng.choice(CATS)
        q = rng.random()
        if q < 0.10:
            l = 'look'
        elif q < 0.35:
            l = 'addrow %s %d' % (lst(gen_row(rng, width)), row_index(rng, nrows))
        elif q < 0.44:
            w = width or rng.randint(1, 3)
            k = rng.randint(0, 3) * w + (1 if rng.random() < 0.15 else 0)
            l = 'addvalues %s %d' % (lst([rval(rng) for _ in range(k)]), row_index(rng, nrows))
        elif q < 0.54:
            l = 'poprow'
        elif q < 0.66:
            l = 'moverow %d %d' % (row_index(rng, nrows, 0) if rng.random() < 0.2 else (rng.randrange(nrows) if nrows else 0),
                                   rng.randrange(nrows) if nrows and rng.random() < 0.85 else rint(rng, -1, 4))
        elif q < 0.79:
            names = [cat + n for n in rng.sample(NAMES + ['q', 'r2'], rng.choice([0, 1, 1, 1, 2, 2, 3]))]
            if names and rng.random() < 0.08:
                names[-1] = rng.choice(['bad', '', 'x_'])
            pos = rng.choice([-1, 0, width or 1, rng.randint(0, (width or 1)), rint(rng, -2, 6)])
            l = 'addcols %s %s %d' % (lst(names), hx(rval(rng)), pos)
        elif q < 0.90:
            l = 'rmcol %s' % hx(tag if rng.random() < 0.85 else any_tag(rng, blk))
        else:
            w = width if width is not None else rng.randint(1, 3)
            if rng.random() < 0.15:
                w = max(0, w + rng.choice([-1, 1]))
            hgt = rng.randint(0, 3)
            cols = [[rval(rng) for _ in range(hgt)] for _ in range(w)]
            if cols and rng.random() < 0.12:
                cols[rng.randrange(len(cols))].append(rval(rng))
            l = 'setall ' + lsts(cols)
        return 'loop %d %s %s' % (b, hx(tag), l)
    tag = any_tag(rng, blk)
    if r < 0.89:
        return 'colerase %d %s' % (b, hx(tag))
    q = rng.random()
    if q < 0.3:
        return 'findvalue %d %s' % (b, hx(tag))
    if q < 0.6:
        return 'findvalues %d %s' % (b, hx(tag))
    if q < 0.75:
        return 'getindex %d %s' % (b, hx(tag))
    if q < 0.9:
        return 'hastag %d %s' % (b, hx(tag))
    return 'cats %d' % b


# ---------------------------------------------------------------- initial documents

def gen_cif(rng):
    """A generated document as CIF text."""
    out = []
    names = rng.sample(BLOCKS, rng.randint(1, 3))
    for bi, bn in enumerate(names):
        out.append('data_' + bn)
        cats = CATS[:]
        rng.shuffle(cats)
        for cat in cats[:rng.randint(0, 3)]:
            tags = rng.sample(NAMES, rng.randint(1, 4))
            if rng.random() < 0.5:
                for t in tags:
                    out.append('%s%s %s' % (cat, t, rval(rng)))
                if rng.random() < 0.3:
                    out.append('%s %s' % (rng.choice(PLAIN), rval(rng)))
            else:
                out.append('loop_')
                for t in tags:
                    out.append(cat + t)
                for _ in range(rng.randint(1, 4)):
                    out.append(' '.join(rval(rng) for _ in tags))
        if rng.random() < 0.15:
            out += ['save_fr1', '_f.a 1', 'loop_', '_f.b', '_f.c', '1 2', '3 4', 'save_']
        if rng.random() < 0.3:
            out.append('%s %s' % (rng.choice(PLAIN), rval(rng)))
    return '\n'.join(out) + '\n'


def corpus_docs():
    """Small real CIF files of the repository (parsed documents)."""
    res = []
    for p in sorted(glob.glob(os.path.join(vlib.REPO, 'tests', '*.cif'))):
        try:
            if os.path.getsize(p) <= 6000:
                with open(p, 'rb') as f:
                    res.append((os.path.basename(p), f.read()))
        except OSError:
            pass
    return res


def final_states(h, specs):
    """Run the histories on gemmi and return the parsed final document of each (None if the run failed)."""
    from concurrent.futures import ThreadPoolExecutor
    lines = ['hist\t' + s for s in specs]
    n = max(1, min(vlib.NPROC, (len(lines) + 199) // 200))
    chunks = [lines[i::n] for i in range(n)]
    with ThreadPoolExecutor(max_workers=n) as ex:
        results = list(ex.map(lambda c: vlib._run_chunk(h, c, 600), chunks))
    final = {}
    for outs, _cr in results:
        for l in outs:
            p = l.split('\t')
            if len(p) == 3 and p[2].startswith('D'):
                try:
                    final[p[1]] = parse_dump(p[2].split(';')[-1].split(':')[-1])
                except (ValueError, IndexError):
                    pass
    return [final.get(s) for s in specs]


def gen_histories(rng, h, corpus, count, maxlen=60):
    """Histories grown in segments: after each segment gemmi itself tells the generator the exact document,
    so that the next operations can be aimed at valid (and nearly valid) arguments."""
    hs = []
    for _ in range(count):
        r = rng.random()
        if r < 0.25:
            init, kind = 'empty', 'empty'
        elif r < 0.85 or not corpus:
            init, kind = 'cif ' + hx(gen_cif(rng)), 'generated'
        else:
            name, text = rng.choice(corpus)
            init, kind = 'cif ' + hx(text), 'parsed:' + name
        target = rng.choice([rng.randint(1, 12), rng.randint(10, maxlen), maxlen])
        hs.append({'spec': init, 'kind': kind, 'target': target, 'n': 0})
    active = hs
    while active:
        states = final_states(h, [x['spec'] for x in active])
        nxt = []
        for x, st in zip(active, states):
            if st is None:
                continue       # gemmi crashed or refused the start: the history stays as it is (and gets reported)
            k = min(x['target'] - x['n'], rng.randint(2, 8))
            ops = []
            for _ in range(k):
                ops.append(gen_op(rng, st))
                if ops[-1].startswith('addblock'):
                    break      # block indices shift: look again
            x['spec'] += ';' + ';'.join(ops)
            x['n'] += len(ops)
            if x['n'] < x['target']:
                nxt.append(x)
        active = nxt
    return [(x['spec'], x['kind']) for x in hs]


# ---------------------------------------------------------------- running single histories, shrinking

def run_harness_line(h, line, timeout=120):
    rc, out, err = vlib.run_lines(h, [], inp=(line + '\n').encode(), timeout=timeout)
    res = None
    for l in out:
        p = l.split('\t')
        if len(p) == 3:
            res = p[2]
    return rc, res, err


def model_verdict(d, cmd, spec, got):
    rc, out, err = vlib.run_lines(d, [], inp=('%s\t%s\t%s\n' % (cmd, spec, got)).encode(), timeout=120)
    for l in out:
        p = l.split('\t')
        if p[0] == 'MISMATCH':
            return p[3][5:], p[4][6:]
    return None


def failure_of(h, d, spec):
    """Classify a history: None | ('crash', text) | ('oracle', text) | ('correspondence', (impl, model))."""
    rc, res, err = run_harness_line(h, 'o_hist\t' + spec)
    if rc != 0:
        return 'crash', err[-1500:]
    if res not in ('ok', 'skip'):
        return 'oracle', res
    rc, res, err = run_harness_line(h, 'histv\t' + spec)
    if rc != 0:
        return 'crash', err[-1500:]
    if res is None or res.startswith('HARNESS-ERROR') or res == 'EXC':
        return None
    mm = model_verdict(d, 'histv', spec, res)
    if mm:
        return 'correspondence', mm
    return None


def shrink(h, d, spec, kind, budget=150):
    """Delete operations while the same kind of failure remains."""
    parts = spec.split(';')
    init, ops = parts[0], parts[1:]
    runs = 0

    def fails(o):
        nonlocal runs
        runs += 1
        f = failure_of(h, d, ';'.join([init] + o))
        return f is not None and f[0] == kind

    # drop the tail after the failing step first (binary search on prefix length)
    lo, hi = 1, len(ops)
    while lo < hi and runs < budget:
        mid = (lo + hi) // 2
        if fails(ops[:mid]):
            hi = mid
        else:
            lo = mid + 1
    ops = ops[:hi]
    i = len(ops) - 2
    while i >= 0 and runs < budget:
        cand = ops[:i] + ops[i + 1:]
        if fails(cand):
            ops = cand
        i -= 1
    return ';'.join([init] + ops)


def describe(spec):
    """Human-readable form of a history spec (hex strings decoded)."""
    def dec(w):
        if w == '-':
            return "''"
        try:
            if len(w) % 2 == 0 and len(w) >= 2 and all(c in '0123456789abcdef' for c in w):
                s = bytes.fromhex(w).decode('latin-1')
                if all(32 <= ord(c) < 127 or c == '\n' for c in s):
                    return repr(s)
        except ValueError:
            pass
        return w
    out = []
    for p in spec.split(';'):
        ws = p.split(' ')
        out.append(' '.join([ws[0]] + [dec(w) if not w.lstrip('-').isdigit() or len(w) > 11 else w for w in ws[1:]]))
    return ' ; '.join(out)
