"""DOM family (C19): harness/driver builders, history generators, shrinking."""
import glob
import os
import random

import vlib

MODEL_VO = ['Dom/Dom.vo']


def gen_tables():
    return False      # no generated tables: the model is written against cifdoc.hpp / util.hpp directly


def harness():
    return vlib.build_exe('h_dom', [vlib.ROOT + '/harness/h_dom.cpp'])


def driver():
    return vlib.ocaml_driver('dom', MODEL_VO)


def hx(s):
    if isinstance(s, str):
        s = s.encode('latin-1')
    return s.hex() if s else '-'


def lst(xs):
    return ' '.join([str(len(xs))] + [hx(x) for x in xs])


def lsts(xss):
    return ' '.join([str(len(xss))] + [lst(x) for x in xss])


# ---------------------------------------------------------------- vocabulary

CATS = ['_a.', '_b.', '_Cc.']
NAMES = ['x', 'y', 'z', 'id', 'W']
PLAIN = ['_t1', '_T2', '_u']
VALUES = ['1', '2.5', 'abc', "'a b'", '"x\'y"', '?', '.', "C1'", '-3', 'N', 'val_7', "'?'"]
BLOCKS = ['b1', 'B2', 'blk', 'x-3']


def rcase(rng, s):
    if rng.random() < 0.25:
        return ''.join(c.upper() if rng.random() < 0.5 else c.lower() for c in s)
    return s


def rval(rng):
    return rng.choice(VALUES)


def rint(rng, lo=-3, hi=5):
    if rng.random() < 0.04:
        return rng.choice([-100, 99, 2147483647, -2147483648, 1000000])
    return rng.randint(lo, hi)


class Shadow:
    """Approximate knowledge of the document, only used to aim the generator at valid arguments."""

    def __init__(self, nblocks=0, loops=None):
        self.nblocks = nblocks
        self.loops = loops or {}      # (block, cat) -> list of names

    def block(self, rng):
        if rng.random() < 0.04 or self.nblocks == 0:
            return rng.choice([self.nblocks, self.nblocks + 3, 0])
        return rng.randrange(self.nblocks)


def gen_tags(rng, sh, b, cat, optional=True):
    known = sh.loops.get((b, cat.lower()))
    if known and rng.random() < 0.7:
        k = rng.randint(1, len(known))
        tags = rng.sample(known, k) if rng.random() < 0.5 else known[:k]
        if rng.random() < 0.35:
            extra = [n for n in NAMES if n not in tags]
            if extra:
                tags = tags + [rng.choice(extra)]
    else:
        tags = rng.sample(NAMES, rng.randint(1, 3))
    out = []
    for i, t in enumerate(tags):
        t = rcase(rng, t)
        if optional and ((i > 0 and rng.random() < 0.3) or (i == 0 and rng.random() < 0.03)):
            t = '?' + t
        out.append(t)
    if rng.random() < 0.02:
        out = []
    return out


def gen_finder(rng, sh, b):
    cat = rng.choice(CATS)
    r = rng.random()
    if r < 0.17:
        c = rng.choice([cat, cat[:-1], rcase(rng, cat), cat.upper()] + (['a.', '', '_zz'] if rng.random() < 0.2 else []))
        return 'cat %s' % hx(c), None, cat
    kind = 'find' if r < 0.55 else 'any' if r < 0.75 else 'oradd'
    tags = gen_tags(rng, sh, b, cat, optional=(kind != 'any'))
    prefix = rcase(rng, cat)
    if rng.random() < 0.15:
        # no prefix: full tags
        tags = [('?' if t.startswith('?') else '') + prefix + t.lstrip('?') for t in tags]
        prefix = ''
    if rng.random() < 0.1:
        tags = [rng.choice(PLAIN)] + ([('?' if rng.random() < 0.5 else '') + rng.choice(PLAIN)] if rng.random() < 0.5 else [])
        prefix = ''
    # assumption of the check: the tags of one finder call are distinct (case-insensitively)
    seen, uniq = set(), []
    for t in tags:
        k = t.lstrip('?').lower()
        if k not in seen:
            seen.add(k)
            uniq.append(t)
    tags = uniq
    if kind == 'oradd' and prefix:
        sh.loops.setdefault((b, cat.lower()), [t.lstrip('?').lower() for t in tags])
    return '%s %s %s' % (kind, hx(prefix), lst(tags)), len(tags), cat


def gen_row(rng, n):
    if n is None:
        n = rng.randint(1, 3)
    elif rng.random() < 0.2:
        n = max(0, n + rng.choice([-1, 1, 2]))
    return [rval(rng) for _ in range(n)]


def known_tag(rng, sh, b):
    keys = [k for k in sh.loops if k[0] == b and sh.loops[k]]
    if keys and rng.random() < 0.8:
        k = rng.choice(keys)
        return rcase(rng, k[1] + rng.choice(sh.loops[k])), len(sh.loops[k]), k
    cat = rng.choice(CATS)
    if rng.random() < 0.2:
        return rng.choice(PLAIN), None, None
    return rcase(rng, cat + rng.choice(NAMES)), None, None


def gen_op(rng, sh):
    r = rng.random()
    if r < 0.04 or sh.nblocks == 0:
        name = rng.choice(BLOCKS)
        pos = rint(rng, -1, 3)
        sh.nblocks += 1       # may be wrong (duplicate name / bad position): only a guess
        return 'addblock %s %d' % (hx(name), pos)
    b = sh.block(rng)
    if r < 0.16:
        cat = rng.choice(CATS)
        tag = rcase(rng, cat + rng.choice(NAMES)) if rng.random() < 0.8 else rng.choice(PLAIN)
        if rng.random() < 0.05:
            tag = rng.choice(['x', '', 'a.x'])
        return 'setpair %d %s %s' % (b, hx(tag), hx(rval(rng)))
    if r < 0.26:
        mm = rng.random() < 0.4
        cat = rng.choice(CATS)
        names = rng.sample(NAMES, rng.randint(1, 4))
        if rng.random() < 0.03:
            names = []
        rows = [gen_row(rng, len(names)) for _ in range(rng.choice([0, 1, 1, 2, 3]))]
        prefix = cat
        if mm:
            prefix = rng.choice([cat, cat[:-1], rcase(rng, cat)] + (['b', ''] if rng.random() < 0.1 else []))
        elif rng.random() < 0.07:
            prefix = rng.choice(['', 'q.'])
        elif rng.random() < 0.1:
            names = [prefix + n for n in names]
            prefix = ''
        sh.loops[(b, cat.lower())] = [n.lower() for n in names] if prefix else []
        return '%s %d %s %s %s' % ('initmm' if mm else 'initloop', b, hx(prefix), lst(names), lsts(rows))
    if r < 0.30:
        return 'moveitem %d %d %d' % (b, rint(rng, -4, 6), rint(rng, -4, 6))
    if r < 0.62:
        f, width, cat = gen_finder(rng, sh, b)
        q = rng.random()
        if q < 0.2:
            t = 'look'
        elif q < 0.5:
            t = 'append ' + lst(gen_row(rng, width))
        elif q < 0.62:
            s = rint(rng, -1, 3)
            t = 'rmrows %d %d' % (s, min(s + 1, 2147483647) if rng.random() < 0.6 else rint(rng, -1, 4))
        elif q < 0.74:
            t = 'moverow %d %d' % (rint(rng, -3, 3), rint(rng, -3, 3))
        elif q < 0.87:
            t = 'ensure'
        elif q < 0.91:
            t = 'erase'
        else:
            t = 'colerase %d' % rint(rng, -1, 3)
        return 'table %d %s %s' % (b, f, t)
    if r < 0.86:
        tag, width, key = known_tag(rng, sh, b)
        q = rng.random()
        if q < 0.12:
            l = 'look'
        elif q < 0.37:
            l = 'addrow %s %d' % (lst(gen_row(rng, width)), rint(rng, -1, 4))
        elif q < 0.45:
            w = width or rng.randint(1, 3)
            k = rng.randint(0, 3) * w + (1 if rng.random() < 0.15 else 0)
            l = 'addvalues %s %d' % (lst([rval(rng) for _ in range(k)]), rint(rng, -1, 4))
        elif q < 0.55:
            l = 'poprow'
        elif q < 0.65:
            l = 'moverow %d %d' % (rint(rng, -1, 3), rint(rng, -1, 3))
        elif q < 0.78:
            cat = key[1] if key else rng.choice(CATS)
            new = rng.sample(NAMES, rng.randint(1, 2))
            names = [cat + n for n in new]
            if rng.random() < 0.08:
                names[-1] = rng.choice(['bad', '', 'x_'])
            elif key:
                sh.loops[key] = sh.loops[key] + [n.lower() for n in new]
            l = 'addcols %s %s %d' % (lst(names), hx(rval(rng)), rint(rng, -2, 5))
        elif q < 0.90:
            if key and rng.random() < 0.8:
                n = rng.choice(sh.loops[key])
                nm = rcase(rng, key[1] + n)
                sh.loops[key] = [x for x in sh.loops[key] if x != n]
            else:
                nm = rng.choice(CATS) + rng.choice(NAMES)
            l = 'rmcol %s' % hx(nm)
        else:
            w = width if width is not None else rng.randint(1, 3)
            if rng.random() < 0.15:
                w = max(0, w + rng.choice([-1, 1]))
            h = rng.randint(0, 3)
            cols = [[rval(rng) for _ in range(h)] for _ in range(w)]
            if cols and rng.random() < 0.12:
                cols[rng.randrange(len(cols))].append(rval(rng))
            l = 'setall ' + lsts(cols)
        return 'loop %d %s %s' % (b, hx(tag), l)
    tag, _, key = known_tag(rng, sh, b)
    if r < 0.89:
        if key and tag.lower()[len(key[1]):] in sh.loops[key]:
            sh.loops[key] = [x for x in sh.loops[key] if x != tag.lower()[len(key[1]):]]
        return 'colerase %d %s' % (b, hx(tag))
    q = rng.random()
    if q < 0.3:
        return 'findvalue %d %s' % (b, hx(tag))
    if q < 0.6:
        return 'findvalues %d %s' % (b, hx(tag))
    if q < 0.75:
        return 'getindex %d %s' % (b, hx(tag))
    if q < 0.9:
        return 'hastag %d %s' % (b, hx(tag))
    return 'cats %d' % b


# ---------------------------------------------------------------- initial documents

def gen_cif(rng):
    """A generated document as CIF text + the shadow knowledge about it."""
    sh = Shadow()
    out = []
    names = rng.sample(BLOCKS, rng.randint(1, 3))
    for bi, bn in enumerate(names):
        out.append('data_' + bn)
        cats = CATS[:]
        rng.shuffle(cats)
        for cat in cats[:rng.randint(0, 3)]:
            tags = rng.sample(NAMES, rng.randint(1, 4))
            if rng.random() < 0.5:
                for t in tags:
                    out.append('%s%s %s' % (cat, t, rval(rng)))
                if rng.random() < 0.3:
                    out.append('%s %s' % (rng.choice(PLAIN), rval(rng)))
            else:
                out.append('loop_')
                for t in tags:
                    out.append(cat + t)
                for _ in range(rng.randint(1, 4)):
                    out.append(' '.join(rval(rng) for _ in tags))
                sh.loops[(bi, cat.lower())] = [t.lower() for t in tags]
        if rng.random() < 0.15:
            out += ['save_fr1', '_f.a 1', 'loop_', '_f.b', '_f.c', '1 2', '3 4', 'save_']
        if rng.random() < 0.3:
            out.append('%s %s' % (rng.choice(PLAIN), rval(rng)))
    sh.nblocks = len(names)
    return '\n'.join(out) + '\n', sh


def corpus_docs():
    """Small real CIF files of the repository (parsed documents)."""
    res = []
    for p in sorted(glob.glob(os.path.join(vlib.REPO, 'tests', '*.cif'))):
        try:
            if os.path.getsize(p) <= 6000:
                with open(p, 'rb') as f:
                    res.append((os.path.basename(p), f.read()))
        except OSError:
            pass
    return res


def shadow_of_text(text):
    """Crude shadow for a corpus file: number of blocks only."""
    n = sum(1 for l in text.split(b'\n') if l.lower().startswith(b'data_'))
    return Shadow(nblocks=n)


def gen_history(rng, corpus, maxlen=60):
    r = rng.random()
    if r < 0.25:
        init, sh, kind = 'empty', Shadow(), 'empty'
    elif r < 0.85 or not corpus:
        text, sh = gen_cif(rng)
        init, kind = 'cif ' + hx(text), 'generated'
    else:
        name, text = rng.choice(corpus)
        init, sh, kind = 'cif ' + hx(text), shadow_of_text(text), 'parsed:' + name
    n = rng.choice([rng.randint(1, 12), rng.randint(10, maxlen), maxlen])
    ops = [gen_op(rng, sh) for _ in range(n)]
    return ';'.join([init] + ops), kind


# ---------------------------------------------------------------- running single histories, shrinking

def run_harness_line(h, line, timeout=120):
    rc, out, err = vlib.run_lines(h, [], inp=(line + '\n').encode(), timeout=timeout)
    res = None
    for l in out:
        p = l.split('\t')
        if len(p) == 3:
            res = p[2]
    return rc, res, err


def model_verdict(d, cmd, spec, got):
    rc, out, err = vlib.run_lines(d, [], inp=('%s\t%s\t%s\n' % (cmd, spec, got)).encode(), timeout=120)
    for l in out:
        p = l.split('\t')
        if p[0] == 'MISMATCH':
            return p[3][5:], p[4][6:]
    return None


def failure_of(h, d, spec):
    """Classify a history: None | ('crash', text) | ('oracle', text) | ('correspondence', (impl, model))."""
    rc, res, err = run_harness_line(h, 'o_hist\t' + spec)
    if rc != 0:
        return 'crash', err[-1500:]
    if res not in ('ok', 'skip'):
        return 'oracle', res
    rc, res, err = run_harness_line(h, 'histv\t' + spec)
    if rc != 0:
        return 'crash', err[-1500:]
    if res is None or res.startswith('HARNESS-ERROR') or res == 'EXC':
        return None
    mm = model_verdict(d, 'histv', spec, res)
    if mm:
        return 'correspondence', mm
    return None


def shrink(h, d, spec, kind, budget=150):
    """Delete operations while the same kind of failure remains."""
    parts = spec.split(';')
    init, ops = parts[0], parts[1:]
    runs = 0

    def fails(o):
        nonlocal runs
        runs += 1
        f = failure_of(h, d, ';'.join([init] + o))
        return f is not None and f[0] == kind

    # drop the tail after the failing step first (binary search on prefix length)
    lo, hi = 1, len(ops)
    while lo < hi and runs < budget:
        mid = (lo + hi) // 2
        if fails(ops[:mid]):
            hi = mid
        else:
            lo = mid + 1
    ops = ops[:hi]
    i = len(ops) - 2
    while i >= 0 and runs < budget:
        cand = ops[:i] + ops[i + 1:]
        if fails(cand):
            ops = cand
        i -= 1
    return ';'.join([init] + ops)


def describe(spec):
    """Human-readable form of a history spec (hex strings decoded)."""
    def dec(w):
        if w == '-':
            return "''"
        try:
            if len(w) % 2 == 0 and len(w) >= 2 and all(c in '0123456789abcdef' for c in w):
                s = bytes.fromhex(w).decode('latin-1')
                if all(32 <= ord(c) < 127 or c == '\n' for c in s):
                    return repr(s)
        except ValueError:
            pass
        return w
    out = []
    for p in spec.split(';'):
        ws = p.split(' ')
        out.append(' '.join([ws[0]] + [dec(w) if not w.lstrip('-').isdigit() or len(w) > 11 else w for w in ws[1:]]))
    return ' ; '.join(out)
