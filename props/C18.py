"""C18: reflection data survive MTZ -> SF-mmCIF -> MTZ.
Theorems (Properties_C18.v: the 256-byte row formatter) + byte-exact correspondence of the loop body with the
extracted row-buffer machine + the end-to-end ORACLE evaluated on gemmi (write_cif -> read_string ->
as_refln_blocks -> convert_block_to_mtz) over column subsets x options x custom spec lines."""
import random
import re

import vlib
from props import fam_mtz as F


MANIFEST = {'technique': 'Coq proof (recipe model: column selection, well-formed recipes, end-to-end type preservation for the default specification; row-buffer invariant for all recipes and number lengths; spec tables inverse by vm_compute) + exact differential check of the recipe and byte-exact check of the loop body + conversion round-trip oracle on gemmi', 'text': 'Oracles on gemmi cover merged files (every label of the default specifications incl. two alternatives of one group in either file order, custom formats, any tabulated space group the PDB-style name identifies, all converter options) and unmerged files (1-4 sweeps, 1-2 datasets: indices, I/SIGI, batch-number mapping injective and spacing-preserving, one batch header per number); get_refln_block = as_refln_blocks. RECIPE (Mtz/Recipe.v = find_column_index, check_format, parse_spec_line, prepare_recipe; compared with gemmi on ~4000 specifications per run, default and adversarial custom lines): a line A|B|C selects the first alternative in spec order that is a label of the file and the first such column in file order; every returned recipe, for every list of lines, options and file, is non-empty, copies only existing columns or the five variables, has widths <= 32 (the hypothesis of the row-buffer theorem), has no repeated tag, contains H K L; every entry comes from a line with the requested type; for the default merged specification and EVERY file each mapped column is written under a tag that the default mmCIF->MTZ table maps back to a column of the same MTZ type (end to end over both tables, regenerated from /repo as raw text). Two defects found by this model and repaired (repeated index_h tag; status format on a variable read columns[-2]). Theorems: the 256-byte row formatter never stores outside its buffer for any recipe (min_width <= 32) and formatted numbers of any length (snapshot behaviour refuted with witnesses incl. 1e30 under the default %.3f); every tag mapped by the two default MTZ->CIF specs regenerated from /repo is mapped back by the CIF->MTZ table to the same type and label, status codes o/f -> 1/0. Loop body compared byte-exactly with the extracted machine (incl. .30f/.60f/.99f formats); oracle on gemmi: MtzToCif::write_cif -> read -> as_refln_blocks -> CifToMtz preserves hkl set/order, cell, space group, mapped values to printed precision, NaN stays missing, free-flag membership, rectangular valid loop, x options (skip_empty, trim, less_anomalous, free flag value, custom spec lines).', 'note': 'Trusted: Coq kernel; translator gen/dump_mtzspec.cpp; extraction; harness. No axioms. Merged files only; loop_rectangular is oracle-only.'}

def gen_rows_case(rng):
    """rows: only float columns with custom formats (the model predicts every byte of the loop body)."""
    fmts = ['', 'g', '.5g', '.3f', 'f', '.10f', '12.4f', '_10.2f', '-12.5e', '32.3f', '.15f', '20.12e', '.30f', '.60f', '.99f']
    n = rng.randint(1, 12)
    pool = [('FP', 'F', 'F_meas_au'), ('SIGFP', 'Q', 'F_meas_sigma_au'), ('FC', 'F', 'F_calc'), ('PHIC', 'P', 'phase_calc'),
            ('FOM', 'W', 'fom'), ('FWT', 'F', 'pdbx_FWT'), ('PHWT', 'P', 'pdbx_PHWT'), ('DELFWT', 'F', 'pdbx_DELFWT'),
            ('PHDELWT', 'P', 'pdbx_DELPHWT'), ('HLA', 'A', 'pdbx_HL_A_iso'), ('HLB', 'A', 'pdbx_HL_B_iso'),
            ('IMEAN', 'J', 'intensity_meas'), ('SIGIMEAN', 'Q', 'intensity_sigma'), ('DP', 'D', 'pdbx_anom_difference')]
    cols = rng.sample(pool, min(n, len(pool)))
    fm = rng.choice(fmts) if rng.random() < 0.5 else None
    spec = ['H H index_h ' + rng.choice(['', 'g', '4.0f']), 'K H index_k', 'L H index_l']
    for lab, ty, tag in cols:
        spec.append(('%s %s %s %s' % (lab, ty, tag, fm if fm is not None else rng.choice(fmts))).strip())
    return F.gen_conv(rng, {'cols': [(l, t) for l, t, _ in cols], 'spec': spec, 'skip_empty': 0, 'trim': 0,
                            'less_anom': 0, 'nrefl': rng.choice([1, 2, 5, 9, 40])})


RCP_POOL = [('FP', 'F'), ('SIGFP', 'Q'), ('F', 'F'), ('SIGF', 'Q'), ('I', 'J'), ('SIGI', 'Q'), ('IMEAN', 'J'), ('SIGIMEAN', 'Q'),
            ('FC', 'F'), ('PHIC', 'P'), ('FreeR_flag', 'I'), ('FREE', 'I'), ('DP', 'D'), ('SIGDP', 'Q'), ('I(+)', 'K'),
            ('SIGI(+)', 'M'), ('I(-)', 'K'), ('SIGI(-)', 'M'), ('F(+)', 'G'), ('SIGF(+)', 'L'), ('F(-)', 'G'), ('SIGF(-)', 'L'),
            ('FOM', 'W'), ('HLA', 'A'), ('X', 'R'), ('FWT', 'F'), ('PHWT', 'P'), ('2FOFCWT', 'F'), ('SIGX', 'Q')]
RCP_TAGS = ['F_meas_au', 'F_meas_sigma_au', 'intensity_meas', 'intensity_sigma', 'status', 'index_h', 'index_k', 'index_l',
            'pdbx_r_free_flag', 'x', 'a.b', '_x', 'F_calc', 'phase_calc', 'fom', 'pdbx_F_plus', 'pdbx_F_minus', 'pdbx_I_plus',
            'pdbx_I_minus', 'pdbx_anom_difference', 'y1', 'y2', 'y3', 'y4']
RCP_FMTS = ['', '', '', '', 'S', 'g', '.5g', '.3f', '12.4f', '_10.2f', '-12.5e', '+.4g', '32.3f', '33.3f', '99g', '.15f', '#g',
            '20.12e', 'e', 'E', 'G', 'd', '%g', 'ff', '1.2.3f', '5', '.f', '12.f', 'x', 'S1', '_', '100f', '1f', '05.1f', 'SS', 's']


def gen_recipe_case(rng):
    """recipe: the columns a specification selects - aimed at the case splits of the model (Mtz/Recipe.v): alternatives
    present/absent in either order, duplicated labels, {prev}, '?'/'&' groups that are kept or dropped, variables,
    wrong / '*' / malformed types, bad tags, duplicated tags (also with the inserted index_h/k/l), format words."""
    cols = []
    for _ in range(rng.choice([0, 1, 2, 3, 4, 5, 6, 8, 10])):
        lab, ty = rng.choice(RCP_POOL)
        if rng.random() < 0.07:
            ty = rng.choice('FQJKMGLDPWAIRH')
        cols.append((lab, ty))
    present = ['H', 'K', 'L'] + [l for l, _ in cols]
    tyof = dict([('H', 'H'), ('K', 'H'), ('L', 'H')] + list(reversed(cols)))
    spec = []
    mis = rng.choice([0.05, 0.1, 0.25, 1.0])     # how often a line is made to fail (mostly-valid cases dominate)
    good_fmts = ['', '', '', '', 'S', 'g', '.5g', '.3f', '12.4f', '_10.2f', '-12.5e', '+.4g', '32.3f', '.15f', '#g', '20.12e', 'e', 'E', 'G', '1f', '05.1f']
    good_tags = [t for t in RCP_TAGS if t not in ('a.b', '_x')]
    used_tags = set()
    if rng.random() > 0.2:
        if rng.random() < 0.7:
            spec = ['H H index_h', 'K H index_k', 'L H index_l']
            if rng.random() < 0.3:
                del spec[rng.randrange(3)]
        for _ in range(rng.randint(1, 8)):
            r = rng.random()
            absent = rng.choice(['NOPE', 'Fx', 'ZZ', 'i', 'fp'])
            if r < 0.30:
                col = rng.choice(present)
            elif r < 0.55:
                alts = [rng.choice(present + [absent, absent]) for _ in range(rng.randint(2, 4))]
                col = '|'.join(alts)
            elif r < 0.67:
                col = rng.choice(['SIG{prev}', 'SIG{prev}', '{prev}', 'X{prev}|SIG{prev}', 'SIG{prev}|SIG{prev}(+)', '{prev', 'SIG{pre}'])
            elif r < 0.77:
                col = absent
            elif r < 0.90:
                col = rng.choice(['$.', '$?', '$.', '$?', '$counter', '$dataset', '$image', '$counterX', '$x', '$', '$..', '$?x']
                                 if rng.random() < mis else ['$.', '$?'])
            else:
                col = rng.choice(['', '|', 'FP|', '|FP', 'H', 'K', 'L'])
            first = next((a for a in col.split('|') if a in tyof), None)
            r = rng.random()
            if col.startswith('$'):
                ty = None
            elif r < 0.72 and first:
                ty = tyof[first]
            elif r < 0.82 or rng.random() > mis:
                ty = '*'
            elif r < 0.94:
                ty = rng.choice('FQJKMGLDPWAIRH')
            else:
                ty = rng.choice(['FF', '', '**'])
            if rng.random() < mis:
                tag = rng.choice(RCP_TAGS)
                fmt = rng.choice(RCP_FMTS)
            else:
                tag = rng.choice([t for t in good_tags if t not in used_tags] or good_tags)
                fmt = rng.choice(good_fmts)
                if fmt == 'S' and col.startswith('$'):
                    fmt = ''
            used_tags.add(tag)
            sep = lambda: rng.choice([' ', ' ', ' ', '  ', '\t', ' \t '])
            line = rng.choice(['', '', '?', '?', '&', '&', ' ', '? ', '& '] if rng.random() < mis or first or col.startswith('$')
                              else ['?', '?', '&', '? ', '& ']) + col
            for wd in ([ty] if ty is not None else []) + [tag, fmt]:
                if wd != '' or rng.random() < 0.5:
                    line += sep() + wd
            if rng.random() < 0.08:
                line += rng.choice(['\r', ' extra', '\t', ' # c', '\n'])
            spec.append(line)
    return F.gen_conv(rng, {'cols': cols, 'spec': spec if spec else [], 'skip_empty': 0, 'trim': 0, 'nrefl': rng.choice([0, 1, 2]),
                            'mode': rng.choice([0, 1]), 'less_anom': rng.choice([0, 0, 1, 2]), 'free': -1, 'nosg': True,
                            'exact_spec': True})


def run(chk):
    quick = chk.tier == 'quick'
    rng = random.Random(chk.seed)
    chk.trusted += ['extraction (ExtrOcamlBasic only) + extract/mtz_drv.ml',
                    'harness/h_mtz.cpp + h_mtz_conv.hpp built from the repo with ASan+UBSan (the oracle re-derives the '
                    'expected rows, free-flag rule and per-tag format from the spec lines)',
                    'stb_sprintf: the text of each number under its format is an input of the row-buffer model']
    chk.assumptions += ['unmerged files: P 21 21 21, indices inside the ASU (ISYM 1), columns I/SIGI; the merged path carries the variety of labels, options and space groups',
                        'the row-buffer theorem is about the buffer discipline; the texts of numbers are abstract',
                        '"to the precision of the printed format" is checked as: the value read back equals the float '
                        'obtained by re-reading the printed text',
                        'rows whose status is x (all sigmas missing) are exempt from the free-flag comparison']
    F.gen_tables()
    chk.trusted.append('translator gen/dump_mtzspec.cpp (default specification tables used by spec_inverse)')
    proved = chk.prove()
    h, d = F.harness(), F.driver()
    found = {}
    n = 1500 if quick else 40000
    lines = []
    # aimed: the default format .3f of pdbx_PHWT with large values; wide user formats
    for k in range(6):
        lines.append('o_conv\t' + F.gen_conv(rng, {'cols': [('FWT', 'F'), ('PHWT', 'P')], 'mode': 2, 'nrefl': 30, 'spec': []}))
    for f in ('f', '.10f', '.15f', '32.3f'):
        lines.append('o_conv\t' + F.gen_conv(rng, {'cols': [('FP', 'F'), ('SIGFP', 'Q')], 'mode': 2, 'nrefl': 40,
                                                   'spec': ['H H index_h', 'K H index_k', 'L H index_l',
                                                            'FP F F_meas_au ' + f, 'SIGFP Q F_meas_sigma_au ' + f]}))
    # unmerged files: 1-4 sweeps (runs of consecutive batch numbers), 1-2 datasets
    for nsw in (1, 2, 3, 4):
        for _ in range(3 if quick else 60):
            lines.append('o_unm\t%d %d %d %d %d' % (nsw, rng.randint(1, 5), rng.choice([1, 7, 40, 150]), rng.getrandbits(40), rng.randint(0, 1)))
    for i in range(2 * n):
        lines.append('recipe\t' + gen_recipe_case(rng))
    for i in range(n):
        lines.append('o_conv\t' + F.gen_conv(rng))
        if i % 2 == 0:
            lines.append('recipe\t' + lines[-1].split('\t', 1)[1])
        if i % 3 == 0:
            lines.append('rows\t' + gen_rows_case(rng))
    res = vlib.correspond(chk, h, d, lines, env=F.SAN_ENV)
    for l in res['outputs']:
        p = l.split('\t')
        if len(p) != 3:
            continue
        nt = p[2] not in ('EXC', 'skip')
        w = p[1].split()
        chk.case(p[0] + ' ' + p[1], nt,
                 sample={'cmd': p[0], 'args': p[1][:300], 'impl': p[2][:120]} if chk.evaluations % 499 == 0 else None,
                 bucket='%s:%s%s' % (p[0], 'custom-spec' if w[-1] != '0' else 'default-spec',
                                     ':' + p[2] if p[2] in ('EXC', 'skip', 'FAIL') else
                                     (':%d-tags' % (p[2].split()[1].count(',') + 1) if p[0] == 'recipe' and p[2].startswith('R ') else '')))
    for (cmd, args, impl, model) in res['mismatches']:
        if impl in ('CRASH', 'TIMEOUT'):
            continue
        found.setdefault(('correspondence', cmd), []).append(
            (len(args), 'extracted model (Mtz/RowBuf.v, Mtz/Recipe.v) disagrees with gemmi on command ' + cmd,
             'input=%s impl=%s model=%s' % (args[:2000], impl[:3000], model[:3000]), cmd + '\t' + args))
    for (cmd, args, r) in res['oracle_fail']:
        if r in ('CRASH', 'TIMEOUT'):
            continue
        cls = re.sub(r'[0-9]+', 'N', re.sub(r'\[.*', '', r)).strip()[:80]
        found.setdefault(('oracle', cls), []).append(
            (len(args), 'C18 conversion round trip fails on gemmi (%s) for case %s' % (cls, args[:600]),
             'oracle result: ' + r, cmd + '\t' + args))
    for (line, kind, err) in res['crashes']:
        m = re.search(r'SUMMARY: \S+ (\S+) (\S+?)(:\d+)* in (\S+)|(\S+:\d+):\d+: runtime error: ([^;\n]*)', err)
        cls = kind + ' ' + (m.group(0)[:160] if m else 'no sanitizer summary')
        found.setdefault(('crash', cls), []).append((len(line), 'h_mtz %s on %s' % (cls, line[:600]), err, line))
    for (kind, cls), lst in sorted(found.items()):
        lst.sort()
        ln, key, detail, line = lst[0]
        chk.violate(kind, key, detail + '\n(%d inputs of this class)' % len(lst),
                    replay={'harness': 'h_mtz', 'line': line}, found_input=(kind != 'correspondence'))
    chk.rule = ('merged MTZ objects holding a random subset of the labels/types named in the default MTZ->mmCIF '
                'specification (alternative spellings, with and without sigmas), 0-400 reflections, values: tame / with '
                'NaNs / finite extremes (1e38, 1e30, 1e-45...) / arbitrary finite bit patterns; options skip_empty, trim, '
                'less_anomalous, free flag value; default spec or custom spec lines with formats g .5g .3f f .10f 12.4f '
                '_10.2f -12.5e +.4g 32.3f .15f #g 20.12e e (.30f .60f .99f in rows). o_conv: end-to-end oracle; rows: loop '
                'body byte-exact against the extracted row-buffer machine. non-trivial = the spec applies to the file')
    if not proved:
        chk.violate('proof', 'Properties_C18 ' + ','.join(getattr(chk, 'failed_theorems', [])),
                    getattr(chk, 'coq_log_tail', ''), found_input=False)


def replay(chk, path):
    import json
    r = json.load(open(path))['replay']
    h = F.harness()
    rc, out, err = vlib.run_lines(h, [], inp=(r['line'] + '\n').encode())
    print('\n'.join(o[:3000] for o in out), err[-3000:])
    d = F.driver()
    rc, out2, err2 = vlib.run_lines(d, [], inp=('\n'.join(out) + '\n').encode())
    print('\n'.join(o[:3000] for o in out2))
