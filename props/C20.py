"""C20: neighbour search. Theorems about the integer walk of for_each_cell (Properties_C20.v), the walk observed
through gemmi's public callback compared with the extracted model, and find_atoms / find_neighbors /
find_nearest_atom compared with brute force over atoms x symmetry images x lattice translations."""
import json
import random

import vlib
from props import fam_geo as F

KINDS = ['normal', 'normal', 'oblique', 'tiny', 'tiny', 'noncrystal', 'ncs', 'bigk', 'elongated', 'elongated']


MANIFEST = {'technique': 'Coq proof of the integer walk (lia/nia) and of its completeness over the reals (Cauchy-Schwarz, floor) + exact differential check of the walk observed through for_each_cell + brute-force oracle on gemmi', 'text': 'Atoms on cell faces, a few 1e-17 below or above them, are generated on purpose (the wrapped fractional coordinate then sits at the very end of [0,1)). Theorems: the shift lambda is floor division with a bin index in [0,n); the walk visits each (bin, lattice shift) of the (2ku+1)(2kv+1)(2kw+1) window exactly once, also for axes with 1 or 2 bins (_partial: integer core only); the clamped (non-periodic) branch visits exactly the existing bins; bins_to_visit spans k radii. The walk model is compared exactly with the bins/shifts observed through the public callback. Oracle on gemmi: find_atoms / find_neighbors / for_each / find_nearest_atom vs brute force over atoms x symmetry images x lattice translations (multiset equality, 1e-7 guard band) for random models in 12 space groups, strongly oblique cells, tiny cells with radius up to 2.5x the edge, non-crystal boxes with NCS, several build radii for the same query. COMPLETENESS OVER R is a theorem: along each axis the fractional coordinate is an affine function whose linear part has the reciprocal cell length, so (Cauchy-Schwarz) an image within R of the query differs from it by at most R*ar*n bins, hence its bin is in the window the walk visits, with exactly its lattice shift (any cell skew, any n incl. 1, any k); the three axes combine through the bijection theorem. Soundness (distance filter) and find_nearest_atom minimality are decided by the oracle only.', 'note': 'Trusted: Coq kernel; extraction; harness. Axioms: only those of the standard library Reals (ClassicalDedekindReals.sig_forall_dec, sig_not_dec, functional_extensionality_dep) in the two theorems over R; the integer theorems are axiom-free. Float rounding of the fractional coordinates and the 1e-9 guard of bins_to_visit are outside the real-number theorem; float ties at bin boundaries are excluded from the oracle by its guard band.'}

def run(chk):
    quick = chk.tier == 'quick'
    rng = random.Random(chk.seed)
    chk.trusted += ['extraction (ExtrOcamlBasic only) + extract/geo_drv.ml',
                    'harness/h_geo.cpp + h_geo_ns.hpp built from the repository with ASan+UBSan; its brute force uses '
                    "gemmi's orthogonalisation, reciprocal lengths and symmetry-image list (properties C11, C04)"]
    chk.assumptions += ['theorems cover the integer walk (bins, lattice shifts, bins_to_visit on an exact ratio); that a bin is '
                        'at least radius/ratio wide, the distance filter and the image list are tested against brute force, not proved',
                        'distances within 1e-7 of the radius or of min_dist are not decided (guard band)',
                        'fractional coordinates that are an integer minus less than one ulp (wrap_to_unit giving exactly 1.0) '
                        'are not generated']
    proved = chk.prove()
    h, d = F.harness(), F.driver()
    for rep in range(1 if quick else 15):
        lines, kinds = [], {}
        for _ in range(500 if quick else 4000):
            ls, k = F.gen_ns_case(rng, rng.choice(KINDS), rbuild_factors=rng.choice([(1,), (1,), (1, 0.5, 2.3), (1, 1.7)]))
            for l in ls:
                lines.append(l)
                kinds[l] = k
        for _ in range(600 if quick else 6000):
            l = F.gen_walk_case(rng)
            lines.append(l)
            kinds[l] = 'walk'
        res = vlib.correspond(chk, h, d, lines, timeout=1500)
        for l in res['outputs']:
            p = l.split('\t')
            if len(p) == 3:
                k = kinds.get(p[0] + '\t' + p[1], '?')
                if p[0] == 'walk':
                    hd = p[2].split(':')[0].split()
                    # non-trivial walk: some lattice shift occurs or an axis has fewer bins than the window
                    nt = len(hd) >= 11 and any(int(hd[i]) < 2 * int(hd[8 + i]) + 1 for i in range(3))
                    b = 'walk bins<window' if nt else 'walk'
                else:
                    nt = p[2] == '1'
                    b = 'o_ns ' + k
                chk.case(p[0] + ' ' + p[1], nt, sample={'cmd': p[0], 'args': p[1][:300], 'impl': p[2][:200]}
                         if chk.evaluations % 211 == 0 else None, bucket=b)
        for (cmd, args, impl, model) in res['mismatches']:
            chk.violate('correspondence', 'geo-model disagrees with gemmi on command ' + cmd,
                        'input=%s impl=%s model=%s' % (args, impl[:1500], model[:1500]),
                        replay={'harness': 'h_geo', 'line': cmd + '\t' + args}, found_input=False)
        for (cmd, args, r) in res['oracle_fail']:
            chk.violate('oracle', 'C20 neighbour search differs from brute force: %s; input %s' % (r, args),
                        'oracle result: ' + r, replay={'harness': 'h_geo', 'line': cmd + '\t' + args})
        for (line, kind, err) in res['crashes']:
            chk.violate('crash', 'h_geo %s on %s' % (kind, line), err, replay={'harness': 'h_geo', 'line': line})
    chk.rule = ('o_ns: random models (1-30 atoms, altlocs, H/D) in cells of 12 space groups incl. strongly oblique, tiny cells '
                '(edge 2-6 A, build radius up to 2.5x the edge), non-crystal boxes with 0-2 NCS operators, crystal + NCS; '
                'queries inside, near atoms, far outside; radii 0.1-3x the build radius, min_dist, conformers; the same model '
                'with several build radii; find_atoms/find_neighbors/for_each/find_nearest_atom vs brute force. '
                'walk: (bin, shift) sequence of for_each_cell vs the extracted model. non-trivial = oracle ran to the end / '
                'walk wider than the number of bins on some axis')
    if not proved:
        chk.violate('proof', 'Properties_C20 ' + ','.join(getattr(chk, 'failed_theorems', [])),
                    getattr(chk, 'coq_log_tail', ''), found_input=False)


def replay(chk, path):
    r = json.load(open(path))['replay']
    h = F.harness()
    rc, out, err = vlib.run_lines(h, [], inp=(r['line'] + '\n').encode())
    print('\n'.join(x[:2000] for x in out), err[-2000:])
    d = F.driver()
    rc, out2, err2 = vlib.run_lines(d, [], inp=('\n'.join(out) + '\n').encode())
    print('\n'.join(x[:2000] for x in out2))
    for l in out:
        p = l.split('\t')
        if len(p) == 3 and p[0].startswith('o_') and p[2] not in ('1', 'ok', 'skip'):
            chk.violate('oracle', 'C20 neighbour search differs from brute force: %s; input %s' % (p[2], p[1]), p[2], replay=r)
    for l in out2:
        if l.startswith('MISMATCH'):
            chk.violate('correspondence', 'geo-model disagrees with gemmi (replay)', l[:2000], replay=r, found_input=False)
