"""C14: maps and structure-factor grids are exact discrete Fourier transforms."""
import random

import vlib
from props import fam_fft as F
from props import fam_sym

MANIFEST = dict(
    technique='Coq proof of the whole placement function get_f_phi_on_grid (soundness and completeness of the grid contents, slot injectivity, phase algebra) + exact differential check of placement + O(N^2) direct-sum oracles on gemmi',
    text='prepare_asu_data (Fft/AsuLookup.v): the slot read for an index is the placement slot of that index or, on a half-l grid for l < 0, of its Friedel mate (value conjugated), inside the grid for every index held; compared with gemmi on P 1 grids whose slots hold their own number. Theorems: indices that fit the grid never share a slot; every coefficient written by get_f_phi_on_grid (symmetry mate, Friedel flip to l>=0, phase shift) is the true value of the index it stands for, for every group and any symmetry-consistent phase function. WHOLE FUNCTION (loop with first-writer-wins + add_friedel_mates, both axis orders, half-l and full grids, any reflection list): sound - every entry left in the grid sits in the slot of an index k = +-(hR) of the orbit of the reflection it came from, k fits the grid, and the stored phase is the true phase of k; complete - the slot of every symmetry image that fits is filled, and every slot of the region add_friedel_mates visits whose Friedel-mate slot is filled is filled. The placement model (has_index, index_n, half-l flip, ZYX swap, first-writer-wins, add_friedel_mates) is compared slot by slot with gemmi for every table row with integer-coded amplitudes/phases. The analytic claims are decided on the implementation by oracles: FFT map vs direct Fourier sum at every grid point, invariance under every operation, transform_map_to_f_phi vs direct sum at every held index, prepare_asu_data, inverse transform, half vs full, XYZ vs ZYX, even and odd sizes; transform_f_phi_to_map at several sampling rates and minimum sizes: the size it picks holds every index, respects the rate, suits the space group and the FFT, and its map is bit-identical to the two-step route; exact_size accepted iff compatible.',
    note='Trusted: Coq kernel + vm_compute; translator; extraction; harness (double-precision direct sums, tolerance 2e-4 of max density). No axioms. pocketfft and float rounding are outside the model (oracle only).')

GRIDS = {
    'tri': [(6, 8, 10), (5, 7, 9), (8, 8, 8), (4, 6, 12)],
    'mono': [(8, 8, 8), (6, 8, 10), (12, 4, 8), (8, 6, 12)],
    'ortho': [(8, 8, 8), (8, 12, 4), (12, 8, 8)],
    'tetra': [(8, 8, 8), (8, 8, 12), (12, 12, 8)],
    'hex': [(12, 12, 12), (6, 6, 12), (12, 12, 6)],
    'cubic': [(8, 8, 8), (12, 12, 12)],
}


def grids_for(row):
    n = row['number']
    if n <= 2: return GRIDS['tri']
    if n <= 15: return GRIDS['mono']
    if n <= 74: return GRIDS['ortho']
    if n <= 142: return GRIDS['tetra']
    if n <= 194: return GRIDS['hex']
    return GRIDS['cubic']


def run(chk):
    quick = chk.tier == 'quick'
    rng = random.Random(chk.seed)
    F.gen_tables()
    chk.trusted += ['translator gen/dump_sg.cpp', 'extraction + extract/fft_drv.ml',
                    'harness/h_fft.cpp: O(N^2) direct sums in double precision as the definition']
    chk.assumptions += ['pocketfft and float arithmetic are not modelled; oracle tolerance 2e-4 * max|rho|',
                        'reflection lists are band-limited: every symmetry mate fits the grid']
    proved = chk.prove(timeout=3000)
    h, d = F.harness(), F.driver()
    rows = fam_sym.table_strings()
    lines = []
    allrows = list(range(len(rows)))
    orows = allrows if not quick else sorted(set(rng.sample(allrows, 120) + [0, 1, 3, 114, 146, 170, 353, 409, 434, 500, 529, 563]))
    for i in allrows:
        gs = grids_for(rows[i])
        for rep in range(1 if quick else 6):
            g = rng.choice(gs)
            half, zyx = rng.randint(0, 1), rng.randint(0, 1)
            n = rng.randint(1, 6)
            hk = []
            for _ in range(n):
                m = max(g) // 2
                hk += [rng.randint(-m, m) for _ in range(3)]
            lines.append('place\t%d %d %d %d %d %d %d %s' % (i, g[0], g[1], g[2], half, zyx, n, ' '.join(map(str, hk))))
    for i in orows:
        gs = grids_for(rows[i])
        for g in (gs[:1] if quick else gs):
            seed = rng.randint(1, 10 ** 6)
            half, zyx = rng.randint(0, 1), rng.randint(0, 1)
            lines.append('o_map\t%d %d %d %d %d %d %d 2' % (i, seed, g[0], g[1], g[2], half, zyx))
            lines.append('o_sf\t%d %d %d %d %d %d 0 2' % (i, seed + 1, g[0], g[1], g[2], rng.randint(0, 1)))
            lines.append('o_variants\t%d %d %d %d %d' % (i, seed + 2, g[0], g[1], g[2]))
            lines.append('o_tfm\t%d %d %d %d %d %d %d %d' % (i, seed + 3, rng.choice([2, 3, 4]), rng.choice([0, 12, 15, 20, 30, 41]),
                                                               rng.choice([0, 0, 5, 16]), rng.choice([0, 0, 7]), rng.choice([0, 0, 9, 24]),
                                                               rng.randint(0, 1)))
    # index arithmetic of prepare_asu_data (model Fft/AsuLookup.v): P 1 grids with unequal dimensions, half-l and full
    for _ in range(200 if quick else 8000):
        nu, nv = rng.choice([1, 2, 3, 4, 5, 6, 8, 9, 12]), rng.choice([1, 2, 3, 4, 6, 7, 8, 10])
        half = rng.randint(0, 1)
        nw = rng.choice([1, 2, 3, 4, 5, 7]) if half else rng.choice([1, 2, 4, 5, 6, 8, 9])
        hk = []
        for _ in range(rng.randint(1, 10)):
            hk += [rng.randint(-(nu // 2) - 1, nu // 2 + 1), rng.randint(-(nv // 2) - 1, nv // 2 + 1), rng.randint(-nw, nw)]
        lines.append('alook\t%d %d %d %d %s' % (nu, nv, nw, half, ' '.join(map(str, hk))))
    # grids with ONE point along an axis (all reflections in a plane; length-1 transforms inside the FFT), P 1 and P 1 21 1
    for (row_, g) in [(0, (1, 6, 8)), (0, (6, 1, 8)), (0, (1, 1, 8)), (0, (1, 6, 7)), (3, (1, 6, 8)), (0, (6, 8, 1))]:
        for half in (0, 1):
            for zyx in (0, 1):
                if half and g[2] % 2:
                    continue      # odd size along l through the half-l grid is the recorded finding
                lines.append('o_map\t%d %d %d %d %d %d %d 2' % (row_, rng.randint(1, 10 ** 6), g[0], g[1], g[2], half, zyx))
        lines.append('o_sf\t%d %d %d %d %d 0 0 2' % (row_, rng.randint(1, 10 ** 6), g[0], g[1], g[2]))
    # the recorded witnesses of finding C14-half-l-odd (half-l grid built for an odd size along l), both axis orders
    lines += ['o_map\t0 849373 5 7 9 1 1 2', 'o_map\t0 849373 5 7 9 1 0 2', 'o_variants\t0 849375 5 7 9']
    res = vlib.correspond(chk, h, d, lines, timeout=3000)
    for l in res['outputs']:
        p = l.split('\t')
        if len(p) == 3:
            chk.case(p[0] + ' ' + p[1], p[2] not in ('skip', 'EXC') and (p[0] != 'place' or ':' in p[2]),
                     sample={'cmd': p[0], 'args': p[1], 'impl': p[2][:200]} if chk.evaluations % 199 == 0 else None,
                     bucket=p[0] + (':' + p[2] if p[2] in ('skip', 'EXC') else ''))
    for (cmd, args, impl, model) in res['mismatches']:
        if impl == 'EXC' and model != 'EXC':
            continue   # grid size rejected by check_grid_factors (not modelled): no placement to compare
        chk.violate('correspondence', 'placement model disagrees with gemmi',
                    'input=%s impl=%s model=%s' % (args, impl[:400], model[:400]),
                    replay={'harness': 'h_fft', 'line': cmd + '\t' + args}, found_input=False)
    for (cmd, args, r) in res['oracle_fail']:
        if r == 'EXC':
            continue   # grid incompatible with the space group
        chk.violate('oracle', 'C14 %s row=%s grid=%s: %s' % (cmd, args.split()[0], ' '.join(args.split()[2:5]), r),
                    'args: ' + args, replay={'harness': 'h_fft', 'line': cmd + '\t' + args})
    for (line, kind, err) in res['crashes']:
        chk.violate('crash', 'h_fft %s on %s' % (kind, line), err, replay={'harness': 'h_fft', 'line': line})
    chk.rule = ('place: every row x random grid (even/odd sizes) x half_l x axis order x 1-6 arbitrary reflections, grid read back slot by slot '
                '(serial, conjugation, phase shift in 1/24 turn) vs model; oracles on a spread of rows: map vs direct sum at every grid point, '
                'invariance, sf grid vs direct sum at every index, prepare_asu_data, inverse, half/full, XYZ/ZYX. non-trivial = at least one slot written / not skipped')
    if not proved:
        chk.violate('proof', 'Properties_C14 ' + ','.join(getattr(chk, 'failed_theorems', [])),
                    getattr(chk, 'coq_log_tail', ''), found_input=False)


def replay(chk, path):
    import json
    r = json.load(open(path))['replay']
    rc, out, err = vlib.run_lines(F.harness(), [], inp=(r['line'] + '\n').encode())
    print('\n'.join(out), err[-2000:])
