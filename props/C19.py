"""C19: editing a CIF document through the DOM API keeps it rectangular and predictable.
Theorems (Properties_C19.v) over the reference model + correspondence of whole editing histories
(model vs gemmi, status / output / full document after every step) + property oracle on gemmi
(rectangular after every step, write -> parse round trip at the end)."""
import json
import random
import sys

import vlib
from props import fam_dom as F

# vlib.Check() removes evidence/replay/C19-*.json when it is constructed, i.e. before replay() can read
# the file named on the command line; this module is imported earlier, so keep a copy of that file.
_REPLAY_TEXT = {}
if '--replay' in sys.argv[:-1]:
    try:
        _p = sys.argv[sys.argv.index('--replay') + 1]
        with open(_p) as _f:
            _REPLAY_TEXT[_p] = _f.read()
    except OSError:
        pass

# histories that once exposed a defect of the pinned snapshot: always replayed first
REGRESSION = [
    # Table::append_row with an absent ?optional column wrote to values[cur_size - 1]
    ('append_row with absent optional column',
     'empty;addblock %s -1;initloop 0 %s %s %s;table 0 find %s %s append %s' % (
         F.hx('b'), F.hx('_a.'), F.lst(['x', 'y']), F.lsts([['1', '2']]),
         F.hx('_a.'), F.lst(['x', '?z', 'y']), F.lst(['7', '8', '9']))),
    ('append_row with absent optional column into a loop without rows',
     'empty;addblock %s -1;initloop 0 %s %s 0;table 0 find %s %s append %s' % (
         F.hx('b'), F.hx('_a.'), F.lst(['x']), F.hx('_a.'), F.lst(['x', '?z']), F.lst(['7', '8']))),
    # Table::ensure_loop with an absent ?optional column indexed items[-1]
    ('ensure_loop with absent optional column',
     'empty;addblock %s -1;setpair 0 %s %s;setpair 0 %s %s;table 0 find %s %s ensure;table 0 find %s %s look' % (
         F.hx('b'), F.hx('_a.x'), F.hx('1'), F.hx('_a.y'), F.hx('2'),
         F.hx('_a.'), F.lst(['x', '?z', 'y']), F.hx('_a.'), F.lst(['x', 'y']))),
    ('remove_rows (via ensure_loop) with absent optional column',
     'empty;addblock %s -1;setpair 0 %s %s;table 0 find %s %s rmrows 0 1' % (
         F.hx('b'), F.hx('_a.x'), F.hx('1'), F.hx('_a.'), F.lst(['x', '?z']))),
    ('ensure_loop on a table that was not found',
     'empty;addblock %s -1;table 0 find %s %s ensure' % (F.hx('b'), F.hx('_a.'), F.lst(['x']))),
    # vector_remove_column on a loop without rows resized values to `pos` empty strings
    ('remove_column on a loop without rows',
     'empty;addblock %s -1;initloop 0 %s %s 0;loop 0 %s rmcol %s' % (
         F.hx('b'), F.hx('_a.'), F.lst(['x', 'y', 'z']), F.hx('_a.x'), F.hx('_a.y'))),
    # Loop::length() divided by tags.size() == 0
    ('Table::move_row on the tag-less loop made by find_or_add with an empty tag list',
     'empty;addblock %s -1;table 0 oradd %s 0 moverow 1 -2' % (F.hx('b'), F.hx('_b.'))),
    ('Column::erase on a loop without rows',
     'empty;addblock %s -1;initloop 0 %s %s 0;colerase 0 %s' % (
         F.hx('b'), F.hx('_a.'), F.lst(['x', 'y', 'z']), F.hx('_a.z'))),
]


MANIFEST = {'technique': 'Coq proof (rectangularity invariant for every operation and every history by fold_left induction, rejected operations leave the document unchanged, lookup laws, array-program refinement) + step-by-step differential check of histories + write/parse oracle on gemmi', 'text': 'The Gallina model is the reference model the property names. Theorems: Rect (every loop has a whole number of rows) is preserved by every documented editing operation with any arguments, hence by every history of any length from any rectangular document; an operation that ends in an error leaves the document exactly unchanged (for the operations with the strong guarantee; init_loop/find_or_add/remove_rows modify before throwing and are covered by Rect); find_value after set_pair returns the value, other tags (case-insensitively) untouched; row counts after add/pop; Table handles are well-formed (no dangling reference); no operation reaches undefined behaviour (_partial: duplicated tags in one pairs table excluded); vector_remove_column as an index-level array program refines the list spec. Histories of 1-60 operations from empty/generated/parsed documents with valid and invalid arguments are replayed on gemmi (ASan) and on the extracted model, comparing status and full document after every step; oracle on gemmi: rectangular after every step, final write -> parse identical; failing histories are shrunk.', 'note': 'Trusted: Coq kernel; extraction; harness (ASan). No axioms. Assumptions: handles used immediately, distinct tags per finder call, sizes far below 2^31, frames/comments opaque. Parser and writer are property C01.'}

def step_buckets(chk, spec, res):
    """Record the distribution op-class x status from one harness result."""
    ops = spec.split(';')[1:]
    steps = res.split(';')[1:]
    nexc = 0
    for o, s in zip(ops, steps):
        w = o.split(' ')
        cls = w[0]
        if cls == 'table':
            # finder kind and table op
            fk = w[2]
            k = 4 if fk == 'cat' else 5 + int(w[4])
            cls = 'table.' + fk + '.' + (w[k] if k < len(w) else '?')
        elif cls == 'loop':
            cls = 'loop.' + w[3]
        st = s.split(':')[0]
        if st == 'EXC':
            nexc += 1
        chk.hist[cls + ':' + st] = chk.hist.get(cls + ':' + st, 0) + 1
    return nexc


def run(chk):
    quick = chk.tier == 'quick'
    rng = random.Random(chk.seed)
    chk.trusted += ['extraction (ExtrOcamlBasic only) + extract/dom_drv.ml (parses the harness dump of the initial '
                    'document, replays the history on the extracted model, compares status/output/document)',
                    'harness/h_dom.cpp (ASan+UBSan) calling the real cif::Document / Block / Table / Loop / Column members; '
                    'guards of the harness for the two unchecked calls (Loop::add_values whole rows, Loop::move_row valid rows)',
                    'cif::read_memory (PEGTL parser) and write_cif_to_stream used as given for the round-trip oracle']
    chk.assumptions += ['Table / Loop / Column handles are used immediately after they are obtained (no handle survives another edit)',
                        'the tags passed to one find()/find_or_add() call are distinct (the same pair twice makes ensure_loop read a destroyed item: model says UB)',
                        'integer arguments are C ints; sizes stay far below 2^31 (no wrap-around in row*width)',
                        'save frames and comments are carried as opaque items; edits inside frames are not explored',
                        'values are valid CIF tokens without text fields (quoting/text fields are C01)']
    proved = chk.prove(timeout=1500)
    h, d = F.harness(), F.driver()
    corpus = F.corpus_docs()
    nh = 6000 if quick else 150000
    specs = {}
    lines = []
    for name, spec in REGRESSION:
        specs[spec] = 'regression:' + name
    for spec, kind in F.gen_histories(rng, h, corpus, nh):
        specs.setdefault(spec, kind)
    for spec in specs:
        lines.append('hist\t' + spec)
        lines.append('o_hist\t' + spec)
    res = vlib.correspond(chk, h, d, lines, timeout=3000)

    nsteps = 0
    for l in res['outputs']:
        p = l.split('\t')
        if len(p) != 3 or p[0] != 'hist':
            continue
        if p[2] in ('CRASH', 'TIMEOUT', 'EXC') or p[2].startswith('HARNESS-ERROR'):
            if p[2].startswith('HARNESS-ERROR') or p[2] == 'EXC':
                chk.violate('machinery', 'h_dom could not run a history: ' + p[2][:80], p[1][:2000], found_input=False)
            continue
        kind = specs.get(p[1], '?')
        nops = p[1].count(';')
        nexc = step_buckets(chk, p[1], p[2])
        nsteps += nops
        chk.case(p[1], nontrivial=nops >= 1 and p[2].count(';OK') >= 1,
                 sample={'history': F.describe(p[1])[:1500], 'start': kind, 'steps': nops, 'rejected_steps': nexc}
                 if chk.evaluations % 397 == 0 else None,
                 bucket='start:' + kind.split(':')[0])
    chk.extra['history_steps'] = nsteps

    failing = {}     # spec -> (kind, detail)
    for (cmd, spec, impl, model) in res['mismatches']:
        if impl in ('CRASH', 'TIMEOUT'):
            continue
        failing.setdefault(spec, ('correspondence', 'impl=%s model=%s' % (impl[-600:], model[-600:])))
    for (cmd, spec, r) in res['oracle_fail']:
        if r in ('CRASH', 'TIMEOUT'):
            continue
        failing[spec] = ('oracle', r[:1500])
    for (line, kind, err) in res['crashes']:
        failing[line.split('\t', 1)[1]] = ('crash', kind + ' ' + err[-1200:])

    # shrink (a bounded number of) failing histories and report them
    reported = set()
    budget = 12 if quick else 40
    for spec, (kind, detail) in sorted(failing.items(), key=lambda kv: len(kv[0])):
        if budget <= 0:
            break
        budget -= 1
        small = spec
        try:
            f0 = F.failure_of(h, d, spec)
            if f0 is not None:
                kind = f0[0]
                small = F.shrink(h, d, spec, kind)
                f1 = F.failure_of(h, d, small)
                if f1 is not None and f1[0] == kind:
                    detail = f1[1] if isinstance(f1[1], str) else 'impl=%s model=%s' % (f1[1][0][-700:], f1[1][1][-700:])
                else:
                    small = spec
        except Exception as ex:      # shrinking is best effort
            vlib.log('shrink failed: %r' % ex)
        last = small.split(';')[-1].split(' ')
        opname = last[0] if last[0] not in ('table', 'loop') else ' '.join(
            w for w in last if w in ('find', 'any', 'oradd', 'cat', 'look', 'append', 'rmrows', 'moverow', 'ensure',
                                     'erase', 'colerase', 'addrow', 'addvalues', 'poprow', 'addcols', 'rmcol', 'setall'))
        key = 'C19 %s at/after [%s]: %s' % (kind, opname, F.describe(small)[:700])
        if (kind, opname) in reported:
            continue
        reported.add((kind, opname))
        chk.violate(kind, key, detail, replay={'harness': 'h_dom', 'spec': small, 'original': spec},
                    found_input=True)

    chk.rule = ('random editing histories (1..60 operations, every operation class of the DOM API with valid and invalid '
                'arguments: wrong row length, missing tag, out-of-range/negative positions, absent ?optional columns, bad tags, '
                'missing blocks) from empty / generated / parsed (tests/*.cif) documents + regression histories; after EVERY step '
                'status, output and the full document are compared with the extracted model; oracle on gemmi: rectangular after '
                'every step, written text parses back to the same content. One case = one history; non-trivial = at least one '
                'accepted operation; distinct = distinct history text. input_distribution counts steps per operation class x status.')
    if not proved:
        chk.violate('proof', 'Properties_C19 ' + ','.join(getattr(chk, 'failed_theorems', [])),
                    getattr(chk, 'coq_log_tail', ''), found_input=False)


def replay(chk, path):
    text = _REPLAY_TEXT.get(path)
    if text is None:
        with open(path) as f:
            text = f.read()
    else:
        vlib.write_if_changed(path, text)     # put the file back
    r = json.loads(text)['replay']
    h, d = F.harness(), F.driver()
    spec = r['spec']
    print('history:', F.describe(spec))
    rc, res, err = F.run_harness_line(h, 'histv\t' + spec)
    print('gemmi :', res, err[-2000:] if rc != 0 else '')
    if rc == 0 and res:
        mm = F.model_verdict(d, 'histv', spec, res)
        print('model :', 'agrees' if mm is None else mm[1])
    rc2, res2, err2 = F.run_harness_line(h, 'o_hist\t' + spec)
    print('oracle:', res2, err2[-2000:] if rc2 != 0 else '')
    f = F.failure_of(h, d, spec)
    if f is not None:
        chk.violate(f[0], 'C19 replay: ' + F.describe(spec)[:700], str(f[1])[:1500],
                    replay={'harness': 'h_dom', 'spec': spec})
