"""C04: every tabulated space-group setting is a consistent group with a unique identity."""
import random

import vlib
from props import fam_sym as F


MANIFEST = {'technique': 'Coq proof: kernel-evaluated exhaustive table check lifted by reflection + differential check of extracted model vs gemmi', 'text': 'Theorems C04_group/C04_lookups/C04_alt_names/C04_basisops_exact hold for every one of the 564 rows regenerated from /repo (group closure over all operation pairs, inverses, order/centring/point group/system/Sohncke/centrosymmetric/enantiomorphic against independent ITA data, reference-setting transform, triplet round trip, first-match lookups). The hand-written Hall/Dimino/lookup model is tied to the code by an exact differential run over all rows, all documented spellings and generated Hall symbols/names, plus a group/lookup oracle evaluated on gemmi.', 'note': 'Trusted: Coq kernel + vm_compute; table translator gen/dump_sg.cpp; extraction (ExtrOcamlBasic); harness. Theorems are closed under the global context (no axioms). is_symmorphic is only compared with the model.'}

def run(chk):
    quick = chk.tier == 'quick'
    rng = random.Random(chk.seed)
    F.gen_tables()
    chk.trusted += ['translator gen/dump_sg.cpp -> coq/Sym/SgTable_gen.v (564 rows, alt names, basis ops, category bytes)',
                    'independent ITA reference data written in coq/Sym/SgCheck.v (point-group ranges, orders, signatures)',
                    'extraction (ExtrOcamlBasic only) + extract/sym_drv.ml', 'harness/h_sym.cpp (ASan+UBSan)']
    chk.assumptions += ['is_symmorphic() is compared with the model only (no independent definition)']
    proved = chk.prove(timeout=2400)
    h, d = F.harness(), F.driver()
    rows = F.table_strings()
    lines = []
    for i in range(len(rows)):
        lines += ['row\t%d' % i, 'rowinfo\t%d' % i, 'sorted\t%d' % i, 'byops\t%d' % i, 'o_group\t%d' % i]
        for nm in F.name_variants(rng, rows[i]):
            lines.append('byname\t%s 0 null' % F.hx(nm))
        if rows[i]['ccp4']:
            lines.append('bynum\t%d' % rows[i]['ccp4'])
    alts = F.alt_strings()
    for j, a in enumerate(alts):
        lines.append('o_alt\t%d' % j)
        hm = a['hm'].decode()
        exts = [chr(a['ext'])] if a['ext'] else ['']
        for e in exts + ['1', '2', 'H', '']:
            for nm in (hm, hm.replace(' ', ''), hm.lower()):
                for sep in (':', ' :', ': '):
                    lines.append('byname\t%s 0 null' % F.hx(nm + (sep + e if e else '')))
                    lines.append('byname\t%s 0 %s' % (F.hx(nm + (sep + e if e else '')), F.hx('2')))
    lines += ['bynum\t%d' % n for n in (0, 1, 230, 231, 1003, 9999, -1, 4005)]
    lines += F.gen_names(rng, rows, 3000 if quick else 100000)
    for s in F.gen_hall(rng, rows, 4000 if quick else 300000):
        lines.append(rng.choice(['hall', 'hall', 'gens', 'byhall']) + '\t' + F.hx(s))
    res = vlib.correspond(chk, h, d, lines, timeout=3000)
    for l in res['outputs']:
        p = l.split('\t')
        if len(p) == 3:
            chk.case(p[0] + ' ' + p[1], p[2] not in ('EXC', '-1'),
                     sample={'cmd': p[0], 'args': p[1], 'impl': p[2][:200]} if chk.evaluations % 1499 == 0 else None,
                     bucket=p[0] + (':EXC' if p[2] == 'EXC' else ':none' if p[2] == '-1' else ''))
    for (cmd, args, impl, model) in res['mismatches']:
        if model == 'OOB':
            # the model predicts an out-of-bounds write in hall_matrix_symbol: that is property C02's business
            continue
        chk.violate('correspondence', 'sym-model disagrees with gemmi on command ' + cmd,
                    'input=%s impl=%s model=%s' % (args, impl[:300], model[:300]),
                    replay={'harness': 'h_sym', 'line': cmd + '\t' + args}, found_input=False)
    for (cmd, args, r) in res['oracle_fail']:
        chk.violate('oracle', 'C04 table row %s: %s' % (args, r), 'group/lookup oracle evaluated on gemmi failed',
                    replay={'harness': 'h_sym', 'line': cmd + '\t' + args})
    for (line, kind, err) in res['crashes']:
        if line.split('\t')[0] in ('hall', 'gens', 'byhall', 'byname'):
            continue   # arbitrary-input safety of the parsers is decided by C02
        chk.violate('crash', 'h_sym %s on %s' % (kind, line), err, replay={'harness': 'h_sym', 'line': line})
    chk.rule = ('all 564 rows x {operations, getters, sorted ops, lookup by ops, group oracle on gemmi, every documented '
                'spelling of the name, CCP4 number}; generated names (spellings, mutations, numbers, prefer/angle hints) and '
                'Hall symbols (table, mutations, grammar). non-trivial = lookup found a row / symbol accepted')
    if not proved:
        chk.violate('proof', 'Properties_C04 ' + ','.join(getattr(chk, 'failed_theorems', [])),
                    getattr(chk, 'coq_log_tail', ''), found_input=False)
        # localise: which row fails the kernel-evaluated checker (extracted model, row by row)
        out = vlib.run_lines(d, [], inp=''.join('rowcheck\t%d\t1\n' % i for i in range(len(rows))).encode())[1]
        for l in out:
            p = l.split('\t')
            if p[0] == 'MISMATCH':
                chk.violate('proof-row', 'C04 table row %s fails row_group_ok_b' % p[2],
                            'row %s (%s) violates the group/classification/transform checker' % (
                                p[2], rows[int(p[2])]['hm'].decode()),
                            replay={'driver': 'sym', 'line': 'rowcheck\t' + p[2]})


def replay(chk, path):
    from props import C10
    C10.replay(chk, path)
