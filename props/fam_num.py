"""Number family (C12): harness/driver builders, comma-decimal locale builder, input generators."""
import os
import random
import struct

import vlib

MODEL_VO = ['Num/IntParse.vo', 'Num/DecParse.vo', 'Num/Nearest.vo', 'Num/Printf.vo']

# sources that src/pdb.cpp (included textually by the harness) needs at link time
PDB_LINK = ['symmetry.cpp', 'polyheur.cpp', 'resinfo.cpp']


def harness():
    return vlib.build_exe('h_num', [vlib.ROOT + '/harness/h_num.cpp'] + vlib.repo_src('sprintf.cpp', *PDB_LINK))


def driver():
    return vlib.ocaml_driver('num', MODEL_VO)


def hx(s):
    if isinstance(s, str):
        s = s.encode('latin-1')
    return s.hex() if s else '-'
