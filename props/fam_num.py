"""Number family (C12): harness/driver builders, comma-decimal locale builder, input generators."""
import os
import random
import re
import struct
from decimal import Decimal, getcontext
from fractions import Fraction

import vlib

MODEL_VO = ['Num/IntParse.vo', 'Num/DecParse.vo', 'Num/Nearest.vo', 'Num/Printf.vo']

# sources that src/pdb.cpp (included textually by the harness to reach read_int/read_double) needs
PDB_LINK = ['symmetry.cpp', 'polyheur.cpp', 'resinfo.cpp']


def harness():
    return vlib.build_exe('h_num', [vlib.ROOT + '/harness/h_num.cpp'] + vlib.repo_src('sprintf.cpp', *PDB_LINK))


def driver():
    return vlib.ocaml_driver('num', MODEL_VO)


def hx(s):
    if isinstance(s, str):
        s = s.encode('latin-1')
    return s.hex() if s else '-'


# ---------------------------------------------------------------- buffer sizes (read from the source)

def buffer_sizes():
    """Sizes of the local char buffers of to_str(double), to_str(float), to_str_prec in sprintf.hpp."""
    src = open(os.path.join(vlib.REPO, 'include', 'gemmi', 'sprintf.hpp')).read()
    out = {}
    for key, pat in (('d', r'to_str\(double d\)\s*\{\s*char buf\[(\d+)\]'),
                     ('f', r'to_str\(float d\)\s*\{\s*char buf\[(\d+)\]'),
                     ('p', r'to_str_prec\(double d\)\s*\{[^}]*?char buf\[(\d+)\]')):
        m = re.search(pat, src)
        if not m:
            raise RuntimeError('cannot find the buffer of %s in sprintf.hpp' % key)
        out[key] = int(m.group(1))
    return out


# ---------------------------------------------------------------- a process locale with ',' as decimal point

def comma_locale():
    """Compile gen/comma_locale.src (LC_NUMERIC decimal_point ",") into build/locale/xx_XX.
    Returns env for the harness, or None when localedef is not usable."""
    ldir = os.path.join(vlib.BUILD, 'locale')
    out = os.path.join(ldir, 'xx_XX')
    if not os.path.exists(os.path.join(out, 'LC_NUMERIC')):
        os.makedirs(ldir, exist_ok=True)
        cm = os.path.join(ldir, 'ascii.cm')
        with open(cm, 'w') as f:
            f.write('<code_set_name> ANSI_X3.4-1968\n<comment_char> %\n<escape_char> /\n'
                    '<mb_cur_min> 1\n<mb_cur_max> 1\nCHARMAP\n')
            for i in range(128):
                f.write('<U%04X> /x%02x CHAR%d\n' % (i, i, i))
            f.write('END CHARMAP\n')
        vlib.sh(['localedef', '-c', '-f', cm, '-i', os.path.join(vlib.ROOT, 'gen', 'comma_locale.src'), out],
                timeout=120)
    if not os.path.exists(os.path.join(out, 'LC_NUMERIC')):
        return None
    return {'LOCPATH': ldir, 'VERIF_LOCALE': 'xx_XX'}


# ---------------------------------------------------------------- doubles

def d2bits(d):
    return '%016x' % struct.unpack('<Q', struct.pack('<d', d))[0]


def bits2d(b):
    return struct.unpack('<d', struct.pack('<Q', b))[0]


def f2bits(f):
    return '%08x' % struct.unpack('<I', struct.pack('<f', f))[0]


def exact_decimal(fr, sci=False):
    """Exact decimal expansion of a dyadic rational (finite)."""
    getcontext().prec = 1200
    d = Decimal(fr.numerator) / Decimal(fr.denominator)
    if sci:
        return format(d, 'E').replace('E+', 'e').replace('E-', 'e-')
    s = format(d, 'f')
    return s


def rand_double_bits(rng, lo_exp=0, hi_exp=2046):
    e = rng.randint(lo_exp, hi_exp)
    m = rng.choice([0, 1, (1 << 52) - 1, rng.getrandbits(52), rng.getrandbits(52), rng.getrandbits(20) << 32])
    return (e << 52) | m


def gen_print_doubles(rng, n):
    """Stratified over the exponent range + boundary values."""
    out = []
    special = [0.0, -0.0, 1.0, -1.0, 0.5, 0.125, 0.375, 2.5, 0.0005, 1e7, -1e7, 1e8, -1e8, 99999999.99999999,
               -99999999.99999999, 99999999.999994, -99999999.999996, 9999999.9999995, -9999999.9999995,
               1e-5, 1e-4, 9.9999e-5, 123456.7895, 0.045, 1.005, 2.675, 1e15, 1e16, 1e21, 1e22, 1e23,
               5e-324, 2.2250738585072014e-308, 1.7976931348623157e308, 999999.5, 9999995.0, 99999995.0,
               0.1, 0.2, 0.3, 1 / 3.0, 2 / 3.0, 1e-7, 123456789.0, 1234567890123.0, 0.999999999, 0.9999999995,
               99999.95, 9.5, 10.5, 0.05, 0.15, 0.25, 0.35, 8.5e-7, 999999999.5, 4.35, 4.45, 1e100, 1e-100]
    for d in special:
        out.append(struct.unpack('<Q', struct.pack('<d', d))[0])
    for k in range(-30, 31):
        d = 10.0 ** k
        b = struct.unpack('<Q', struct.pack('<d', d))[0]
        out += [b - 1, b, b + 1]
    while len(out) < n:
        r = rng.random()
        if r < 0.5:       # magnitudes where the fixed-precision branch is used
            b = rand_double_bits(rng, 1023 - 34, 1023 + 27)
        elif r < 0.6:     # decimal ties and near-ties: k / 2^j and x.xxx5
            p = rng.randint(0, 7)
            d = (rng.randint(0, 10 ** rng.randint(1, 9)) + 0.5) / 10 ** p
            b = struct.unpack('<Q', struct.pack('<d', d))[0] + rng.choice([-1, 0, 0, 1])
        else:
            b = rand_double_bits(rng)
        if rng.random() < 0.4:
            b |= 1 << 63
        out.append(b & ((1 << 64) - 1))
    return out


# ---------------------------------------------------------------- number strings

DIG = '0123456789'


def digits(rng, lo, hi, lead_zero=0.2):
    n = rng.randint(lo, hi)
    s = ''.join(rng.choice(DIG) for _ in range(n))
    if s and rng.random() < lead_zero:
        s = '0' * rng.randint(1, 4) + s
    return s


def gen_cif_number(rng):
    sign = rng.choice(['', '', '+', '-'])
    shape = rng.random()
    if shape < 0.3:
        mant = digits(rng, 1, rng.choice([3, 9, 18, 25]))
    elif shape < 0.7:
        mant = digits(rng, 1, rng.choice([3, 9, 18])) + '.' + digits(rng, 1, rng.choice([3, 9, 20, 40]))
    elif shape < 0.85:
        mant = '.' + digits(rng, 1, rng.choice([3, 9, 20]))
    else:
        mant = digits(rng, 1, 9) + '.'
    ex = ''
    if rng.random() < 0.45:
        ex = rng.choice('eE') + rng.choice(['', '+', '-']) + rng.choice(
            [str(rng.randint(0, 30)), str(rng.randint(0, 330)), '0' + str(rng.randint(0, 99)),
             str(rng.randint(290, 330)), str(rng.randint(300, 420))])
    su = ''
    if rng.random() < 0.3:
        su = '(' + digits(rng, 1, 4) + ')'
    return sign + mant + ex + su


NEAR_MISSES = ['', '1e', '.', '+-1', '--1', '-+1', '++1', '1.5(', '1.5()', '1.5(3', '1.5(3)4', '1.5(-3)', '1.5(3.1)',
               'nan', 'NaN', 'NAN', '-nan', '+nan', 'nan(abc)', 'inf', '-inf', '+inf', 'Inf', 'INF', 'infinity',
               '-Infinity', '+-inf', '0x10', '0X1p3', '1d5', '1D5', '1 ', ' 1', '1\t', '\t1', '1\n', '1.5 (3)', '?', '.', '-',
               '+', '-.', '+.', '.e5', 'e5', '1e+', '1e-', '1e+-5', '1.5e', '1.5e3.2', '1..5', '1.5.', '1,5', '1_000',
               '1.5f', '1.5L', '(3)', '1(3)(4)', '1((3))', '1()', '+-1.5', '+-.5', '-+.5', '1e5()', '1.()', '.5()',
               'i', 'n', '-i', '-n', '+i', 'in', 'nan1', '1nan', '1inf', '1e999', '1e-999', '-1e999', '1e309', '1e308',
               '1.7976931348623157e308', '1.7976931348623158e308', '1.7976931348623159e308',
               '179769313486231580793728971405303415079934132710037826936173778980444968292764750946649017977587207096330286416692887910946555547851940402630657488671505820681908902000708383676273854845817711531764475730270069855571366959622842914819860834936475292719074168444365510704342711559699508093042880177904174497791.999999999999',
               '179769313486231580793728971405303415079934132710037826936173778980444968292764750946649017977587207096330286416692887910946555547851940402630657488671505820681908902000708383676273854845817711531764475730270069855571366959622842914819860834936475292719074168444365510704342711559699508093042880177904174497792',
               '4.9406564584124654e-324', '4.9e-324', '5e-324', '3e-324', '2.5e-324', '2.4703282292062327e-324',
               '2.4703282292062328e-324', '2.4703282292062329e-324', '2e-324', '1e-324', '1e-400', '0e-400', '0e999',
               '0.0e99999999999999999999', '1e99999999999999999999', '1e-99999999999999999999', '-0', '-0.0', '+0', '0',
               '00', '007', '-007.500', '2.2250738585072014e-308', '2.2250738585072011e-308', '2.225073858507201e-308',
               '9007199254740993', '9007199254740992.5', '9007199254740993.000000000000000000000000000001',
               '0.1', '0.30000000000000004', '123456789012345678901234567890', '1e22', '1e23', '8.5e-7',
               '1\x00', '1\x002', '\x00', '1.5(3)\x00', '\xb11', '1\xe9']


def mutate(rng, s):
    alpha = '+-.eE()0123456789 nNiIxXdD\t\x00,'
    if not s:
        return rng.choice(alpha)
    i = rng.randrange(len(s) + 1)
    r = rng.random()
    if r < 0.35:
        return s[:i] + rng.choice(alpha) + s[i:]
    if r < 0.7 and i < len(s):
        return s[:i] + s[i + 1:]
    if i < len(s):
        return s[:i] + rng.choice(alpha) + s[i + 1:]
    return s + rng.choice(alpha)


def gen_halfway(rng, n):
    """Decimal strings exactly half way between adjacent doubles, and one digit to either side."""
    out = []
    for _ in range(n):
        r = rng.random()
        if r < 0.25:
            b = rand_double_bits(rng, 0, 1)             # sub-normals and the first normal binade
        elif r < 0.75:
            b = rand_double_bits(rng, 1023 - 70, 1023 + 70)
        else:
            b = rand_double_bits(rng, 2, 2045)
        x = Fraction(bits2d(b))
        y = Fraction(bits2d(b + 1)) if ((b + 1) >> 52) & 2047 != 2047 else None
        if y is None:
            continue
        mid = (x + y) / 2
        sci = rng.random() < 0.5 or mid < Fraction(1, 10 ** 30) or mid > 10 ** 30
        s = exact_decimal(mid, sci=sci)
        out.append(s)
        # nudge the last mantissa digit: just below / just above the tie
        if 'e' in s:
            mant, ex = s.split('e')
            ex = 'e' + ex
        else:
            mant, ex = s, ''
        if '.' not in mant and not ex:
            # an integer midpoint (doubles of 2^53 and more): the neighbours one unit above and below, and a fraction
            # just above - long integers take another path of fast_float than numbers with a decimal point
            out.append(str(int(mant) + 1))
            out.append(str(int(mant) - 1))
            out.append(mant + '.' + '0' * rng.randint(0, 12) + '1')
        out.append(mant + '1' + ex)
        if mant[-1] != '0' and '.' in mant:
            out.append(mant[:-1] + str(int(mant[-1]) - 1) + '9' * rng.randint(1, 5) + ex)
        if rng.random() < 0.3:
            out.append('-' + s)
    return out


def gen_repr(rng, n):
    out = []
    for _ in range(n):
        d = bits2d(rand_double_bits(rng, 1, 2046))
        out.append(repr(d) if rng.random() < 0.5 else '%.17g' % d)
        if rng.random() < 0.3:
            out.append('%.*f' % (rng.randint(0, 8), bits2d(rand_double_bits(rng, 1023 - 20, 1023 + 30))))
    return out


def gen_number_strings(rng, n):
    out = list(NEAR_MISSES)
    for s in NEAR_MISSES:
        out.append(mutate(rng, s))
    for _ in range(n):
        s = gen_cif_number(rng)
        out.append(s)
        r = rng.random()
        if r < 0.35:
            out.append(mutate(rng, s))
        elif r < 0.4:
            out.append(mutate(rng, mutate(rng, s)))
    out += gen_halfway(rng, max(20, n // 10))
    # integers of twenty and more digits at and next to midpoints of adjacent doubles, lower neighbour even and odd
    for k in (63, 64, 65, 70, 80):
        for j in (0, 1, 2, 3):
            ulp = 2 ** (k - 52)
            mid = 2 ** k + j * ulp + ulp // 2
            out += [str(mid), str(mid + 1), str(mid - 1), str(mid) + '.0', str(mid) + '.000000000000000000001', '-' + str(mid + 1)]
    out += gen_repr(rng, max(20, n // 10))
    return out


def decimal_field(s):
    """blanks* [+-]? decimal blanks* (whole field) - where read_double must agree with strtod."""
    return re.fullmatch(r'[ \t\n\v\f\r]*[+-]?(\d+\.?\d*|\.\d+)([eE][+-]?\d+)?[ \t\n\v\f\r]*', s) is not None


# ---------------------------------------------------------------- integer strings

def gen_int_string(rng):
    pre = rng.choice(['', '', ' ', '  ', '\t', ' \n', '\r\v\f '])
    sign = rng.choice(['', '', '-', '+'])
    r = rng.random()
    if r < 0.1:
        body = rng.choice(['2147483647', '2147483646', '0', '00000', '0002147483647', '1000000000', '999999999'])
    elif r < 0.15:
        sign, body = '-', rng.choice(['2147483648', '2147483647', '0000002147483648'])
    else:
        body = digits(rng, rng.choice([0, 1, 1, 1]), rng.choice([1, 3, 5, 9]))
    post = rng.choice(['', '', '', ' ', '  ', '\n', 'x', '.5', ' 7', '-', '+3', 'e5', '\x00', '\x001', ' \t\r'])
    return pre + sign + body + post


def int_value_fits(s, no_sign=False):
    """True when the C code computes without int overflow (the documented precondition)."""
    m = re.match(r'[ \t\n\v\f\r]*([+-]?)(\d*)', s)
    sign, ds = m.group(1), m.group(2)
    if no_sign:
        m2 = re.match(r'[ \t\n\v\f\r]*(\d*)', s)
        ds, sign = m2.group(1), ''
    v = int(ds) if ds else 0
    if sign == '-':
        return v <= 2147483648
    return v <= 2147483647
