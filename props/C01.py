"""C01: CIF documents survive write-then-read under every formatting option.
Theorems (Properties_C01.v) + byte-exact correspondence of the Coq writer / quote / BufOstream model with gemmi
+ the round-trip oracle evaluated on gemmi (read -> write(opts) -> read, DOM -> write -> read) under ASan."""
import random

import vlib
from props import fam_cif as F

H = 'h_cif'


MANIFEST = {'technique': 'Coq proof (quote/as_string inverse, writer buffer invariant for all documents and option values, value re-lexing and layout safety) + byte-exact differential check + round-trip oracles on gemmi', 'text': 'NUMBERS IN JSON / mmJSON (JsonWriter::write_as_number modelled in Cif/JsonNum.v): for every string of the CIF production Numeric, given by its parts, the text written is proved to be sign, integer digits without leading zeros (0 when none), point and fraction digits (0 when none), exponent, no standard uncertainty, and the JSON number grammar accepts it; compared byte for byte with the mmJSON writer of gemmi (and sajson accepts the file) on generated numbers. WHOLE DOCUMENT ROUND TRIP (C01_document_roundtrip): for every document the writer accepts and every value of the writer options, the written bytes tokenise and the token list parses, by the grammar of cif.hpp over tokens (datablock / dataitem / loop / save frame), back to the document itself - minus what the writer does not write (comments, erased items, loops without values) and with one-row loops as pairs when prefer_pairs says so. TOKENS (C01_document_tokens): for every document (blocks, pairs, loops, save frames, comments, erased items) and every value of the writer options, the bytes of write_cif_to_stream are cut by the white-space / comment / tag / reserved-word / value rules of cif.hpp into exactly the tokens of the document, in order - every name, tag and value unchanged, nothing lost or added; the loop body re-lexes to exactly the written values (C01_loop_body_roundtrip). Theorems: as_string(quote s) = s under the exact side condition (no CR tail when a text field is needed; the unconditional claim is refuted with a witness); the sequence of buffer operations the writer issues keeps 0 <= ptr <= 4096 for EVERY document and EVERY option value and the buffered output equals the concatenation of the pieces; a well-formed raw value of any of the five lexical classes written where the writer places it (pairs: 120-column rule, alignment; loops: all column counts/widths) re-lexes to exactly itself. Pre-fix behaviour is kept as refuted witnesses. The writer/quoting/lexer model is compared byte-exactly with gemmi (DOM x options incl. widths 0..65535; PEGTL value rule); oracles on gemmi: write->read at check levels 0/1/2 for generated and mutated texts and DOMs, mmJSON write->read, JSON value assignment. Not modelled: how the PEGTL actions store tokens in the DOM structs (covered by the byte-exact comparison and the oracles), CR-LF normalisation inside text fields, mmJSON.', 'note': 'Trusted: Coq kernel; char_table translator gen/dump_chartable.cpp; extraction; harness (ASan). No axioms. PEGTL document grammar, sajson and std::ostream are not modelled. Known non-repairable: quote() loses a trailing CR of multi-line values; quote of text containing "\\n;".'}

def lines_quote(rng, n):
    out = []
    for s in F.gen_strings(rng, n):
        out.append('q\t' + F.hx(s))
        o = rng.choice(F.all_bool_opts(rng.choice([0, 33, 120]), 0))
        out.append('o_q\t%s %s' % (F.hx(s), F.opts_str(o)))
    # raw values of every lexical class through is_null/is_text_field/as_string as well
    for _ in range(n // 4):
        out.append('q\t' + F.hx(F.gen_value(rng)))
    return out


def lines_write(rng, n, big):
    """DOM x options: model writer vs gemmi byte-exact (+ the round trip for the well-formed DOMs)"""
    out = []
    for i in range(n):
        wf = rng.random() < 0.6
        doc = F.gen_dom(rng, wf=True) if wf else F.arbitrary_dom(rng)
        toks = F.dom_tokens(doc)
        opts = F.gen_opts(rng, 3, big=big)
        if i % 7 == 0:
            opts += F.all_bool_opts(rng.choice(F.WIDTHS), rng.choice(F.WIDTHS))
        for o in opts:
            out.append('write\t%s %s' % (F.opts_str(o), toks))
            if wf:
                out.append('o_dom\t%d %s %s' % (rng.choice([0, 0, 1, 2]), F.opts_str(o), toks))
    return out


def lines_special():
    """the witnesses of the refuted-before-fix theorems and other boundary documents, as DOMs"""
    out = []
    x = F.hx(b'x')
    pair = 'B %s P %s %s' % (x, F.hx(b'_a'), F.hx(b'1'))
    for ap in (511, 512, 513, 3584, 4095, 60000, 65535):
        out.append('write\t0 0 0 %d 0 %s' % (ap, pair))
        out.append('o_dom\t1 0 0 0 %d 0 %s' % (ap, pair))
    loop = 'B %s L 2 4 %s %s %s %s %s %s' % (x, F.hx(b'_b'), F.hx(b'_c'), F.hx(b'v' * 40), F.hx(b'2'), F.hx(b'3'), F.hx(b'4'))
    for al in (1, 39, 40, 41, 512, 3584, 4095, 60000, 65535):
        out.append('write\t0 0 0 0 %d %s' % (al, loop))
        out.append('o_dom\t1 0 0 0 0 %d %s' % (al, loop))
    # a long stretch of pairs that fills the buffer close to the margin, then wide padding / many separators
    filler = ' '.join('P %s %s' % (F.hx(b'_f%d' % i), F.hx(b'v' * 50)) for i in range(61))
    for ap in (0, 600, 4000):
        out.append('write\t0 0 1 %d 0 B %s %s' % (ap, x, filler))
    for n in (100, 600, 4100):
        empties = ' '.join('L 1 0 %s' % F.hx(b'_e%d' % i) for i in range(n))
        for h in (0, 1):
            out.append('write\t0 0 %d 0 0 B %s %s %s' % (h, x, filler, empties))
            out.append('o_dom\t1 0 0 %d 0 0 B %s %s %s' % (h, x, filler, empties))
    semi = b';' + b'y' * 118
    for tag in (b'_a', b'_ab', b'_abc'):          # |tag| + |value| = 121, 122, 123 / and 120 for '_a' minus one
        for v in (semi, semi[:-1]):
            d = 'B %s P %s %s' % (x, F.hx(tag), F.hx(v))
            out.append('write\t0 0 0 0 0 ' + d)
            out.append('o_dom\t1 0 0 0 0 0 ' + d)
    d = 'B %s L 2 4 %s %s %s %s %s %s' % (x, F.hx(b'_b'), F.hx(b'_c'), F.hx(b';z'), F.hx(b';q'), F.hx(b';t\n;'), F.hx(b';w'))
    for o in F.all_bool_opts(0, 0) + F.all_bool_opts(33, 7):
        out.append('write\t%s %s' % (F.opts_str(o), d))
        out.append('o_dom\t0 %s %s' % (F.opts_str(o), d))
    return out


def lines_texts(rng, n, big):
    out = []
    texts = list(F.special_texts())
    corpus = F.corpus_texts()
    for name, b in corpus:
        texts.append(b if len(b) < 70000 else b[:70000])
    for _ in range(n):
        r = rng.random()
        if r < 0.6:
            t = F.gen_cif_text(rng)
            if rng.random() < 0.25:
                t = F.mutate_text(rng, t, 2)
        elif corpus:
            name, b = rng.choice(corpus)
            t = F.mutate_text(rng, F.cut_window(rng, b, rng.choice([300, 1500, 6000])))
        else:
            t = F.gen_cif_text(rng)
        texts.append(t)
    for t in texts:
        for level in (0, 1, 2):
            for o in F.gen_opts(rng, 2, big=big and len(t) < 3000):
                out.append('o_rt\t%d %s %s' % (level, F.opts_str(o), F.hx(t)))
    return out


def lines_json(rng, n):
    """mmJSON: the reader assigns to every item the content of its JSON value; write_mmjson -> read_mmjson_insitu"""
    out = []
    for _ in range(n):
        js, dump = F.gen_mmjson(rng)
        out.append('o_json\t%s | %s' % (F.hx(js), dump))
        out.append('o_mmjson\t' + F.dom_tokens(F.gen_mmcif_dom(rng)))
    return out


def lines_buf(rng, n):
    return ['buf\t' + F.gen_buf_ops(rng) for _ in range(n)]


def still_fails(h, cmd, args):
    rc, out, err = vlib.run_lines(h, [], inp=('%s\t%s\n' % (cmd, args)).encode(), timeout=60)
    if rc != 0:
        return True
    for l in out:
        p = l.split('\t')
        if len(p) == 3 and p[0] == cmd:
            return p[2] not in ('ok', 'skip', '1')
    return True


def shrink_text(h, cmd, args, budget=120):
    """greedy shrinking of the CIF text of an o_rt failure: drop lines, then byte windows"""
    w = args.split(' ')
    head, text = w[:-1], bytes.fromhex(w[-1]) if w[-1] != '-' else b''
    tries = 0

    def ok(t):
        nonlocal tries
        tries += 1
        return still_fails(h, cmd, ' '.join(head + [F.hx(t)]))
    for unit in ('line', 64, 8, 1):
        changed = True
        while changed and tries < budget:
            changed = False
            if unit == 'line':
                parts = text.split(b'\n')
                for i in range(len(parts)):
                    cand = b'\n'.join(parts[:i] + parts[i + 1:])
                    if len(cand) < len(text) and tries < budget and ok(cand):
                        text, changed = cand, True
                        break
            else:
                for i in range(0, len(text), unit):
                    cand = text[:i] + text[i + unit:]
                    if tries < budget and ok(cand):
                        text, changed = cand, True
                        break
    return ' '.join(head + [F.hx(text)])


def shrink_dom(h, cmd, args, budget=100):
    """greedy shrinking of a DOM failure: drop items (top-level token groups)"""
    w = args.split(' ')
    nopt = 6 if cmd == 'o_dom' else 5
    head, toks = w[:nopt], w[nopt:]
    # split into groups, each starting at B/P/L/F../C/X at depth 0 (frames kept whole)
    groups, i, depth = [], 0, 0
    while i < len(toks):
        t = toks[i]
        if t == 'B':
            n = 2
        elif t == 'P':
            n = 3
        elif t == 'L':
            n = 3 + int(toks[i + 1]) + int(toks[i + 2])
        elif t == 'F':
            n = 2
        elif t == 'C':
            n = 2
        else:
            n = 1
        groups.append(toks[i:i + n])
        i += n
    tries = 0
    changed = True
    while changed and tries < budget:
        changed = False
        for k in range(len(groups)):
            if groups[k][0] in ('B', 'F', 'E'):
                continue
            cand = groups[:k] + groups[k + 1:]
            tries += 1
            if still_fails(h, cmd, ' '.join(head + [t for g in cand for t in g])):
                groups, changed = cand, True
                break
            if tries >= budget:
                break
    return ' '.join(head + [t for g in groups for t in g])


def bucket_of(p):
    cmd, args, res = p
    if cmd == 'o_rt':
        return 'o_rt:level%s:%s' % (args[0], 'skip' if res == 'skip' else 'roundtrip')
    if cmd in ('o_json', 'o_mmjson'):
        return cmd
    if cmd in ('write', 'o_dom'):
        w = args.split(' ', 6)
        off = 1 if cmd == 'o_dom' else 0
        ap, al = int(w[off + 3]), int(w[off + 4])
        return '%s:width%s' % (cmd, 'big' if max(ap, al) > 511 else ('0' if max(ap, al) == 0 else 'small'))
    return cmd


def lines_jnum(rng, n):
    """CIF numbers by the production Numeric (sign, digits, point, digits, exponent, standard uncertainty) for the model of
    JsonWriter::write_as_number (Cif/JsonNum.v): leading zeros after a sign, bare leading / trailing points, every
    combination with exponent and s.u.; values the writer treats as strings (012, 0e5) are left out."""
    out = []
    digs = lambda k: ''.join(rng.choice('0123456789') for _ in range(k))
    while len(out) < n:
        sg = rng.choice(['', '', '+', '-'])
        d1 = rng.choice(['', '0', '00', '007', '7', '10', '100', digs(rng.randint(1, 5))])
        dot = rng.random() < 0.6
        d2 = rng.choice(['', '0', '5', '50', '05', digs(rng.randint(1, 6))]) if dot else ''
        if not d1 and not d2:
            continue
        ex = rng.choice(['', '', 'e5', 'E-3', 'e+05', 'E0', 'e-00', 'e12'])
        su = rng.choice(['', '', '(3)', '(12)', '(0)'])
        v = sg + d1 + ('.' if dot else '') + d2 + ex + su
        if v[0] == '0' and len(v) > 1 and v[1] != '.':
            continue
        out.append('jnum\t' + v.encode().hex())
    return out


def run(chk):
    quick = chk.tier == 'quick'
    rng = random.Random(chk.seed)
    F.gen_tables()
    chk.trusted += ['translator gen/dump_chartable.cpp (char_table used by the quote/lexer theorems)',
                    'extraction (ExtrOcamlBasic only; Z kept as Coq Z) + extract/cif_drv.ml',
                    'harness/h_cif.cpp built from the repo with ASan+UBSan (reads BufOstream::ptr via a private->public define)',
                    'sajson and the mmJSON writer/reader are not modelled (oracles o_json / o_mmjson on the implementation only)',
                    'PEGTL (cif.hpp grammar engine) and std::ostream are not modelled: whole-document parsing is covered by the '
                    'round-trip oracle on the implementation, value-level lexing by the Coq model of the five value rules']
    chk.assumptions += ['byte strings are lists of codes 0..255; std::string sizes are unbounded integers in the model',
                        'a loop that has values has at least one tag (Loop::length() divides by tags.size())',
                        'BufOstream::pad is modelled by its closed form (chunks of the 3584-byte margin), tied to the code by the buf '
                        'correspondence which compares ptr-buf after every operation',
                        'comments are not stored by the parser, so Comment items are ignored by the round-trip oracle',
                        'quote(): a string containing "\\n;" or ending with CR after a line feed cannot be represented in CIF 1.1 '
                        '(exact side condition proved in C01_quote_as_string_exact)']
    proved = chk.prove()
    h, d = F.harness(), F.driver()
    reps = 1 if quick else 8
    for rep in range(reps):
        lines = []
        if rep == 0:
            lines += lines_special()
        lines += lines_quote(rng, 1500 if quick else 20000)
        lines += lines_write(rng, 500 if quick else 6000, big=True)
        lines += lines_texts(rng, 700 if quick else 8000, big=True)
        lines += lines_buf(rng, 400 if quick else 5000)
        lines += F.gen_lex_inputs(rng, 4000 if quick else 60000)
        lines += lines_jnum(rng, 1500 if quick else 20000)
        lines += lines_json(rng, 500 if quick else 8000)
        res = vlib.correspond(chk, h, d, lines, timeout=900 if quick else 3000)
        for l in res['outputs']:
            p = l.split('\t')
            if len(p) == 3:
                nontriv = p[2] not in ('EXC', 'skip') and len(p[1]) > 20
                chk.case(p[0] + ' ' + p[1], nontriv,
                         sample={'cmd': p[0], 'args': p[1][:300], 'impl': p[2][:200]} if chk.evaluations % 1499 == 0 else None,
                         bucket=bucket_of(p))
        for (cmd, args, impl, model) in res['mismatches'][:40]:
            chk.violate('correspondence', 'cif-model disagrees with gemmi on command ' + cmd,
                        'input=%s impl=%s model=%s' % (args[:3000], impl[:1500], model[:1500]),
                        replay={'harness': H, 'line': cmd + '\t' + args}, found_input=False)
        shrunk = 0
        seen_kinds = set()
        for (cmd, args, r) in res['oracle_fail']:
            kind = cmd + ':' + r[:28]
            if kind not in seen_kinds and shrunk < 4:
                seen_kinds.add(kind)
                shrunk += 1
                try:
                    args = shrink_text(h, cmd, args) if cmd == 'o_rt' else (shrink_dom(h, cmd, args) if cmd == 'o_dom' else args)
                    rc, out, err = vlib.run_lines(h, [], inp=('%s\t%s\n' % (cmd, args)).encode(), timeout=60)
                    rr = [x.split('\t')[2] for x in out if x.count('\t') == 2]
                    r = rr[0] if rr else r
                except Exception:
                    pass
            chk.violate('oracle', 'C01 round trip fails on gemmi: %s %s' % (cmd, args[:1500]), 'oracle result: ' + r[:2000],
                        replay={'harness': H, 'line': cmd + '\t' + args})
        for (line, kind, err) in res['crashes']:
            chk.violate('crash', 'h_cif %s on %s' % (kind, line[:1500]), err,
                        replay={'harness': H, 'line': line})
    chk.rule = ('q: byte strings (curated + random over 6 alphabets) through is_null/is_text_field/as_string/quote, exact; '
                'write: generated DOMs (five lexical classes, ; # _ $ first, quotes in quotes, keywords, |tag|+|value| 118..123, '
                'text fields with CR-LF / lone CR, empty loops, frames, comments, erased, several blocks, arbitrary byte values) x '
                'options (3 booleans x widths {0,1,33,34,120,511,512,513,3584,4095,65535} + random), byte-exact; '
                'buf: BufOstream op sequences, ptr-buf after every op + output; lex: the value rule of cif.hpp (through PEGTL) on raw values + tails, mutations, keyword spellings, both bol states (OK length / NO / ERR); oracles o_q/o_dom/o_rt on gemmi at check levels 0/1/2 '
                'for generated texts, mutated tests/*.cif windows and generated DOMs; o_json (generated mmJSON with strings, numbers, null, booleans, arrays: every item gets the content of its JSON value) and o_mmjson (write_mmjson -> read_mmjson_insitu on mmCIF-shaped DOMs, string values and ?). non-trivial = not rejected, input > 20 chars')
    if not proved:
        chk.violate('proof', 'Properties_C01 ' + ','.join(getattr(chk, 'failed_theorems', [])),
                    getattr(chk, 'coq_log_tail', ''), found_input=False)


def replay(chk, path):
    import json
    r = json.load(open(path))['replay']
    h = F.harness()
    rc, out, err = vlib.run_lines(h, [], inp=(r['line'] + '\n').encode())
    print('\n'.join(out), err[-3000:])
    if not r['line'].startswith('o_'):
        d = F.driver()
        rc, out2, err2 = vlib.run_lines(d, [], inp=('\n'.join(out) + '\n').encode())
        print('\n'.join(out2))
