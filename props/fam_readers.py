"""Text-format readers family (C02)."""
import glob

import vlib

MODEL_VO = ['Readers/Pir.vo', 'Readers/OperExpr.vo']


def harness():
    srcs = sorted(glob.glob(vlib.REPO + '/src/*.cpp'))
    return vlib.build_exe('h_readers', [vlib.ROOT + '/harness/h_readers.cpp'] + srcs)


def harness_vg():
    """The same harness without sanitizers, for valgrind/memcheck (which also sees inside libstdc++ and
    reports uses of uninitialised values)."""
    srcs = sorted(glob.glob(vlib.REPO + '/src/*.cpp'))
    return vlib.build_exe('h_readers_vg', [vlib.ROOT + '/harness/h_readers.cpp'] + srcs, flags=['-O1', '-g'])


def driver():
    return vlib.ocaml_driver('readers', MODEL_VO)


def harness_oper():
    """parse_operation_expr sits in an anonymous namespace of src/mmcif.cpp: h_oper.cpp includes that file textually."""
    srcs = [p for p in sorted(glob.glob(vlib.REPO + '/src/*.cpp')) if not p.endswith('/mmcif.cpp')]
    return vlib.build_exe('h_oper', [vlib.ROOT + '/harness/h_oper.cpp'] + srcs, flags=vlib.SAN_FLAGS + ['-I' + vlib.REPO])
