"""Text-format readers family (C02)."""
import glob

import vlib

MODEL_VO = ['Readers/Pir.vo']


def harness():
    srcs = sorted(glob.glob(vlib.REPO + '/src/*.cpp'))
    return vlib.build_exe('h_readers', [vlib.ROOT + '/harness/h_readers.cpp'] + srcs)


def driver():
    return vlib.ocaml_driver('readers', MODEL_VO)
