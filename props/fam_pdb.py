"""PDB / mmCIF coordinate-file family (C06, C07): harness/driver builders and input generators."""
import os
import random

import vlib

MODEL_VO = ['Pdb/Records.vo', 'Pdb/AtomSite.vo', 'Pdb/Subchain.vo', 'Pdb/AtomLine.vo', 'Pdb/CcdAlias.vo']

PDB_SRCS = ['polyheur.cpp', 'resinfo.cpp', 'sprintf.cpp', 'symmetry.cpp', 'gz.cpp']


def gen_tables():
    """Translator: the printf format strings of the ATOM / HETATM and CRYST1 records are copied out of src/to_pdb.cpp into
    coq/Pdb/AtomFmt_gen.v (the kernel then re-checks that the model's lines are what those formats produce)."""
    rc, out, err = vlib.sh(['python3', vlib.ROOT + '/gen/extract_atom_fmt.py', vlib.REPO], timeout=60)
    if rc != 0:
        raise RuntimeError('extract_atom_fmt failed: ' + err.decode()[-2000:])
    changed = vlib.write_if_changed(vlib.COQ + '/Pdb/AtomFmt_gen.v', out)
    if changed:
        vlib.log('AtomFmt_gen.v changed -> the format theorems will be re-checked')
    return changed


def harness():
    return vlib.build_exe('h_pdb', [vlib.ROOT + '/harness/h_pdb.cpp'] + vlib.repo_src(*PDB_SRCS))


def driver():
    gen_tables()
    return vlib.ocaml_driver('pdb', MODEL_VO)


def hx(s):
    if isinstance(s, str):
        s = s.encode('latin-1')
    return s.hex() if s else '-'


# ---------------------------------------------------------------- C06 generators

P36 = [36 ** k for k in range(7)]
SER_EDGES = sorted(set([0, 1, 9, 10, 99, 100, 999, 1000, 9999, 10000, 99998, 99999, 100000, 100001, 100035, 100036,
                        43770015, 43770014, 43770016, 50000000] +
                       [100000 + d * P36[k] + e for k in range(1, 5) for d in (1, 2, 25) for e in (-1, 0, 1)]))
SID_EDGES = sorted(set([-999, -998, -100, -99, -10, -9, -1, 0, 1, 9, 10, 99, 100, 999, 1000, 9998, 9999, 10000, 10001,
                        10035, 10036, 1223055, 1223054, 1223056, -1000, -5000, 2000000] +
                       [10000 + d * P36[k] + e for k in range(1, 4) for d in (1, 2, 25) for e in (-1, 0, 1)]))
FIELD_ALPHABET = b'  --+0123456789AZaz\n\r\x00\t.xXgG'


def rand_field(rng, n):
    return bytes(rng.choice(FIELD_ALPHABET) for _ in range(n))


def codec_lines(rng, n):
    lines = []
    for v in SER_EDGES:
        lines.append('ser\t%d' % v)
    for v in SID_EDGES:
        for ic in (32, 65, 57):
            lines.append('sid\t%d %d' % (v, ic))
    for _ in range(n):
        lines.append('ser\t%d' % rng.choice([rng.randrange(0, 100000), rng.randrange(100000, 43770016),
                                             rng.randrange(0, 60000000)]))
        lines.append('sid\t%d %d' % (rng.choice([rng.randrange(-999, 10000), rng.randrange(10000, 1223056),
                                                 rng.randrange(-400000, 1700000)]),
                                     rng.choice([32, 32, 65, 66, 90, 97, 48, 57, 45, 9, 13, 10, 200])))
        lines.append('b36\t%d %d' % (rng.randrange(1, 7), rng.choice([rng.randrange(0, 36 ** 5), rng.randrange(0, 50),
                                                                   rng.randrange(0, 2 ** 31 - 1)])))
        lines.append('rser\t' + hx(rand_field(rng, 6)))
        lines.append('rsid\t' + hx(rand_field(rng, 6)))
        lines.append('rint\t%d %s' % (rng.randrange(1, 10), hx(rand_field(rng, 9).replace(b'9', b'1'))))
        lines.append('rstr\t%d %s' % (rng.randrange(1, 12), hx(rand_field(rng, 12))))
    cs = [32, 43, 45, 0, 48, 49, 50, 57, 9, 10, 13, 65, 46, 47, 58]
    for d in cs:
        for s in cs:
            lines.append('rchg\t%d %d' % (d, s))
    for s in ['A0000', 'ZZZZZ', 'a0000', ' A000', 'A000 ', '-A000', '+1234', '    5', '   -5', '  - 5', '12345', '1234\n', '\r    ',
              '99999', '00000', 'A00\x0000', 'zzzzz', '1e3  ', '0x10 ', '  12A', 'A 000']:
        lines.append('rser\t' + hx(s + 'Q'))
        lines.append('rsid\t' + hx(s + 'Q'))
    return lines


def copyline_lines(rng, n):
    lines = []
    for _ in range(n):
        buf = bytes(rng.choice(b'ABC xyz123\x00\n') for _ in range(121)) + b'\x00'
        k = rng.choice([0, 1, 2, 5, 30, 79, 80, 81, 99, 100, 119, 120, 121, 122, 130, 200])
        body = bytes(rng.choice(b'SEQRES ABC 123  \x00\xe9\r') if rng.random() < 0.1 else rng.choice(b'SEQRES ABC 123  ')
                     for _ in range(k))
        data = body + rng.choice([b'\n', b'\n', b'\r\n', b'']) + rng.choice([b'', b'NEXT LINE\n', b'\n', b'X'])
        size = rng.choice([121, 121, 81, 101, 2, 11, rng.randrange(2, 122)])
        lines.append('copyline\t%d %s %s' % (size, hx(buf), hx(data)))
    return lines


RES = ['ALA', 'GLY', 'MSE', 'DG', 'U', 'A', 'TRP', '7ZQ', 'HOH', 'CYS']


def seqid_field(rng):
    """5 columns: 4 of number (decimal or hybrid-36) + insertion code."""
    n = rng.choice([rng.randrange(-999, 10000), rng.randrange(1, 300), rng.randrange(10000, 1223056), 9999, 10000, -999])
    if -1000 < n < 10000:
        s = '%4d' % n
    else:
        v, s = n + 456560, ''
        for _ in range(4):
            s = '0123456789ABCDEFGHIJKLMNOPQRSTUVWXYZ'[v % 36] + s
            v //= 36
    return s + rng.choice('    AB1')


def chain_name(rng):
    return rng.choice(['A', 'B', 'a', 'Z', '1', 'AB', 'x9', ' '])


def record_line(rng, wellformed=False):
    k = rng.random()
    ch = chain_name(rng)
    if k < 0.30:
        n = rng.choice([1, 2, 3, 5, 12, 13, 13, 13])
        names = ' '.join('%3s' % rng.choice(RES) for _ in range(n))
        return 'SEQRES%4d%2s%5d  %s' % (rng.randrange(1, 30), ch, rng.randrange(1, 400), names)
    if k < 0.45:
        kind = rng.choice([' ', ' ', '1', '2', '2', '3'])
        if kind == ' ':
            return 'DBREF  %4s%2s %s %s %-6s %-8s %-12s %5d%s %5d%s' % (
                rng.choice(['1ABC', '', '9XYZ']), ch, seqid_field(rng), seqid_field(rng), rng.choice(['UNP', 'PDB', 'GB']),
                rng.choice(['P12345', 'Q9XYZ1', 'A0A024R1']), rng.choice(['ABC_HUMAN', 'X', 'LONGIDCODE12']),
                rng.randrange(1, 99999), rng.choice('  AB'), rng.randrange(1, 99999), rng.choice('   C'))
        if kind == '1':
            return 'DBREF1 %4s%2s %s %s %-6s               %-20s' % (
                '1ABC', ch, seqid_field(rng), seqid_field(rng), rng.choice(['UNP', 'GB']), rng.choice(['A0A024R1_HUMAN', 'X', 'ABCDEFGHIJKLMNOPQRST']))
        if kind == '2':
            return 'DBREF2 %4s%2s     %-22s     %10d  %10d' % ('1ABC', ch, rng.choice(['A0A024R1', 'ABCDEFGHIJKLMNOPQRSTUV']),
                                                              rng.randrange(1, 999999999), rng.randrange(1, 999999999))
        return 'DBREF3 %4s%2s  whatever 123 456' % ('1ABC', ch)
    if k < 0.58:
        return 'MODRES %4s %3s%2s %s %3s  %-41s  %-8s' % (rng.choice(['1ABC', '']), rng.choice(RES), ch, seqid_field(rng), rng.choice(RES),
                                                          rng.choice(['SELENOMETHIONINE', '', 'X', 'A COMMENT THAT IS AS LONG AS THE FIELD ALLOWS.', 'OVERFLOWING COMMENT THAT IS LONGER THAN FORTY-ONE']),
                                                          rng.choice(['', 'MOD1', 'ABCDEFGH']))
    if k < 0.72:
        s = 'HELIX %4d%4d %3s%2s %s %3s%2s %s%2d' % (rng.randrange(1, 999), rng.randrange(1, 999), rng.choice(RES), ch, seqid_field(rng),
                                                     rng.choice(RES), chain_name(rng), seqid_field(rng), rng.choice([1, 5, 10, 0, 11, -1, 3]))
        if rng.random() < 0.7:
            s += ' %35s' % rng.choice(['12', '0', '', '-1', '99999', '7'])
        return s
    if k < 0.88:
        s = 'SHEET%5d %3s%2d %3s%2s%s %3s%2s%s%2d' % (rng.randrange(1, 99), rng.choice(['A', 'B', 'AA1', 'S2']), rng.randrange(1, 9),
                                                     rng.choice(RES), ch, seqid_field(rng), rng.choice(RES), chain_name(rng), seqid_field(rng),
                                                     rng.choice([0, 1, -1]))
        if rng.random() < 0.6:
            s += '  %-3s%3s%2s%s  %-3s%3s%2s%s' % (rng.choice(['O', 'N', 'OG1']), rng.choice(RES), chain_name(rng), seqid_field(rng),
                                                   rng.choice(['O', 'N', 'NE2']), rng.choice(RES), chain_name(rng), seqid_field(rng))
        return s
    if k < 0.97:
        def ser():
            n = rng.choice([rng.randrange(1, 100000), rng.randrange(1, 50), rng.randrange(100000, 43770016), 0])
            if n < 100000:
                return '%5d' % n
            v, s = n + 16696160, ''
            for _ in range(5):
                s = '0123456789ABCDEFGHIJKLMNOPQRSTUVWXYZ'[v % 36] + s
                v //= 36
            return s
        return 'CONECT' + ''.join(ser() for _ in range(rng.randrange(1, 6)))
    other = ['REMARK   2 RESOLUTION. 1.50 ANGSTROMS.', 'JUNK LINE', 'TER', 'END', 'ENDMDL', 'TITLE     SOMETHING', 'SEQADV 1ABC',
             'HET    SO4 A 101       5', 'FORMUL   2  HOH   *42(H2 O)']
    if not wellformed:   # bare record names: incomplete records
        other += ['SEQRES', 'DBREF', 'MODRES', 'SHEET', 'HELIX', 'CONECT']
    return rng.choice(other)


def mutate_line(rng, s, wellformed=False):
    k = rng.random()
    if wellformed:   # complete records only: unpadded, padded to 80 columns, or lower case
        return s if k < 0.5 else s.ljust(80) if k < 0.9 else s.lower()
    if k < 0.35:
        return s                                        # unpadded
    if k < 0.55:
        return s.ljust(80)                              # padded as written by gemmi
    if k < 0.65:
        return s.ljust(rng.randrange(len(s), 125))      # padded to some other width
    if k < 0.85:
        return s[:rng.randrange(0, len(s) + 1)]         # cut short
    if k < 0.92:
        return s.lower() if rng.random() < 0.5 else s.rstrip()
    return s + ' ' * rng.randrange(0, 3) + rng.choice(['X', '1', 'ZZ'])


def record_text(rng, nlines, wellformed=False):
    """A sequence of records with long and short lines interleaved; LF, CR-LF or mixed line ends."""
    eol_mode = rng.choice(['\n', '\n', '\r\n', 'mix'])
    out = []
    for _ in range(nlines):
        line = mutate_line(rng, record_line(rng, wellformed), wellformed)
        eol = eol_mode if eol_mode != 'mix' else rng.choice(['\n', '\r\n'])
        out.append(line + eol)
    text = ''.join(out)
    if rng.random() < 0.1:
        text = text.rstrip('\r\n')   # no newline at the end of the file
    return text


def repo_pdb_files():
    d = os.path.join(vlib.REPO, 'tests')
    return sorted(os.path.join(d, f) for f in os.listdir(d)
                  if f.endswith(('.pdb', '.pdb.gz', '.ent', '.ent.gz')) and 'sf' not in f)


# ---------------------------------------------------------------- C07

CIF_SRCS = ['mmcif.cpp', 'to_mmcif.cpp', 'pdb.cpp', 'to_pdb.cpp', 'read_cif.cpp', 'polyheur.cpp', 'resinfo.cpp',
            'sprintf.cpp', 'symmetry.cpp', 'gz.cpp', 'json.cpp']


def harness_cif():
    return vlib.build_exe('h_pdbcif', [vlib.ROOT + '/harness/h_pdbcif.cpp'] + vlib.repo_src(*CIF_SRCS))
