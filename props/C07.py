"""C07: mmCIF models round-trip, and PDB and mmCIF describe the same structure.
Theorem (Properties_C07.v: regroup o flatten = id under well-formedness) + correspondence of the _atom_site
flatten/regroup model with gemmi (make_mmcif_document -> make_structure_from_block, including ill-formed inputs where
residues are merged) + end-to-end oracles on gemmi (write->read->write text equality, structure equality, PDB route vs
mmCIF route) x MmcifOutputGroups switches."""
import json
import random

import vlib
from props import fam_pdb as F


MANIFEST = {'technique': 'Coq proof (atom-site flatten/regroup inverse by induction; sub-chain naming injective for all counters and chain names; aliases of long residue names pairwise distinct and restore o shorten = id for every name list) + differential check of row order + mmCIF/PDB round-trip oracles on gemmi', 'text': 'LONG RESIDUE NAMES (Pdb/CcdAlias.v models shorten_ccd_codes / restore_full_ccd_codes of polyheur.cpp - collection of the distinct long names, the tilde + last-two-characters pass, the numbered fall-back pass with its shared counter, both renaming loops): for every list of residue names the aliases are pairwise distinct and of the shape ~xy, the table holds exactly the long names once each, every shortened name fits three characters and restoring returns the original list (no name may start with the reserved ~; aliases not run out); compared exactly with gemmi on generated name lists (shared endings, endings that collide with the numbered aliases, repeats) and, as an oracle, through a PDB file and an mmCIF file of the shortened structure. The o_cif oracle also sets the optional per-atom mmCIF attributes calc_flag and TLS group id (each alone, both, neither). The PDB-vs-mmCIF oracle also writes both files from the ORIGINAL structure and compares the connections, so that a defect of one writer cannot hide by feeding the other route. Theorem C07_regroup_flatten: for every structure satisfying the stated well-formedness (distinct model numbers, adjacent chains differ, residue ids pairwise non-matching within a chain) reading the _atom_site rows written for it regroups to the same models/chains/residues/atoms; the precondition is shown necessary by a refuting witness (equal non-adjacent ids merge). SUB-CHAINS (model of assign_subchain_names / assign_subchains in Pdb/Subchain.v, compared with gemmi on every run incl. runs of 1310 non-polymer residues): the suffix of the k-th non-polymer residue decodes back to k for EVERY k (base 36 of any length); chain name + x + suffix identifies chain name and residue class for every chain name (also names containing x); every non-polymer residue of a model gets a sub-chain of its own for any number of chains and residues, also when chains share a name. Oracles on gemmi: structure -> mmCIF -> structure -> mmCIF byte-identical + structure equality x 17 output-group switches (names needing every quote style, multi-character chains, long residue names, negative/large numbers, several models); PDB route vs mmCIF route give the same structure. PARTIAL: entity records, assemblies, connections, secondary structure, sequences, 9-digit number formatting and the PDB/mmCIF agreement are decided by the oracles only.', 'note': 'Trusted: Coq kernel; extraction; harness. No axioms. CIF quoting is property C01.'}

def gen_lines(rng, quick):
    lines = []
    n = 500 if quick else 20000
    for _ in range(n):
        seed = rng.randrange(1, 2 ** 40)
        # bit 0 (the _entity category) is never switched off: the categories that refer to entities cannot be read without it
        gm = rng.choice([0, 0, 0] + [1 << k for k in range(1, 18)] + [rng.randrange(1 << 18) & ~1])
        lines.append('o_cif\t%d %d %d %d %d %d' % (seed, rng.choice([1, 1, 2, 3]), rng.choice([1, 2, 3, 5]),
                                                   rng.choice([1, 3, 6, 15]), gm, rng.choice([0, 0, 1])))
    for _ in range(n // 2):
        lines.append('o_pdbcif\t%d %d %d %d' % (rng.randrange(1, 2 ** 40), rng.choice([1, 1, 2, 3]),
                                                rng.choice([1, 2, 3, 5]), rng.choice([1, 3, 6, 15])))
    for _ in range(n // 2):
        lines.append('rows\t%d %d %d %d %d' % (rng.randrange(1, 2 ** 40), rng.choice([1, 2, 3]), rng.choice([1, 2, 4]),
                                               rng.choice([1, 3, 6]), rng.choice([0, 0, 1, 2, 3])))
    # residue names longer than 3 characters and their aliases (shorten_ccd_codes / restore_full_ccd_codes, model
    # Pdb/CcdAlias.v): long names that share their last two characters, names ending in digits that collide with the
    # numbered fall-back aliases ~00, ~01 ..., repeated names, short names in between
    def hx(t):
        return t.encode().hex() if t else '-'
    pool = ['A1BCD', 'A2BCD', 'B3BCD', 'LONGN', 'XXLGN', 'ABCD', 'WXCD', 'A1B00', 'C9D00', 'Q0001', 'Z9901', 'ABC01', 'ABCDEFG',
            'ALA', 'HOH', 'A', 'MSE', 'CD', 'x00', 'AB~00', 'QQ~01']
    for i in range(400 if quick else 20000):
        k = rng.choice([1, 2, 3, 5, 8, 14])
        names = [rng.choice(pool) for _ in range(k)]
        if rng.random() < 0.3:      # many different long names with one ending: the numbered aliases are used up in order
            names = ['%s%dXY' % (rng.choice('ABC'), j) for j in range(rng.choice([3, 12, 30]))]
        if rng.random() < 0.2:
            names += ['N%03d' % rng.randrange(0, 120) for _ in range(rng.choice([2, 6]))]
        args = ' '.join(hx(nm) for nm in names)
        lines.append('ccd\t' + args)
        lines.append('o_shorten\t' + args)
    # sub-chain naming (assign_subchains): chain names with 'x' / "xp" tails, repeated names, long runs of non-polymer
    # residues that cross the boundaries of the numbering scheme (9|10, 45|46, 1305|1306, 46665|46666 in the thorough tier)
    def hx(t):
        return t.encode().hex() if t else '-'
    names = ['A', 'B', 'Ax', 'Axp', 'x', 'AA', 'A1', 'Ax1', 'Ax0', 'B-2', 'xx', 'Axw', 'AxB']
    for i in range(300 if quick else 6000):
        nch = rng.choice([1, 1, 2, 3, 5])
        toks = []
        for _ in range(nch):
            r = rng.random()
            if r < 0.08:
                run_len = rng.choice([9, 10, 11, 44, 45, 46, 47, 60, 1300, 1310] + ([] if quick else [46700]))
                types = 'P' * rng.randint(0, 3) + 'N' * run_len + 'W' * rng.randint(0, 2)
            elif r < 0.16:
                types = ''.join(rng.choice('PPNNWBU') for _ in range(rng.randint(0, 6)))
            else:
                types = ''.join(rng.choice('PPPNNWB') for _ in range(rng.randint(0, 30)))
            toks += [hx(rng.choice(names)), types or '-']
        cmdl = '%d %s' % (nch, ' '.join(toks))
        lines.append('subch\t' + cmdl)
        lines.append('o_subch\t' + cmdl)
    return lines


def run(chk):
    quick = chk.tier == 'quick'
    rng = random.Random(chk.seed)
    chk.trusted += ['extraction (ExtrOcamlBasic only) + extract/pdb_drv.ml',
                    'harness/h_pdbcif.cpp + harness/pdb_struct.hpp (structure generator, field dump) built from the repo with ASan+UBSan']
    chk.assumptions += ['names survive cif::quote / as_string (property C01); the model works on the unquoted byte strings',
                        'segment ids are not part of mmCIF: generated structures have none',
                        'all models of a generated structure hold the same chains (entities are defined from the first model)',
                        'entities, assemblies, connections, secondary structure, sequences, numbers (%.9g) and the PDB route are '
                        'covered by the end-to-end oracles only, not by a theorem',
                        'the _entity output group is never switched off (the categories referring to entities cannot be read back without it)']
    F.gen_tables()
    proved = chk.prove()
    h, d = F.harness_cif(), F.driver()
    res = vlib.correspond(chk, h, d, gen_lines(rng, quick), timeout=1500)
    for l in res['outputs']:
        p = l.split('\t')
        if len(p) == 3:
            nontriv = p[2] not in ('EXC', 'skip', '?') and not (p[0] == 'rows' and p[2].startswith('-'))
            chk.case(p[0] + ' ' + p[1], nontriv,
                     sample={'cmd': p[0], 'args': p[1], 'impl': p[2][:300]} if chk.evaluations % 97 == 0 else None,
                     bucket=p[0] + (':EXC' if p[2] == 'EXC' else ''))
    for (cmd, args, impl, model) in res['mismatches']:
        chk.violate('correspondence', 'atom_site model disagrees with gemmi on command ' + cmd,
                    'input=%s impl=%s model=%s' % (args, impl[:2000], model[:2000]),
                    replay={'harness': 'h_pdbcif', 'line': cmd + '\t' + args}, found_input=False)
    for (cmd, args, r) in res['oracle_fail']:
        chk.violate('oracle', 'C07 %s fails on gemmi for %s' % (cmd, args), 'oracle result: ' + r[:6000],
                    replay={'harness': 'h_pdbcif', 'line': cmd + '\t' + args})
    for (line, kind, err) in res['crashes']:
        chk.violate('crash', 'h_pdbcif %s on %s' % (kind, line[:200]), err, replay={'harness': 'h_pdbcif', 'line': line})
    chk.extra['correspondence_summary'] = {'compared': res['summary'][0], 'mismatching': res['summary'][1],
                                           'model_silent': res['summary'][2]}
    chk.rule = ('ccd / o_shorten: residue-name lists through shorten_ccd_codes, a PDB file, an mmCIF file and restore_full_ccd_codes vs the alias model; generated structures (1-3 models, 1-5 chains, names needing CIF quoting, multi-character chain names, 5-character '
                'residue names, negative / hybrid-36-range residue numbers, insertion codes, microheterogeneity, altlocs, aniso, '
                'NCS, helices, sheets, LINK, cis-peptides, SEQRES/DBREF): o_cif = make_mmcif_document -> read -> '
                'make_structure_from_block -> make_mmcif_document byte-identical + field-by-field structure equality, x '
                'MmcifOutputGroups switches; o_pdbcif = the same structure read from its PDB file and from its mmCIF file; '
                'rows = _atom_site rows of the structure vs rows after write+read compared with the Coq regrouping, incl. '
                'ill-formed inputs (repeated residue ids). non-trivial = not an exception and at least one atom')
    if not proved:
        chk.violate('proof', 'Properties_C07 ' + ','.join(getattr(chk, 'failed_theorems', [])),
                    getattr(chk, 'coq_log_tail', ''), found_input=False)


def replay(chk, path):
    r = json.load(open(path))['replay']
    h = F.harness_cif()
    rc, out, err = vlib.run_lines(h, [], inp=(r['line'] + '\n').encode())
    print('\n'.join(o[:3000] for o in out), err[-3000:])
    if not r['line'].startswith('o_'):
        d = F.driver()
        rc, out2, err2 = vlib.run_lines(d, [], inp=('\n'.join(out) + '\n').encode())
        print('\n'.join(o[:3000] for o in out2))
