"""Fourier family (C14)."""
import vlib
from props import fam_sym

MODEL_VO = ['Fft/Place.vo', 'Fft/AsuLookup.vo']


def gen_tables():
    return fam_sym.gen_tables()


def harness():
    return vlib.build_exe('h_fft', [vlib.ROOT + '/harness/h_fft.cpp'] + vlib.repo_src('symmetry.cpp'))


def driver():
    return vlib.ocaml_driver('fft', MODEL_VO)
