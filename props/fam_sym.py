"""Symmetry family (C04, C05, C10): table translator, harness/driver builders, input generators."""
import os
import random

import vlib

MODEL_VO = ['Sym/SgCheck.vo']
vlib.BULK_CMDS.add('asucube')


def gen_tables():
    """Translator: regenerate coq/Sym/SgTable_gen.v from /repo's compiled tables."""
    exe = vlib.build_exe('dump_sg', [vlib.ROOT + '/gen/dump_sg.cpp'] + vlib.repo_src('symmetry.cpp'),
                         flags=['-O0'])
    rc, out, err = vlib.sh([exe], timeout=120)
    if rc != 0:
        raise RuntimeError('dump_sg failed: ' + err.decode()[-2000:])
    changed = vlib.write_if_changed(vlib.COQ + '/Sym/SgTable_gen.v', out)
    if changed:
        vlib.log('SgTable_gen.v changed -> proofs over the table will be re-checked')
    return changed


def harness():
    return vlib.build_exe('h_sym', [vlib.ROOT + '/harness/h_sym.cpp'] + vlib.repo_src('symmetry.cpp'))


def driver():
    return vlib.ocaml_driver('sym', MODEL_VO)


def hx(s):
    if isinstance(s, str):
        s = s.encode('latin-1')
    return s.hex() if s else '-'


NROWS = 564

# ---------------------------------------------------------------- operator generators

ID = [24, 0, 0, 0, 24, 0, 0, 0, 24]


def op_str(rot, tran, nota=32):
    return ' '.join(str(x) for x in list(rot) + list(tran) + [nota])


def table_rotations(h):
    """All rotation parts occurring in the table (from the implementation itself)."""
    rc, lines, err = vlib.run_lines(h, [], inp=b''.join(b'row\t%d\n' % i for i in (529, 193, 3, 4, 161, 434)))
    rots = set()
    for l in lines:
        w = l.split('\t')[2].split()
        n = int(w[1])
        for i in range(n):
            o = w[2 + 13 * i: 2 + 13 * i + 13]
            rots.add(tuple(int(x) for x in o[:9]))
    return sorted(rots)


def rand_general_op(rng, big=False):
    while True:
        if big:
            rot = [rng.choice([0, 0, 24, -24, 12, -12, 8, 16, 48, -48, rng.randint(-48, 48)]) for _ in range(9)]
        else:
            rot = [rng.choice([0, 0, 0, 24, -24, 12, -12, 8, -8, 16, 6, 48, -48]) for _ in range(9)]
        det = (rot[0] * (rot[4] * rot[8] - rot[5] * rot[7]) - rot[1] * (rot[3] * rot[8] - rot[5] * rot[6])
               + rot[2] * (rot[3] * rot[7] - rot[4] * rot[6]))
        if det != 0:
            break
    tran = [rng.choice([0, 6, 12, 8, 3, 4, 16, 18, -6, -12, 1, 5, 23, 24, 30, -25, rng.randint(-100, 100)])
            for _ in range(3)]
    return rot, tran


def gen_ops(rng, rots, n):
    ops = []
    for _ in range(n):
        r = rng.random()
        if r < 0.5:
            rot = list(rng.choice(rots))
            tran = [rng.choice([0, 0, 6, 12, 18, 8, 16, 4, 3, 2, 1, 20, 23, -6, -12, 24, 36]) for _ in range(3)]
        elif r < 0.8:
            rot, tran = rand_general_op(rng)
        else:
            rot, tran = rand_general_op(rng, big=True)
        ops.append((rot, tran))
    return ops


# ---------------------------------------------------------------- triplet spellings

def frac_spellings(rng, w):
    """Spellings of the translation w/24."""
    from fractions import Fraction
    f = Fraction(w, 24)
    out = ['%d/%d' % (f.numerator, f.denominator) if f.denominator != 1 else str(f.numerator)]
    dec = {Fraction(1, 2): '0.5', Fraction(1, 4): '0.25', Fraction(3, 4): '0.75', Fraction(1, 8): '0.125',
           Fraction(1, 3): '0.3333', Fraction(2, 3): '0.6667', Fraction(1, 6): '0.16667',
           Fraction(5, 6): '.83333', Fraction(1, 1): '1.0'}
    if abs(f) in dec:
        out.append(dec[abs(f)] if f > 0 else '-' + dec[abs(f)])
    return out


def gen_triplet_strings(rng, n):
    letters = ['xyz', 'XYZ', 'abc', 'hkl', 'HKL', 'ABC']
    out = []
    for _ in range(n):
        ls = rng.choice(letters)
        parts = []
        for i in range(3):
            terms = []
            for j in range(3):
                c = rng.choice([0, 0, 1, -1, 1, -1, 2, -2]) if i != j else rng.choice([1, -1, 1, 0, 2])
                fr = rng.choice([None, None, None, (1, 2), (1, 3), (2, 3), (1, 4), (1, 6), (1, 24), (5, 24)])
                if c == 0:
                    continue
                sign = '-' if c < 0 else '+'
                a = abs(c)
                L = ls[j]
                style = rng.randint(0, 4)
                if fr is None:
                    t = L if a == 1 else ('%d*%s' % (a, L))
                elif style == 0:
                    t = '%d/%d*%s' % (a * fr[0], fr[1], L)
                elif style == 1 and a * fr[0] == 1:
                    t = '%s/%d' % (L, fr[1])
                elif style == 2:
                    t = '%d/%d %s*%s' % (a * fr[0], fr[1], rng.choice(['', ' ']), L)
                else:
                    t = '%d/%d*%s' % (a * fr[0], fr[1], L)
                terms.append((sign, t))
            if ls.lower() != 'hkl' and rng.random() < 0.5:
                w = rng.choice([12, 6, 8, 16, 18, 3, 4, 1, 20, 24, 30])
                sp = rng.choice(frac_spellings(rng, w))
                terms.append((rng.choice('+-'), sp))
            rng.shuffle(terms)
            s = ''
            for k, (sign, t) in enumerate(terms):
                if t.startswith('-'):
                    sign, t = ('-' if sign == '+' else '+'), t[1:]
                if k == 0 and sign == '+' and rng.random() < 0.7:
                    s += t
                else:
                    s += rng.choice(['', ' ', '_']) + sign + rng.choice(['', ' ']) + t
            parts.append(s)
        out.append(','.join(parts))
    # numbers at and beyond the limits of the repaired parser (|n| <= 10^6, |component| <= 10^8), and long sums
    big = ['999999', '1000000', '1000001', '4166666', '4166667', '89478485', '89478486', '2147483647', '2147483648',
           '99999999999999999999', '1000000/24', '1000000/1', '1000001/24', '24000000/24']
    for _ in range(max(4, n // 12)):
        ls = rng.choice(letters)
        r = rng.random()
        if r < 0.5:
            t = '%s%s*%s' % (rng.choice(['', '-', '+']), rng.choice(big), ls[rng.randrange(3)])
        elif r < 0.7:
            t = '%s%s' % (ls[0], rng.choice(['+', '-']) + rng.choice(big))
        else:      # a component that grows term by term: 1000000x repeated k times crosses 10^8 between k = 4 and 5
            k = rng.choice([2, 3, 4, 5, 6, 90])
            t = '+'.join(['%s*%s' % (rng.choice(['1000000', '999999', '500000']), ls[0])] * k)
        parts = [t, ls[1], ls[2]]
        rng.shuffle(parts)
        out.append(','.join(parts))
    return out


def mutate_bytes(rng, s, nmax=3):
    b = bytearray(s.encode('latin-1') if isinstance(s, str) else s)
    for _ in range(rng.randint(1, nmax)):
        r = rng.random()
        pos = rng.randint(0, max(0, len(b)))
        if r < 0.3 and b:
            del b[min(pos, len(b) - 1)]
        elif r < 0.6:
            b.insert(pos, rng.choice(b'xyzhklabc+-*/.,0123456789 _()\'"XYZ\t;:m' + bytes([0, 200, 10])))
        elif b:
            b[min(pos, len(b) - 1)] = rng.choice(b'xyzhklabc+-*/.,0123456789 _q()')
    return bytes(b)


# ---------------------------------------------------------------- Hall symbols / names

def table_strings():
    """hall, xhm, hm, short names read from the generated Coq table (same data the proofs use)."""
    import re
    rows = []
    with open(vlib.COQ + '/Sym/SgTable_gen.v') as f:
        for line in f:
            m = re.match(r'\s*mkRow (\d+) (\d+) \[([0-9;]*)\] (\d+) \[([0-9;]*)\] \[([0-9;]*)\] (\d+)', line)
            if m:
                dec = lambda t: bytes(int(x) for x in t.split(';') if x)
                rows.append({'number': int(m.group(1)), 'ccp4': int(m.group(2)), 'hm': dec(m.group(3)),
                             'ext': int(m.group(4)), 'qual': dec(m.group(5)), 'hall': dec(m.group(6)),
                             'basisop': int(m.group(7))})
    return rows


def alt_strings():
    import re
    alts = []
    with open(vlib.COQ + '/Sym/SgTable_gen.v') as f:
        for line in f:
            m = re.match(r'\s*mkAlt \[([0-9;]*)\] (\d+) (\d+)', line)
            if m:
                alts.append({'hm': bytes(int(x) for x in m.group(1).split(';') if x), 'ext': int(m.group(2)),
                             'pos': int(m.group(3))})
    return alts


def gen_hall(rng, rows, n):
    out = []
    lat = 'PABCIRSTFH'
    for _ in range(n):
        r = rng.random()
        if r < 0.3:
            s = rng.choice(rows)['hall']
            if rng.random() < 0.5:
                s = mutate_bytes(rng, s, 2)
            out.append(s)
            continue
        s = ('-' if rng.random() < 0.3 else '') + rng.choice(lat)
        for pos in range(rng.randint(1, 4)):
            t = (' ' if rng.random() < 0.95 else '_') + ('-' if rng.random() < 0.3 else '')
            t += rng.choice('123462')
            for _k in range(rng.randint(0, 3)):
                t += rng.choice(['x', 'y', 'z', "'", '"', '*', 'a', 'b', 'c', 'n', 'u', 'v', 'w', 'd',
                                 '1', '2', '3', '5', ''])
            s += t
        if rng.random() < 0.3:
            if rng.random() < 0.5:
                s += ' (%d %d %d)' % (rng.randint(-13, 13), rng.randint(0, 12), rng.randint(-1, 6))
            else:
                s += ' (' + rng.choice(['x,y,z+1/4', 'z,x,y', 'x+1/4,y+1/4,z', '-x,z,y', 'x/2+y/2,x/2-y/2,-z',
                                        'x-y,x+y,z', 'h,k,l', '2*x,y,z', 'x,y']) + ')'
            if rng.random() < 0.1:
                s += rng.choice([' ', ' x', ')'])
        out.append(s.encode())
    return out


def name_variants(rng, row):
    hm = row['hm'].decode()
    ext = chr(row['ext']) if row['ext'] else ''
    xhm = hm + (':' + ext if ext else '')
    v = [xhm, hm, hm.replace(' ', ''), hm.lower(), hm.replace(' ', '_'), ' ' + xhm + ' ']
    if ext:
        v += [hm.replace(' ', '') + ':' + ext, hm + ' :' + ext.lower(), hm.replace(' ', '') + ext.lower(),
              hm + ':' + ext.lower()]
    # short monoclinic names
    parts = hm.split(' ')
    if len(parts) == 4 and parts.count('1') == 2:
        nz = [p for p in parts[1:] if p != '1'][0]
        v += [parts[0] + nz, parts[0] + ' ' + nz, parts[0].lower() + nz]
    if row['number'] >= 195 and '-3' in hm:
        v.append(hm.replace('-3', '3'))
    if hm.startswith('R ') and ext == 'H':
        v.append('H' + hm[1:])
    return v


def gen_names(rng, rows, n):
    out = []
    for _ in range(n):
        row = rng.choice(rows)
        r = rng.random()
        if r < 0.15:
            s = str(rng.choice([row['ccp4'], row['number'], rng.randint(0, 5000)]))
            if rng.random() < 0.2:
                s = ' ' + s + rng.choice(['', ' ', 'x'])
            nm = s.encode()
        else:
            nm = rng.choice(name_variants(rng, row)).encode()
            if rng.random() < 0.2:
                nm = mutate_bytes(rng, nm, 2)
        hint = rng.choice([0, 0, 0, 1, 2])
        prefer = rng.choice(['null', 'null', hx('2'), hx('R'), hx('1H'), hx('2R'), hx('H2'), hx('x'), hx('')])
        out.append('byname\t%s %d %s' % (hx(nm), hint, prefer))
    return out
