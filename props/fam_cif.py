"""CIF family (C01): table translator, harness/driver builders, input generators."""
import glob
import os
import random

import vlib

MODEL_VO = ['Cif/Buf.vo', 'Cif/Lex.vo', 'Cif/JsonNum.vo']


def gen_tables():
    """Translator: regenerate coq/Cif/CharTable_gen.v from the repo's cifdoc.hpp (compiled)."""
    exe = vlib.build_exe('dump_chartable', [vlib.ROOT + '/gen/dump_chartable.cpp'], flags=['-O0'])
    rc, out, err = vlib.sh([exe], timeout=120)
    if rc != 0:
        raise RuntimeError('dump_chartable failed: ' + err.decode()[-2000:])
    changed = vlib.write_if_changed(vlib.COQ + '/Cif/CharTable_gen.v', out)
    if changed:
        vlib.log('CharTable_gen.v changed -> proofs over the table will be re-checked')
    return changed


def harness():
    return vlib.build_exe('h_cif', [vlib.ROOT + '/harness/h_cif.cpp'] + vlib.repo_src('json.cpp', 'to_json.cpp'))


def driver():
    """the extracted model works on long lists (65535-byte paddings): run it with a large stack"""
    exe = vlib.ocaml_driver('cif', MODEL_VO)
    wrap = exe + '_bigstack.sh'
    vlib.write_if_changed(wrap, '#!/bin/sh\nulimit -s 4000000 2>/dev/null || ulimit -s unlimited 2>/dev/null\nexec %s "$@"\n' % exe)
    os.chmod(wrap, 0o755)
    return wrap


def hx(s):
    if isinstance(s, str):
        s = s.encode('latin-1')
    return s.hex() if s else '-'


# ---------------------------------------------------------------- byte strings for quote()/as_string()

ORD = b"!%&()*+,-./0123456789:<=>?@ABCXYZ\\^`abcxyz{|}~"
NONBLANK_EXTRA = b"\"#$';[]_"
KEYWORDS = [b'data_', b'loop_', b'global_', b'save_', b'stop_']

CURATED_STRINGS = [
    b'', b'?', b'.', b'a', b'abc', b'a b', b"a'b", b'a"b', b'a\'b"c', b'a\nb', b'a\nb\r', b'\r', b'\n', b'a\r',
    b"'\"\r", b"'", b'"', b';', b';a', b'#a', b'_a', b'$a', b'data_x', b'loop_', b'LOOP_', b'stop_', b'global_',
    b'a\n;b', b'\n;', b'a\r\nb', b'a\r\n', b"it's", b"' ", b"a' b", b'a" b\' c', b'\x00', b'a\x00b', b'\xe9t\xe9',
    b'a\tb', b"a'\tb", b'a"\rb', b'??', b'..', b'?.', b' ', b'  ', b'[a]', b'a;b', b'a#b', b'x' * 130, b'x y' * 45,
]


def gen_strings(rng, n):
    out = list(CURATED_STRINGS)
    alph = [ORD, ORD + NONBLANK_EXTRA, b"ab'\" \n\r;#_$?.\t", b"a\n\r;'\"", bytes(range(256)), b"'\"\r\n a"]
    for _ in range(n):
        a = rng.choice(alph)
        k = rng.choice([0, 1, 1, 2, 3, 4, 5, 8, 12, 20])
        out.append(bytes(rng.choice(a) for _ in range(k)))
    return out


# ---------------------------------------------------------------- well-formed raw values (the five lexical classes)

def rand_from(rng, alphabet, k):
    return bytes(rng.choice(alphabet) for _ in range(k))


def starts_with_keyword(v):
    lv = v.lower()
    return any(lv.startswith(k) for k in KEYWORDS)


def gen_simple(rng, k=None):
    k = k or rng.choice([1, 1, 2, 3, 5, 8, 13])
    v = rand_from(rng, ORD, k)
    return v


def gen_quoted(rng, q, k=None):
    k = rng.choice([0, 1, 2, 4, 7, 12]) if k is None else k
    endq = b' \n\r\t#'
    alph = ORD + b" #;_$\t" + (b"'\"" * 3)
    body = bytearray()
    while len(body) < k:
        c = rng.choice(alph)
        body.append(c)
    # repair: the delimiter inside the body must not be followed by a character that ends the string
    body.append(q)
    for i in range(len(body) - 1):
        if body[i] == q and body[i + 1] in endq:
            body[i + 1] = ord('x')
    return bytes([q]) + bytes(body)


def gen_text(rng, k=None):
    k = rng.choice([0, 1, 3, 6, 10, 30]) if k is None else k
    alph = ORD + b" ;#'\"_\t" + b"\n\n\n\r\r"
    body = bytearray(rand_from(rng, alph, k))
    r = rng.random()
    if r < 0.25 and len(body) >= 2:
        p = rng.randrange(len(body) - 1)
        body[p:p + 2] = b'\r\n'
    elif r < 0.35:
        body += b'\r'                    # CR-LF before the closing ';'
    # repair: no "\n;" inside
    b = bytes(body)
    while b'\n;' in b:
        b = b.replace(b'\n;', b'\n:')
    return b';' + b + b'\n;'


def gen_unquoted(rng, k=None, semi=None):
    k = k or rng.choice([1, 2, 3, 5, 9])
    first_alph = ORD + b';[]'
    alph = ORD + NONBLANK_EXTRA
    while True:
        v = rand_from(rng, first_alph, 1) + rand_from(rng, alph, k - 1)
        if semi or (semi is None and rng.random() < 0.3):
            v = b';' + v[1:]
        if not starts_with_keyword(v):
            return v


def gen_value(rng, width=None):
    """A raw value as the parser would store it. width = exact length wanted (for the 120-column rule)."""
    r = rng.random()
    if width is not None and width >= 3:
        if r < 0.3:
            return gen_simple(rng, width)
        if r < 0.6:
            return gen_unquoted(rng, width)
        if r < 0.8:
            return gen_quoted(rng, rng.choice(b"'\""), width - 2)
        return gen_text(rng, width - 3)
    if r < 0.25:
        return gen_simple(rng)
    if r < 0.33:
        return rng.choice([b'?', b'.', b'data', b'loop', b'stop', b'Global', b'save', b'0.5', b'-1.2(3)'])
    if r < 0.48:
        return gen_quoted(rng, ord("'"))
    if r < 0.60:
        return gen_quoted(rng, ord('"'))
    if r < 0.63:
        return rng.choice([b"'data_x'", b'"loop_"', b"'_tag'", b"'#c'", b"'$f'", b"';'", b"''", b'""'])
    if r < 0.80:
        return gen_text(rng)
    return gen_unquoted(rng)


def gen_tag(rng, uniq, length=None):
    k = length - 1 if length else rng.choice([1, 2, 4, 8, 14])
    body = rand_from(rng, ORD + b"_.[]", max(1, k))
    if rng.random() < 0.5 and length is None:
        body = rng.choice([b'cat.', b'cat.', b'dog.', b'c.']) + body
    if uniq is not None:
        suffix = b'%d' % uniq
        body = (body[:max(0, len(body) - len(suffix))] + suffix) if length else body + suffix
        if length and len(body) != length - 1:
            body = (b'x' * (length - 1 - len(suffix))) + suffix
    return b'_' + body


# DOM as python: doc = [(name, items)], item = ('P', tag, val) | ('L', tags, vals) | ('F', name, items) | ('C', text) | ('X',)

def gen_items(rng, counter, depth, wf, nmax=6):
    items = []
    for _ in range(rng.choice([0, 1, 2, 3, nmax])):
        r = rng.random()
        counter[0] += 1
        if r < 0.45:
            if rng.random() < 0.3:
                # aim at the 120-column rule: |tag| + |value| in 118..123
                total = rng.choice([118, 119, 120, 120, 121, 121, 122, 123])
                tl = rng.choice([3, 10, 34, 60, 100])
                tag = gen_tag(rng, counter[0], tl)
                val = gen_value(rng, total - len(tag))
            else:
                tag = gen_tag(rng, counter[0])
                val = gen_value(rng)
            items.append(('P', tag, val))
        elif r < 0.8:
            nt = rng.choice([1, 1, 2, 3, 4])
            tags = []
            for _k in range(nt):
                counter[0] += 1
                tags.append(gen_tag(rng, counter[0]))
            rows = rng.choice([0, 1, 1, 2, 3, 5])
            vals = [gen_value(rng) for _k in range(nt * rows)]
            if not wf and vals and rng.random() < 0.1:
                vals = vals[:-1] if len(vals) > nt else vals + [b'x']
            items.append(('L', tags, vals))
        elif r < 0.9 and depth == 0:
            # frame names are compared case-insensitively by check_for_duplicates: keep them unique
            name = rand_from(rng, ORD + b"_#$;'", rng.choice([1, 3, 6])) + b'%d' % counter[0]
            items.append(('F', name, gen_items(rng, counter, 1, wf, 3)))
        elif r < 0.95:
            items.append(('C', b'#' + rand_from(rng, ORD + b' _;#', rng.choice([0, 3, 9]))))
        else:
            items.append(('X',))
    return items


def gen_dom(rng, wf=True, nblocks=None):
    doc = []
    counter = [0]
    for b in range(nblocks or rng.choice([1, 1, 1, 2, 3])):
        name = rand_from(rng, ORD + b"_#$;'\"", rng.choice([1, 2, 5])) + b'%d' % b
        doc.append((name, gen_items(rng, counter, 0, wf)))
    return doc


def arbitrary_dom(rng):
    """DOM with arbitrary byte-string values (writer correspondence only; no round trip expected)."""
    doc = gen_dom(rng, wf=False)

    def junk(v):
        if rng.random() < 0.3:
            return rand_from(rng, b"ab;\n\r '\"#_", rng.choice([0, 1, 2, 3, 4, 7]))
        return v

    def walk(items):
        out = []
        for it in items:
            if it[0] == 'P':
                out.append(('P', junk(it[1]), junk(it[2])))
            elif it[0] == 'L':
                out.append(('L', it[1], [junk(v) for v in it[2]]))
            elif it[0] == 'F':
                out.append(('F', it[1], walk(it[2])))
            else:
                out.append(it)
        return out
    return [(n, walk(items)) for n, items in doc]


def dom_tokens(doc):
    out = []

    def items_tokens(items):
        for it in items:
            if it[0] == 'P':
                out.extend(['P', hx(it[1]), hx(it[2])])
            elif it[0] == 'L':
                out.extend(['L', str(len(it[1])), str(len(it[2]))] + [hx(t) for t in it[1]] + [hx(v) for v in it[2]])
            elif it[0] == 'F':
                out.extend(['F', hx(it[1])])
                items_tokens(it[2])
                out.append('E')
            elif it[0] == 'C':
                out.extend(['C', hx(it[1])])
            else:
                out.append('X')
    for name, items in doc:
        out.extend(['B', hx(name)])
        items_tokens(items)
    return ' '.join(out)


# ---------------------------------------------------------------- write options

WIDTHS = [0, 1, 33, 34, 120, 511, 512, 513, 3584, 4095, 65535]


def opts_str(o):
    return '%d %d %d %d %d' % o


def gen_opts(rng, n, big=True):
    """n option tuples: the three booleans crossed with the boundary widths, then random ones."""
    out = []
    for _ in range(n):
        ws = WIDTHS if big else WIDTHS[:8]
        ap = rng.choice(ws) if rng.random() < 0.8 else rng.randrange(0, 65536 if big else 600)
        al = rng.choice(ws) if rng.random() < 0.8 else rng.randrange(0, 65536 if big else 600)
        out.append((rng.randrange(2), rng.randrange(2), rng.randrange(2), ap, al))
    return out


def all_bool_opts(ap, al):
    return [(a, b, c, ap, al) for a in (0, 1) for b in (0, 1) for c in (0, 1)]


# ---------------------------------------------------------------- CIF texts (for read -> write -> read)

def render_value_sep(rng, v, at_line_start_ok=False):
    """whitespace (with optional comment) placed before a value; text fields need a line start"""
    if v.startswith(b';') and v.endswith(b'\n;') and len(v) >= 3:
        return rng.choice([b'\n', b' \n', b'\r\n', b' #c\n', b'\n\n'])
    if v.startswith(b';'):
        return rng.choice([b' ', b'  ', b'\t', b'\n ', b'\n\t'])
    return rng.choice([b' ', b' ', b'  ', b'\t', b'\n', b'\n ', b' \n', b'\r\n', b' # c\n', b'\n#c\n'])


def kw(rng, k):
    return rng.choice([k, k, k.upper(), k.capitalize()])


def render_items(rng, items, out):
    for it in items:
        if it[0] == 'P':
            out.append(it[1] + render_value_sep(rng, it[2]) + it[2] + rng.choice([b'\n', b' \n', b'\n\n', b' #x\n', b'\r\n']))
        elif it[0] == 'L':
            s = kw(rng, b'loop_') + rng.choice([b'\n', b' ', b'\n\n'])
            for t in it[1]:
                s += t + rng.choice([b'\n', b' ', b' #t\n'])
            for v in it[2]:
                sep = render_value_sep(rng, v)
                # the tag separator above already is whitespace; a value must still be preceded by some
                s += sep + v
            s += rng.choice([b'\n', b' \n', b'\n' + kw(rng, b'stop_') + b'\n', b'\n\n'])
            out.append(s)
        elif it[0] == 'F':
            out.append(kw(rng, b'save_') + it[1] + rng.choice([b'\n', b' ']))
            render_items(rng, it[2], out)
            out.append(kw(rng, b'save_') + rng.choice([b'\n', b' \n']))
        elif it[0] == 'C':
            out.append(it[1] + b'\n')


def gen_cif_text(rng):
    doc = gen_dom(rng, wf=True)
    out = [rng.choice([b'', b'', b'#\\#CIF_1.1\n', b'\n', b'  ', b'# comment\n\n'])]
    for i, (name, items) in enumerate(doc):
        r = rng.random()
        if r < 0.06:
            out.append(kw(rng, b'global_') + b'\n')
        elif r < 0.12 and i == 0:
            out.append(kw(rng, b'data_') + b'\n')
        else:
            out.append(kw(rng, b'data_') + name + rng.choice([b'\n', b' ', b'\n\n', b' #c\n']))
        render_items(rng, items, out)
    return b''.join(out)


def special_texts():
    """hand-written texts aimed at the proof case splits"""
    long_tag = b'_' + b't' * 60
    out = [
        b'data_x\n_a ;' + b'y' * 130 + b'\n',                                   # ';' value moved to a new line
        b'data_x\nloop_ _b _c\n 1 ;z\n ;q 2\n',                                 # ';' value first in a loop row
        b'data_x\nloop_ _b _c\n;t\n; ;q\n',                                     # ';' value right after a text field
        b'data_x\n' + long_tag + b' ;' + b'v' * 58 + b'\n',                     # exactly 120
        b'data_x\n' + long_tag + b' ;' + b'v' * 59 + b'\n',                     # 121
        b'data_x\n_a\n;line\r\n;\n_b 1\n',                                      # CR-LF text field
        b'data_x\n_a\n;li\rne\r\r\n;\n',
        b'data_x\r\n_a 1\r\n_b\r\n;x\r\n;\r\n',
        b'data_x loop_ _a loop_ _b 1 2 3\n',                                    # value-less loop
        b'data_x\n' + b''.join(b'loop_\n_a%d\n' % i for i in range(700)) + b'_z 1\n',
        b'data_\n_a 1\n', b'global_\n_a 1\n', b'data_x\n_a\n', b'data_x\n_a \n_b 1\n',
        b'data_x\nsave_f _a 1 loop_ _b _c 1 2 save_\n_d 2\n',
        b"data_x\n_a 'it''s' _b \"q\"\"\" _c 'a' #c\n",
        b'data_x\n_a data\n_b loop\n_c dAta_\n',
        b'data_x _a.b 1 _a.c 2 _d.e 3 _f 4 _f.g 5\n',
        b'data_x\n_a ?\n_b .\n_c ??\n',
        b'DATA_X\n_A 1\nLOOP_\n_B\n1\nSTOP_\n',
        b'data_x\n_a \xe9\n_b \'\xe9 \xe9\'\n',
        b'data_a _x 1 data_b _x 1\n',
    ]
    return out


def corpus_texts():
    out = []
    for p in sorted(glob.glob(os.path.join(vlib.REPO, 'tests', '*.cif'))):
        with open(p, 'rb') as f:
            out.append((os.path.basename(p), f.read()))
    return out


def mutate_text(rng, b, nmax=4):
    b = bytearray(b)
    for _ in range(rng.randint(1, nmax)):
        r = rng.random()
        pos = rng.randrange(0, len(b) + 1)
        if r < 0.25 and b:
            del b[min(pos, len(b) - 1)]
        elif r < 0.55:
            b[pos:pos] = rng.choice([b';', b'\n;', b'\n', b' ', b"'", b'"', b'#', b'_', b'loop_\n', b'\r\n', b'\r',
                                     b' ;x ', b'save_', b'data_', b'?', b'\n;\n', b'stop_ ', b'$'])
        elif r < 0.8 and b:
            b[min(pos, len(b) - 1)] = rng.choice(b";'\"\n\r #_ax")
        elif b:
            # cut a window: keeps the text small and moves values to other columns
            q = min(len(b), pos + rng.choice([1, 5, 40, 400]))
            del b[pos:q]
    return bytes(b)


def cut_window(rng, b, size):
    """a window of a corpus file starting at a line start, prefixed with a block header if needed"""
    if len(b) <= size:
        return b
    starts = [i + 1 for i in range(len(b) - 1) if b[i] == 10]
    s = rng.choice(starts) if starts else 0
    w = b[s:s + size]
    if b'data_' not in w[:10].lower():
        w = b'data_w\n' + w
    return w


# ---------------------------------------------------------------- BufOstream operation sequences

def gen_buf_ops(rng):
    lens = [0, 1, 2, 5, 100, 511, 512, 513, 3000, 3583, 3584, 3585, 4095, 4096, 4097, 10000]
    ops = []
    puts_in_row = 0
    for _ in range(rng.choice([1, 3, 8, 20, 60])):
        r = rng.random()
        if r < 0.35:
            ops.append('w%d' % rng.choice(lens + [rng.randrange(0, 5000)]))
            puts_in_row = 0
        elif r < 0.75:
            k = rng.choice([1, 1, 2, 3, 10, 100, 400])
            k = min(k, 500 - puts_in_row)
            ops.extend(['p'] * k)
            puts_in_row += k
        else:
            n = rng.choice([1, 2, 33, 511, 512, 513, 3583, 3584, 3585, 4095, 4096, 7168, 7169, 65535, rng.randrange(1, 70000)])
            ops.append('P%d' % n)
            puts_in_row = 0
    return ' '.join(ops)


# ---------------------------------------------------------------- inputs of the value rule

def gen_lex_inputs(rng, n):
    out = []
    tails = [b'', b' ', b'\n', b'\t', b'\r', b'\r\n', b' x', b'\n;', b'#c', b"'", b'"', b';', b'_a 1', b' \n;\n']
    for _ in range(n):
        r = rng.random()
        if r < 0.55:
            v = gen_value(rng) + rng.choice(tails)
        elif r < 0.7:
            v = mutate_text(rng, gen_value(rng) + rng.choice(tails), 2)
        elif r < 0.8:
            k = rng.choice(KEYWORDS)
            v = rng.choice([k, k.upper(), k[:-1], k + b'x', k.capitalize() + b' ', b'x' + k, k[:2].upper() + k[2:]]) + rng.choice(tails)
        else:
            v = rand_from(rng, b"ab'\" \n\r;#_$\t?.", rng.choice([0, 1, 2, 3, 5, 9]))
        out.append('lex\t%d %s' % (rng.randrange(2), hx(v)))
    return out


# ---------------------------------------------------------------- mmJSON

def json_str(s):
    import json
    return json.dumps(s)


def gen_mmjson(rng):
    """(json text, expected dump) for an mmJSON document with strings, numbers, null, booleans and array values"""
    def scalar():
        r = rng.random()
        if r < 0.35:
            s = ''.join(rng.choice("abcXYZ019 .,;'_#$?-") for _ in range(rng.choice([1, 2, 4, 9])))
            if s in ('?', '.'):
                s = 'q'
            return json_str(s), s
        if r < 0.6:
            n = rng.choice(['0', '1', '-12', '3.5', '-0.25', '1e5', '2.50', '10'])
            return n, n
        if r < 0.7:
            return 'null', '?'
        if r < 0.78:
            return rng.choice([('true', 'YES'), ('false', 'NO')])
        k = rng.choice([1, 2, 2, 3])
        parts = []
        for _ in range(k):
            if rng.random() < 0.5:
                parts.append(rng.choice(['1', '2.5', '-3', '40']))
            else:
                parts.append(rng.choice("abcdXY") + ''.join(rng.choice("abcdXY01") for _ in range(rng.choice([0, 2]))))
        js = '[' + ', '.join(p if p[0] in '-0123456789' else json_str(p) for p in parts) + ']'
        return js, ' '.join(parts)
    blocks, dump = [], []
    for b in range(rng.choice([1, 1, 2])):
        name = 'blk%d' % b
        dump += ['B', hx(name)]
        cats = []
        for c in range(rng.choice([1, 2, 3])):
            cat = 'cat%d' % c
            rows = rng.choice([1, 1, 2, 3])
            cols = rng.choice([1, 2, 3])
            columns, exp = [], []
            for j in range(cols):
                vals = [scalar() for _ in range(rows)]
                columns.append('%s: [%s]' % (json_str('it%d' % j), ', '.join(v[0] for v in vals)))
                exp.append([v[1] for v in vals])
            cats.append('%s: {%s}' % (json_str(cat), ', '.join(columns)))
            tags = ['_%s.it%d' % (cat, j) for j in range(cols)]
            if rows == 1:
                for j in range(cols):
                    dump += ['P', hx(tags[j]), hx(exp[j][0])]
            else:
                dump += ['L', str(cols), str(cols * rows)] + [hx(t) for t in tags]
                for k in range(rows):
                    for j in range(cols):
                        dump.append(hx(exp[j][k]))
        blocks.append('%s: {%s}' % (json_str('data_' + name), ', '.join(cats)))
    return '{' + ', '.join(blocks) + '}', ' '.join(dump)


def gen_mmcif_dom(rng):
    """mmCIF-shaped DOM (one pair-set or one loop per category) with non-numeric string values and '?'"""
    def value():
        r = rng.random()
        if r < 0.15:
            return b'?'
        if r > 0.72:
            # numbers in every CIF spelling: sign, leading zeros, missing integer/fraction part, exponent, s.u.
            mant = rng.choice([b'1', b'12', b'0', b'007', b'1.5', b'12.345', b'.5', b'5.', b'0.25', b'100', b'3.14159'])
            sign = rng.choice([b'', b'', b'-', b'+'])
            exp = rng.choice([b'', b'', b'', b'e2', b'E-3', b'e+10'])
            su = rng.choice([b'', b'', b'(3)', b'(12)'])
            return sign + mant + exp + su
        body = rng.choice(b"abcXYZ") .to_bytes(1, 'big') + rand_from(rng, b"abcXYZ019 .,;_#$?-'", rng.choice([0, 1, 3, 8]))
        if r < 0.5 and b' ' not in body and b"'" not in body and b'#' not in body[:1] and b'$' not in body[:1]:
            return body if all(c in ORD for c in body) else b"'" + body.replace(b"'", b"") + b"'"
        if b'"' in body or b"'" in body:
            body = body.replace(b"'", b"").replace(b'"', b'')
        return b"'" + body + b"'"
    doc = []
    for b in range(rng.choice([1, 1, 2])):
        items = []
        for c in range(rng.choice([1, 2, 3])):
            cols = rng.choice([1, 2, 3])
            tags = [b'_cat%d.it%d' % (c, j) for j in range(cols)]
            rows = rng.choice([1, 2, 3])
            if rows == 1 and rng.random() < 0.7:
                for t in tags:
                    items.append(('P', t, value()))
            else:
                items.append(('L', tags, [value() for _ in range(cols * max(2, rows))]))
        doc.append((b'blk%d' % b, items))
    return doc
