"""CIF family (C01): table translator, harness/driver builders, input generators."""
import glob
import os
import random

import vlib

MODEL_VO = ['Cif/Buf.vo']


def gen_tables():
    """Translator: regenerate coq/Cif/CharTable_gen.v from the repo's cifdoc.hpp (compiled)."""
    exe = vlib.build_exe('dump_chartable', [vlib.ROOT + '/gen/dump_chartable.cpp'], flags=['-O0'])
    rc, out, err = vlib.sh([exe], timeout=120)
    if rc != 0:
        raise RuntimeError('dump_chartable failed: ' + err.decode()[-2000:])
    changed = vlib.write_if_changed(vlib.COQ + '/Cif/CharTable_gen.v', out)
    if changed:
        vlib.log('CharTable_gen.v changed -> proofs over the table will be re-checked')
    return changed


def harness():
    return vlib.build_exe('h_cif', [vlib.ROOT + '/harness/h_cif.cpp'])


def driver():
    return vlib.ocaml_driver('cif', MODEL_VO)


def hx(s):
    if isinstance(s, str):
        s = s.encode('latin-1')
    return s.hex() if s else '-'
