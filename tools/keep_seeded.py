#!/usr/bin/env python3
"""Copy a confirmed seeded change into /verif/seeded/<id>/ : usage keep_seeded.py <srcdir> <id> <caught_by>"""
import json, os, shutil, sys
src, sid, caught = sys.argv[1], sys.argv[2], sys.argv[3]
dst = os.path.join('/verif/seeded', sid)
os.makedirs(dst, exist_ok=True)
for f in os.listdir(src):
    if f.endswith(('.diff', '.cpp', '.json', '.py', '.txt', '.cif', '.pdb')) and os.path.getsize(os.path.join(src, f)) < 300000:
        shutil.copy(os.path.join(src, f), dst)
m = json.load(open(os.path.join(dst, 'meta.json')))
m['verif_result'] = caught
json.dump(m, open(os.path.join(dst, 'meta.json'), 'w'), indent=1)
print('kept', dst)
