#!/usr/bin/env python3
"""Freeze f', f'' of the (repaired) snapshot at Z = 3..92 x fixed energies -> gen/golden/fprime_golden.tsv.
Run once on the unchanged tree; the C17 check compares every later tree with these values (1e-6)."""
import sys
sys.path.insert(0, '/verif/lib'); sys.path.insert(0, '/verif')
import vlib
from props import fam_sf as F
ENERGIES = [1100.0, 1500.0, 3000.0, 5000.0, 8047.8, 10000.0, 12398.4, 17479.3, 25000.0, 40000.0, 60000.0, 79000.0]
h = F.harness()
lines = ['cl\t%d %r' % (z, e) for z in range(3, 93) for e in ENERGIES]
rc, out, err = vlib.run_lines(h, [], inp=('\n'.join(lines) + '\n').encode())
assert rc == 0 and len(out) == len(lines), (rc, len(out), err[-500:])
with open('/verif/gen/golden/fprime_golden.tsv', 'w') as f:
    f.write('# Z\tenergy_eV\tfprime\tfdoubleprime   (frozen from the repaired snapshot by tools/mk_fprime_golden.py)\n')
    for l in out:
        cmd, args, res = l.split('\t')
        z, e = args.split()
        fp, fpp = res.split()
        f.write('%s\t%s\t%s\t%s\n' % (z, e, fp, fpp))
print('wrote', len(out), 'values')
