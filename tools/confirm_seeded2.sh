#!/bin/bash
# like confirm_seeded.sh but uses the change's own build_demo.sh [worktree] [output]
wt=$1; pd=$2
cd $wt && git checkout -q -- . || exit 9
sh $pd/build_demo.sh $wt $pd/demo_clean 2> $pd/demo_clean.err; (cd $pd && timeout 600 ./demo_clean > demo_clean.out 2>&1); c=$?
git apply $pd/patch.diff || { echo "patch does not apply"; exit 8; }
sh $pd/build_demo.sh $wt $pd/demo_mut 2> $pd/demo_mut.err; (cd $pd && timeout 600 ./demo_mut > demo_mut.out 2>&1); m=$?
inc="-I$wt/include -I$wt/third_party"
od=$pd/obj; rm -rf $od; mkdir -p $od
ls $wt/src/*.cpp $wt/tests/main.cpp $wt/tests/cif.cpp | xargs -P 16 -I{} sh -c "g++ -std=c++14 -O0 -DUSE_STD_SNPRINTF=1 $inc -c {} -o $od/\$(basename {} .cpp)_\$(echo {} | md5sum | cut -c1-6).o 2>>$od/err.log"
g++ $od/*.o -lz -o $pd/cpptest 2>>$od/err.log; (cd $wt && timeout 900 $pd/cpptest > $pd/cpptest.out 2>&1); t=$?
git checkout -q -- .
rm -rf $od $pd/cpptest $pd/demo_clean $pd/demo_mut $pd/*.o $pd/base $pd/san
echo "demo_clean=$c demo_patched=$m cpptest_with_patch=$t"
