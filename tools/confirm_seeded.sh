#!/bin/bash
# usage: tools/confirm_seeded.sh <worktree> <patchdir> "<extra demo srcs relative to worktree/src>"
# confirms: demo passes on clean tree, fails with patch, and the pinned C++ test suite passes with the patch
wt=$1; pd=$2; extra=$3
cd $wt && git checkout -q -- . || exit 9
srcs=""; for f in $extra; do srcs="$srcs $wt/src/$f"; done
inc="-I$wt/include -I$wt/third_party"
g++ -std=c++14 -O1 $inc $pd/demo.cpp $srcs -lz -o $pd/demo_clean 2> $pd/demo_clean.err; (cd $pd && timeout 600 ./demo_clean > demo_clean.out 2>&1); c=$?
git apply $pd/patch.diff || { echo "patch does not apply"; exit 8; }
g++ -std=c++14 -O1 $inc $pd/demo.cpp $srcs -lz -o $pd/demo_mut 2> $pd/demo_mut.err; (cd $pd && timeout 600 ./demo_mut > demo_mut.out 2>&1); m=$?
# test suite with the patch
od=$pd/obj; rm -rf $od; mkdir -p $od
ls $wt/src/*.cpp $wt/tests/main.cpp $wt/tests/cif.cpp | xargs -P 16 -I{} sh -c "g++ -std=c++14 -O0 -DUSE_STD_SNPRINTF=1 $inc -c {} -o $od/\$(basename {} .cpp)_\$(echo {} | md5sum | cut -c1-6).o 2>>$od/err.log"
g++ $od/*.o -lz -o $pd/cpptest 2>>$od/err.log; (cd $wt && timeout 900 $pd/cpptest > $pd/cpptest.out 2>&1); t=$?
git checkout -q -- .
rm -rf $od $pd/cpptest $pd/demo_clean $pd/demo_mut
echo "demo_clean=$c demo_patched=$m cpptest_with_patch=$t"
