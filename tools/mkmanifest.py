#!/usr/bin/env python3
"""Regenerate MANIFEST.json from the MANIFEST dicts in props/Cxx.py."""
import importlib
import json
import os
import sys

ROOT = os.path.dirname(os.path.dirname(os.path.abspath(__file__)))
sys.path.insert(0, os.path.join(ROOT, 'lib'))
sys.path.insert(0, ROOT)

NOT_BUILT = 'check not built yet (work in progress; see DESIGN.md build order)'
props = [json.loads(l) for l in open(os.path.join(ROOT, 'properties.jsonl'))]
checks, na, served = [], [], []
for p in props:
    pid = p['id']
    try:
        mod = importlib.import_module('props.' + pid)
        m = getattr(mod, 'MANIFEST')
    except Exception:
        na.append({'property_id': pid, 'reason': NOT_BUILT})
        continue
    served.append(pid)
    checks.append({
        'property_id': pid,
        'quick_cmd': './check %s --tier quick' % pid,
        'thorough_cmd': './check %s --tier thorough' % pid,
        'evidence_file': '/verif/evidence/%s.json' % pid,
        'replay_cmd_template': './check %s --replay {path}' % pid,
        'engine': 'coq+correspondence',
        'level_claimed': {'category': 'proof', 'text': m['text'], 'design_ref': m.get('ref', 'DESIGN.md section 4 ' + pid)},
        'level_note': m['note'],
        'technique': m['technique'],
    })
man = {
    'version': 1,
    'setup_cmd': './check --setup',
    'hooks': {'guard': 'GEMMI_VERIF',
              'enable': '-DGEMMI_VERIF on harness builds (no guarded code exists in /repo: harnesses include /repo sources directly)',
              'baseline_off_cmd': 'cmake --build /repo/_build && ctest --test-dir /repo/_build -j8 --timeout 900',
              'source_commits': [], 'add_only': True},
    'engines': [{'name': 'coq+correspondence', 'path': '/verif/check', 'serves_properties': served,
                 'kind_free_text': 'Coq 8.16.1 theorems over executable Gallina models; extracted OCaml model vs C++ harness built from /repo; property oracles on the implementation'}],
    'checks': checks,
    'notes': 'See DESIGN.md. known_findings.json lists repaired defects (fix: commits in /repo) and known findings.',
    'not_applicable': na,
}
json.dump(man, open(os.path.join(ROOT, 'MANIFEST.json'), 'w'), indent=1)
print('claimed:', served, 'not claimed:', [x['property_id'] for x in na])
