#!/usr/bin/env python3
"""Rewrite section 9 of DESIGN.md from seeded/*/meta.json."""
import glob, json, os, re
ROOT = os.path.dirname(os.path.dirname(os.path.abspath(__file__)))
rows = []
for d in sorted(glob.glob(os.path.join(ROOT, 'seeded', '*'))):
    try:
        m = json.load(open(os.path.join(d, 'meta.json')))
    except Exception:
        continue
    sid = os.path.basename(d)
    summ = re.sub(r'\s+', ' ', str(m.get('summary', '')))[:230]
    needs = re.sub(r'\s+', ' ', str(m.get('needs', '')))[:200]
    res = re.sub(r'\s+', ' ', str(m.get('verif_result', '?')))[:520]
    rows.append('| %s | %s | %s | %s |' % (sid, summ.replace('|', '/'), needs.replace('|', '/'), res.replace('|', '/')))
text = '''## 9. Seeded changes: which checks catch which

Each change was written by a sub-agent that saw only the property text and a scratch worktree of /repo;
it compiles, passes the pinned 14-test suite, and comes with a demo that passes on the clean tree and fails
with the patch (all three facts re-confirmed here by `tools/confirm_seeded.sh`). `tools/try_mutant.sh` applies
the patch to /repo, runs `./check Cxx --tier quick`, and undoes it. "MISSED ... caught since" entries record
where a first version of a check was strengthened because of the seeded change.

%d changes in nine rounds (rounds four to nine for ten properties each) (later rounds = the higher numbers of each property; each round was produced by fresh
sub-agents after the checks had been strengthened for the round before); %d were missed by the check as it was
when the change arrived, every one of those led to a stronger generator or oracle (and six of them to the discovery
of genuine defects of the unchanged tree, e.g. the MTZ reader overflows, the neighbour-search face defect and the
two recipe defects of C18), and all %d were caught by the checks when they were recorded (`verif_result` in each `meta.json`). Because later generator changes shift the random streams, a regression over the kept changes (`tools/run_all_seeded.sh`) was re-run at the end of the last session for the properties whose generators changed most - C01, C02, C03, C06, C07, C08, C12 and C13: all 101 kept changes of these properties still make their quick check fail.

| id | change | needs, to manifest | result |
|---|---|---|---|
''' % (len(rows), sum('MISSED' in r for r in rows), len(rows)) + '\n'.join(rows) + '\n'
p = os.path.join(ROOT, 'DESIGN.md')
s = open(p).read()
i = s.find('## 9. Seeded changes: which checks catch which')
if i >= 0:
    s = s[:i]
s = s.rstrip() + '\n\n' + text
open(p, 'w').write(s)
print(len(rows), 'seeded changes listed')
