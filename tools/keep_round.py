#!/usr/bin/env python3
"""Keep seeded changes of a round from $MROOT/out-Cxx/n (default /tmp/m2) according to the batch logs: usage keep_round2.py <log>..."""
import glob, json, os, re, shutil, subprocess, sys
ROOT = os.environ.get('MROOT', '/tmp/m2')
notes = json.load(open(ROOT + '/notes.json')) if os.path.exists(ROOT + '/notes.json') else {}
for log in sys.argv[1:]:
    txt = open(log).read()
    for m in re.finditer(r'== (C\d\d) mutant (\d)\nrc=(\d+) wall=\d+s\n(\d+)\n((?:VIOLATION[^\n]*\n|OK[^\n]*\n|KNOWN[^\n]*\n)*)demo_clean=(\d+) demo_patched=(\d+) cpptest_with_patch=(\d+)', txt):
        prop, n, rc, nviol, lines, dc, dp, ct = m.groups()
        src = ROOT + '/out-%s/%s' % (prop, n)
        if not os.path.isdir(src):
            continue
        if not (dc == '0' and dp != '0' and ct == '0'):
            print('NOT CONFIRMED', prop, n, dc, dp, ct)
            continue
        existing = [int(os.path.basename(d).split('-')[1]) for d in glob.glob('/verif/seeded/%s-*' % prop)]
        key = '%s:%s' % (prop, n)
        done = json.load(open(ROOT + '/kept.json')) if os.path.exists(ROOT + '/kept.json') else {}
        if key in done:
            continue
        sid = '%s-%d' % (prop, max(existing + [0]) + 1)
        if rc == '1':
            res = 'caught by ./check %s --tier quick (exit 1, %s violation line(s))' % (prop, nviol)
        else:
            res = 'MISSED by ./check %s --tier quick as it was' % prop
        if key in notes:
            res += '; ' + notes[key]
        subprocess.check_call(['python3', '/verif/tools/keep_seeded.py', src, sid, res])
        if os.path.exists(src + '/build_demo.sh'):
            shutil.copy(src + '/build_demo.sh', '/verif/seeded/%s/' % sid)
        done[key] = sid
        json.dump(done, open(ROOT + '/kept.json', 'w'))
