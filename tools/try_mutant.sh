#!/bin/bash
# usage: tools/try_mutant.sh <patch.diff> <Cxx> [tier]  -- apply to /repo, run the check, undo
set -u
patch=$1; prop=$2; tier=${3:-quick}
cd /verif
git -C /repo apply --check "$patch" || { echo "PATCH DOES NOT APPLY"; exit 2; }
git -C /repo apply "$patch"
start=$(date +%s)
timeout 3600 ./check $prop --tier $tier > /tmp/mut_run.log 2>&1
rc=$?
end=$(date +%s)
git -C /repo checkout -- .
echo "rc=$rc wall=$((end-start))s"
grep -c "^VIOLATION" /tmp/mut_run.log
grep "^VIOLATION\|^KNOWN\|^OK" /tmp/mut_run.log | head -5
