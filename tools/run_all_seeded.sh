#!/bin/bash
# Regression over all kept seeded changes: apply each to /repo, run the quick check of its property, undo.
# usage: tools/run_all_seeded.sh [ids...]   (default: all)   -> prints one line per change
cd /verif
ids=${@:-$(ls seeded | sort)}
for id in $ids; do
  prop=${id%-*}
  patch=/verif/seeded/$id/patch.diff
  if ! git -C /repo apply --check $patch 2>/dev/null; then echo "$id DOES-NOT-APPLY"; continue; fi
  git -C /repo apply $patch
  s=$(date +%s)
  timeout 3600 ./check $prop --tier quick > /tmp/seeded_run.log 2>&1; rc=$?
  git -C /repo checkout -- .
  echo "$id rc=$rc viol=$(grep -c '^VIOLATION' /tmp/seeded_run.log) $(( $(date +%s)-s ))s"
done
