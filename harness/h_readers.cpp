// Harness for property C02: text-format readers are safe on arbitrary and truncated input.
// Every entry point named by the property is run under ASan+UBSan on bytes given inline (hex) or
// derived from a sample file (truncation + seeded byte mutations). Outcome class: OK | EXC.
// A crash / sanitizer report / timeout kills the process and is recorded by the runner.
#include "hcommon.hpp"
#include <gemmi/cif.hpp>
#include <gemmi/json.hpp>
#include <gemmi/pdb.hpp>
#include <gemmi/mmcif.hpp>
#include <gemmi/smcif.hpp>
#include <gemmi/chemcomp.hpp>
#include <gemmi/refln.hpp>
#include <gemmi/cif2mtz.hpp>
#include <gemmi/xds_ascii.hpp>
#include <gemmi/pirfasta.hpp>
#include <gemmi/symmetry.hpp>
#include <gemmi/select.hpp>
#include <gemmi/input.hpp>
#include <gemmi/read_cif.hpp>
#include <gemmi/mmread_gz.hpp>
#include <zlib.h>
#include <fstream>
#include <cstring>
#include <csignal>
#include <unistd.h>
using namespace gemmi;
using hv::words; using hv::to_ll;

static void on_alarm(int) {
  const char msg[] = "TIMEOUT-IN-READER\n";
  ssize_t r = write(2, msg, sizeof msg - 1); (void) r;
  _exit(97);
}

struct Lcg {
  unsigned long long s;
  explicit Lcg(unsigned long long seed) : s(seed * 6364136223846793005ULL + 1442695040888963407ULL) {}
  unsigned next() { s = s * 6364136223846793005ULL + 1442695040888963407ULL; return unsigned(s >> 33); }
};

static std::string summarize(const Structure& st) {
  size_t atoms = 0;
  for (const Model& m : st.models) for (const Chain& c : m.chains) for (const Residue& r : c.residues) atoms += r.atoms.size();
  return "OK models=" + std::to_string(st.models.size()) + " atoms=" + std::to_string(atoms);
}

static std::string run_reader(const std::string& kind, std::string data, int opt) {
  if (kind == "cif") {
    cif::Document d = cif::read_memory(data.data(), data.size(), "mem", opt % 3);
    return "OK blocks=" + std::to_string(d.blocks.size());
  }
  if (kind == "json") {
    cif::Document d = cif::read_mmjson_insitu(&data[0], data.size(), "mem");   // std::string keeps a NUL after size()
    return "OK blocks=" + std::to_string(d.blocks.size());
  }
  if (kind == "pdb") {
    PdbReadOptions o;
    // the option takes any int: values around the size of the reader's line buffer (122 bytes) matter most
    static const int lens[] = {80, 120, 121, 122, 72, 1, 123, 1000000};
    o.max_line_length = (opt & 1) ? lens[data.size() % 8] : 0;
    o.split_chain_on_ter = (opt & 2) != 0;
    o.skip_remarks = (opt & 4) != 0;
    std::string res = summarize(read_pdb_from_memory(data.data(), data.size(), "mem", o));
    if ((opt & 1) && data.size() < 100000) {
      // the same text with its first line made longer than the line buffer, read with the limits around its size
      std::string longer = data;
      size_t e = longer.find('\n');
      longer.insert(e == std::string::npos ? longer.size() : e, std::string(150, 'X'));
      for (int ml : {119, 120, 121, 122, 123}) {
        o.max_line_length = ml;
        try { read_pdb_from_memory(longer.data(), longer.size(), "mem", o); } catch (std::exception&) {}
      }
    }
    return res;
  }
  if (kind == "xds") {
    XdsAscii x;
    MemoryStream ms(data.data(), data.size());
    x.read_stream(ms, "mem");
    return "OK refl=" + std::to_string(x.data.size());
  }
  if (kind == "pir") {
    return "OK n=" + std::to_string(read_pir_or_fasta(data).size());
  }
  if (kind == "triplet") { parse_triplet(data); return "OK"; }
  if (kind == "hall") { return "OK order=" + std::to_string(symops_from_hall(data.c_str()).order()); }
  if (kind == "sgname") {
    const SpaceGroup* sg = find_spacegroup_by_name(data, (opt & 1) ? 90. : 0., (opt & 2) ? 120. : 90.);
    return sg ? "OK found" : "OK null";
  }
  if (kind == "sel") { Selection s(data); return "OK " + std::to_string(s.str().size()); }
  // conversions of parsed CIF blocks
  if (kind == "st_cif" || kind == "small" || kind == "chemcomp" || kind == "refln") {
    cif::Document d = cif::read_memory(data.data(), data.size(), "mem", 0);
    std::string out = "OK";
    if (kind == "refln") {
      std::vector<ReflnBlock> rbs = as_refln_blocks(std::move(d.blocks));
      Logger logger;
      logger.threshold = 0;
      for (ReflnBlock& rb : rbs) {
        CifToMtz c2m;
        if (rb.refln_loop || rb.diffrn_refln_loop) {
          try {
            Mtz mtz = c2m.convert_block_to_mtz(rb, logger);
            out += " mtz" + std::to_string(mtz.nreflections);
          } catch (std::exception&) { out += " exc"; }
        }
      }
      return out;
    }
    for (const cif::Block& b : d.blocks) {
      try {
        if (kind == "st_cif") out += " " + summarize(make_structure_from_block(b)).substr(3);
        else if (kind == "small") out += " sites=" + std::to_string(make_small_structure_from_block(b).sites.size());
        else out += " cc=" + std::to_string(make_chemcomp_from_block(b).atoms.size());
      } catch (std::exception&) { out += " exc"; }
    }
    return out;
  }
  return "UNKNOWN-KIND";
}

static std::string guarded(const std::string& kind, std::string data, int opt) {
  hv::cpu_alarm(10);
  std::string r;
  try {
    r = run_reader(kind, std::move(data), opt);
  } catch (std::exception&) {
    r = "EXC";
  }
  hv::cpu_alarm(0);
  // canonical outcome class only (details of OK results are not compared with anything)
  return r.compare(0, 2, "OK") == 0 ? "OK" : r;
}

static std::string handle(const std::string& cmd, const std::string& args) {
  std::vector<std::string> w = words(args);
  if (cmd == "bytes") {        // bytes <kind> <opt> <hex>
    return guarded(w.at(0), hv::hex_decode(w.at(2)), (int) to_ll(w.at(1)));
  }
  if (cmd == "pirfull") {      // pirfull <hex> : full result for the model correspondence
    std::vector<FastaSeq> r = read_pir_or_fasta(hv::hex_decode(w.at(0)));
    std::string out = std::to_string(r.size());
    for (const FastaSeq& f : r) out += " " + hv::hex_encode(f.header) + " " + hv::hex_encode(f.seq);
    return out;
  }
  if (cmd == "cifcount" || cmd == "cifval" || cmd == "cifdrop") {
    // structure-aware corruption of ONE value of a parsed CIF file, then the conversions of the property
    // cifcount <path> -> number of columns (a pair counts as a one-row column)
    // cifval <kind> <path> <column> <row> <value-index>
    const std::string& path = w.at(cmd == "cifcount" ? 0 : 1);
    cif::Document d = cif::read_file(path);
    std::vector<std::pair<cif::Item*, int>> cols;     // item, column within a loop (-1: pair)
    for (cif::Block& b : d.blocks)
      for (cif::Item& it : b.items) {
        if (it.type == cif::ItemType::Pair) cols.emplace_back(&it, -1);
        else if (it.type == cif::ItemType::Loop)
          for (int c = 0; c < (int) it.loop.tags.size(); ++c) cols.emplace_back(&it, c);
      }
    if (cmd == "cifcount") {   // one character per column: 'i' when its first value reads as an integer
      std::string flags;
      for (auto& pr : cols) {
        const std::string& v0 = pr.second < 0 ? pr.first->pair[1]
                                : (pr.first->loop.values.empty() ? std::string() : pr.first->loop.values[pr.second]);
        bool isint = !v0.empty() && v0.find_first_not_of("+-0123456789,()") == std::string::npos;   // numbers, and lists / ranges of them
        flags += isint ? 'i' : 's';
      }
      return std::to_string(cols.size()) + " " + flags;
    }
    if (cmd == "cifdrop") {   // cifdrop <kind> <path> <column>: the column (tag and values) or pair is removed
      auto& pr = cols.at((size_t) to_ll(w.at(2)) % cols.size());
      if (pr.second < 0) {
        pr.first->erase();
      } else {
        cif::Loop& loop = pr.first->loop;
        if (loop.tags.size() <= 1) { pr.first->erase(); }
        else loop.remove_column_at((size_t) pr.second);
      }
    }
    static const char* const vals[] = {"?", ".", "0", "-1", "1", "2", "2147483647", "-2147483648", "99999999999999999999",
      "4294967296", "1e308", "-1e-320", "abc", "'a b'", "''", "0.5", "-0.0", ";text\n;", "A", "1555", "1_555", "x,y,z", "1-2",
      "(1-3)(4,5)", "(X0)(1-60)", "999", "-999", "1.5(3)", "nan", "inf", "P 1", "H", "yes", "n", "1,2,,3", "-", "+", "1e", "0x10",
      "2000-13-45", "?.", "\"q\"", "1 2",
      // ranges that expand: huge, ending at INT_MAX, many in one value (appended: the indices above are referred to by number)
      "1-2000000000", "2147483640-2147483647", "(1-999999999)", "1-300000,1-300000,1-300000,1-300000,1-300000"};
    const int nvals = sizeof(vals) / sizeof(vals[0]);
    const std::string& kind = w.at(0);
    auto& pr = cols.at((size_t) to_ll(w.at(2)) % cols.size());
    std::string val = cmd == "cifval" ? vals[to_ll(w.at(4)) % nvals] : "";
    if (cmd == "cifdrop") {
      // already applied above
    } else if (pr.second < 0) {
      pr.first->pair[1] = val;
    } else {
      cif::Loop& loop = pr.first->loop;
      size_t nrows = loop.length();
      if (nrows == 0) return "OK";
      size_t row = (size_t) to_ll(w.at(3)) % nrows;
      loop.values[row * loop.width() + pr.second] = val;
      if (to_ll(w.at(3)) % 7 == 3)        // sometimes the whole column
        for (size_t r = 0; r < nrows; ++r) loop.values[r * loop.width() + pr.second] = val;
    }
    hv::cpu_alarm(20);
    std::string r = "OK";
    try {
      if (kind == "refln") {
        std::vector<ReflnBlock> rbs = as_refln_blocks(std::move(d.blocks));
        Logger logger; logger.threshold = 0;
        for (ReflnBlock& rb : rbs)
          if (rb.refln_loop || rb.diffrn_refln_loop) {
            CifToMtz c2m;
            try { c2m.convert_block_to_mtz(rb, logger); } catch (std::exception&) {}
          }
      } else {
        for (const cif::Block& b : d.blocks) {
          try {
            if (kind == "st_cif") make_structure_from_block(b);
            else if (kind == "small") make_small_structure_from_block(b);
            else make_chemcomp_from_block(b);
          } catch (std::exception&) { r = "EXC"; }
        }
      }
    } catch (std::exception&) { r = "EXC"; }
    hv::cpu_alarm(0);
    return r;
  }
  if (cmd == "gzfile") {       // gzfile <cif|json|st|pdb> <path> <mode> <seed>: corrupted gzip container through the *_gz readers
    std::ifstream f(w.at(1), std::ios::binary);
    std::string plain((std::istreambuf_iterator<char>(f)), std::istreambuf_iterator<char>());
    if (plain.size() > 65536) plain.resize(65536);
    int mode = (int) to_ll(w.at(2));
    Lcg rng((unsigned long long) to_ll(w.at(3)));
    if (mode == 5 && !plain.empty())   // the text itself cut before compression
      plain.resize(rng.next() % plain.size());
    std::string gz(compressBound((uLong) plain.size()) + 64, '\0');
    z_stream zs{};
    deflateInit2(&zs, 6, Z_DEFLATED, 15 + 16, 8, Z_DEFAULT_STRATEGY);
    zs.next_in = (Bytef*) plain.data(); zs.avail_in = (uInt) plain.size();
    zs.next_out = (Bytef*) &gz[0]; zs.avail_out = (uInt) gz.size();
    deflate(&zs, Z_FINISH);
    gz.resize(zs.total_out);
    deflateEnd(&zs);
    static const unsigned isize_vals[] = {0u, 1u, 100u, 0x7fffffffu, 0x80000000u, 0xffffffffu, 65536u, 3u << 30};
    switch (mode) {
      case 1: gz.resize(rng.next() % (gz.size() + 1)); break;                      // truncated container
      case 2: for (int i = 0; i < 3; ++i) gz[rng.next() % gz.size()] ^= char(1 << (rng.next() % 8)); break;
      case 3: { unsigned v = isize_vals[rng.next() % 8]; std::memcpy(&gz[gz.size() - 4], &v, 4); break; }   // ISIZE trailer
      case 4: gz += gz.substr(0, rng.next() % (gz.size() + 1)); break;                // second (partial) member
      case 6: gz[rng.next() % std::min<size_t>(gz.size(), 12)] = (char) (rng.next() & 0xff); break;   // gzip header bytes
      default: break;
    }
    const std::string& kind = w.at(0);
    std::string path = "/tmp/verif_gzr_" + std::to_string((int) getpid()) +
                       (kind == "cif" ? ".cif.gz" : kind == "json" ? ".json.gz" : kind == "pdb" ? ".pdb.gz" : ".ent.gz");
    if (kind == "st") path = "/tmp/verif_gzr_" + std::to_string((int) getpid()) + (rng.next() % 2 ? ".cif.gz" : ".pdb.gz");
    { std::ofstream o(path, std::ios::binary); o.write(gz.data(), (std::streamsize) gz.size()); }
    hv::cpu_alarm(20);
    std::string r = "OK";
    try {
      if (kind == "cif") read_cif_gz(path, (int) (rng.next() % 3));
      else if (kind == "json") read_mmjson_gz(path);
      else if (kind == "pdb") read_pdb_gz(path);
      else read_structure_gz(path);
    } catch (std::exception&) { r = "EXC"; }
    hv::cpu_alarm(0);
    std::remove(path.c_str());
    return r;
  }
  if (cmd == "linecut") {      // linecut <kind> <opt> <path> <line_start> <col> <pad>: one line cut short at a column
    std::ifstream f(w.at(2), std::ios::binary);
    std::string data((std::istreambuf_iterator<char>(f)), std::istreambuf_iterator<char>());
    size_t ls = (size_t) to_ll(w.at(3)), col = (size_t) to_ll(w.at(4));
    long long pad = to_ll(w.at(5));
    size_t e = data.find('\n', ls);
    if (e == std::string::npos) e = data.size();
    if (ls + col < e) {
      if (pad == 0) data.erase(ls + col, e - (ls + col));                  // the line ends here
      else if (pad == 1) data.replace(ls + col, e - (ls + col), e - (ls + col), ' ');   // blank to the end
      else data.erase(ls + col, e - (ls + col)).insert(ls + col, "\r");    // CR before the newline
    }
    if (data.size() > 65536) data.resize(65536);
    return guarded(w.at(0), std::move(data), (int) to_ll(w.at(1)));
  }
  if (cmd == "linedel") {      // linedel <kind> <opt> <path> <line_start> <col> <ndel> <cut>: a span deleted inside one line,
                               // so that the text behind it moves into earlier columns; cut=1: the line also ends cut_at bytes later
    std::ifstream f(w.at(2), std::ios::binary);
    std::string data((std::istreambuf_iterator<char>(f)), std::istreambuf_iterator<char>());
    size_t ls = (size_t) to_ll(w.at(3)), col = (size_t) to_ll(w.at(4)), nd = (size_t) to_ll(w.at(5));
    long long cut = to_ll(w.at(6));
    size_t e = data.find('\n', ls);
    if (e == std::string::npos) e = data.size();
    if (ls + col < e) {
      nd = std::min(nd, e - (ls + col));
      data.erase(ls + col, nd);
      e -= nd;
      if (cut > 0 && ls + col + (size_t) cut < e) data.erase(ls + col + (size_t) cut, e - (ls + col + (size_t) cut));
    }
    if (data.size() > 65536) data.resize(65536);
    return guarded(w.at(0), std::move(data), (int) to_ll(w.at(1)));
  }
  if (cmd == "file") {         // file <kind> <opt> <path> <trunc_len or -1> <nmut> <seed>
    std::ifstream f(w.at(2), std::ios::binary);
    std::string data((std::istreambuf_iterator<char>(f)), std::istreambuf_iterator<char>());
    long long tl = to_ll(w.at(3));
    if (tl >= 0 && (size_t) tl < data.size()) data.resize((size_t) tl);
    int nmut = (int) to_ll(w.at(4));
    Lcg rng((unsigned long long) to_ll(w.at(5)));
    static const char interesting[] = "\0\n\r ;'\"_#$[]{}(),.:-+0123456789eE?\t\xff\x80" "dataloop_save_";
    for (int i = 0; i < nmut && !data.empty(); ++i) {
      size_t pos = rng.next() % data.size();
      switch (rng.next() % 6) {
        case 0: data[pos] = interesting[rng.next() % (sizeof interesting - 1)]; break;
        case 1: data.erase(pos, 1 + rng.next() % 8); break;
        case 2: data.insert(pos, 1, interesting[rng.next() % (sizeof interesting - 1)]); break;
        case 3: data[pos] = (char) (rng.next() & 0xff); break;
        case 4: {  // duplicate a chunk
          size_t len = std::min<size_t>(1 + rng.next() % 40, data.size() - pos);
          data.insert(pos, data.substr(pos, len));
          break;
        }
        case 5: {  // cut a line short
          size_t e = data.find('\n', pos);
          if (e != std::string::npos && e > pos) data.erase(pos, e - pos);
          break;
        }
      }
    }
    if (data.size() > 65536) data.resize(65536);
    return guarded(w.at(0), std::move(data), (int) to_ll(w.at(1)));
  }
  return "UNKNOWN";
}

int main() {
  hv::install_alarm_handler(on_alarm);
  return hv::serve(handle);
}
