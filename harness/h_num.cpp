// Correspondence harness for the number family (C12): applies gemmi's number readers and printers
// from the repo's working tree to inputs given on stdin.  Doubles travel as IEEE bit patterns (hex).
// src/pdb.cpp is included textually to reach the anonymous-namespace read_int / read_double.
#include "hcommon.hpp"
#include <../src/pdb.cpp>
#include <gemmi/numb.hpp>
#include <gemmi/atox.hpp>
#include <gemmi/atof.hpp>
#include <gemmi/sprintf.hpp>
#include <gemmi/cifdoc.hpp>
#include <cerrno>
#include <clocale>
#include <cmath>
#include <cstdint>
#include <regex>
using hv::words; using hv::to_ll;

static std::string bits(double d) {
  if (std::isnan(d)) return "nan";
  std::uint64_t u; std::memcpy(&u, &d, 8);
  char b[20]; std::snprintf(b, 20, "%016llx", (unsigned long long) u);
  return b;
}
static std::string fbits(float d) {
  if (std::isnan(d)) return "nan";
  std::uint32_t u; std::memcpy(&u, &d, 4);
  char b[12]; std::snprintf(b, 12, "%08x", (unsigned) u);
  return b;
}
static double from_bits(const std::string& h) {
  std::uint64_t u = std::strtoull(h.c_str(), nullptr, 16);
  double d; std::memcpy(&d, &u, 8); return d;
}
static float ffrom_bits(const std::string& h) {
  std::uint32_t u = (std::uint32_t) std::strtoul(h.c_str(), nullptr, 16);
  float d; std::memcpy(&d, &u, 4); return d;
}

// strtod / strtol evaluated in the "C" locale whatever the process locale is
static locale_t c_locale() {
  static locale_t loc = newlocale(LC_ALL_MASK, "C", (locale_t) 0);
  return loc;
}
static double c_strtod(const char* s, char** end, int* erange) {
  errno = 0;
  double d = strtod_l(s, end, c_locale());
  *erange = errno == ERANGE;
  return d;
}

// independent recogniser of the CIF 1.1 number syntax (with optional s.u.), used by the oracle
static bool cif_number_syntax(const std::string& s, std::string* without_su) {
  size_t i = 0, n = s.size();
  auto digits = [&]() { size_t k = 0; while (i < n && s[i] >= '0' && s[i] <= '9') { ++i; ++k; } return k; };
  if (i < n && (s[i] == '+' || s[i] == '-')) ++i;
  size_t a = digits(), b = 0;
  if (i < n && s[i] == '.') { ++i; b = digits(); }
  if (a + b == 0) return false;
  if (i < n && (s[i] == 'e' || s[i] == 'E')) {
    ++i;
    if (i < n && (s[i] == '+' || s[i] == '-')) ++i;
    if (digits() == 0) return false;
  }
  *without_su = s.substr(0, i);
  if (i == n) return true;
  if (s[i] != '(') return false;
  ++i;
  if (digits() == 0) return false;
  return i + 1 == n && s[i] == ')';
}

template<int P> std::string prec(double d) { return gemmi::to_str_prec<P>(d); }

// value of a printed decimal and of the original, compared in long double (80-bit): enough for
// the 9-digit / fixed forms; the exact comparison is made by the model side.
static std::string half_unit_check(const std::string& txt, double d, int sig, int prec_fixed) {
  if (std::isnan(d) || std::isinf(d)) return "skip";
  char* end;
  long double v = strtold_l(txt.c_str(), &end, c_locale());
  if (*end != '\0' || txt.empty()) return "not-a-number:" + hv::hex_encode(txt);
  long double unit;
  if (prec_fixed >= 0) {
    unit = powl(10.0L, -prec_fixed);
  } else {
    if (d == 0) return v == 0 ? "1" : "nonzero";
    int e10 = (int) floorl(log10l(fabsl((long double) d)));
    // guard against log10 rounding at powers of ten
    if (powl(10.0L, e10 + 1) <= fabsl((long double) d)) ++e10;
    if (powl(10.0L, e10) > fabsl((long double) d)) --e10;
    unit = powl(10.0L, e10 - sig + 1);
  }
  long double err = fabsl(v - (long double) d);
  // exact ties are legitimate: allow for the rounding of v itself to the 64-bit mantissa of long double
  // (values closer to a tie than 2^-57 of the value - the accuracy of stb_sprintf's digit generator - are classified
  // exactly, as the recorded finding C12-stb-near-tie, by the checker on the model side: not here)
  if (err <= 0.5L * unit + fabsl(v) * (2e-19L + 6.938893903907228e-18L)) return "1";
  char b[200];
  std::snprintf(b, 200, "err=%Lg unit=%Lg txt=%s", err, unit, txt.c_str());
  return b;
}

static std::string handle(const std::string& cmd, const std::string& args) {
  std::vector<std::string> w = words(args);
  if (cmd == "tbl") {            // character class tables, one byte
    int c = (int) to_ll(w.at(0));
    return std::to_string((int) gemmi::is_space((char) c)) + std::to_string((int) gemmi::is_digit((char) c)) +
           std::to_string((int) gemmi::is_blank((char) c)) + " " +
           std::to_string((int) (isspace_l(c, c_locale()) != 0)) + std::to_string((int) (isdigit_l(c, c_locale()) != 0)) +
           std::to_string((int) (isblank_l(c, c_locale()) != 0));
  }
  if (cmd == "sti") {            // string_to_int(p, checked, length) | strtol of the field
    std::string s = hv::hex_decode(w.at(0));
    bool checked = w.at(1) == "1";
    size_t len = (size_t) to_ll(w.at(2));
    std::string padded = s + std::string(8, '\0');   // room for the unguarded p[i] reads
    std::string g;
    try { g = std::to_string(gemmi::string_to_int(padded.c_str(), checked, len)); }
    catch (std::invalid_argument&) { g = "EXC"; }
    std::string field = len ? std::string(padded.c_str()).substr(0, len) : std::string(padded.c_str());
    char* end;
    errno = 0;
    long v = strtol_l(field.c_str(), &end, 10, c_locale());
    return "g=" + g + " c=" + std::to_string(v) + "," + std::to_string(end - field.c_str());
  }
  if (cmd == "rint") {           // pdb.cpp read_int(p, field_length) with bytes following the field
    std::string s = hv::hex_decode(w.at(0)) + std::string(8, '\0');
    int len = (int) to_ll(w.at(1));
    return std::to_string(gemmi::read_int(s.c_str(), len));
  }
  if (cmd == "satoi" || cmd == "nsatoi") {
    std::string s = hv::hex_decode(w.at(0));
    const char* endp = nullptr;
    int v = cmd == "satoi" ? gemmi::simple_atoi(s.c_str(), &endp) : gemmi::no_sign_atoi(s.c_str(), &endp);
    char* end;
    long c = strtol_l(s.c_str(), &end, 10, c_locale());
    return "g=" + std::to_string(v) + "," + std::to_string(endp - s.c_str()) +
           " c=" + std::to_string(c) + "," + std::to_string(end - s.c_str());
  }
  if (cmd == "wsti") {           // string_to_int on numbers of any size (wraps in unsigned arithmetic)
    std::string padded = hv::hex_decode(w.at(0)) + std::string(8, '\0');
    try { return std::to_string(gemmi::string_to_int(padded.c_str(), w.at(1) == "1", (size_t) to_ll(w.at(2)))); }
    catch (std::invalid_argument&) { return "EXC"; }
  }
  if (cmd == "wsatoi" || cmd == "wnsatoi") {
    std::string s = hv::hex_decode(w.at(0));
    const char* endp = nullptr;
    int v = cmd == "wsatoi" ? gemmi::simple_atoi(s.c_str(), &endp) : gemmi::no_sign_atoi(s.c_str(), &endp);
    return std::to_string(v) + "," + std::to_string(endp - s.c_str());
  }
  if (cmd == "asint") {          // cif::as_int(str) (checked string_to_int; '?' and '.' throw too)
    std::string s = hv::hex_decode(w.at(0));
    try { return std::to_string(gemmi::cif::as_int(s)); } catch (std::exception&) { return "EXC"; }
  }
  if (cmd == "num") {            // cif::as_number | strtod in the C locale
    std::string s = hv::hex_decode(w.at(0));
    double g = gemmi::cif::as_number(s);
    bool isn = gemmi::cif::is_numb(s);
    char* end; int er;
    double c = c_strtod(s.c_str(), &end, &er);
    return "g=" + bits(g) + "," + std::to_string((int) isn) + " c=" + bits(c) + "," + std::to_string(end - s.c_str()) + "," + std::to_string(er);
  }
  if (cmd == "o_num") {          // property oracle on gemmi: CIF syntax <=> accepted, value = strtod
    std::string s = hv::hex_decode(w.at(0));
    double g = gemmi::cif::as_number(s);
    std::string core;
    bool syn = s.find('\0') == std::string::npos && cif_number_syntax(s, &core);
    if (!syn)
      return std::isnan(g) ? "1" : "accepted-non-number value=" + bits(g);
    char* end; int er;
    double c = c_strtod(core.c_str(), &end, &er);
    if (*end != '\0') return "oracle-internal: strtod stopped early";
    bool out_of_range = std::isinf(c) || (er && c == 0);
    if (out_of_range)
      return std::isnan(g) ? "1" : "out-of-range-accepted value=" + bits(g);
    if (std::isnan(g)) return "rejected-number strtod=" + bits(c);
    return bits(g) == bits(c) ? "1" : "value gemmi=" + bits(g) + " strtod=" + bits(c);
  }
  if (cmd == "atof") {           // fast_atof(p, &end) | strtod
    std::string s = hv::hex_decode(w.at(0));
    const char* endp = nullptr;
    double g = gemmi::fast_atof(s.c_str(), &endp);
    char* end; int er;
    double c = c_strtod(s.c_str(), &end, &er);
    return "g=" + bits(g) + "," + std::to_string(endp - s.c_str()) + " c=" + bits(c) + "," + std::to_string(end - s.c_str()) + "," + std::to_string(er);
  }
  if (cmd == "rdbl") {           // pdb.cpp read_double(p, field_length) | strtod of the field
    std::string s = hv::hex_decode(w.at(0));
    int len = (int) to_ll(w.at(1));
    std::string padded = s + std::string(8, '\0');
    if ((size_t) len > padded.size()) return "skip";
    double g = gemmi::read_double(padded.c_str(), len);
    std::string field = std::string(padded.data(), len);
    field = std::string(field.c_str());   // strtod stops at NUL
    char* end; int er;
    double c = c_strtod(field.c_str(), &end, &er);
    return "g=" + bits(g) + " c=" + bits(c) + "," + std::to_string(end - field.c_str()) + "," + std::to_string(er);
  }
  if (cmd == "o_int") {          // string_to_int / simple_atoi / no_sign_atoi against strtol (C locale)
    std::string s = hv::hex_decode(w.at(0));
    size_t len = (size_t) to_ll(w.at(1));
    std::string padded = s + std::string(8, '\0');
    std::string field = len ? std::string(padded.c_str()).substr(0, len) : std::string(padded.c_str());
    char* end;
    long v = strtol_l(field.c_str(), &end, 10, c_locale());
    bool converted = end != field.c_str();
    const char* q = end;
    while (isspace_l((unsigned char) *q, c_locale())) ++q;
    bool whole = converted && *q == '\0';
    int g = gemmi::string_to_int(padded.c_str(), false, len);
    if (g != v) return "unchecked " + std::to_string(g) + " strtol " + std::to_string(v);
    if (len == 0 || len >= std::strlen(padded.c_str())) {   // the checked variant looks at p[i] after the field
      try {
        int c = gemmi::string_to_int(padded.c_str(), true, len);
        if (!whole) return "checked accepted a non-integer: " + std::to_string(c);
        if (c != v) return "checked " + std::to_string(c) + " strtol " + std::to_string(v);
      } catch (std::invalid_argument&) {
        if (whole) return "checked rejected an integer";
      }
    }
    if (len == 0) {
      const char* e1 = nullptr;
      int a = gemmi::simple_atoi(padded.c_str(), &e1);
      if (a != v) return "simple_atoi " + std::to_string(a) + " strtol " + std::to_string(v);
      if (converted && e1 - padded.c_str() != end - field.c_str()) return "simple_atoi end";
      const char* p0 = field.c_str();
      while (isspace_l((unsigned char) *p0, c_locale())) ++p0;
      if (*p0 != '+' && *p0 != '-') {
        const char* e2 = nullptr;
        int b = gemmi::no_sign_atoi(padded.c_str(), &e2);
        if (b != v) return "no_sign_atoi " + std::to_string(b) + " strtol " + std::to_string(v);
        if (converted && e2 - padded.c_str() != end - field.c_str()) return "no_sign_atoi end";
      }
      if (gemmi::read_int(padded.c_str(), (int) field.size() + 1) != v) return "read_int";
    } else if (gemmi::read_int(padded.c_str(), (int) len) != v) {
      return "read_int " + std::to_string(gemmi::read_int(padded.c_str(), (int) len)) + " strtol " + std::to_string(v);
    }
    return "1";
  }
  if (cmd == "o_dbl") {          // fast_atof / fast_from_chars / read_double against strtod (C locale)
    std::string s = hv::hex_decode(w.at(0));
    int len = (int) to_ll(w.at(1));    // 0: NUL-terminated (fast_atof), else fixed column
    std::string padded = s + std::string(8, '\0');
    if ((size_t) len > padded.size()) return "skip";
    std::string field = len ? std::string(padded.data(), len) : padded;
    field = std::string(field.c_str());
    // position after blanks and one '+', as the readers define it
    size_t p0 = 0;
    while (p0 < field.size() && isspace_l((unsigned char) field[p0], c_locale())) ++p0;
    if (p0 < field.size() && field[p0] == '+') ++p0;
    size_t q = p0;
    if (q < field.size() && field[q] == '-') ++q;
    bool special = q < field.size() &&
        ((field[q] == '0' && q + 1 < field.size() && (field[q+1] | 0x20) == 'x') ||   // hexadecimal
         (field[q] | 0x20) == 'i' || (field[q] | 0x20) == 'n');                    // inf / nan
    if (special) return "skip";
    double d = 0;
    gemmi::from_chars_result r = len ? gemmi::fast_from_chars(padded.c_str(), padded.c_str() + len, d)
                                     : gemmi::fast_from_chars(padded.c_str(), d);
    bool accepted = r.ptr > padded.c_str() + p0;
    char* end; int er;
    double c = c_strtod(field.c_str(), &end, &er);
    // whole field is blanks* [+-]? decimal blanks* : it must be accepted
    std::string core; std::string trimmed = field;
    while (!trimmed.empty() && isspace_l((unsigned char) trimmed.back(), c_locale())) trimmed.pop_back();
    size_t b0 = 0;
    while (b0 < trimmed.size() && isspace_l((unsigned char) trimmed[b0], c_locale())) ++b0;
    trimmed = trimmed.substr(b0);
    bool plain = cif_number_syntax(trimmed, &core) && core == trimmed;
    if (plain && !accepted) return "decimal field not read: strtod=" + bits(c);
    if (accepted) {
      if (bits(d) != bits(c)) return "value gemmi=" + bits(d) + " strtod=" + bits(c);
      if (r.ptr - padded.c_str() != end - field.c_str()) return "end gemmi=" + std::to_string(r.ptr - padded.c_str()) + " strtod=" + std::to_string(end - field.c_str());
    }
    double d2 = len ? gemmi::read_double(padded.c_str(), len) : gemmi::fast_atof(padded.c_str());
    if (bits(d2) != bits(d)) return "wrapper differs";
    return "1";
  }
  if (cmd == "prec") {           // to_str_prec<P>(d)
    int p = (int) to_ll(w.at(0));
    double d = from_bits(w.at(1));
    std::string r;
    switch (p) {
      case 0: r = prec<0>(d); break; case 1: r = prec<1>(d); break; case 2: r = prec<2>(d); break;
      case 3: r = prec<3>(d); break; case 4: r = prec<4>(d); break; case 5: r = prec<5>(d); break;
      case 6: r = prec<6>(d); break; default: return "skip";
    }
    return hv::hex_encode(r);
  }
  if (cmd == "tostr") {          // to_str(double) "%.9g" / to_str(float) "%.6g"
    if (w.at(0) == "d") return hv::hex_encode(gemmi::to_str(from_bits(w.at(1))));
    return hv::hex_encode(gemmi::to_str(ffrom_bits(w.at(1))));
  }
  if (cmd == "o_print") {        // print -> parse within half a unit of the last digit (long double)
    std::string kind = w.at(0);
    if (kind == "d") { double d = from_bits(w.at(1)); return half_unit_check(gemmi::to_str(d), d, 9, -1); }
    if (kind == "f") { float f = ffrom_bits(w.at(1)); return half_unit_check(gemmi::to_str(f), (double) f, 6, -1); }
    int p = (int) to_ll(kind);
    double d = from_bits(w.at(1));
    if (!(d > -1e8 && d < 1e8)) return "skip";
    std::string r;
    switch (p) {
      case 0: r = prec<0>(d); break; case 1: r = prec<1>(d); break; case 2: r = prec<2>(d); break;
      case 3: r = prec<3>(d); break; case 4: r = prec<4>(d); break; case 5: r = prec<5>(d); break;
      case 6: r = prec<6>(d); break; default: return "skip";
    }
    std::string h = half_unit_check(r, d, 0, p);
    if (h != "1") return h;
    // what was printed reads back (through gemmi's own reader) as the printed decimal
    double back = gemmi::cif::as_number(r);
    char* end; int er;
    double c = c_strtod(r.c_str(), &end, &er);
    return bits(back) == bits(c) ? "1" : "reparse gemmi=" + bits(back) + " strtod=" + bits(c);
  }
  if (cmd == "o_buf") {          // the text plus its NUL fits the local buffer (size read from the source)
    std::string kind = w.at(0);
    size_t size = (size_t) to_ll(w.at(2));
    std::string r;
    if (kind == "d") r = gemmi::to_str(from_bits(w.at(1)));
    else if (kind == "f") r = gemmi::to_str(ffrom_bits(w.at(1)));
    else {
      double d = from_bits(w.at(1));
      switch ((int) to_ll(kind)) {
        case 0: r = prec<0>(d); break; case 1: r = prec<1>(d); break; case 2: r = prec<2>(d); break;
        case 3: r = prec<3>(d); break; case 4: r = prec<4>(d); break; case 5: r = prec<5>(d); break;
        case 6: r = prec<6>(d); break; default: return "skip";
      }
    }
    if (r.size() + 1 <= size) return "1";
    return "wrote " + std::to_string(r.size() + 1) + " bytes into char[" + std::to_string(size) + "]: " + r;
  }
  if (cmd == "o_snp") {          // snprintf_z(buf, count, fmt, d): C99 contract on a guarded buffer
    int count = (int) to_ll(w.at(0));
    int f = (int) to_ll(w.at(1));
    double d = from_bits(w.at(2));
    static const char* fmts[] = {"%.9g", "%g", "%.3f", "%8.3f", "%.6f", "%-12.5g|", "%.15g", "%+.2e"};
    if (f < 0 || f >= 8 || count < 1 || count > 200) return "skip";
    char full[512];
    int n = gemmi::sprintf_z(full, fmts[f], d);
    if (n != (int) std::strlen(full)) return "sprintf_z return != strlen";
    std::vector<char> buf(count + 16, '\x7f');
    int r = gemmi::snprintf_z(buf.data(), count, fmts[f], d);
    if (r != n) return "return " + std::to_string(r) + " != untruncated length " + std::to_string(n);
    int kept = std::min(n, count - 1);
    if (std::memcmp(buf.data(), full, kept) != 0) return "prefix differs";
    if (buf[kept] != '\0') return "not terminated at " + std::to_string(kept);
    for (int i = count; i < count + 16; ++i)
      if (buf[i] != '\x7f') return "wrote past count at " + std::to_string(i);
    return "1";
  }
  if (cmd == "o_tcz") {          // to_chars_z(first, last, int): result pointer and termination
    int v = (int) to_ll(w.at(0));
    int size = (int) to_ll(w.at(1));
    if (size < 12 || size > 64) return "skip";    // callers give room for any int
    std::vector<char> buf(size + 8, '\x7f');
    char* e = gemmi::to_chars_z(buf.data(), buf.data() + size, v);
    std::string want = std::to_string(v);
    if (*e != '\0') return "not terminated";
    if (std::string(buf.data()) != want) return "text " + std::string(buf.data());
    if (e != buf.data() + want.size()) return "end pointer";
    for (int i = size; i < size + 8; ++i)
      if (buf[i] != '\x7f') return "wrote past end";
    return "1";
  }
  if (cmd == "locale") {         // report / set the process locale
    if (!w.empty()) {
      const char* r = std::setlocale(LC_ALL, w.at(0).c_str());
      if (!r) return "unavailable";
    }
    return std::string(std::setlocale(LC_NUMERIC, nullptr)) + " dp=" + hv::hex_encode(std::localeconv()->decimal_point);
  }
  return "skip";
}

int main(int argc, char** argv) {
  // VERIF_LOCALE: run everything under this process locale (if it exists)
  if (const char* l = std::getenv("VERIF_LOCALE"))
    std::setlocale(LC_ALL, l);
  return hv::serve(handle);
}
