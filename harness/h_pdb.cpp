// Correspondence + oracle harness for the PDB family (C06): gemmi's fixed-column readers/writers from the
// repo's working tree (anonymous-namespace functions reached by including the .cpp files).
#include "hcommon.hpp"
#include <../src/pdb.cpp>
#include <../src/to_pdb.cpp>
#include <gemmi/gz.hpp>
#include "pdb_struct.hpp"
#include <fstream>
#include <sstream>
using namespace gemmi;
using hv::words; using hv::to_ll; using hv::hex_encode; using hv::hex_decode;

static std::string hx(const std::string& s) { return hex_encode(s); }

// a field placed in a buffer followed by a recognisable tail, as in a line of the file
static std::string in_line(const std::string& field, const std::string& tail = "7Z\n") { return field + tail; }

static std::string seqid_str(const SeqId& s) {
  return (s.num.has_value() ? std::to_string(*s.num) : std::string("N")) + ":" + std::to_string((int)(unsigned char)s.icode);
}
static std::string addr_str(const AtomAddress& a, bool atom) {
  std::string s = hx(a.chain_name) + " " + hx(a.res_id.name) + " " + seqid_str(a.res_id.seqid);
  if (atom) s += " " + hx(a.atom_name);
  return s;
}

// compact dump of what the non-coordinate records produced (compared with the Coq record model)
static std::string recs_dump(const Structure& st) {
  std::string d;
  for (const Entity& e : st.entities) {
    d += "E " + hx(e.name) + " " + std::to_string(e.full_sequence.size());
    for (const std::string& r : e.full_sequence) d += " " + hx(r);
    d += " " + std::to_string(e.dbrefs.size());
    for (const Entity::DbRef& r : e.dbrefs)
      d += " " + hx(r.db_name) + " " + hx(r.accession_code) + " " + hx(r.id_code) + " " + seqid_str(r.seq_begin) + " " +
           seqid_str(r.seq_end) + " " + seqid_str(r.db_begin) + " " + seqid_str(r.db_end);
    d += " ; ";
  }
  for (const ModRes& m : st.mod_residues)
    d += "M " + hx(m.chain_name) + " " + hx(m.res_id.name) + " " + seqid_str(m.res_id.seqid) + " " + hx(m.parent_comp_id) +
         " " + hx(m.mod_id) + " " + hx(m.details) + " ; ";
  for (const Helix& h : st.helices)
    d += "H " + addr_str(h.start, false) + " " + addr_str(h.end, false) + " " + std::to_string((int)h.pdb_helix_class) + " " +
         std::to_string(h.length) + " ; ";
  for (const Sheet& sh : st.sheets) {
    d += "S " + hx(sh.name) + " " + std::to_string(sh.strands.size());
    for (const Sheet::Strand& t : sh.strands)
      d += " " + addr_str(t.start, false) + " " + addr_str(t.end, false) + " " + std::to_string(t.sense) + " " +
           addr_str(t.hbond_atom2, true) + " " + addr_str(t.hbond_atom1, true);
    d += " ; ";
  }
  for (const auto& kv : st.conect_map) {
    d += "C " + std::to_string(kv.first) + " " + std::to_string(kv.second.size());
    for (int n : kv.second) d += " " + std::to_string(n);
    d += " ; ";
  }
  return d.empty() ? "-" : d;
}

static PdbWriteOptions wopt_from_mask(unsigned m) {
  PdbWriteOptions o;
  o.minimal_file = m & 1;
  o.seqres_records = !(m & 2);
  o.ssbond_records = !(m & 4);
  o.link_records = !(m & 8);
  o.cispep_records = !(m & 16);
  o.cryst1_record = !(m & 32);
  o.ter_records = !(m & 64);
  o.conect_records = m & 128;
  o.end_record = !(m & 256);
  o.numbered_ter = !(m & 512);
  o.ter_ignores_type = m & 1024;
  o.use_linkr = m & 2048;
  o.preserve_serial = m & 4096;
  return o;
}
static PdbReadOptions ropt_from_mask(unsigned m) {
  PdbReadOptions o;
  o.max_line_length = (m & 1) ? 80 : (m & 2) ? 100 : 0;
  o.split_chain_on_ter = m & 4;
  o.skip_remarks = m & 8;
  return o;
}

static Structure rd(const std::string& text, PdbReadOptions ro = PdbReadOptions()) {
  return read_pdb_from_memory(text.data(), text.size(), "gen", ro);
}

// line-end / padding variants of a PDB text
static std::string variant(const std::string& text, int kind) {
  std::string out;
  size_t pos = 0;
  while (pos < text.size()) {
    size_t e = text.find('\n', pos);
    bool has_nl = e != std::string::npos;
    if (!has_nl) e = text.size();
    std::string line = text.substr(pos, e - pos);
    pos = e + 1;
    if (!line.empty() && line.back() == '\r') line.pop_back();
    switch (kind) {
      case 0: break;                                                           // LF as is
      case 1: while (!line.empty() && line.back() == ' ') line.pop_back(); break;   // stripped
      case 2: line += '\r'; break;                                             // CR-LF
      case 3: while (!line.empty() && line.back() == ' ') line.pop_back(); line += '\r'; break;
      case 4: if (line.size() < 80) line.append(80 - line.size(), ' '); break;   // padded to 80
      case 5: if (line.size() < 100) line.append(100 - line.size(), ' '); break;  // padded beyond 80
    }
    out += line;
    if (has_nl || kind != 0) out += '\n';
  }
  return out;
}

// byte equality, except that the distance column of LINK/SSBOND (derived from the coordinates at write time, and a
// rounding boundary when atoms differ along one axis only) may differ by one unit of the last digit
static bool same_text_mod_link_distance(const std::string& a, const std::string& b) {
  if (a == b) return true;
  if (a.size() != b.size()) return false;
  for (size_t pos = 0; pos < a.size(); pos += 81) {
    if (a.compare(pos, 81, b, pos, 81) == 0) continue;
    bool conn = a.compare(pos, 4, "LINK") == 0 || a.compare(pos, 6, "SSBOND") == 0;
    if (!conn || pos + 81 > a.size()) return false;
    if (a.compare(pos, 73, b, pos, 73) != 0 || a.compare(pos + 78, 3, b, pos + 78, 3) != 0) return false;
    double da = std::atof(a.substr(pos + 73, 5).c_str()), db = std::atof(b.substr(pos + 73, 5).c_str());
    if (std::fabs(da - db) > 0.0101) return false;
  }
  return true;
}

static std::string diff_report(const char* what, const std::string& a, const std::string& b) {
  std::string d = ps::first_diff(a, b);
  return d.empty() ? "" : std::string(what) + ": " + d;
}

// property oracle on one PDB text: reading does not depend on trailing blanks / CR-LF / padding
static std::string padding_oracle(const std::string& text, PdbReadOptions ro, bool remarks_too) {
  ps::DumpOpt full;
  Structure base = rd(text, ro);
  std::string d0 = ps::dump(base, full);
  for (int kind = 1; kind <= 5; ++kind) {
    if (ro.max_line_length != 0 && kind == 5) continue;
    Structure s = rd(variant(text, kind), ro);
    std::string r = diff_report(("variant" + std::to_string(kind)).c_str(), d0, ps::dump(s, full));
    if (!r.empty()) return r;
    if (remarks_too && kind != 4 && kind != 5) {
      // raw remarks are kept verbatim up to the line end; compare them right-trimmed
      if (s.raw_remarks.size() != base.raw_remarks.size()) return "variant" + std::to_string(kind) + ": number of remarks";
      for (size_t i = 0; i < s.raw_remarks.size(); ++i)
        if (rtrim_str(s.raw_remarks[i]) != rtrim_str(base.raw_remarks[i]))
          return "variant" + std::to_string(kind) + ": remark " + std::to_string(i);
    }
  }
  return "";
}

static std::string handle(const std::string& cmd, const std::string& args) {
  std::vector<std::string> w = words(args);
  if (cmd == "atomline") {   // het serial hexname element altloc hexres hexchain seqnum icode hexseg charge x y z occ b
        gemmi::Structure st;
    st.models.emplace_back(1);
    st.models[0].chains.emplace_back(hv::hex_decode(w.at(6)));
    gemmi::Chain& ch = st.models[0].chains.back();
    gemmi::Residue r;
    r.name = hv::hex_decode(w.at(5));
    r.seqid.num = (int) hv::to_ll(w.at(7));
    r.seqid.icode = (char) hv::to_ll(w.at(8));
    r.segment = hv::hex_decode(w.at(9));
    r.het_flag = hv::to_ll(w.at(0)) ? 'H' : 'A';
    gemmi::Atom a;
    a.serial = (int) hv::to_ll(w.at(1));
    a.name = hv::hex_decode(w.at(2));
    a.element = gemmi::Element(w.at(3).c_str());
    a.altloc = (char) hv::to_ll(w.at(4));
    a.charge = (signed char) hv::to_ll(w.at(10));
    a.pos = gemmi::Position(std::atof(w.at(11).c_str()), std::atof(w.at(12).c_str()), std::atof(w.at(13).c_str()));
    a.occ = (float) std::atof(w.at(14).c_str());
    a.b_iso = (float) std::atof(w.at(15).c_str());
    r.atoms.push_back(a);
    ch.residues.push_back(r);
    gemmi::PdbWriteOptions opt = gemmi::PdbWriteOptions::minimal();
    opt.preserve_serial = true;
    std::string text;
    try {
      text = gemmi::make_pdb_string(st, opt);
    } catch (std::exception&) {
      return "EXC";
    }
    size_t p0 = text.rfind("\nATOM  ");
    size_t p1 = text.rfind("\nHETATM");
    size_t p = p0 == std::string::npos ? p1 : (p1 == std::string::npos ? p0 : std::max(p0, p1));
    if (p == std::string::npos) {
      if (text.compare(0, 6, "ATOM  ") == 0 || text.compare(0, 6, "HETATM") == 0) p = 0; else return "no atom line";
    } else {
      ++p;
    }
    size_t e = text.find('\n', p);
    std::string line = text.substr(p, e - p);
    std::string out = "L " + hv::hex_encode(line) + " R ";
    try {
      std::string one = line + "\n";
      gemmi::Structure s2 = gemmi::read_pdb_from_memory(one.data(), one.size(), "x");
      if (s2.models.empty() || s2.models[0].chains.empty() || s2.models[0].chains[0].residues.empty() ||
          s2.models[0].chains[0].residues[0].atoms.empty()) return out + "none";
      const gemmi::Chain& c2 = s2.models[0].chains[0];
      const gemmi::Residue& r2 = c2.residues[0];
      const gemmi::Atom& a2 = r2.atoms[0];
      out += std::string(1, r2.het_flag) + " " + std::to_string(a2.serial) + " " + hv::hex_encode(a2.name) + " " +
             std::to_string((int) (unsigned char) a2.altloc) + " " + hv::hex_encode(r2.name) + " " + hv::hex_encode(c2.name) + " " +
             (r2.seqid.num.has_value() ? std::to_string(*r2.seqid.num) : std::string("none")) + " " +
             std::to_string((int) (unsigned char) r2.seqid.icode) + " " + hv::hex_encode(r2.segment) + " " +
             std::to_string((int) a2.charge) + " " + a2.element.uname();
    } catch (std::exception&) {
      out += "EXC";
    }
    return out;
  }
  if (cmd == "ser") {          // n -> hex(encode) read_serial("%5s" field in a line)
    int n = (int)to_ll(w.at(0));
    std::array<char,8> e = encode_serial_in_hybrid36(n);
    char field[16];
    snprintf_z(field, 16, "%5s", e.data());
    std::string ln = in_line(field);
    return hx(e.data()) + " " + std::to_string(read_serial(ln.c_str()));
  }
  if (cmd == "sid") {          // num icode -> hex(write_seq_id) read_seq_id("%5s" field)
    SeqId s((int)to_ll(w.at(0)), (char)to_ll(w.at(1)));
    std::array<char,8> e = write_seq_id(s);
    char field[16];
    snprintf_z(field, 16, "%5s", e.data());
    std::string ln = in_line(field);
    return hx(e.data()) + " " + seqid_str(read_seq_id(ln.c_str()));
  }
  if (cmd == "b36") {          // width value
    char buf[16];
    base36_encode(buf, (int)to_ll(w.at(0)), (int)to_ll(w.at(1)));
    return hx(buf);
  }
  if (cmd == "rser") { std::string s = hex_decode(w.at(0)); s.append(8, '\0'); return std::to_string(read_serial(s.c_str())); }
  if (cmd == "rsid") { std::string s = hex_decode(w.at(0)); s.append(8, '\0'); return seqid_str(read_seq_id(s.c_str())); }
  if (cmd == "rint") { std::string s = hex_decode(w.at(1)); s.append(16, '\0'); return std::to_string(read_int(s.c_str(), (int)to_ll(w.at(0)))); }
  if (cmd == "rstr") { std::string s = hex_decode(w.at(1)); s.append(16, '\0'); return hx(read_string(s.c_str(), (int)to_ll(w.at(0)))); }
  if (cmd == "rchg") return std::to_string((int)read_charge((char)to_ll(w.at(0)), (char)to_ll(w.at(1))));
  if (cmd == "copyline") {     // size hex(initial 122-byte buffer) hex(data): one copy_line call on a MemoryStream
    int size = (int)to_ll(w.at(0));
    std::string buf = hex_decode(w.at(1)), data = hex_decode(w.at(2));
    buf.resize(122, '\0');
    MemoryStream ms(data.data(), data.size());
    size_t len = ms.copy_line(&buf[0], size);
    return std::to_string(len) + " " + std::to_string(ms.tell()) + " " + hx(buf);
  }
  if (cmd == "recs") {         // hex(text) maxlen -> dump of the non-coordinate records
    PdbReadOptions ro;
    ro.max_line_length = (int)to_ll(w.at(1));
    std::string text = hex_decode(w.at(0));
    return recs_dump(rd(text, ro));
  }
  if (cmd == "atoms") {        // hex(text) -> flat per-atom dump in storage order (for the ATOM-line model)
    std::string text = hex_decode(w.at(0));
    Structure st = rd(text);
    std::string d;
    for (const Model& m : st.models)
      for (const Chain& ch : m.chains)
        for (const Residue& r : ch.residues)
          for (const Atom& a : r.atoms)
            d += std::to_string(m.num) + " " + hx(ch.name) + " " + hx(r.name) + " " + seqid_str(r.seqid) + " " + hx(r.segment) +
                 " " + std::to_string((int)r.het_flag) + " " + std::to_string(a.serial) + " " + hx(a.name) + " " +
                 std::to_string((int)(unsigned char)a.altloc) + " " + std::to_string((int)a.charge) + " " +
                 std::to_string(ps::q(a.aniso.u11, 1e4)) + " " + std::to_string(ps::q(a.aniso.u22, 1e4)) + " " +
                 std::to_string(ps::q(a.aniso.u33, 1e4)) + " " + std::to_string(ps::q(a.aniso.u12, 1e4)) + " " +
                 std::to_string(ps::q(a.aniso.u13, 1e4)) + " " + std::to_string(ps::q(a.aniso.u23, 1e4)) + " ; ";
    return d.empty() ? "-" : d;
  }

  // ------------------------------------------------------------- oracles on the implementation
  if (cmd == "o_ser") {        // lo hi: every serial in [lo,hi] round trips through its 5-column field
    for (long long n = to_ll(w.at(0)); n <= to_ll(w.at(1)); ++n) {
      std::array<char,8> e = encode_serial_in_hybrid36((int)n);
      char field[16];
      snprintf_z(field, 16, "%5s", e.data());
      if (std::strlen(field) != 5) return "serial " + std::to_string(n) + " does not fit 5 columns: " + field;
      std::string ln = in_line(field);
      if (read_serial(ln.c_str()) != n) return "serial " + std::to_string(n) + " -> '" + field + "' -> " + std::to_string(read_serial(ln.c_str()));
    }
    return "ok";
  }
  if (cmd == "o_sid") {        // lo hi icode
    char ic = (char)to_ll(w.at(2));
    for (long long n = to_ll(w.at(0)); n <= to_ll(w.at(1)); ++n) {
      std::array<char,8> e = write_seq_id(SeqId((int)n, ic));
      char field[16];
      snprintf_z(field, 16, "%5s", e.data());
      if (std::strlen(field) != 5) return "seqnum " + std::to_string(n) + " does not fit 5 columns: " + field;
      std::string ln = in_line(field);
      SeqId back = read_seq_id(ln.c_str());
      if (!back.num.has_value() || *back.num != n || back.icode != ic)
        return "seqid " + std::to_string(n) + " -> '" + field + "' -> " + seqid_str(back);
    }
    return "ok";
  }
  if (cmd == "o_rt") {         // seed nmodels nchains nres wmask rmask flags: write -> read -> write
    ps::GenOpt g;
    uint64_t seed = (uint64_t)to_ll(w.at(0));
    g.nmodels = (int)to_ll(w.at(1)); g.nchains = (int)to_ll(w.at(2)); g.nres = (int)to_ll(w.at(3));
    unsigned wm = (unsigned)to_ll(w.at(4)), rm = (unsigned)to_ll(w.at(5)), flags = (unsigned)to_ll(w.at(6));
    g.big_serial = flags & 1;
    PdbWriteOptions wo = wopt_from_mask(wm);
    PdbReadOptions ro = ropt_from_mask(rm);
    g.link_ids = wo.use_linkr;
    Structure st = ps::gen_structure(seed, g);
    if (wo.minimal_file) { st.info.clear(); st.resolution = 0; }   // no HEADER/TITLE/REMARK records: nothing carries these
    if (!wo.cryst1_record) {       // without CRYST1 there is no cell: symmetry codes and distances of LINK are not kept
      st.connections.clear(); st.info.erase("_cell.Z_PDB"); st.cell = UnitCell(); st.spacegroup_hm.clear();
      st.setup_cell_images();
    }
    std::string t1 = make_pdb_string(st, wo);
    Structure st2 = rd(t1, ro);
    if (ro.split_chain_on_ter) {   // chains are cut at TER on purpose: only padding independence is required
      std::string r = padding_oracle(t1, ro, false);
      return r.empty() ? "ok" : "padding: " + r + " text=" + hx(t1);
    }
    std::string t2 = make_pdb_string(st2, wo);
    if (!same_text_mod_link_distance(t1, t2)) return "second write differs: " + ps::first_diff(t1, t2) + " text=" + hx(t1);
    // field-by-field equality, on what the chosen options put into the file
    ps::DumpOpt o;
    o.serial = wo.preserve_serial;
    o.etype = wo.ter_records && !wo.ter_ignores_type && !ro.split_chain_on_ter && wo.atom_records;
    o.conn_extra = false;
    o.meta = !wo.minimal_file && !ro.skip_remarks;
    o.entities = wo.seqres_records;
    o.ss = !wo.minimal_file && wo.cispep_records;
    o.conect = wo.conect_records;
    Structure ref = st;
    {
      std::vector<Connection> kept;
      for (const Connection& c : ref.connections)
        if (c.type == Connection::Disulf ? wo.ssbond_records : wo.link_records) kept.push_back(c);
      ref.connections = kept;
    }
    if (ref.spacegroup_hm.empty() && wo.cryst1_record) ref.spacegroup_hm = "P 1";
    std::string r = diff_report("structure changed by write+read", ps::dump(ref, o), ps::dump(st2, o));
    if (!r.empty()) return r + " text=" + hx(t1);
    // reading the re-written text gives the identical structure (all fields)
    Structure st3 = rd(t2, ro);
    ps::DumpOpt full;
    full.conn_extra = t1 == t2;   // in the tolerated rounding-boundary case the reported distances differ by 0.01
    r = diff_report("read(write(read)) differs", ps::dump(st2, full), ps::dump(st3, full));
    if (!r.empty()) return r + " text=" + hx(t1);
    // padding / line ends
    r = padding_oracle(t1, ro, false);
    if (!r.empty()) return "padding: " + r + " text=" + hx(t1);
    return "ok";
  }
  if (cmd == "o_linkr") {      // seed: a LINKR record (Refmac link id) to a copy of the partner in a NEIGHBOURING cell
    ps::Rng r((uint64_t)to_ll(w.at(0)));
    Structure st;
    st.cell.set(10, 12, 14, 90, 90, 90);
    st.spacegroup_hm = r.chance(50) ? "P 1" : "P 1 21 1";
    st.models.emplace_back(1);
    st.models[0].chains.emplace_back("A");
    int axis = r.below(3);
    bool flip = r.chance(50);
    for (int i = 0; i < 2; ++i) {
      Residue res;
      res.name = i == 0 ? "LIG" : "ALA";
      res.seqid = SeqId(i + 1, ' ');
      res.het_flag = 'H';
      Atom a;
      a.name = i == 0 ? "C1" : "N1";
      a.element = Element(i == 0 ? "C" : "N");
      Fractional f(0.31, 0.42, 0.37);
      double lo = 0.04 + 0.01 * r.below(3), hi = 1 - lo;
      (axis == 0 ? f.x : axis == 1 ? f.y : f.z) = ((i == 0) != flip) ? lo : hi;
      a.pos = st.cell.orthogonalize(f);
      a.occ = 1; a.b_iso = 20; a.serial = i + 1;
      res.atoms.push_back(a);
      st.models[0].chains[0].residues.push_back(res);
    }
    st.setup_cell_images();
    Connection c;
    c.name = "covale1";
    c.type = Connection::Covale;
    c.partner1 = AtomAddress("A", SeqId(1, ' '), "LIG", "C1");
    c.partner2 = AtomAddress("A", SeqId(2, ' '), "ALA", "N1");
    c.link_id = r.chance(80) ? "X1-LNK" : "";
    int which = r.below(3);
    c.asu = which == 0 ? Asu::Different : which == 1 ? Asu::Any : Asu::Same;
    st.connections.push_back(c);
    PdbWriteOptions wo;
    wo.use_linkr = true;
    std::string t1 = make_pdb_string(st, wo);
    Structure st2 = rd(t1, PdbReadOptions());
    if (st2.connections.size() != 1) return "connection lost text=" + hx(t1);
    Asu want = which == 2 ? Asu::Same : Asu::Different;    // the nearest copy (about 1 A away) is in the next cell
    if (st2.connections[0].asu != want)
      return "asu of the link read back as " + std::to_string((int)st2.connections[0].asu) + " expected " +
             std::to_string((int)want) + " text=" + hx(t1);
    if (st2.connections[0].link_id != c.link_id) return "link id changed text=" + hx(t1);
    std::string t2 = make_pdb_string(st2, wo);
    if (!same_text_mod_link_distance(t1, t2)) return "second write differs: " + ps::first_diff(t1, t2) + " text=" + hx(t1);
    return "ok";
  }
  if (cmd == "o_pad") {        // hex(text) rmask: padding / line-end independence on a given text
    std::string text = hex_decode(w.at(0));
    std::string r = padding_oracle(text, ropt_from_mask((unsigned)to_ll(w.at(1))), true);
    return r.empty() ? "ok" : r;
  }
  if (cmd == "o_file") {       // path mutation-seed: repository file (possibly .gz), optional line-length mutation
    std::string path = w.at(0);
    uint64_t seed = (uint64_t)to_ll(w.at(1));
    std::string text;
    {
      MaybeGzipped in(path);
      if (in.is_compressed()) { CharArray a = in.uncompress_into_buffer(); text.assign(a.data(), a.size()); }
      else { std::ifstream f(path, std::ios::binary); std::stringstream ss; ss << f.rdbuf(); text = ss.str(); }
    }
    if (text.empty()) return "skip";
    bool cuts = seed != 0 && seed % 2 == 0;   // even seeds also cut lines short (malformed records): crash detection only
    if (seed != 0) {           // strip / pad (and cut) some lines
      ps::Rng r(seed);
      std::string out;
      size_t pos = 0;
      while (pos < text.size()) {
        size_t e = text.find('\n', pos);
        if (e == std::string::npos) e = text.size();
        std::string line = text.substr(pos, e - pos);
        pos = e + 1;
        if (r.chance(15)) {
          int k = r.below(cuts ? 4 : 2);
          if (k == 0) { while (!line.empty() && line.back() == ' ') line.pop_back(); }
          else if (k == 1) line.append(r.range(1, 60), ' ');
          else if (k == 2) line = line.substr(0, r.below((int)line.size() + 1));
          else if (line.size() > 12) line = line.substr(0, r.range(4, 12) + r.below((int)line.size() - 12));
        }
        out += line + "\n";
      }
      text = out;
    }
    Structure st;
    try { st = rd(text); } catch (std::exception&) { return "skip"; }
    if (cuts) {
      for (int kind = 1; kind <= 5; ++kind)
        try { rd(variant(text, kind)); } catch (std::exception&) {}
      return "ok";
    }
    std::string r = padding_oracle(text, PdbReadOptions(), true);
    if (!r.empty()) return r + (seed ? " text=" + hx(text) : "");
    if (seed == 0) {
      // idempotence of write o read on real files
      PdbWriteOptions wo;
      wo.conect_records = true;
      wo.preserve_serial = true;
      std::string t1 = make_pdb_string(st, wo);
      Structure st2 = rd(t1);
      std::string t2 = make_pdb_string(st2, wo);
      if (t1 != t2) return "file: second write differs: " + ps::first_diff(t1, t2);
      ps::DumpOpt o; o.meta = false; o.conn_extra = false;
      if (st.models[0].chains.empty()) return "ok";   // header-only file: SEQRES/SSBOND/LINK need the chains to be written
      if (st.spacegroup_hm.empty()) st.spacegroup_hm = "P 1";   // what CRYST1 says when no space group is known
      r = diff_report("file: structure changed by write+read", ps::dump(st, o), ps::dump(st2, o));
      if (!r.empty()) return r;
    }
    return "ok";
  }
  if (cmd == "o_cutall") {     // seed nmodels nchains nres: every line of a written file cut at every length must be read without a memory error
    ps::GenOpt g;
    g.nmodels = (int)to_ll(w.at(1)); g.nchains = (int)to_ll(w.at(2)); g.nres = (int)to_ll(w.at(3));
    Structure st = ps::gen_structure((uint64_t)to_ll(w.at(0)), g);
    PdbWriteOptions wo;
    wo.conect_records = true;
    std::string text = make_pdb_string(st, wo);
    text = "SSBOND   1 CYS A    6    CYS A  127                          1555   1555  2.03  \n"
           "CISPEP   1 SER A   58    GLY A   59          0        20.91                     \n"
           "REMARK 200  TEMPERATURE           (KELVIN) : 100.1                              \n"
           "REMARK 200  PH                             : 7.                                 \n"
           "REMARK 350   BIOMT1   1  1.000000  0.000000  0.000000        0.00000            \n" + text;
    std::vector<std::string> lines = hv::split(text, '\n');
    std::string prev_kind;
    int parsed = 0;
    for (size_t i = 0; i < lines.size(); ++i) {
      // one representative line per record kind keeps this fast
      std::string kind = lines[i].substr(0, std::min<size_t>(lines[i].size(), 10));
      if (lines[i].compare(0, 6, "REMARK") != 0) kind = lines[i].substr(0, std::min<size_t>(lines[i].size(), 6));
      if (kind == prev_kind) continue;
      prev_kind = kind;
      for (size_t cut = 0; cut < lines[i].size(); ++cut) {
        std::string t;
        for (size_t j = 0; j < lines.size(); ++j)
          t += (j == i ? lines[j].substr(0, cut) : lines[j]) + "\n";
        try { rd(t); } catch (std::exception&) {}
        ++parsed;
      }
    }
    return parsed > 0 ? "ok" : "skip";
  }
  if (cmd == "gen") {          // seed nmodels nchains nres wmask -> hex(text) (for the Python side: sequences, replay)
    ps::GenOpt g;
    g.nmodels = (int)to_ll(w.at(1)); g.nchains = (int)to_ll(w.at(2)); g.nres = (int)to_ll(w.at(3));
    Structure st = ps::gen_structure((uint64_t)to_ll(w.at(0)), g);
    return hx(make_pdb_string(st, wopt_from_mask((unsigned)to_ll(w.at(4)))));
  }
  return "?";
}

int main() { return hv::serve(handle); }
