// Oracle + correspondence harness for C07 (mmCIF models round-trip; PDB and mmCIF agree), built from the
// repo's working tree: make_mmcif_document / make_structure_from_block / write_pdb / read_pdb.
#include "hcommon.hpp"
#include <gemmi/to_mmcif.hpp>
#include <gemmi/mmcif.hpp>
#include <gemmi/to_cif.hpp>
#include <gemmi/read_cif.hpp>
#include <gemmi/to_pdb.hpp>
#include <gemmi/pdb.hpp>
#include <gemmi/polyheur.hpp>
#include <gemmi/align.hpp>
#include "pdb_struct.hpp"
#include <sstream>
#include <map>
#include <fstream>
using namespace gemmi;
using hv::words; using hv::to_ll; using hv::hex_encode; using hv::hex_decode;

static std::string doc_text(const cif::Document& doc) {
  std::ostringstream os;
  cif::write_cif_to_stream(os, doc);
  return os.str();
}

static MmcifOutputGroups groups_from_mask(unsigned long long m) {
  MmcifOutputGroups g(true);
  // bit k switches the k-th optional group off; atoms stay on
  if (m & 1) g.entity = false;
  if (m & 2) g.entity_poly = false;
  if (m & 4) g.struct_ref = false;
  if (m & 8) g.chem_comp = false;
  if (m & 16) g.ncs = false;
  if (m & 32) g.struct_asym = false;
  if (m & 64) g.struct_conf = false;
  if (m & 128) g.struct_sheet = false;
  if (m & 256) g.conn = false;
  if (m & 512) g.cis = false;
  if (m & 1024) g.modres = false;
  if (m & 2048) g.atom_type = false;
  if (m & 4096) g.entity_poly_seq = false;
  if (m & 8192) g.group_pdb = false;
  if (m & 16384) g.auth_all = true;
  if (m & 32768) g.title_keywords = false;
  if (m & 65536) g.cell = false;
  if (m & 131072) g.symmetry = false;
  return g;
}

static Structure from_cif_text(const std::string& text) {
  cif::Document doc = cif::read_string(text);
  return make_structure_from_block(doc.blocks.at(0));
}

static ps::GenOpt gen_opt(const std::vector<std::string>& w, unsigned flags) {
  ps::GenOpt g;
  g.nmodels = (int)to_ll(w.at(1)); g.nchains = (int)to_ll(w.at(2)); g.nres = (int)to_ll(w.at(3));
  g.cif_names = flags & 1;
  g.no_segment = true;
  g.same_models = true;
  return g;
}

// the generated structure in the normal form of the mmCIF reader: entities for every sub-chain, label_seq
static Structure gen_for_cif(uint64_t seed, const ps::GenOpt& g) {
  Structure st = ps::gen_structure(seed, g);
  // entities are named by number in mmCIF; start from the sub-chains, keep the sequences
  std::vector<Entity> pdb_entities = st.entities;
  st.entities.clear();
  add_entity_types(st, /*overwrite=*/false);       // chains without TER: every residue gets a type and a sub-chain
  assign_subchains(st, /*force=*/true);
  ensure_entities(st);
  for (Entity& e : st.entities)
    for (const Entity& p : pdb_entities)
      if (!p.subchains.empty() && !e.subchains.empty() && p.subchains[0] == e.subchains[0]) {
        e.full_sequence = p.full_sequence;
        e.dbrefs = p.dbrefs;
      }
  for (Entity& e : st.entities)
    if (!e.full_sequence.empty())
      e.reflects_microhetero = true;   // what the reader sets after reading _entity_poly_seq
  assign_label_seq_id(st, false);
  // metadata categories (exptl, keywords, ...) are outside the property: keep only the entry id
  std::string id = st.get_info("_entry.id");
  st.info.clear();
  if (!id.empty()) st.info["_entry.id"] = id;
  st.resolution = 0;
  return st;
}

// flat _atom_site view of a structure, in storage order (compared with the Coq model's to_rows / of_rows)
static std::string atom_rows(const Structure& st) {
  std::string d;
  for (const Model& m : st.models)
    for (const Chain& ch : m.chains)
      for (const Residue& r : ch.residues)
        for (const Atom& a : r.atoms)
          d += std::to_string(m.num) + " " + hex_encode(ch.name) + " " + hex_encode(r.name) + " " +
               std::to_string(*r.seqid.num) + " " + std::to_string((int)(unsigned char)r.seqid.icode) + " " +
               hex_encode(a.name) + " " + std::to_string((int)(unsigned char)a.altloc) + " ; ";
  return d.empty() ? "-" : d;
}

static std::string handle(const std::string& cmd, const std::string& args) {
  std::vector<std::string> w = words(args);
  if (cmd == "subch" || cmd == "o_subch") {   // nchains {hexname types}*: types = one letter per residue (U P N B W)
    std::vector<std::string> w = hv::words(args);
    size_t n = (size_t) hv::to_ll(w.at(0));
    gemmi::Structure st;
    st.models.emplace_back(1);
    for (size_t i = 0; i < n; ++i) {
      st.models[0].chains.emplace_back(hv::hex_decode(w.at(1 + 2 * i)));
      gemmi::Chain& ch = st.models[0].chains.back();
      std::string types = w.at(2 + 2 * i);
      if (types == "-") types.clear();
      int num = 0;
      for (char t : types) {
        gemmi::Residue r;
        r.name = "ALA";
        r.seqid.num = ++num;
        r.entity_type = t == 'P' ? gemmi::EntityType::Polymer : t == 'N' ? gemmi::EntityType::NonPolymer :
                        t == 'B' ? gemmi::EntityType::Branched : t == 'W' ? gemmi::EntityType::Water :
                        gemmi::EntityType::Unknown;
        ch.residues.push_back(r);
      }
    }
    gemmi::assign_subchains(st, true, false);
    if (cmd == "subch") {
      std::string out;
      for (size_t i = 0; i < n; ++i) {
        if (i) out += ";";
        const gemmi::Chain& ch = st.models[0].chains[i];
        for (size_t j = 0; j < ch.residues.size(); ++j)
          out += (j ? "," : "") + hv::hex_encode(ch.residues[j].subchain);
        if (ch.residues.empty()) out += "_";
      }
      return out;
    }
    // oracle on gemmi alone: a non-polymer residue shares its sub-chain name with no other residue of the model, and
    // residues of chains with different names never share one
    std::map<std::string, std::pair<std::string, int>> seen;   // name -> (chain name, count)
    for (const gemmi::Chain& ch : st.models[0].chains)
      for (const gemmi::Residue& r : ch.residues) {
        if (r.subchain.empty()) continue;
        auto it = seen.find(r.subchain);
        if (it != seen.end()) {
          if (it->second.first != ch.name)
            return "sub-chain " + r.subchain + " occurs in chains " + it->second.first + " and " + ch.name;
          if (r.entity_type == gemmi::EntityType::NonPolymer || it->second.second < 0)
            return "non-polymer sub-chain " + r.subchain + " is shared";
        } else {
          seen.emplace(r.subchain, std::make_pair(ch.name, r.entity_type == gemmi::EntityType::NonPolymer ? -1 : 1));
        }
      }
    return "ok";
  }
  if (cmd == "ccd" || cmd == "o_shorten") {
    // residue names (hex, "-" = empty) of one chain. ccd: model correspondence of shorten_ccd_codes / restore_full_ccd_codes
    // (Pdb/CcdAlias.v). o_shorten: the names come back through a PDB file and through an mmCIF file of the shortened structure.
    Structure st;
    st.models.emplace_back(1);
    st.models[0].chains.emplace_back("A");
    st.cell.set(30, 40, 50, 90, 90, 90);
    st.spacegroup_hm = "P 1";
    std::vector<std::string> names;
    int num = 0;
    for (const std::string& h : w) {
      Residue r;
      r.name = h == "-" ? std::string() : hex_decode(h);
      names.push_back(r.name);
      r.seqid.num = ++num;
      r.het_flag = 'H';
      Atom a;
      a.name = "C1"; a.element = Element("C"); a.pos = Position(num, 1, 2); a.occ = 1; a.b_iso = 10; a.serial = num;
      r.atoms.push_back(a);
      st.models[0].chains[0].residues.push_back(r);
    }
    auto enc = [](const std::string& x) { return x.empty() ? std::string("-") : hex_encode(x); };
    auto names_of = [&](const Structure& x) {
      std::string o;
      if (!x.models.empty())
        for (const Chain& ch : x.models[0].chains)
          for (const Residue& r : ch.residues) o += (o.empty() ? "" : " ") + enc(r.name);
      return o;
    };
    std::string orig = names_of(st);
    shorten_ccd_codes(st);
    if (cmd == "ccd") {
      std::string out;
      for (const auto& p : st.shortened_ccd_codes) out += (out.empty() ? "" : " ") + enc(p.first) + ">" + enc(p.second);
      out += " | " + names_of(st);
      restore_full_ccd_codes(st);
      out += " | " + names_of(st);
      return out;
    }
    for (const Residue& r : st.models[0].chains[0].residues)
      if (r.name.size() > 3) return "a name is still longer than 3 characters after shorten_ccd_codes: " + r.name;
    for (size_t i = 0; i < st.shortened_ccd_codes.size(); ++i)
      for (size_t j = 0; j < i; ++j)
        if (st.shortened_ccd_codes[i].second == st.shortened_ccd_codes[j].second)
          return "two long names share the alias " + st.shortened_ccd_codes[i].second;
    setup_entities(st);
    std::string pdb = make_pdb_string(st, PdbWriteOptions());
    Structure a = read_pdb_from_memory(pdb.data(), pdb.size(), "gen", PdbReadOptions());
    if (names_of(a) != orig) return "names after the PDB file: " + names_of(a) + " expected " + orig + " pdb=" + hex_encode(pdb);
    Structure b = from_cif_text(doc_text(make_mmcif_document(st, MmcifOutputGroups(true))));
    if (names_of(b) != orig) return "names after the mmCIF file of the shortened structure: " + names_of(b) + " expected " + orig;
    restore_full_ccd_codes(st);
    if (names_of(st) != orig) return "names after restore_full_ccd_codes: " + names_of(st) + " expected " + orig;
    return "ok";
  }
  if (cmd == "o_cif") {        // seed nmodels nchains nres groupmask flags: structure -> mmCIF -> structure -> mmCIF
    uint64_t seed = (uint64_t)to_ll(w.at(0));
    unsigned flags = (unsigned)to_ll(w.at(5));
    MmcifOutputGroups groups = groups_from_mask((unsigned long long)to_ll(w.at(4)));
    Structure st = gen_for_cif(seed, gen_opt(w, flags));
    {
      // optional per-atom attributes of mmCIF (not in PDB files): calc_flag and the TLS group id, each on its own,
      // both together, or neither; drawn from a second generator so that the structure itself does not change
      ps::Rng r2(seed ^ 0x5bd1e995u);
      bool cf = r2.chance(45), tls = r2.chance(45);
      for (Model& m : st.models)
        for (Chain& ch : m.chains)
          for (Residue& res : ch.residues)
            for (Atom& a : res.atoms) {
              if (cf && r2.chance(70))
                a.calc_flag = r2.pick(std::vector<CalcFlag>{CalcFlag::Determined, CalcFlag::Calculated, CalcFlag::Dummy});
              if (tls && r2.chance(80)) a.tls_group_id = (short) r2.range(0, 5);
            }
    }
    // a switched-off category cannot carry its data: remove from the input what only that category holds
    if (!groups.entity_poly_seq || !groups.entity_poly || !groups.entity)
      for (Entity& e : st.entities) { e.full_sequence.clear(); e.reflects_microhetero = false; e.dbrefs.clear(); }
    if (!groups.struct_ref) for (Entity& e : st.entities) e.dbrefs.clear();
    if (!groups.symmetry || !groups.cell) st.connections.clear();
    if (!groups.ncs) { st.ncs.clear(); st.setup_cell_images(); }   // NCS operators contribute images to the LINK symmetry codes
    std::string t1 = doc_text(make_mmcif_document(st, groups));
    Structure st2 = from_cif_text(t1);
    std::string t2 = doc_text(make_mmcif_document(st2, groups));
    if (t1 != t2) return "second write differs: " + ps::first_diff(t1, t2) + " text=" + hex_encode(t1);
    ps::DumpOpt o;
    o.conn_extra = false; o.meta = false; o.conect = false; o.serial = false;
    o.het = groups.group_pdb;
    o.entities = false;   // entity names/order are compared through the text
    o.ss = groups.struct_conf && groups.struct_sheet && groups.cis && groups.modres;
    Structure ref = st;
    if (!groups.conn) ref.connections.clear();
    if (!groups.ncs) ref.ncs.clear();
    if (!groups.cell) { ref.cell = UnitCell(); }
    if (!groups.symmetry) ref.spacegroup_hm.clear();
    ref.ter_status = st2.ter_status = 0;
    std::string r = ps::first_diff(ps::dump(ref, o), ps::dump(st2, o));
    if (!r.empty()) return "structure changed by mmCIF write+read: " + r + " text=" + hex_encode(t1);
    return "ok";
  }
  if (cmd == "o_pdbcif") {     // seed nmodels nchains nres: the same structure through a PDB file and through an mmCIF file
    uint64_t seed = (uint64_t)to_ll(w.at(0));
    Structure st = ps::gen_structure(seed, gen_opt(w, 0));
    PdbWriteOptions wo;
    wo.preserve_serial = true;
    std::string pdb = make_pdb_string(st, wo);
    Structure a = read_pdb_from_memory(pdb.data(), pdb.size(), "gen", PdbReadOptions());
    // the mmCIF route starts from what the PDB file holds (entities set up the same way on both sides)
    Structure src = a;
    setup_entities(src);
    assign_label_seq_id(src, false);
    std::string ciftext = doc_text(make_mmcif_document(src, MmcifOutputGroups(true)));
    Structure b = from_cif_text(ciftext);
    Structure a2 = a;
    setup_entities(a2);
    assign_label_seq_id(a2, false);
    ps::DumpOpt o;
    o.conn_extra = false; o.meta = false; o.conect = false; o.entities = false; o.serial = false;
    a2.ter_status = b.ter_status = 0;
    std::string r = ps::first_diff(ps::dump(a2, o), ps::dump(b, o));
    if (!r.empty()) return "PDB route and mmCIF route differ: " + r + " pdb=" + hex_encode(pdb);
    // the connections (LINK/SSBOND records vs _struct_conn), each route starting from the ORIGINAL structure:
    // a defect of one writer cannot hide by feeding the other route
    Structure direct = st;
    setup_entities(direct);
    assign_label_seq_id(direct, false);
    Structure c = from_cif_text(doc_text(make_mmcif_document(direct, MmcifOutputGroups(true))));
    auto conn_lines = [&](const Structure& x) {
      std::string all = ps::dump(x, o), out;
      size_t pos = 0;
      while (pos < all.size()) {
        size_t e = all.find('\n', pos);
        if (e == std::string::npos) e = all.size();
        if (all.compare(pos, 5, "conn ") == 0) out += all.substr(pos, e - pos) + "\n";
        pos = e + 1;
      }
      return out;
    };
    std::string ca = conn_lines(a2), cc = conn_lines(c);
    if (ca != cc) return "connections differ between the PDB file and the mmCIF file of the same structure: " +
                         ps::first_diff(ca, cc) + " pdb=" + hex_encode(pdb);
    return "ok";
  }
  if (cmd == "dbg_cif") {
    Structure st = gen_for_cif((uint64_t)to_ll(w.at(0)), gen_opt(w, (unsigned)to_ll(w.at(5))));
    MmcifOutputGroups groups = groups_from_mask((unsigned long long)to_ll(w.at(4)));
    std::string t1 = doc_text(make_mmcif_document(st, groups));
    std::string t2 = doc_text(make_mmcif_document(from_cif_text(t1), groups));
    std::ofstream("/tmp/cif_t1.txt") << t1;
    std::ofstream("/tmp/cif_t2.txt") << t2;
    return "ok";
  }
  if (cmd == "rows") {         // seed nmodels nchains nres flags: structure rows | rows after mmCIF write+read
    uint64_t seed = (uint64_t)to_ll(w.at(0));
    unsigned flags = (unsigned)to_ll(w.at(4));
    Structure st = gen_for_cif(seed, gen_opt(w, flags));
    if (flags & 2) {           // break the well-formedness on purpose: repeat a residue id later in a chain
      for (Model& m : st.models)
        for (Chain& ch : m.chains)
          if (ch.residues.size() >= 3) {
            ch.residues.back().seqid = ch.residues[0].seqid;
            ch.residues.back().name = ch.residues[0].name;
            ch.residues.back().segment = ch.residues[0].segment;
          }
    }
    std::string t1 = doc_text(make_mmcif_document(st, MmcifOutputGroups(true)));
    Structure st2 = from_cif_text(t1);
    return atom_rows(st) + "| " + atom_rows(st2);
  }
  return "?";
}

int main() { return hv::serve(handle); }
