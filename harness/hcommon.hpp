// Common helpers for the correspondence harnesses: line protocol cmd \t args \t result
#pragma once
#include <cstdio>
#include <cstdlib>
#include <cstring>
#include <string>
#include <vector>
#include <sstream>
#include <iostream>
#include <exception>

#include <csignal>
#include <sys/time.h>
#include <unistd.h>

namespace hv {

// Per-case time limit in CPU seconds of this process (ITIMER_PROF -> SIGPROF), with a generous wall-clock backstop
// (alarm -> SIGALRM, ten times as long). A limit in wall-clock time alone raised false alarms when the machine was
// loaded by other runs; the property's "completes within 10 s" is about the work done, which CPU time measures.
// cpu_alarm(0) cancels both. The caller installs ONE handler for SIGPROF and SIGALRM (install_alarm_handler).
inline void cpu_alarm(int seconds) {
  struct itimerval tv;
  tv.it_interval.tv_sec = 0; tv.it_interval.tv_usec = 0;
  tv.it_value.tv_sec = seconds; tv.it_value.tv_usec = 0;
  setitimer(ITIMER_PROF, &tv, nullptr);
  alarm(seconds == 0 ? 0 : 10 * (unsigned) seconds);
}
inline void install_alarm_handler(void (*handler)(int)) {
  signal(SIGPROF, handler);
  signal(SIGALRM, handler);
}


inline std::string hex_encode(const std::string& s) {
  static const char* d = "0123456789abcdef";
  std::string r;
  if (s.empty()) return "-";
  for (unsigned char c : s) { r += d[c >> 4]; r += d[c & 15]; }
  return r;
}
inline std::string hex_decode(const std::string& h) {
  std::string r;
  if (h == "-") return r;
  auto v = [](char c) { return c <= '9' ? c - '0' : (c | 0x20) - 'a' + 10; };
  for (size_t i = 0; i + 1 < h.size(); i += 2)
    r += char(v(h[i]) * 16 + v(h[i + 1]));
  return r;
}
inline std::vector<std::string> split(const std::string& s, char sep) {
  std::vector<std::string> out;
  size_t start = 0;
  for (;;) {
    size_t p = s.find(sep, start);
    if (p == std::string::npos) { out.push_back(s.substr(start)); break; }
    out.push_back(s.substr(start, p - start));
    start = p + 1;
  }
  return out;
}
inline std::vector<std::string> words(const std::string& s) {
  std::vector<std::string> out;
  std::istringstream is(s);
  std::string w;
  while (is >> w) out.push_back(w);
  return out;
}
inline long long to_ll(const std::string& s) { return std::strtoll(s.c_str(), nullptr, 10); }

// run handler(cmd, args) for every input line; print cmd \t args \t result
template<typename F> int serve(F handler) {
  std::string line;
  std::ios::sync_with_stdio(false);
  while (std::getline(std::cin, line)) {
    if (line.empty()) continue;
    size_t tab = line.find('\t');
    std::string cmd = line.substr(0, tab);
    std::string args = tab == std::string::npos ? "" : line.substr(tab + 1);
    std::string res;
    try {
      res = handler(cmd, args);
    } catch (std::exception&) {
      res = "EXC";
    }
    // a handler may emit its own lines (bulk commands) and return ""
    if (!res.empty())
      std::cout << cmd << '\t' << args << '\t' << res << '\n';
  }
  std::cout.flush();
  return 0;
}

}  // namespace hv
