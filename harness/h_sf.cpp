// Correspondence + oracle harness for the structure-factor family (C16 form factors, C17 Cromer-Liberman).
// Protocol: cmd \t args -> cmd \t args \t result.  Real numbers travel as decimal strings that are exactly
// representable (the generators only emit dyadic rationals); results as %.17g or IEEE bit patterns.
#include <gemmi/fail.hpp>
#include <gemmi/it92.hpp>
#include <gemmi/c4322.hpp>
#include <gemmi/neutron92.hpp>
#include <gemmi/formfact.hpp>
#include <gemmi/fprime.hpp>
#include <gemmi/addends.hpp>
#include <../src/fprime.cpp>
#include <cinttypes>
#include <cmath>
#include <thread>
#include <algorithm>
#include "hcommon.hpp"
using namespace gemmi;

static std::string g17(double v) { char b[40]; std::snprintf(b, sizeof b, "%.17g", v); return b; }
static std::string bits64(double v) { std::uint64_t u; std::memcpy(&u, &v, 8); char b[24]; std::snprintf(b, sizeof b, "%016" PRIx64, u); return b; }
static std::string bits32(float v) { std::uint32_t u; std::memcpy(&u, &v, 4); char b[16]; std::snprintf(b, sizeof b, "%08x", u); return b; }
static double num(const std::string& s) { return std::strtod(s.c_str(), nullptr); }

// ---- uniform access to the three tables: t = X (IT92), E (C4322), N (Neutron92; index = El ordinal)
template<typename Real, typename F> static std::string with_coef(char t, int i, F f) {
  if (t == 'X') { if (i < 0 || i >= 211) fail("row"); return f(IT92<Real>::data[i]); }
  if (t == 'E') { if (i < 0 || i >= 99) fail("row"); return f(C4322<Real>::data[i]); }
  if (t == 'N') { if (i < 0 || i >= 121) fail("row"); auto c = Neutron92<Real>::get((El)i); return f(c); }
  fail("table");
}

struct RowBits { template<typename C> std::string operator()(const C& c) const {
  std::string r; for (size_t k = 0; k < c.coefs.size(); ++k) { if (k) r += ' '; r += bits64(c.coefs[k]); } return r; } };
struct RowBitsF { template<typename C> std::string operator()(const C& c) const {
  std::string r; for (size_t k = 0; k < c.coefs.size(); ++k) { if (k) r += ' '; r += bits32(c.coefs[k]); } return r; } };

template<typename T> static SMat33<T> smat(const std::vector<std::string>& w, size_t k) {
  return SMat33<T>{(T)num(w[k]), (T)num(w[k+1]), (T)num(w[k+2]), (T)num(w[k+3]), (T)num(w[k+4]), (T)num(w[k+5])};
}

// f(0) and sum |a| straight from the coefficients
template<typename C> static double f0_of(const C& c) { double s = c.c(); for (int i = 0; i < C::ncoeffs; ++i) s += c.a(i); return s; }
template<typename C> static double absf0_of(const C& c) { double s = std::fabs(c.c()); for (int i = 0; i < C::ncoeffs; ++i) s += std::fabs(c.a(i)); return s; }
template<typename C> static double bmax_of(const C& c) { double s = 0; for (int i = 0; i < C::ncoeffs; ++i) s = std::max(s, (double)c.b(i)); return s; }
template<typename C> static double bmin_of(const C& c) { double s = 0; for (int i = 0; i < C::ncoeffs; ++i) s = std::min(s, (double)c.b(i)); return s; }

// ORACLE: radial quadrature of the density against f(0), and its 3-D Fourier transform
//   F(s) = int_0^inf 4 pi r^2 rho(r) sin(2 pi s r)/(2 pi s r) dr   against   f(s^2/4) exp(-B s^2/4)
struct RadialOracle {
  double B; std::vector<double> ss;
  template<typename C> std::string operator()(const C& c) const {
    if (B + bmin_of(c) <= 0.05) return "skip";           // a Gaussian of non-positive width: not a density
    double wmax = std::sqrt((bmax_of(c) + B)) / (2 * pi());   // rough std-dev scale of the widest term
    double wmin = std::sqrt(B + std::min(0.0, bmin_of(c))) / (2 * pi()) / std::sqrt(2.0);
    double R = 12 * wmax;
    int n = (int)std::min(2000000.0, std::max(4000.0, 2 * std::ceil(R / (wmin / 6))));
    if (n & 1) ++n;
    double h = R / n;
    std::vector<double> acc(ss.size(), 0.0);
    for (int k = 0; k <= n; ++k) {
      double r = k * h;
      double w = (k == 0 || k == n) ? 1 : (k & 1) ? 4 : 2;
      double rho = c.calculate_density_iso((typename C::coef_type)(r * r), (typename C::coef_type)B);
      double base = w * 4 * pi() * r * r * rho;
      for (size_t j = 0; j < ss.size(); ++j) {
        double x = 2 * pi() * ss[j] * r;
        acc[j] += base * (x == 0 ? 1.0 : std::sin(x) / x);
      }
    }
    double scale = absf0_of(c);
    for (size_t j = 0; j < ss.size(); ++j) {
      double got = acc[j] * h / 3;
      double s = ss[j];
      double want = c.calculate_sf((typename C::coef_type)(s * s / 4)) * std::exp(-B * s * s / 4);
      if (s == 0) want = f0_of(c);
      if (!(std::fabs(got - want) <= 2e-7 * scale))
        return "FT of density at s=" + g17(s) + " is " + g17(got) + " expected f(s^2/4)exp(-Bs^2/4)=" + g17(want);
    }
    return "1";
  }
};

// ORACLE: 3-D quadrature of the anisotropic density times cos(2 pi s.r) against f(|s|^2/4) exp(-2 pi^2 s^T U s)
struct AnisoOracle {
  SMat33<float> U; Vec3 s;
  template<typename C> std::string operator()(const C& c) const {
    auto ev = U.calculate_eigenvalues();
    double umin = std::min(ev[0], std::min(ev[1], ev[2])), umax = std::max(ev[0], std::max(ev[1], ev[2]));
    if (!(umin > 0)) return "skip";
    const double u2b = 8 * pi() * pi();
    if (bmin_of(c) < 0) return "skip";
    double sig_min = std::sqrt(umin);                                  // c term: variance U
    double sig_max = std::sqrt(umax + bmax_of(c) / u2b);
    double h = sig_min / 1.6;
    double R = 7.5 * sig_max;
    int n = (int)std::ceil(R / h);
    if (n > 70) return "skip";
    double acc = 0;
    for (int i = -n; i <= n; ++i)
      for (int j = -n; j <= n; ++j)
        for (int k = -n; k <= n; ++k) {
          Vec3 r(i * h, j * h, k * h);
          double rho = c.calculate_density_aniso(r, U);
          acc += rho * std::cos(2 * pi() * s.dot(r));
        }
    double got = acc * h * h * h;
    SMat33<double> Ud{U.u11, U.u22, U.u33, U.u12, U.u13, U.u23};
    double want = c.calculate_sf((typename C::coef_type)(s.length_sq() / 4)) * std::exp(-2 * pi() * pi() * Ud.r_u_r(s));
    double scale = absf0_of(c);
    if (!(std::fabs(got - want) <= 2e-5 * scale))
      return "3-D FT of aniso density at s=(" + g17(s.x) + "," + g17(s.y) + "," + g17(s.z) + ") is " + g17(got) +
             " expected " + g17(want);
    return "1";
  }
};

#include "h_sf_fprime.hpp"

static std::string handle(const std::string& cmd, const std::string& args) {
  std::vector<std::string> w = hv::words(args);
  auto I = [&](size_t k) { return (int)hv::to_ll(w.at(k)); };
  auto D = [&](size_t k) { return num(w.at(k)); };
  char t = w.empty() ? '?' : w[0][0];
  std::string fp;
  if (fprime_handle(cmd, w, fp)) return fp;
  if (cmd == "row") return with_coef<double>(t, I(1), RowBits());
  if (cmd == "rowf") return with_coef<float>(t, I(1), RowBitsF());
  if (cmd == "get" || cmd == "getx") {
    int el = I(0), q = I(1);
    if (el < 0 || el >= (int)El::END || q < -128 || q > 127) fail("domain");
    bool saved = IT92<double>::ignore_charge;
    IT92<double>::ignore_charge = I(2) != 0;
    long pos;
    if (cmd == "get") pos = &IT92<double>::get((El)el, (signed char)q) - IT92<double>::data;
    else { auto* p = IT92<double>::get_exact((El)el, (signed char)q); pos = p ? p - IT92<double>::data : -1; }
    IT92<double>::ignore_charge = saved;
    return std::to_string(pos);
  }
  if (cmd == "sf") { double x = D(2); return with_coef<double>(t, I(1), [&](const auto& c) { return g17(c.calculate_sf(x)); }); }
  if (cmd == "sff") { float x = (float)D(2); return with_coef<float>(t, I(1), [&](const auto& c) { return g17(c.calculate_sf(x)); }); }
  if (cmd == "diso") { double r2 = D(2), B = D(3);
    return with_coef<double>(t, I(1), [&](const auto& c) { return g17(c.calculate_density_iso(r2, B)); }); }
  if (cmd == "disof") { float r2 = (float)D(2), B = (float)D(3);
    return with_coef<float>(t, I(1), [&](const auto& c) { return g17(c.calculate_density_iso(r2, B)); }); }
  if (cmd == "piso") { double r2 = D(2), B = D(3), ad = D(4);
    return with_coef<double>(t, I(1), [&](const auto& c) { return g17(c.precalculate_density_iso(B, ad).calculate(r2)); }); }
  if (cmd == "pisof") { float r2 = (float)D(2), B = (float)D(3), ad = (float)D(4);
    return with_coef<float>(t, I(1), [&](const auto& c) { return g17(c.precalculate_density_iso(B, ad).calculate(r2)); }); }
  if (cmd == "pisod") { double r = D(2), B = D(3), ad = D(4);
    return with_coef<double>(t, I(1), [&](const auto& c) {
      auto p = c.precalculate_density_iso(B, ad).calculate_with_derivative(r); return g17(p.first) + " " + g17(p.second); }); }
  if (cmd == "pisodf") { float r = (float)D(2), B = (float)D(3), ad = (float)D(4);
    return with_coef<float>(t, I(1), [&](const auto& c) {
      auto p = c.precalculate_density_iso(B, ad).calculate_with_derivative(r); return g17(p.first) + " " + g17(p.second); }); }
  if (cmd == "daniso") { Vec3 r(D(2), D(3), D(4)); SMat33<float> U = smat<float>(w, 5);
    return with_coef<double>(t, I(1), [&](const auto& c) { return g17(c.calculate_density_aniso(r, U)); }); }
  if (cmd == "paniso") { Vec3 r(D(2), D(3), D(4)); SMat33<float> U = smat<float>(w, 5); double ad = D(11);
    return with_coef<double>(t, I(1), [&](const auto& c) { return g17(c.precalculate_density_aniso_u(U, ad).calculate(r)); }); }
  if (cmd == "panisof") { Vec3 r(D(2), D(3), D(4)); SMat33<float> U = smat<float>(w, 5); float ad = (float)D(11);
    return with_coef<float>(t, I(1), [&](const auto& c) { return g17(c.precalculate_density_aniso_u(U, ad).calculate(r)); }); }
  if (cmd == "panisob") { Vec3 r(D(2), D(3), D(4)); SMat33<double> B = smat<double>(w, 5); double ad = D(11);
    return with_coef<double>(t, I(1), [&](const auto& c) { return g17(c.precalculate_density_aniso_b(B, ad).calculate(r)); }); }
  // ---------------- oracles
  if (cmd == "o_radial") { RadialOracle o; o.B = D(2); for (size_t k = 3; k < w.size(); ++k) o.ss.push_back(D(k));
    return with_coef<double>(t, I(1), o); }
  if (cmd == "o_aniso") { AnisoOracle o; o.U = smat<float>(w, 2); o.s = Vec3(D(8), D(9), D(10));
    return with_coef<double>(t, I(1), o); }
  if (cmd == "o_floattab") {   // the float instantiations hold the same literals, rounded once more
    for (int i = 0; i < 211; ++i) for (int k = 0; k < 9; ++k)
      if ((float)IT92<double>::data[i].coefs[k] != IT92<float>::data[i].coefs[k]) return "IT92<float> row " + std::to_string(i);
    for (int i = 0; i < 99; ++i) for (int k = 0; k < 10; ++k)
      if ((float)C4322<double>::data[i].coefs[k] != C4322<float>::data[i].coefs[k]) return "C4322<float> row " + std::to_string(i);
    for (int i = 0; i < 121; ++i)
      if ((float)Neutron92<double>::data[i] != Neutron92<float>::data[i]) return "Neutron92<float> " + std::to_string(i);
    for (int i = 0; i < 112; ++i)
      if (IT92<double>::ion_list[i] != IT92<float>::ion_list[i]) return "ion_list<float> " + std::to_string(i);
    return "1";
  }
  if (cmd == "o_expapprox") {   // documented: "relative error below 1e-5"; measured worst case 1.1e-5 for |x| > 50
                                // (the float argument scaling quantises x), so the oracle allows 2e-5
    float x = (float)D(0);
    double e = std::exp((double)x), a = unsafe_expapprox(x);
    if (!(std::fabs(a - e) <= 2e-5 * e)) return "unsafe_expapprox(" + g17(x) + ")=" + g17(a) + " exp=" + g17(e);
    return "1";
  }
  if (cmd == "o_ionlookup") {   // every tabulated ion returns its own row; get_exact agrees; otherwise neutral row
    bool saved = IT92<double>::ignore_charge;
    IT92<double>::ignore_charge = false;
    std::string r = "1";
    for (int i = 0; i < 112 && r == "1"; ++i) {
      auto p = IT92<double>::ion_list[i];
      if (&IT92<double>::get(p.first, p.second) != &IT92<double>::data[99 + i]) r = "ion " + std::to_string(i) + " not found by get()";
      if (IT92<double>::get_exact(p.first, p.second) != &IT92<double>::data[99 + i]) r = "ion " + std::to_string(i) + " not found by get_exact()";
    }
    for (int el = 0; el < (int)El::END && r == "1"; ++el)
      for (int q = -128; q <= 127 && r == "1"; ++q) {
        std::pair<El, signed char> p{(El)el, (signed char)q};
        bool tab = std::find(IT92<double>::ion_list, IT92<double>::ion_list + 112, p) != IT92<double>::ion_list + 112;
        if (tab) continue;
        int neutral = el <= (int)El::Cf ? el : el == (int)El::D ? 1 : 0;
        if (&IT92<double>::get(p.first, p.second) != &IT92<double>::data[neutral])
          r = "el " + std::to_string(el) + " charge " + std::to_string(q) + " does not fall back to the neutral row";
        bool want_null = !IT92<double>::has((El)el) || q != 0;
        if ((IT92<double>::get_exact(p.first, p.second) == nullptr) != want_null)
          r = "get_exact el " + std::to_string(el) + " charge " + std::to_string(q);
      }
    IT92<double>::ignore_charge = saved;
    return r;
  }
  fail("unknown command");
}

int main() { return hv::serve(handle); }
