// Shared by h_pdb.cpp (C06) and h_pdbcif.cpp (C07): canonical field-by-field dump of a gemmi::Structure
// (numbers as integers at the precision of the PDB format) and a seeded generator of PDB-representable
// structures in the normal form the PDB reader produces.
#pragma once
#include <gemmi/model.hpp>
#include <gemmi/polyheur.hpp>
#include <algorithm>
#include <cmath>
#include <cstring>
#include <cstdint>
#include <string>
#include <vector>

namespace ps {
using namespace gemmi;

struct DumpOpt {
  bool serial = true;      // Atom::serial
  bool etype = true;       // entity types, subchains, entities' subchain lists
  bool conn_extra = true;  // Connection::asu, reported_distance (filled in by the reader from the record)
  bool conn_name = true;
  bool meta = true;        // info map (title, keywords, ...) and resolution
  bool het = true;         // het_flag
  bool entities = true;    // entity list (SEQRES/DBREF)
  bool ss = true;          // helices, sheets, mod_residues, cispeps
  bool conect = true;
};

// value in units of the last printed digit; the tiny positive bias mirrors the writer's "round halves up" offsets
// (irrelevant for values that are multiples of the unit)
inline long long q(double x, double scale) { return std::llround(x * scale + 1e-6); }
inline std::string S(const std::string& s) { return "'" + s + "'"; }
inline std::string C(char c) { return std::to_string((int)(unsigned char)c); }
inline std::string seqid_s(const SeqId& s) {
  return (s.num.has_value() ? std::to_string(*s.num) : std::string("N")) + ":" + C(s.icode == '\0' ? ' ' : s.icode);
}
inline std::string addr_s(const AtomAddress& a) {
  return S(a.chain_name) + " " + S(a.res_id.name) + " " + seqid_s(a.res_id.seqid) + " " + S(a.atom_name) + " " + C(a.altloc);
}
inline std::string tr_s(const Transform& t, double ms, double vs) {
  std::string s;
  for (int i = 0; i < 3; ++i) {
    for (int j = 0; j < 3; ++j) s += std::to_string(q(t.mat[i][j], ms)) + " ";
    s += std::to_string(q(t.vec.at(i), vs)) + " ";
  }
  return s;
}

inline std::string dump(const Structure& st, const DumpOpt& o = DumpOpt()) {
  std::string d;
  auto L = [&](const std::string& s) { d += s; d += '\n'; };
  L("cell " + std::to_string(q(st.cell.a, 1e3)) + " " + std::to_string(q(st.cell.b, 1e3)) + " " +
    std::to_string(q(st.cell.c, 1e3)) + " " + std::to_string(q(st.cell.alpha, 1e2)) + " " +
    std::to_string(q(st.cell.beta, 1e2)) + " " + std::to_string(q(st.cell.gamma, 1e2)) + " sg " + S(st.spacegroup_hm));
  for (const NcsOp& n : st.ncs)
    L("ncs " + S(n.id) + " " + (n.given ? "1" : "0") + " " + tr_s(n.tr, 1e6, 1e5));
  if (st.has_origx && !st.origx.is_identity()) L("origx " + tr_s(st.origx, 1e6, 1e5));
  if (st.cell.explicit_matrices) L("scale " + tr_s(st.cell.frac, 1e6, 1e5));
  if (o.meta) {
    for (const auto& kv : st.info) if (!kv.second.empty()) L("info " + kv.first + " " + S(kv.second));
    L("resolution " + std::to_string(q(st.resolution, 1e2)));
  }
  if (o.entities)
    for (const Entity& e : st.entities) {
      std::string s = "entity " + S(e.name);
      if (o.etype) {
        s += " type " + std::to_string((int)e.entity_type) + " sub";
        for (const std::string& x : e.subchains) s += " " + S(x);
      }
      s += " seq";
      for (const std::string& x : e.full_sequence) s += " " + S(x);
      L(s);
      for (const Entity::DbRef& r : e.dbrefs)
        L(" dbref " + S(r.db_name) + " " + S(r.accession_code) + " " + S(r.id_code) + " " + seqid_s(r.seq_begin) + " " +
          seqid_s(r.seq_end) + " " + seqid_s(r.db_begin) + " " + seqid_s(r.db_end));
    }
  if (o.ss) {
    for (const ModRes& m : st.mod_residues)
      L("modres " + S(m.chain_name) + " " + S(m.res_id.name) + " " + seqid_s(m.res_id.seqid) + " " + S(m.parent_comp_id) +
        " " + S(m.mod_id) + " " + S(m.details));
    for (const Helix& h : st.helices)
      L("helix " + addr_s(h.start) + " | " + addr_s(h.end) + " " + std::to_string((int)h.pdb_helix_class) + " " +
        std::to_string(h.length));
    for (const Sheet& sh : st.sheets) {
      L("sheet " + S(sh.name));
      for (const Sheet::Strand& t : sh.strands)
        L(" strand " + addr_s(t.start) + " | " + addr_s(t.end) + " " + std::to_string(t.sense) + " | " +
          addr_s(t.hbond_atom2) + " | " + addr_s(t.hbond_atom1));
    }
    for (const CisPep& c : st.cispeps)
      L("cispep " + addr_s(c.partner_c) + " | " + addr_s(c.partner_n) + " " + std::to_string(c.model_num) + " " +
        (std::isnan(c.reported_angle) ? std::string("nan") : std::to_string(q(c.reported_angle, 1e2))));
  }
  for (const Connection& c : st.connections) {
    std::string s = "conn " + std::to_string((int)c.type) + " " + addr_s(c.partner1) + " | " + addr_s(c.partner2) +
                    " " + S(c.link_id);
    if (o.conn_name) s += " " + S(c.name);
    if (o.conn_extra) s += " asu " + std::to_string((int)c.asu) + " d " + std::to_string(q(c.reported_distance, 1e2));
    L(s);
  }
  if (o.conect)
    for (const auto& kv : st.conect_map) {
      std::string s = "conect " + std::to_string(kv.first);
      for (int n : kv.second) s += " " + std::to_string(n);
      L(s);
    }
  if (o.etype) L("ter_status " + C(st.ter_status));
  for (const Model& m : st.models) {
    L("model " + std::to_string(m.num));
    for (const Chain& ch : m.chains) {
      L(" chain " + S(ch.name));
      for (const Residue& r : ch.residues) {
        std::string s = "  res " + S(r.name) + " " + seqid_s(r.seqid) + " seg " + S(r.segment);
        if (o.het) s += " het " + C(r.het_flag);
        if (o.etype) s += " et " + std::to_string((int)r.entity_type) + " sub " + S(r.subchain);
        L(s);
        for (const Atom& a : r.atoms) {
          std::string t = "   atom " + S(a.name) + " alt " + C(a.altloc) + " q " + std::to_string((int)a.charge) + " el " +
                          std::string(a.element.name()) + " xyz " + std::to_string(q(a.pos.x, 1e3)) + " " +
                          std::to_string(q(a.pos.y, 1e3)) + " " + std::to_string(q(a.pos.z, 1e3)) + " occ " +
                          std::to_string(q(a.occ, 1e2)) + " b " + std::to_string(q(a.b_iso, 1e2)) + " u " +
                          std::to_string(q(a.aniso.u11, 1e4)) + " " + std::to_string(q(a.aniso.u22, 1e4)) + " " +
                          std::to_string(q(a.aniso.u33, 1e4)) + " " + std::to_string(q(a.aniso.u12, 1e4)) + " " +
                          std::to_string(q(a.aniso.u13, 1e4)) + " " + std::to_string(q(a.aniso.u23, 1e4));
          if (a.calc_flag != CalcFlag::NotSet || a.tls_group_id >= 0)
            t += " cf " + std::to_string((int)a.calc_flag) + " tls " + std::to_string(a.tls_group_id);
          if (o.serial) t += " ser " + std::to_string(a.serial);
          L(t);
        }
      }
    }
  }
  return d;
}

// first differing line of two dumps ("" when equal)
inline std::string first_diff(const std::string& a, const std::string& b) {
  if (a == b) return "";
  size_t i = 0, line_start = 0;
  while (i < a.size() && i < b.size() && a[i] == b[i]) { if (a[i] == '\n') line_start = i + 1; ++i; }
  auto line_of = [&](const std::string& s) {
    size_t e = s.find('\n', line_start);
    return line_start <= s.size() ? s.substr(line_start, e == std::string::npos ? std::string::npos : e - line_start)
                                  : std::string("<end>");
  };
  return "[" + line_of(a) + "] vs [" + line_of(b) + "]";
}

// ------------------------------------------------------------------ generator
struct Rng {
  uint64_t s;
  explicit Rng(uint64_t seed) : s(seed * 0x9E3779B97F4A7C15ull + 0x1234567ull) { next(); next(); }
  uint64_t next() { s ^= s << 13; s ^= s >> 7; s ^= s << 17; return s; }
  int below(int n) { return (int)(next() % (uint64_t)n); }
  int range(int lo, int hi) { return lo + below(hi - lo + 1); }
  bool chance(int pct) { return below(100) < pct; }
  template<class T> const T& pick(const std::vector<T>& v) { return v[below((int)v.size())]; }
};

struct GenOpt {
  int nmodels = 1, nchains = 2, nres = 4;
  bool pdb_fit = true;      // names/numbers fit the PDB columns
  bool cif_names = false;   // names needing CIF quoting, long chain / residue names (C07 only)
  bool big_serial = false;  // serials in the hybrid-36 range (use with preserve_serial)
  bool extras = true;       // helices, sheets, seqres, links, ncs, ...
  bool no_segment = false;  // mmCIF has no segment id
  bool same_models = false; // all models hold the same chains/residues/atoms (only coordinates differ)
  bool link_ids = false;    // Refmac link ids on connections (a PDB file carries them only in LINKR records)
};

inline int pick_seqnum(Rng& r, int prev) {
  return prev + (r.chance(85) ? 1 : r.range(2, 40));
}

inline std::string rand_name(Rng& r, int minlen, int maxlen, const char* alphabet) {
  int n = r.range(minlen, maxlen);
  int na = (int)std::strlen(alphabet);
  std::string s;
  for (int i = 0; i < n; ++i) s += alphabet[r.below(na)];
  return s;
}

inline Structure gen_structure(uint64_t seed, const GenOpt& g) {
  Rng r(seed);
  Structure st;
  st.name = "gen";
  static const std::vector<std::string> aa = {"ALA","GLY","CYS","SER","MSE","LYS","TRP","A","DG","U","PRO","UNK","HIS"};
  static const std::vector<std::string> lig = {"HEM","SO4","ZN","NA","GOL","CL","7ZQ","X1"};
  static const std::vector<std::string> wat = {"HOH","HOH","DOD"};
  static const std::vector<std::string> els = {"C","C","N","O","S","H","D","FE","ZN","CA","NA","CL","SE","P","MG","X"};
  const char* alnum = "ABCDEFGHIJKLMNOPQRSTUVWXYZabcdefghijklmnopqrstuvwxyz0123456789";
  const char* upnum = "ABCDEFGHIJKLMNOPQRSTUVWXYZ0123456789";
  // cell
  if (r.chance(85)) {
    st.cell.set(r.range(5000, 400000) / 1000., r.range(5000, 400000) / 1000., r.range(5000, 999999) / 1000.,
                r.range(6000, 12000) / 100., r.range(6000, 12000) / 100., r.range(6000, 12000) / 100.);
    static const std::vector<std::string> sgs = {"P 1", "P 21 21 21", "C 1 2 1", "P 1 21 1", "I 41 2 2", "P 43 21 2", "H 3", "R 3 2"};
    st.spacegroup_hm = r.pick(sgs);
  }
  // far-away coordinates exercise the column limits; LINK/SSBOND records need atoms within a few cells
  bool wide = r.chance(30);
  int serial = r.chance(50) ? 0 : r.range(0, 99990);
  if (g.big_serial) serial = r.pick(std::vector<int>{99990, 99998, 100000 - 3, 43770015 - 400, 1779610, 16796160 - 5, 5000000});
  for (int im = 0; im < g.nmodels; ++im) {
    int mnum = g.nmodels == 1 ? 1 : (im == 0 ? r.range(1, 3) : st.models.back().num + r.range(1, 5));
    // MODEL numbers beyond the four columns of the format description (the writer uses eight)
    if (g.nmodels > 1 && im == 0 && r.chance(12)) mnum = r.pick(std::vector<int>{9998, 9999, 10000, 12345, 99999900});
    if (g.same_models && im > 0) {
      Model copy = st.models[0];
      copy.num = mnum;
      for (Chain& ch : copy.chains)
        for (Residue& res : ch.residues)
          for (Atom& a : res.atoms) {
            a.pos.y = r.range(-4999, 4999) / 1000.;
            a.serial = ++serial;
            // displacement parameters differ between models (or exist in one model only)
            if (a.aniso.nonzero()) {
              if (r.chance(20)) {
                a.aniso = {0, 0, 0, 0, 0, 0};
              } else {
                a.aniso.u11 += r.range(1, 400) * 1e-4f;
                a.aniso.u23 += r.range(-50, 50) * 1e-4f;
              }
            }
            if (r.chance(30)) a.b_iso += r.range(1, 300) / 100.f;
          }
      st.models.push_back(copy);
      continue;
    }
    st.models.emplace_back(mnum);
    Model& model = st.models.back();
    std::vector<std::string> names_here;
    for (int ic = 0; ic < g.nchains; ++ic) {
      std::string cname;
      for (int attempt = 0; attempt < 100; ++attempt) {
        if (im > 0 && ic < (int)st.models[0].chains.size() && r.chance(90)) cname = st.models[0].chains[ic].name;
        else if (g.cif_names && r.chance(40)) cname = rand_name(r, 3, 5, alnum);
        else cname = rand_name(r, 1, r.chance(70) ? 1 : 2, alnum);
        bool dup = false;
        for (const std::string& n : names_here) dup = dup || n == cname;
        if (!dup) break;
        cname.clear();
      }
      if (cname.empty()) continue;
      names_here.push_back(cname);
      model.chains.emplace_back(cname);
      Chain& ch = model.chains.back();
      bool has_polymer = r.chance(85);
      int npoly = has_polymer ? r.range(1, g.nres) : 0;
      int nlig = r.chance(60) ? r.range(0, 2) : 0;
      int nwat = r.chance(60) ? r.range(0, 3) : 0;
      if (npoly + nlig + nwat == 0) nlig = 1;
      int num = r.pick(std::vector<int>{1, 1, 1, -5, -999, 9995, 9999, 10000, 99, 998, 1223055 - 8, 466560 - 3, 0, 500});
      std::string seg = r.chance(20) && !g.no_segment ? rand_name(r, 1, 4, upnum) : "";
      if (seg.size() == 3 && r.chance(30)) seg[1] = ' ';
      for (int ir = 0; ir < npoly + nlig + nwat; ++ir) {
        ResidueId rid;
        bool poly = ir < npoly, water = ir >= npoly + nlig;
        rid.name = poly ? r.pick(aa) : water ? r.pick(wat) : r.pick(lig);
        if (g.cif_names && r.chance(15) && !water) rid.name = r.pick(std::vector<std::string>{"A1BCD", "LONGN", "0XY12"});
        char icode = ' ';
        bool after_mh = ch.residues.size() >= 2 && ch.residues.back().seqid == ch.residues[ch.residues.size() - 2].seqid;
        if (ir > 0 && r.chance(after_mh ? 50 : 12)) {  // same number, new insertion code (or microheterogeneity)
          const Residue& prev = ch.residues.back();
          if ((!after_mh && r.chance(70)) || prev.name == rid.name || water || !poly)
            icode = prev.seqid.icode == ' ' ? 'A' : prev.seqid.icode == 'Z' ? 0 : char(prev.seqid.icode + 1);
          else
            icode = prev.seqid.icode;  // microheterogeneity: same seqid, other name
          if (icode == 0) { icode = ' '; num = pick_seqnum(r, num); }
        } else if (ir > 0) {
          num = pick_seqnum(r, num);
        }
        rid.seqid = SeqId(num, icode);
        rid.segment = seg;
        bool clash = false;
        for (const Residue& o : ch.residues) clash = clash || (o.seqid == rid.seqid && o.name == rid.name);
        if (clash) { num = pick_seqnum(r, num + 1); rid.seqid = SeqId(num, ' '); }
        if (num > 1223055) break;
        ch.residues.emplace_back(rid);
        Residue& res = ch.residues.back();
        res.het_flag = poly ? (r.chance(90) ? 'A' : 'H') : (r.chance(95) ? 'H' : 'A');
        if (has_polymer)
          res.entity_type = poly ? EntityType::Polymer : water ? EntityType::Water : EntityType::NonPolymer;
        int natoms = r.range(1, 4);
        std::vector<std::string> anames;
        for (int ia = 0; ia < natoms; ++ia) {
          Atom a;
          std::string el = r.pick(els);
          a.element = Element(el);
          for (int attempt = 0; attempt < 20; ++attempt) {
            if (ia == 0 && rid.name == "CYS") { a.name = "SG"; a.element = Element("S"); }
            else if (r.chance(60)) a.name = (a.element == El::X ? std::string("Q") : std::string(a.element.uname())) + rand_name(r, 0, 2, upnum);
            else a.name = rand_name(r, 1, 4, g.cif_names && r.chance(30) ? "ABC'\"*12_" : "ABCDHNOPS123'*");
            if (g.cif_names && r.chance(5)) a.name = r.pick(std::vector<std::string>{"_C1", "O'", "\"N\"", "C\"1", "N'\"", "data_", "?", ".", "$1", "[C", ";O", "#1"});
            bool dup = false;
            for (const std::string& n : anames) dup = dup || n == a.name;
            if (!dup) break;
          }
          if (a.name.size() > 4) a.name.resize(4);
          anames.push_back(a.name);
          a.serial = ++serial;
          if (wide) a.pos = Position(r.range(-999999, 9999999) / 1000., r.range(-99999, 99999) / 1000., r.range(-9999, 9999) / 1000.);
          else a.pos = Position(r.range(-4999, 4999) / 1000., r.range(-4999, 4999) / 1000., r.range(-4999, 4999) / 1000.);
          // values between two printable numbers: only where no LINK distance is derived from the coordinates
          if (wide && r.chance(20)) a.pos.x = r.pick(std::vector<double>{-0.0004, -0.0005, 0.0005, 1.0005, 2.0015, -0.00049, -1.0005, -0.00051});
          if (r.chance(5)) a.pos.x = r.pick(std::vector<double>{0.0, -0.001, 0.001});
          if (wide && r.chance(10)) a.pos.x = r.pick(std::vector<double>{-999.9994, 9999.9994, -999.999, 9999.999});
          // the same for y and z, each on its own (the other two coordinates stay general)
          if (wide && r.chance(15)) a.pos.y = r.pick(std::vector<double>{-0.0004, -0.0005, 0.0005, 1.0005, 2.0015, -0.00049, -1.0005, -0.00051, 0.0, -0.001, -999.9994, 9999.9994});
          if (wide && r.chance(15)) a.pos.z = r.pick(std::vector<double>{-0.0004, -0.0005, 0.0005, 1.0005, 2.0015, -0.00049, -1.0005, -0.00051, 0.0, -0.001, -999.9994, 9999.9994});
          a.occ = r.chance(60) ? 1.0f : float(r.range(0, 100) / 100.);
          a.b_iso = float(r.range(0, 99999) / 100.);
          if (r.chance(5)) a.b_iso = r.pick(std::vector<float>{0.f, 999.99f, 0.01f, 100.f, 20.f});
          a.charge = r.chance(85) ? 0 : (signed char)r.range(-8, 8);
          if (r.chance(25)) {
            int u[6];
            // physical tensors: positive diagonal (the writer skips tensors with zero trace, the reader keys
            // duplicate detection on u11 != 0)
            for (int k = 0; k < 6; ++k) u[k] = r.chance(10) ? r.pick(std::vector<int>{0, 1, -1, 99999, -99999, 12345}) : r.range(-3000, 9000);
            for (int k = 0; k < 3; ++k) if (u[k] <= 0) u[k] = 1 - u[k];
            a.aniso.u11 = u[0] * 1e-4f; a.aniso.u22 = u[1] * 1e-4f; a.aniso.u33 = u[2] * 1e-4f;
            a.aniso.u12 = u[3] * 1e-4f; a.aniso.u13 = u[4] * 1e-4f; a.aniso.u23 = u[5] * 1e-4f;
          }
          res.atoms.push_back(a);
          if (r.chance(12) && ia + 1 < natoms) {  // alternate conformations of the same atom
            res.atoms.back().altloc = 'A';
            Atom b = a;
            b.altloc = r.chance(80) ? 'B' : '1';
            b.serial = ++serial;
            b.pos.x = r.range(-9999, 9999) / 1000.;
            b.occ = 0.5f;
            res.atoms.push_back(b);
          }
        }
      }
      if (has_polymer) { ++serial; st.ter_status = 'y'; }  // TER takes a serial number
    }
    if (r.chance(50)) serial = 0;
  }
  assign_subchains(st, /*force=*/true, /*fail_if_unknown=*/false);
  st.setup_cell_images();
  if (!g.extras)
    return st;
  Model& m0 = st.models[0];
  // kind 0: residue only; 1: atom whose name starts with its element symbol (so that the reader's
  // element inference from the padded name agrees with the element); 2: atom with a name of <= 3 characters
  bool want_altloc = false;   // prefer atoms that have an alternative-location letter (for LINK partners)
  auto rand_res_addr = [&](int kind) {
    for (int attempt = 0; ; ++attempt) {
      const Chain& ch = m0.chains[r.below((int)m0.chains.size())];
      const Residue& res = ch.residues[r.below((int)ch.residues.size())];
      AtomAddress a(ch.name, res.seqid, res.name, "");
      if (kind != 0) {
        const Atom& at = res.atoms[r.below((int)res.atoms.size())];
        if (want_altloc && at.altloc == '\0' && attempt < 40) continue;
        const char* un = at.element.uname();
        bool ok = kind == 1 ? (at.element != El::X && at.name.compare(0, std::strlen(un), un) == 0) : at.name.size() <= 3;
        if (!ok && attempt < 50) continue;
        if (!ok) a.chain_name.clear();
        a.atom_name = at.name;
        a.altloc = at.altloc;
      }
      return a;
    }
  };
  // SEQRES / DBREF: entity named after the chain, as the PDB reader does
  for (Chain& ch : m0.chains) {
    ConstResidueSpan polymer = ch.get_polymer();
    if (!polymer || !r.chance(70)) continue;
    st.entities.emplace_back(ch.name);
    Entity& e = st.entities.back();
    e.entity_type = EntityType::Polymer;
    e.subchains.push_back(polymer.subchain_id());
    int n = r.pick(std::vector<int>{1, 2, 5, 12, 13, 14, 26, 27, 3});
    for (int i = 0; i < n; ++i) {
      std::string mon = r.pick(aa);
      // microheterogeneity in the sequence (mmCIF only: SEQRES has one name per position): "A,B" or "A,B,C"
      if (g.no_segment && r.chance(15)) {
        for (int extra = r.chance(40) ? 2 : 1; extra > 0; --extra) {
          std::string other = r.pick(aa);
          if (("," + mon + ",").find("," + other + ",") == std::string::npos) mon += "," + other;
        }
      }
      e.full_sequence.push_back(mon);
    }
    if (r.chance(40)) {
      Entity::DbRef d;
      d.db_name = r.pick(std::vector<std::string>{"UNP", "PDB", "GB"});
      d.accession_code = r.chance(80) ? rand_name(r, 6, 8, upnum) : rand_name(r, 9, 20, upnum);
      d.id_code = r.chance(80) ? rand_name(r, 4, 12, upnum) : rand_name(r, 13, 20, upnum);
      d.seq_begin = polymer.front().seqid;
      d.seq_end = polymer.back().seqid;
      d.db_begin = SeqId(r.range(1, 500), ' ');
      d.db_end = SeqId(*d.db_begin.num + r.range(0, 900), ' ');
      if (r.chance(10)) d.db_end = SeqId(r.range(100000, 200000), ' ');
      e.dbrefs.push_back(d);
    }
  }
  // the reader creates entities in file order: DBREF records come before SEQRES
  std::stable_partition(st.entities.begin(), st.entities.end(), [](const Entity& e) { return !e.dbrefs.empty(); });
  for (int i = r.below(3); i > 0; --i) {
    Helix h;
    h.start = rand_res_addr(0);
    h.end = rand_res_addr(0);
    h.pdb_helix_class = (Helix::HelixClass)r.range(1, 10);
    h.length = r.chance(80) ? r.range(0, 99) : -1;
    st.helices.push_back(h);
  }
  for (int i = r.below(3); i > 0; --i) {
    std::string name = rand_name(r, 1, 3, upnum);
    bool dup = false;
    for (const Sheet& s : st.sheets) dup = dup || s.name == name;
    if (dup) continue;
    st.sheets.emplace_back(name);
    for (int k = r.range(1, 3); k > 0; --k) {
      Sheet::Strand t;
      t.start = rand_res_addr(0);
      t.end = rand_res_addr(0);
      t.sense = st.sheets.back().strands.empty() ? 0 : (r.chance(50) ? 1 : -1);
      if (t.sense != 0 && r.chance(60)) {
        t.hbond_atom2 = rand_res_addr(2);
        t.hbond_atom1 = rand_res_addr(2);
        t.hbond_atom2.altloc = t.hbond_atom1.altloc = '\0';
        if (t.hbond_atom2.chain_name.empty() || t.hbond_atom1.chain_name.empty())
          t.hbond_atom2 = t.hbond_atom1 = AtomAddress();
      }
      st.sheets.back().strands.push_back(t);
    }
  }
  for (int i = r.below(3); i > 0; --i) {
    ModRes mr;
    AtomAddress a = rand_res_addr(0);
    mr.chain_name = a.chain_name;
    mr.res_id = a.res_id;
    mr.parent_comp_id = r.pick(aa);
    mr.details = r.chance(70) ? r.pick(std::vector<std::string>{"SELENOMETHIONINE", "MODIFIED RESIDUE", "X"}) : "";
    mr.mod_id = r.chance(30) ? rand_name(r, 1, 8, upnum) : "";
    st.mod_residues.push_back(mr);
  }
  if (r.chance(50))
    for (int i = r.range(1, 3); i > 0; --i) {
      NcsOp op;
      op.id = std::to_string(r.range(1, 99));
      op.given = r.chance(40);
      for (int a = 0; a < 3; ++a) {
        for (int b = 0; b < 3; ++b) op.tr.mat[a][b] = r.range(-1000000, 1000000) / 1e6;
        op.tr.vec.at(a) = r.range(-9999999, 9999999) / 1e5;
      }
      st.ncs.push_back(op);
    }
  // LINK records between existing atoms (names follow the reader's numbering)
  {
    int covale = 0, metalc = 0;
    for (int i = wide ? 0 : r.below(3); i > 0; --i) {
      Connection c;
      want_altloc = r.chance(35);
      c.partner1 = rand_res_addr(1);
      c.partner2 = rand_res_addr(1);
      want_altloc = false;
      if (c.partner1.chain_name.empty() || c.partner2.chain_name.empty()) continue;
      const_CRA c1 = m0.find_cra(c.partner1, true), c2 = m0.find_cra(c.partner2, true);   // addresses carry no segment id
      if (!c1.atom || !c2.atom || c1.atom == c2.atom) continue;
      // the record identifies atoms by name+altloc within a residue; take unambiguous ones
      bool metal = is_metal(c1.atom->element.elem) || is_metal(c2.atom->element.elem);
      c.type = metal ? Connection::MetalC : Connection::Covale;
      c.name = metal ? "metalc" + std::to_string(++metalc) : "covale" + std::to_string(++covale);
      // Refmac link id (written only as LINKR, option use_linkr) and the same-asu / other-asu restriction of the partner
      if (g.link_ids && r.chance(60)) c.link_id = r.pick(std::vector<std::string>{"ALA-GLY", "SS", "X1", "TRANS", "LINK8CHR"});
      // (find_nearest_image(.., Asu::Different) looks at symmetry mates and at the NEAREST lattice copy only: without
      // symmetry operations it may find no partner at all, so Different is used only when the cell has images)
      if (r.chance(40)) c.asu = (r.chance(50) || st.cell.images.empty()) ? Asu::Same : Asu::Different;
      st.connections.push_back(c);
    }
  }
  // SSBOND records: the record names residues only; the reader takes SG (an atom of that name without altloc whose
  // element is S), otherwise the first sulfur atom of the residue. Generated partners are exactly such atoms (without
  // altloc, so that the reader's closest-conformer search is not involved). They come first: SSBOND precedes LINK.
  {
    auto sulfur_of = [](const Residue& res) -> const Atom* {
      const Atom* sg = res.find_atom("SG", '\0');
      if (sg && sg->element == El::S) return sg;
      const Atom* a = res.find_by_element(El::S);
      return a && a->altloc == '\0' ? a : nullptr;
    };
    std::vector<std::pair<const Chain*, const Residue*>> with_s;
    for (const Chain& ch : m0.chains)
      for (const Residue& res : ch.residues)
        if (sulfur_of(res)) with_s.push_back({&ch, &res});
    int disulf = 0;
    std::vector<Connection> ss;
    if (!wide && with_s.size() >= 2)
      for (int i = r.below(3); i > 0; --i) {
        auto p1 = r.pick(with_s), p2 = r.pick(with_s);
        if (p1.second == p2.second) continue;
        Connection c;
        c.type = Connection::Disulf;
        c.name = "disulf" + std::to_string(++disulf);
        const Atom* a1 = sulfur_of(*p1.second); const Atom* a2 = sulfur_of(*p2.second);
        c.partner1 = AtomAddress(p1.first->name, p1.second->seqid, p1.second->name, a1->name);
        c.partner2 = AtomAddress(p2.first->name, p2.second->seqid, p2.second->name, a2->name);
        ss.push_back(c);
      }
    st.connections.insert(st.connections.begin(), ss.begin(), ss.end());
  }
  for (int i = r.below(2); i > 0; --i) {
    CisPep c;
    c.partner_c = rand_res_addr(0);
    c.partner_n = rand_res_addr(0);
    c.model_num = m0.num;
    c.reported_angle = r.range(-9999, 18000) / 100.;  // Real(6.2) field
    st.cispeps.push_back(c);
  }
  if (r.chance(40)) {
    std::vector<int> serials;
    for (const Chain& ch : m0.chains) for (const Residue& res : ch.residues) for (const Atom& a : res.atoms) serials.push_back(a.serial);
    for (int i = r.range(1, 3); i > 0; --i) {
      int a = r.pick(serials);
      if (a == 0) continue;
      std::vector<int>& v = st.conect_map[a];
      for (int k = r.range(1, 6); k > 0; --k) { int b = r.pick(serials); if (b != 0) v.push_back(b); }
      if (v.empty()) st.conect_map.erase(a);
    }
  }
  if (r.chance(50)) st.info["_entry.id"] = rand_name(r, 4, 4, upnum);
  if (r.chance(40)) st.info["_struct.title"] = r.pick(std::vector<std::string>{
      "CRYSTAL STRUCTURE OF SOMETHING", "X", "A VERY LONG TITLE THAT NEEDS TO BE CONTINUED ON A SECOND LINE BECAUSE IT HAS MORE THAN SEVENTY CHARACTERS IN IT",
      "STRUCTURE OF 2'-DEOXY ANALOG (FORM 2)"});
  if (r.chance(30)) st.info["_struct_keywords.pdbx_keywords"] = r.pick(std::vector<std::string>{"HYDROLASE", "DNA BINDING PROTEIN/DNA"});
  if (r.chance(30)) st.info["_struct_keywords.text"] = r.pick(std::vector<std::string>{"HYDROLASE, ENZYME", "KEYWORD"});
  if (r.chance(30)) st.info["_exptl.method"] = r.pick(std::vector<std::string>{"X-RAY DIFFRACTION", "SOLUTION NMR"});
  if (r.chance(30)) st.info["_cell.Z_PDB"] = std::to_string(r.range(1, 96));
  if (r.chance(30)) st.resolution = r.range(50, 999) / 100.;
  st.setup_cell_images();   // again: the NCS operators added above contribute images
  return st;
}

}  // namespace ps
