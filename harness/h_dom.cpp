// C19 harness: executes a HISTORY of DOM editing operations on a real gemmi::cif::Document.
//   hist  \t <init>;<op>;<op>...   -> <dump0>;<st>:<out>:<hash>;...;<st>:<out>:<dump>   (hash per step, dump at end)
//   histv \t <init>;<op>;...        -> full dump after every step
//   o_hist \t <init>;<op>;...       -> property oracle on the implementation: rectangular after every step,
//                                      write_cif_to_stream -> read_memory gives the same content at the end
// init: "empty" | "cif <hex text>".  Strings are hex-encoded ("-" = empty), lists are "<n> e1 .. en".
#include <gemmi/cifdoc.hpp>
#include <gemmi/cif.hpp>
#include <gemmi/to_cif.hpp>
#include "hcommon.hpp"
#include <sstream>

using namespace gemmi;
using hv::hex_encode;
using hv::hex_decode;

struct Precondition : std::runtime_error {
  Precondition() : std::runtime_error("documented precondition not met (guard of the harness)") {}
};

// ---------------------------------------------------------------- dumps
static void dump_items(std::string& s, const std::vector<cif::Item>& items);

static std::string frame_payload(const cif::Block& fr) {
  std::string s = "F " + hex_encode(fr.name) + " " + std::to_string(fr.items.size());
  dump_items(s, fr.items);
  return s;
}

static void dump_items(std::string& s, const std::vector<cif::Item>& items) {
  for (const cif::Item& it : items) {
    switch (it.type) {
      case cif::ItemType::Pair:
        s += " P " + hex_encode(it.pair[0]) + " " + hex_encode(it.pair[1]);
        break;
      case cif::ItemType::Loop:
        s += " L " + std::to_string(it.loop.tags.size()) + " " + std::to_string(it.loop.values.size());
        for (const std::string& t : it.loop.tags) s += " " + hex_encode(t);
        for (const std::string& v : it.loop.values) s += " " + hex_encode(v);
        break;
      case cif::ItemType::Frame:
        s += " O " + hex_encode(frame_payload(it.frame));
        break;
      case cif::ItemType::Comment:
        s += " O " + hex_encode("C " + it.pair[1]);
        break;
      case cif::ItemType::Erased:
        s += " E";
        break;
    }
  }
}

static std::string dump_doc(const cif::Document& d) {
  std::string s = "D" + std::to_string(d.blocks.size());
  for (const cif::Block& b : d.blocks) {
    s += " B " + hex_encode(b.name) + " " + std::to_string(b.items.size());
    dump_items(s, b.items);
  }
  return s;
}

static std::string hash_str(const std::string& s) {
  unsigned long long h1 = 2166136261ULL, h2 = 0x9747b28cULL;
  for (unsigned char c : s) {
    h1 = ((h1 ^ c) * 16777619ULL) & 0xFFFFFFFFULL;
    h2 = ((h2 ^ c) * 16777619ULL + 1) & 0xFFFFFFFFULL;
  }
  char buf[40];
  std::snprintf(buf, sizeof buf, "%08llx%08llx", h1, h2);
  return buf;
}

// ---------------------------------------------------------------- token reader
struct Toks {
  std::vector<std::string> w;
  size_t i = 0;
  const std::string& next() {
    if (i >= w.size()) throw std::logic_error("history spec: missing token");
    return w[i++];
  }
  std::string str() { return hex_decode(next()); }
  int num() { return (int) hv::to_ll(next()); }
  std::vector<std::string> list() {
    int n = num();
    std::vector<std::string> v;
    for (int k = 0; k < n; ++k) v.push_back(str());
    return v;
  }
  std::vector<std::vector<std::string>> lists() {
    int n = num();
    std::vector<std::vector<std::string>> v;
    for (int k = 0; k < n; ++k) v.push_back(list());
    return v;
  }
};

static std::string nstr(long long n) { return std::to_string(n); }

// ---------------------------------------------------------------- one operation
static void table_look(cif::Table& t, std::vector<std::string>& out) {
  if (!t.ok()) { out.push_back("0"); return; }
  out.push_back("1");
  out.push_back(nstr(t.width()));
  size_t len = t.length();
  out.push_back(nstr(len));
  out.push_back(t.loop_item ? "1" : "0");
  for (int p : t.positions) out.push_back(nstr(p));
  cif::Table::Row tags = t.tags();
  for (size_t n = 0; n != t.width(); ++n) {
    const std::string* p = tags.ptr_at((int) n);
    out.push_back(p ? *p : std::string("??"));
  }
  for (size_t r = 0; r != len; ++r) {
    cif::Table::Row row = t.at((int) r);
    for (size_t n = 0; n != t.width(); ++n) {
      const std::string* p = row.ptr_at((int) n);
      out.push_back(p ? *p : std::string("??"));
    }
  }
}

static void run_op(cif::Document& doc, Toks& tk, std::vector<std::string>& out) {
  const std::string cmd = tk.next();
  if (cmd == "addblock") {
    std::string name = tk.str();
    int pos = tk.num();
    doc.add_new_block(name, pos);
    return;
  }
  int bi = tk.num();
  // parse all arguments before touching the document
  if (cmd == "setpair") {
    std::string tag = tk.str(), val = tk.str();
    doc.blocks.at(bi).set_pair(tag, val);
  } else if (cmd == "initloop" || cmd == "initmm") {
    std::string prefix = tk.str();
    std::vector<std::string> tags = tk.list();
    auto rows = tk.lists();
    cif::Block& b = doc.blocks.at(bi);
    cif::Loop& loop = cmd == "initloop" ? b.init_loop(prefix, tags) : b.init_mmcif_loop(prefix, tags);
    for (auto& r : rows)
      loop.add_row(r);
  } else if (cmd == "moveitem") {
    int o = tk.num(), n = tk.num();
    doc.blocks.at(bi).move_item(o, n);
  } else if (cmd == "table") {
    std::string fk = tk.next();
    std::string prefix = tk.str();
    std::vector<std::string> tags;
    if (fk != "cat") tags = tk.list();
    std::string top = tk.next();
    std::vector<std::string> vals;
    int a = 0, c = 0;
    if (top == "append") vals = tk.list();
    else if (top == "rmrows" || top == "moverow") { a = tk.num(); c = tk.num(); }
    else if (top == "colerase") a = tk.num();
    cif::Block& b = doc.blocks.at(bi);
    cif::Table t = fk == "find" ? b.find(prefix, tags)
                 : fk == "any" ? b.find_any(prefix, tags)
                 : fk == "oradd" ? b.find_or_add(prefix, tags)
                 : b.find_mmcif_category(prefix);
    if (top == "look") table_look(t, out);
    else if (top == "append") t.append_row(vals);
    else if (top == "rmrows") t.remove_rows(a, c);
    else if (top == "moverow") t.move_row(a, c);
    else if (top == "ensure") { t.ensure_loop(); table_look(t, out); }  // the handle stays usable: dump it
    else if (top == "erase") t.erase();
    else if (top == "colerase") t.column(a).erase();
    else throw std::logic_error("history spec: unknown table op " + top);
  } else if (cmd == "loop") {
    std::string tag = tk.str();
    std::string lop = tk.next();
    std::vector<std::string> vals;
    std::vector<std::vector<std::string>> cols;
    std::string value;
    int a = 0, c = 0;
    if (lop == "addrow" || lop == "addvalues") { vals = tk.list(); a = tk.num(); }
    else if (lop == "moverow") { a = tk.num(); c = tk.num(); }
    else if (lop == "addcols") { vals = tk.list(); value = tk.str(); a = tk.num(); }
    else if (lop == "rmcol") value = tk.str();
    else if (lop == "setall") cols = tk.lists();
    cif::Block& b = doc.blocks.at(bi);
    cif::Loop* loop = b.find_loop(tag).get_loop();
    if (!loop)
      fail("no loop with tag " + tag);
    if (lop == "look") {
      out.push_back(nstr(loop->width()));
      out.push_back(nstr(loop->length()));
      for (auto& t : loop->tags) out.push_back(t);
      for (auto& v : loop->values) out.push_back(v);
    } else if (lop == "addrow") {
      loop->add_row(vals, a);
    } else if (lop == "addvalues") {
      // add_values() is documented as unchecked: whole rows only
      if (loop->width() == 0 || vals.size() % loop->width() != 0) throw Precondition();
      loop->add_values(vals, a);
    } else if (lop == "poprow") {
      loop->pop_row();
    } else if (lop == "moverow") {
      // "the arguments must be valid row indices"
      if (loop->width() == 0 || a < 0 || c < 0 || (size_t) a >= loop->length() || (size_t) c >= loop->length())
        throw Precondition();
      loop->move_row(a, c);
    } else if (lop == "addcols") {
      loop->add_columns(vals, value, a);
    } else if (lop == "rmcol") {
      loop->remove_column(value);
    } else if (lop == "setall") {
      loop->set_all_values(cols);
    } else {
      throw std::logic_error("history spec: unknown loop op " + lop);
    }
  } else if (cmd == "colerase") {
    std::string tag = tk.str();
    doc.blocks.at(bi).find_values(tag).erase();
  } else if (cmd == "findvalue") {
    std::string tag = tk.str();
    const std::string* v = doc.blocks.at(bi).find_value(tag);
    out.push_back(v ? "1" : "0");
    if (v) out.push_back(*v);
  } else if (cmd == "findvalues") {
    std::string tag = tk.str();
    cif::Block& b = doc.blocks.at(bi);
    cif::Column col = b.find_values(tag);
    if (!col.item()) { out.push_back("0"); return; }
    out.push_back("1");
    out.push_back(nstr(col.item() - b.items.data()));
    out.push_back(nstr(col.col()));
    int len = col.length();
    out.push_back(nstr(len));
    // both ways of reading a column: at() and the stride iterator
    std::vector<std::string> viaiter;
    for (const std::string& v : col) viaiter.push_back(v);
    if ((int) viaiter.size() != len) throw std::logic_error("column iterator yields a different number of values");
    for (int k = 0; k < len; ++k) {
      if (viaiter[k] != col.at(k)) throw std::logic_error("column iterator and at() disagree");
      out.push_back(col.at(k));
    }
  } else if (cmd == "getindex") {
    std::string tag = tk.str();
    out.push_back(nstr(doc.blocks.at(bi).get_index(tag)));
  } else if (cmd == "hastag") {
    std::string tag = tk.str();
    out.push_back(doc.blocks.at(bi).has_tag(tag) ? "1" : "0");
  } else if (cmd == "cats") {
    for (const std::string& c : doc.blocks.at(bi).get_mmcif_category_names()) out.push_back(c);
  } else {
    throw std::logic_error("history spec: unknown op " + cmd);
  }
}

// ---------------------------------------------------------------- oracle helpers
static std::string rect_items(const std::vector<cif::Item>& items, const std::string& where) {
  for (size_t i = 0; i != items.size(); ++i) {
    const cif::Item& it = items[i];
    if (it.type == cif::ItemType::Loop) {
      size_t w = it.loop.tags.size(), n = it.loop.values.size();
      if ((w == 0 && n != 0) || (w != 0 && n % w != 0))
        return where + " item " + std::to_string(i) + ": loop with " + std::to_string(w) + " tags and " +
               std::to_string(n) + " values";
      for (const std::string& v : it.loop.values)
        if (v.empty())
          return where + " item " + std::to_string(i) + ": loop holds an empty-string value";
    } else if (it.type == cif::ItemType::Frame) {
      std::string r = rect_items(it.frame.items, where + "/" + it.frame.name);
      if (!r.empty()) return r;
    }
  }
  return "";
}

static std::string rect_doc(const cif::Document& d) {
  for (size_t b = 0; b != d.blocks.size(); ++b) {
    std::string r = rect_items(d.blocks[b].items, "block " + std::to_string(b));
    if (!r.empty()) return r;
  }
  return "";
}

// content as a CIF writer/reader sees it: no erased items, no loops without rows
static void norm_items(std::string& s, const std::vector<cif::Item>& items) {
  for (const cif::Item& it : items) {
    switch (it.type) {
      case cif::ItemType::Pair:
        s += " P " + hex_encode(it.pair[0]) + " " + hex_encode(it.pair[1]);
        break;
      case cif::ItemType::Loop:
        if (it.loop.values.empty()) break;
        s += " L " + std::to_string(it.loop.tags.size()) + " " + std::to_string(it.loop.values.size());
        for (const std::string& t : it.loop.tags) s += " " + hex_encode(t);
        for (const std::string& v : it.loop.values) s += " " + hex_encode(v);
        break;
      case cif::ItemType::Frame:
        s += " F " + hex_encode(it.frame.name) + " [";
        norm_items(s, it.frame.items);
        s += " ]";
        break;
      default:
        break;
    }
  }
}

static std::string norm_doc(const cif::Document& d) {
  std::string s;
  for (const cif::Block& b : d.blocks) {
    s += " B " + hex_encode(b.name);
    norm_items(s, b.items);
  }
  return s;
}

static cif::Document initial(Toks& tk) {
  std::string kind = tk.next();
  if (kind == "empty")
    return cif::Document();
  std::string text = tk.str();
  return cif::read_memory(text.data(), text.size(), "init", 0);
}

static std::string join_out(const std::vector<std::string>& out) {
  std::string s;
  for (size_t i = 0; i != out.size(); ++i) {
    if (i) s += ',';
    s += hex_encode(out[i]);
  }
  return s.empty() ? "." : s;
}

static std::string handle(const std::string& cmd, const std::string& args) {
  std::vector<std::string> parts = hv::split(args, ';');
  Toks t0;
  t0.w = hv::words(parts.at(0));
  cif::Document doc = initial(t0);
  if (cmd == "hist" || cmd == "histv") {
    bool verbose = cmd == "histv";
    std::string res = dump_doc(doc);
    for (size_t k = 1; k < parts.size(); ++k) {
      Toks tk;
      tk.w = hv::words(parts[k]);
      std::vector<std::string> out;
      std::string st = "OK";
      try {
        run_op(doc, tk, out);
      } catch (std::logic_error& e) {
        if (std::string(e.what()).compare(0, 12, "history spec") == 0 ||
            std::string(e.what()).compare(0, 15, "column iterator") == 0)
          return std::string("HARNESS-ERROR ") + e.what();
        st = "EXC"; out.clear();
      } catch (std::exception&) {
        st = "EXC"; out.clear();
      }
      std::string d = dump_doc(doc);
      res += ";" + st + ":" + join_out(out) + ":" + (verbose || k + 1 == parts.size() ? d : hash_str(d));
    }
    return res;
  }
  if (cmd == "o_hist") {
    std::string r0 = rect_doc(doc);
    if (!r0.empty())
      return "skip";   // the starting document itself is not rectangular
    for (size_t k = 1; k < parts.size(); ++k) {
      Toks tk;
      tk.w = hv::words(parts[k]);
      std::vector<std::string> out;
      bool threw = false;
      try {
        run_op(doc, tk, out);
      } catch (std::exception&) {
        threw = true;
      }
      std::string r = rect_doc(doc);
      if (!r.empty())
        return "step " + std::to_string(k) + (threw ? " (rejected with an exception)" : "") + " leaves " + r;
    }
    std::ostringstream os;
    cif::write_cif_to_stream(os, doc);
    std::string text = os.str();
    std::string want = norm_doc(doc);
    try {
      cif::Document back = cif::read_memory(text.data(), text.size(), "roundtrip", 0);
      std::string got = norm_doc(back);
      if (got != want)
        return "written document parses back to different content: want" + want + " got" + got;
    } catch (std::exception& e) {
      return std::string("written document does not parse: ") + e.what();
    }
    return "ok";
  }
  return "HARNESS-ERROR unknown command";
}

int main() { return hv::serve(handle); }
