// Correspondence + oracle harness for the map family (C09, C03): CCP4 maps, grid index arithmetic,
// symmetrisation, ASU mask. Built from the repository's working tree.
#include "hcommon.hpp"
#include <gemmi/ccp4.hpp>
#include <gemmi/grid.hpp>
#include <gemmi/asumask.hpp>
#include <gemmi/symmetry.hpp>
#include <gemmi/gz.hpp>
#include <cmath>
#include <algorithm>
#include <cstdint>
#include <map>
#include <set>
#include <unistd.h>
#include <sys/resource.h>
#include <signal.h>
#include <zlib.h>
using namespace gemmi;
using hv::words; using hv::to_ll;
typedef long long ll;

static const ll NAN_Z = -1000000;
#if defined(__SANITIZE_ADDRESS__)
static const bool kAsan = true;
#else
static const bool kAsan = false;
#endif
static bool huge_alloc(const std::string& file);
static const ll HMOD = 1000000007LL;

static const SpaceGroup* row_sg(int row) {
  if (row < 0) return nullptr;
  return &spacegroup_tables::main[row];
}

// file voxel k for the correspondence commands: small non-negative integers, exact in every mode
static int valfn(ll seed, ll k) { return (int) ((k * k + 3 * k + seed) % 7); }
// signed variant for the symmetrisation reducers
static int valfn2(ll seed, ll k) { return (int) ((k * k * 5 + 11 * k + seed) % 13) - 6; }

template<typename T> static bool to_z(T x, ll& out) {
  double d = (double) x;
  if (std::isnan(d)) { out = NAN_Z; return true; }
  if (d != std::floor(d) || std::fabs(d) > 1e15) return false;
  out = (ll) d;
  return true;
}
template<typename T> static std::string hash_data(const std::vector<T>& data, ll dflt) {
  ll h = 0, ndef = 0;
  for (T x : data) {
    ll v;
    if (!to_z(x, v)) return "NONINT";
    if (v == dflt) ++ndef;
    h = (h * 31 + (v + 1000003)) % HMOD;
  }
  return std::to_string(h) + " " + std::to_string(ndef);
}

// ------------------------------------------------------------------ hand-made CCP4 files
struct FileSpec {
  int n[3], mode, start[3], samp[3], axes[3], ispg, nsymbt = 0;
  bool swap = false;
  double cell[6] = {20, 30, 40, 90, 90, 90};
};

static void put32(std::string& s, size_t word, uint32_t v, bool swap) {
  unsigned char b[4];
  std::memcpy(b, &v, 4);
  if (swap) { std::swap(b[0], b[3]); std::swap(b[1], b[2]); }
  std::memcpy(&s[4 * (word - 1)], b, 4);
}
static void putf(std::string& s, size_t word, float f, bool swap) {
  uint32_t v; std::memcpy(&v, &f, 4); put32(s, word, v, swap);
}
static std::string make_header(const FileSpec& fs) {
  std::string s(1024, '\0');
  for (int i = 0; i < 3; ++i) {
    put32(s, 1 + i, (uint32_t) fs.n[i], fs.swap);
    put32(s, 5 + i, (uint32_t) fs.start[i], fs.swap);
    put32(s, 8 + i, (uint32_t) fs.samp[i], fs.swap);
    put32(s, 17 + i, (uint32_t) fs.axes[i], fs.swap);
    putf(s, 11 + i, (float) fs.cell[i], fs.swap);
    putf(s, 14 + i, (float) fs.cell[3 + i], fs.swap);
  }
  put32(s, 4, (uint32_t) fs.mode, fs.swap);
  put32(s, 23, (uint32_t) fs.ispg, fs.swap);
  put32(s, 24, (uint32_t) fs.nsymbt, fs.swap);
  std::memcpy(&s[4 * 52], "MAP ", 4);
  bool le = is_little_endian();
  bool file_le = fs.swap ? !le : le;
  unsigned char st[4] = {(unsigned char)(file_le ? 0x44 : 0x11), (unsigned char)(file_le ? 0x41 : 0x11), 0, 0};
  std::memcpy(&s[4 * 53], st, 4);
  return s;
}
static void append_value(std::string& s, int mode, double v, bool swap) {
  unsigned char b[4]; int len = 0;
  if (mode == 0) { int8_t x = (int8_t) v; std::memcpy(b, &x, 1); len = 1; }
  else if (mode == 1) { int16_t x = (int16_t) v; std::memcpy(b, &x, 2); len = 2; }
  else if (mode == 6) { uint16_t x = (uint16_t) v; std::memcpy(b, &x, 2); len = 2; }
  else { float x = (float) v; std::memcpy(b, &x, 4); len = 4; }
  if (swap) std::reverse(b, b + len);
  s.append((const char*) b, len);
}

template<typename T> static std::string describe(const Ccp4<T>& m, ll dflt) {
  std::string s = std::to_string(m.grid.nu) + " " + std::to_string(m.grid.nv) + " " + std::to_string(m.grid.nw)
                  + " " + std::to_string((int) m.grid.axis_order) + " H";
  for (int w : {1, 2, 3, 4, 5, 6, 7, 8, 9, 10, 17, 18, 19, 23, 24})
    s += " " + std::to_string(m.header_i32(w));
  s += " D " + std::to_string(m.grid.data.size()) + " " + hash_data(m.grid.data, dflt);
  return s;
}

template<typename T> static T default_of(ll dflt) {
  return dflt == NAN_Z ? (T) NAN : (T) dflt;
}
template<> int8_t default_of<int8_t>(ll dflt) { return (int8_t) dflt; }

// setup T nx ny nz mode sx sy sz mx my mz mapc mapr maps ispg swap smode dflt seed
template<typename T> static std::string do_setup(const std::vector<std::string>& w) {
  FileSpec fs;
  for (int i = 0; i < 3; ++i) {
    fs.n[i] = (int) to_ll(w.at(1 + i));
    fs.start[i] = (int) to_ll(w.at(5 + i));
    fs.samp[i] = (int) to_ll(w.at(8 + i));
    fs.axes[i] = (int) to_ll(w.at(11 + i));
  }
  fs.mode = (int) to_ll(w.at(4));
  fs.ispg = (int) to_ll(w.at(14));
  fs.swap = to_ll(w.at(15)) != 0;
  int smode = (int) to_ll(w.at(16));
  ll dflt = to_ll(w.at(17));
  ll seed = to_ll(w.at(18));
  std::string file = make_header(fs);
  if (kAsan && huge_alloc(file)) return "skip-alloc";
  ll count = (ll) fs.n[0] * fs.n[1] * fs.n[2];
  if (fs.n[0] < 0 || fs.n[1] < 0 || fs.n[2] < 0) count = std::max<ll>(0, std::min<ll>(std::llabs(count), 1 << 20));
  if (count > (1 << 22)) count = 1 << 22;
  for (ll k = 0; k < count; ++k)
    append_value(file, fs.mode, valfn(seed, k), fs.swap);
  Ccp4<T> m;
  m.read_ccp4_from_memory(file.data(), file.size(), "mem");
  m.setup(default_of<T>(dflt), smode == 0 ? MapSetup::Full : smode == 1 ? MapSetup::NoSymmetry : MapSetup::ReorderOnly);
  return describe(m, dflt);
}

// ------------------------------------------------------------------ independent symmetry on a grid
struct Orbits {
  int n[3];
  std::vector<int> orbit_of;          // per point: orbit id
  int n_orbits = 0;
  bool ok = true;                      // false: some operation does not map the grid onto itself
  std::vector<std::array<ll, 12>> ops; // all operations (incl. identity), rot entries in 1/24
};
// image of grid point p under op: exact rational arithmetic, independent of GridOp/index_n
static bool image(const Orbits& o, const std::array<ll, 12>& op, const int p[3], int out[3]) {
  for (int i = 0; i < 3; ++i) {
    // u'_i = n_i * (sum_j R_ij/24 * p_j/n_j + t_i/24)  as  num / (24 * n0*n1*n2)
    ll den = 24LL * o.n[0] * o.n[1] * o.n[2];
    ll num = 0;
    for (int j = 0; j < 3; ++j)
      num += op[3 * i + j] * p[j] * (den / 24 / o.n[j]);
    num += op[9 + i] * (den / 24);
    num *= o.n[i];
    if (num % den != 0) return false;
    ll q = num / den;
    out[i] = (int) (((q % o.n[i]) + o.n[i]) % o.n[i]);
  }
  return true;
}
static Orbits make_orbits(const SpaceGroup* sg, int nu, int nv, int nw) {
  Orbits o;
  o.n[0] = nu; o.n[1] = nv; o.n[2] = nw;
  GroupOps g = sg->operations();
  for (Op op : g) {
    std::array<ll, 12> a;
    for (int i = 0; i < 3; ++i) for (int j = 0; j < 3; ++j) a[3 * i + j] = op.rot[i][j];
    for (int i = 0; i < 3; ++i) a[9 + i] = op.tran[i];
    o.ops.push_back(a);
  }
  size_t total = (size_t) nu * nv * nw;
  o.orbit_of.assign(total, -1);
  std::vector<size_t> stack;
  for (size_t s = 0; s < total; ++s) {
    if (o.orbit_of[s] != -1) continue;
    int id = o.n_orbits++;
    o.orbit_of[s] = id;
    stack.push_back(s);
    while (!stack.empty()) {
      size_t c = stack.back(); stack.pop_back();
      int p[3] = {(int) (c % nu), (int) ((c / nu) % nv), (int) (c / ((size_t) nu * nv))};
      for (const auto& op : o.ops) {
        int q[3];
        if (!image(o, op, p, q)) { o.ok = false; return o; }
        size_t k = ((size_t) q[2] * nv + q[1]) * nu + q[0];
        if (o.orbit_of[k] == -1) { o.orbit_of[k] = id; stack.push_back(k); }
      }
    }
  }
  return o;
}
// a grid that is constant on orbits, values 1..9
static std::vector<int> invariant_values(const Orbits& o, ll seed) {
  std::vector<int> v(o.orbit_of.size());
  for (size_t i = 0; i < v.size(); ++i)
    v[i] = 1 + (int) (((ll) o.orbit_of[i] * 7919 + seed * 31 + (ll) o.orbit_of[i] * o.orbit_of[i]) % 9);
  return v;
}

template<typename T> static std::string check_invariant(const Grid<T>& g, const Orbits& o) {
  std::map<int, double> val;
  for (size_t i = 0; i < g.data.size(); ++i) {
    auto it = val.find(o.orbit_of[i]);
    double d = (double) g.data[i];
    if (it == val.end()) val[o.orbit_of[i]] = d;
    else if (!(it->second == d || (std::isnan(d) && std::isnan(it->second))))
      return "not invariant at index " + std::to_string(i);
  }
  return "";
}

// o_perm T row nu nv nw perm mode swap smode seed s0 s1 s2 e0 e1 e2   (start/extent along X,Y,Z; e=0: cover ASU brick)
template<typename T> static std::string o_perm(const std::vector<std::string>& w) {
  int row = (int) to_ll(w.at(1));
  int n[3] = {(int) to_ll(w.at(2)), (int) to_ll(w.at(3)), (int) to_ll(w.at(4))};
  int perm = (int) to_ll(w.at(5));
  int mode = (int) to_ll(w.at(6));
  bool swap = to_ll(w.at(7)) != 0;
  int smode = (int) to_ll(w.at(8));
  ll seed = to_ll(w.at(9));
  int s[3], e[3];
  for (int i = 0; i < 3; ++i) { s[i] = (int) to_ll(w.at(10 + i)); e[i] = (int) to_ll(w.at(13 + i)); }
  const SpaceGroup* sg = row_sg(row);
  if (find_spacegroup_by_number(sg->ccp4) != sg) return "skip";   // the format stores only the CCP4 number
  try { check_grid_factors(sg, {{n[0], n[1], n[2]}}); } catch (std::exception&) { return "skip"; }
  Orbits orb = make_orbits(sg, n[0], n[1], n[2]);
  if (!orb.ok) return "grid accepted by check_grid_factors is not mapped onto itself by an operation";
  std::vector<int> G = invariant_values(orb, seed);
  // the stored box, along X,Y,Z
  Grid<int8_t> meta;
  meta.spacegroup = sg;
  meta.set_size_without_checking(n[0], n[1], n[2]);
  std::array<int, 3> end = find_asu_brick(sg).uvw_end(meta);
  bool covers_asu = true, covers_cell = true;
  for (int i = 0; i < 3; ++i) {
    if (e[i] <= 0) { e[i] = end[i] - s[i] + (-e[i]); if (s[i] > 0) e[i] = end[i] + (-e[i]); }
    // the box [s, s+e) contains [0, end) ?
    if (!(e[i] >= n[i] || (s[i] <= 0 && s[i] + e[i] >= end[i]))) covers_asu = false;
    if (e[i] < n[i]) covers_cell = false;
  }
  static const int perms[6][3] = {{1,2,3},{1,3,2},{2,1,3},{2,3,1},{3,1,2},{3,2,1}};
  FileSpec fs;
  fs.mode = mode; fs.swap = swap; fs.ispg = sg->ccp4;
  int pos[3];   // pos[axis X/Y/Z] = which of c,r,s
  for (int i = 0; i < 3; ++i) { fs.axes[i] = perms[perm][i]; pos[perms[perm][i] - 1] = i; }
  for (int i = 0; i < 3; ++i) {
    fs.samp[i] = n[i];
    fs.n[pos[i]] = e[i];
    fs.start[pos[i]] = s[i];
  }
  std::string file = make_header(fs);
  auto wrapmod = [](int a, int m) { return ((a % m) + m) % m; };
  for (int k2 = 0; k2 < fs.n[2]; ++k2)
    for (int k1 = 0; k1 < fs.n[1]; ++k1)
      for (int k0 = 0; k0 < fs.n[0]; ++k0) {
        int crs[3] = {fs.start[0] + k0, fs.start[1] + k1, fs.start[2] + k2};
        int x = wrapmod(crs[pos[0]], n[0]), y = wrapmod(crs[pos[1]], n[1]), z = wrapmod(crs[pos[2]], n[2]);
        append_value(file, mode, G[((size_t) z * n[1] + y) * n[0] + x], swap);
      }
  bool mask_from_float = std::is_same<T, int8_t>::value && mode == 2;
  Ccp4<T> m;
  m.read_ccp4_from_memory(file.data(), file.size(), "mem");
  T dflt = std::is_same<T, int8_t>::value ? (T) -1 : (T) NAN;
  m.setup(dflt, smode == 0 ? MapSetup::Full : smode == 1 ? MapSetup::NoSymmetry : MapSetup::ReorderOnly);
  auto expect = [&](int x, int y, int z) -> double {
    int v = G[((size_t) z * n[1] + y) * n[0] + x];
    return mask_from_float ? (v != 0) : v;
  };
  auto same = [](double a, double b) { return a == b || (std::isnan(a) && std::isnan(b)); };
  if (smode == 2) {
    if (m.grid.nu != e[0] || m.grid.nv != e[1] || m.grid.nw != e[2]) return "ReorderOnly: wrong dimensions";
    if (m.header_i32(5) != s[0] || m.header_i32(6) != s[1] || m.header_i32(7) != s[2]) return "ReorderOnly: wrong start";
    if (m.grid.data.size() != (size_t) e[0] * e[1] * e[2]) return "ReorderOnly: wrong data size";
    for (int z = 0; z < e[2]; ++z) for (int y = 0; y < e[1]; ++y) for (int x = 0; x < e[0]; ++x)
      if (!same((double) m.grid.data[((size_t) z * e[1] + y) * e[0] + x],
                expect(wrapmod(s[0] + x, n[0]), wrapmod(s[1] + y, n[1]), wrapmod(s[2] + z, n[2]))))
        return "ReorderOnly: wrong value at " + std::to_string(x) + "," + std::to_string(y) + "," + std::to_string(z);
  } else {
    if (m.grid.nu != n[0] || m.grid.nv != n[1] || m.grid.nw != n[2]) return "wrong dimensions";
    if (m.grid.data.size() != (size_t) n[0] * n[1] * n[2]) return "wrong data size";
    if (m.grid.axis_order != AxisOrder::XYZ) return "axis order not XYZ after setup";
    for (int wd : {5, 6, 7}) if (m.header_i32(wd) != 0) return "start not zero after setup";
    std::vector<char> inbox((size_t) n[0] * n[1] * n[2], 0);
    for (int z = 0; z < e[2]; ++z) for (int y = 0; y < e[1]; ++y) for (int x = 0; x < e[0]; ++x)
      inbox[((size_t) wrapmod(s[2] + z, n[2]) * n[1] + wrapmod(s[1] + y, n[1])) * n[0] + wrapmod(s[0] + x, n[0])] = 1;
    bool full_expected = covers_cell || (smode == 0 && covers_asu);
    for (int z = 0; z < n[2]; ++z) for (int y = 0; y < n[1]; ++y) for (int x = 0; x < n[0]; ++x) {
      size_t idx = ((size_t) z * n[1] + y) * n[0] + x;
      double got = (double) m.grid.data[idx];
      if (inbox[idx] || full_expected) {
        if (!same(got, expect(x, y, z)))
          return "wrong value at " + std::to_string(x) + "," + std::to_string(y) + "," + std::to_string(z) +
                 " got " + std::to_string(got) + " expected " + std::to_string(expect(x, y, z));
      } else if (smode == 1 && !same(got, (double) dflt)) {
        return "NoSymmetry: value outside the stored box is not the default";
      }
    }
    if (full_expected) {
      std::string r = check_invariant(m.grid, orb);
      if (!r.empty()) return r;
    }
  }
  for (int i = 0; i < 3; ++i) if (m.header_i32(17 + i) != i + 1) return "MAPC/MAPR/MAPS not 1,2,3 after setup";
  if (m.header_i32(1) != m.grid.nu || m.header_i32(2) != m.grid.nv || m.header_i32(3) != m.grid.nw)
    return "NX/NY/NZ differ from the grid";
  return "ok";
}

static std::string swap_file_byte_order(const std::string& in, int mode) {
  std::string s = in;
  size_t nsymbt;
  { int32_t v; std::memcpy(&v, &s[4 * 23], 4); nsymbt = (size_t) v; }
  for (size_t wd = 1; wd <= 256; ++wd) {
    if (wd == 53 || wd == 54 || wd >= 57) continue;   // character data
    if (wd == 27) continue;                           // EXTTYP
    std::reverse(s.begin() + 4 * (wd - 1), s.begin() + 4 * wd);
  }
  bool le = is_little_endian();
  s[4 * 53] = le ? 0x11 : 0x44; s[4 * 53 + 1] = le ? 0x11 : 0x41;
  size_t off = 1024 + nsymbt;
  size_t len = (mode == 0 ? 1 : mode == 2 ? 4 : 2);
  for (size_t p = off; p + len <= s.size(); p += len)
    std::reverse(s.begin() + p, s.begin() + p + len);
  return s;
}
static std::string slurp(const std::string& path) {
  fileptr_t f = file_open(path.c_str(), "rb");
  std::string s;
  char buf[65536];
  size_t n;
  while ((n = std::fread(buf, 1, sizeof buf, f.get())) > 0) s.append(buf, n);
  return s;
}
static std::string tmp_path(const char* suffix) {
  static int counter = 0;
  return "/tmp/gv_map_" + std::to_string((long) getpid()) + "_" + std::to_string(counter++) + suffix;
}

template<typename T> static std::string same_map(const Ccp4<T>& a, const Ccp4<T>& b, bool stats) {
  if (a.grid.nu != b.grid.nu || a.grid.nv != b.grid.nv || a.grid.nw != b.grid.nw) return "dimensions differ";
  if (a.grid.data.size() != b.grid.data.size()) return "data size differs";
  for (size_t i = 0; i < a.grid.data.size(); ++i)
    if (std::memcmp(&a.grid.data[i], &b.grid.data[i], sizeof(T)) != 0)
      return "voxel " + std::to_string(i) + " differs: " + std::to_string((double) a.grid.data[i]) + " vs " +
             std::to_string((double) b.grid.data[i]);
  if (a.grid.spacegroup != b.grid.spacegroup) return "space group differs";
  const UnitCell& ca = a.grid.unit_cell; const UnitCell& cb = b.grid.unit_cell;
  if (ca.a != cb.a || ca.b != cb.b || ca.c != cb.c || ca.alpha != cb.alpha || ca.beta != cb.beta || ca.gamma != cb.gamma)
    return "cell differs";
  if (a.grid.axis_order != b.grid.axis_order) return "axis order differs";
  if (stats) {
    auto feq = [](double x, double y) { return (float) x == (float) y || (std::isnan(x) && std::isnan(y)); };
    if (!feq(a.hstats.dmin, b.hstats.dmin) || !feq(a.hstats.dmax, b.hstats.dmax) ||
        !feq(a.hstats.dmean, b.hstats.dmean) || !feq(a.hstats.rms, b.hstats.rms))
      return "statistics differ";
  }
  return "";
}

// o_wr T row nu nv nw mode seed : write -> read identity, file and memory, both byte orders
// o_zyx nu nv nw seed mode : a grid held in the ZYX axis order (the fast index runs along Z, as the FFT routines can
// produce it), header made from scratch, written, read back and set up: the full-cell XYZ grid must hold, at every
// (x,y,z), the value the ZYX grid held at its index (z,y,x); the sampling is (nw,nv,nu) along X,Y,Z.
static std::string o_zyx(const std::vector<std::string>& w) {
  int n[3] = {(int) to_ll(w.at(0)), (int) to_ll(w.at(1)), (int) to_ll(w.at(2))};
  ll seed = to_ll(w.at(3));
  int mode = (int) to_ll(w.at(4));
  Ccp4<float> m;
  m.grid.spacegroup = find_spacegroup_by_number(1);
  m.grid.unit_cell.set(20.5, 31.25, 42.125, 80.5, 101.5, 95.25);
  m.grid.set_size_without_checking(n[0], n[1], n[2]);
  m.grid.axis_order = AxisOrder::ZYX;
  for (size_t k = 0; k < m.grid.data.size(); ++k) m.grid.data[k] = (float) valfn(seed, (ll) k);
  m.update_ccp4_header(mode, true);
  std::string path = tmp_path(".ccp4");
  m.write_ccp4_map(path);
  Ccp4<float> r;
  try {
    r.read_ccp4_file(path);
    std::remove(path.c_str());
    r.setup(NAN, MapSetup::Full);
  } catch (std::exception& e) {
    std::remove(path.c_str());
    return std::string("ZYX map written by gemmi cannot be read / set up: ") + e.what();
  }
  if (r.grid.axis_order != AxisOrder::XYZ) return "axis order not XYZ after setup";
  if (r.grid.nu != n[2] || r.grid.nv != n[1] || r.grid.nw != n[0])
    return "sampling after setup is " + std::to_string(r.grid.nu) + "x" + std::to_string(r.grid.nv) + "x" + std::to_string(r.grid.nw) +
           ", expected " + std::to_string(n[2]) + "x" + std::to_string(n[1]) + "x" + std::to_string(n[0]);
  for (int x = 0; x < n[2]; ++x)
    for (int y = 0; y < n[1]; ++y)
      for (int z = 0; z < n[0]; ++z) {
        float want = m.grid.data[((size_t) x * n[1] + y) * n[0] + z];    // index_q(u=z, v=y, w=x)
        float got = r.grid.get_value(x, y, z);
        if (!(got == want))
          return "value at x,y,z=" + std::to_string(x) + "," + std::to_string(y) + "," + std::to_string(z) + " is " +
                 std::to_string(got) + ", the ZYX grid held " + std::to_string(want);
      }
  return "ok";
}

template<typename T> static std::string o_wr(const std::vector<std::string>& w) {
  int row = (int) to_ll(w.at(1));
  int n[3] = {(int) to_ll(w.at(2)), (int) to_ll(w.at(3)), (int) to_ll(w.at(4))};
  int mode = (int) to_ll(w.at(5));
  ll seed = to_ll(w.at(6));
  Ccp4<T> m;
  if (row_sg(row) && find_spacegroup_by_number(row_sg(row)->ccp4) != row_sg(row)) return "skip";
  m.grid.spacegroup = row_sg(row);
  m.grid.unit_cell.set(20.5, 31.25, 42.125, 90, row_sg(row) && row_sg(row)->number < 16 && row_sg(row)->number > 2 ? 101.5 : 90, 90);
  if (row_sg(row) && row_sg(row)->number <= 2) m.grid.unit_cell.set(20.5, 31.25, 42.125, 80.5, 101.5, 95.25);
  if (row_sg(row) && row_sg(row)->number >= 143 && row_sg(row)->number <= 194) m.grid.unit_cell.set(20.5, 20.5, 42.125, 90, 90, 120);
  m.grid.set_size_without_checking(n[0], n[1], n[2]);
  ll lo = 1e18, hi = -1e18; long double sum = 0, sq = 0;
  for (size_t k = 0; k < m.grid.data.size(); ++k) {
    int v = (mode == 6 || std::is_same<T, int8_t>::value) ? valfn(seed, (ll) k) : valfn2(seed, (ll) k);
    m.grid.data[k] = (T) v;
    lo = std::min<ll>(lo, v); hi = std::max<ll>(hi, v); sum += v; sq += (long double) v * v;
  }
  m.update_ccp4_header(mode, true);
  // header statistics against exact values
  size_t N = m.grid.data.size();
  if (m.header_float(20) != (float) lo || m.header_float(21) != (float) hi) return "DMIN/DMAX in header are not the extreme values";
  long double mean = sum / N, rms = sqrtl(sq / N - mean * mean);
  if (std::fabs(m.header_float(22) - (double) mean) > 1e-5 * (1 + std::fabs((double) mean))) return "DMEAN in header is wrong";
  if (std::fabs(m.header_float(55) - (double) rms) > 1e-4 * (1 + (double) rms)) return "RMS in header is wrong";
  if (m.header_i32(4) != mode) return "MODE in header is wrong";
  std::string path = tmp_path(".ccp4");
  m.write_ccp4_map(path);
  std::string bytes = slurp(path);
  Ccp4<T> r1;
  r1.read_ccp4_file(path);
  std::remove(path.c_str());
  std::string d = same_map(m, r1, true);
  if (!d.empty()) return "file read-back: " + d;
  Ccp4<T> r2;
  r2.read_ccp4_from_memory(bytes.data(), bytes.size(), "mem");
  d = same_map(m, r2, true);
  if (!d.empty()) return "memory read-back: " + d;
  size_t esz = mode == 0 ? 1 : mode == 2 ? 4 : 2;
  if (bytes.size() != 4 * m.ccp4_header.size() + esz * N) return "file length is not header + data";
  // the same file in the other byte order
  std::string sw = swap_file_byte_order(bytes, mode);
  Ccp4<T> r3;
  r3.read_ccp4_from_memory(sw.data(), sw.size(), "mem-swapped");
  d = same_map(m, r3, true);
  if (!d.empty()) return "other byte order: " + d;
  // write what was read from the other byte order, read again
  std::string path2 = tmp_path(".ccp4");
  r3.write_ccp4_map(path2);
  Ccp4<T> r4;
  try { r4.read_ccp4_file(path2); } catch (std::exception& e) { std::remove(path2.c_str()); return std::string("re-written other-byte-order map unreadable: ") + e.what(); }
  std::remove(path2.c_str());
  d = same_map(m, r4, true);
  if (!d.empty()) return "re-written other-byte-order map: " + d;
  // a second update of the header must not change the bytes
  Ccp4<T> r5 = r2;
  r5.update_ccp4_header(mode, true);
  if (r5.ccp4_header != r2.ccp4_header) return "update_ccp4_header after read changes the header";
  return "ok";
}

// o_extent row nu nv nw seed x0 y0 z0 x1 y1 z1 (box corners in 1/1000 of the cell; 9999 for the corners = ASU brick)
// Ccp4::set_extent on a symmetric full-cell map: the stored box is the requested sub-array (periodic), and the file
// written from it expands back under setup(Full) to the map it was cut from when the box covers the ASU.
static std::string o_extent(const std::vector<std::string>& w) {
  int row = (int) to_ll(w.at(0));
  int n[3] = {(int) to_ll(w.at(1)), (int) to_ll(w.at(2)), (int) to_ll(w.at(3))};
  ll seed = to_ll(w.at(4));
  const SpaceGroup* sg = row_sg(row);
  if (find_spacegroup_by_number(sg->ccp4) != sg) return "skip";
  try { check_grid_factors(sg, {{n[0], n[1], n[2]}}); } catch (std::exception&) { return "skip"; }
  Orbits orb = make_orbits(sg, n[0], n[1], n[2]);
  if (!orb.ok) return "grid accepted by check_grid_factors is not mapped onto itself by an operation";
  std::vector<int> G = invariant_values(orb, seed);
  Ccp4<float> m;
  m.grid.spacegroup = sg;
  m.grid.unit_cell.set(20.5, 31.25, 42.125, 90, 90, 90);
  m.grid.set_size_without_checking(n[0], n[1], n[2]);
  m.grid.axis_order = AxisOrder::XYZ;
  for (size_t k = 0; k < G.size(); ++k) m.grid.data[k] = (float) G[k];
  m.update_ccp4_header(2, true);
  Box<Fractional> box;
  bool asu_box = to_ll(w.at(5)) == 9999;
  if (asu_box) {
    box = find_asu_brick(sg).get_extent();
  } else {
    box.minimum = Fractional(to_ll(w.at(5)) / 1000.0, to_ll(w.at(6)) / 1000.0, to_ll(w.at(7)) / 1000.0);
    box.maximum = Fractional(to_ll(w.at(8)) / 1000.0, to_ll(w.at(9)) / 1000.0, to_ll(w.at(10)) / 1000.0);
  }
  double lo[3] = {box.minimum.x, box.minimum.y, box.minimum.z}, hi[3] = {box.maximum.x, box.maximum.y, box.maximum.z};
  int s[3], e[3];
  for (int i = 0; i < 3; ++i) {
    s[i] = (int) std::ceil(lo[i] * n[i]);
    e[i] = (int) std::floor(hi[i] * n[i]) - s[i] + 1;
    if (e[i] <= 0) return "skip";   // the box holds no grid plane along this axis: outside the property
  }
  m.set_extent(box);
  if (m.grid.nu != e[0] || m.grid.nv != e[1] || m.grid.nw != e[2]) return "set_extent: wrong dimensions";
  if (m.header_i32(1) != e[0] || m.header_i32(2) != e[1] || m.header_i32(3) != e[2]) return "set_extent: NX,NY,NZ not updated";
  if (m.header_i32(5) != s[0] || m.header_i32(6) != s[1] || m.header_i32(7) != s[2]) return "set_extent: wrong start words";
  if (m.header_i32(8) != n[0] || m.header_i32(9) != n[1] || m.header_i32(10) != n[2]) return "set_extent: sampling changed";
  if (m.grid.data.size() != (size_t) e[0] * e[1] * e[2]) return "set_extent: wrong data size";
  auto wrapmod = [](int a, int mm) { return ((a % mm) + mm) % mm; };
  // every grid point inside the box is kept, with its value; points inside: lo <= x/n <= hi
  for (int z = 0; z < e[2]; ++z) for (int y = 0; y < e[1]; ++y) for (int x = 0; x < e[0]; ++x) {
    int X = wrapmod(s[0] + x, n[0]), Y = wrapmod(s[1] + y, n[1]), Z = wrapmod(s[2] + z, n[2]);
    if (m.grid.data[((size_t) z * e[1] + y) * e[0] + x] != (float) G[((size_t) Z * n[1] + Y) * n[0] + X])
      return "set_extent: wrong value at " + std::to_string(x) + "," + std::to_string(y) + "," + std::to_string(z);
  }
  for (int i = 0; i < 3; ++i) {
    if (!(s[i] >= lo[i] * n[i] - 1e-9 && s[i] - 1 < lo[i] * n[i])) return "set_extent: first plane is not the first one inside the box";
    if (!(s[i] + e[i] - 1 <= hi[i] * n[i] + 1e-9 && s[i] + e[i] > hi[i] * n[i])) return "set_extent: last plane is not the last one inside the box";
  }
  // write, read back, expand
  std::string path = tmp_path(".ccp4");
  m.write_ccp4_map(path);
  Ccp4<float> r;
  r.read_ccp4_file(path);
  std::remove(path.c_str());
  if (r.grid.data != m.grid.data) return "box map: data changed by write/read";
  bool covers = true;
  {
    Grid<int8_t> meta; meta.spacegroup = sg; meta.set_size_without_checking(n[0], n[1], n[2]);
    std::array<int, 3> end = find_asu_brick(sg).uvw_end(meta);
    for (int i = 0; i < 3; ++i)
      if (!(e[i] >= n[i] || (s[i] <= 0 && s[i] + e[i] >= end[i]))) covers = false;
  }
  if (asu_box && !covers) return "extent of the ASU brick does not cover the brick's grid points";
  r.setup(NAN, MapSetup::Full);
  if (r.grid.nu != n[0] || r.grid.nv != n[1] || r.grid.nw != n[2]) return "expanded box map: wrong dimensions";
  if (covers)
    for (size_t k = 0; k < G.size(); ++k)
      if (r.grid.data[k] != (float) G[k]) return "expanded box map differs from the original at point " + std::to_string(k);
  return "ok";
}

// o_asu row nu nv nw : the mask has exactly one 0 per orbit, everything else 1
static std::string o_asu(const std::vector<std::string>& w) {
  int row = (int) to_ll(w.at(0));
  int n[3] = {(int) to_ll(w.at(1)), (int) to_ll(w.at(2)), (int) to_ll(w.at(3))};
  const SpaceGroup* sg = row_sg(row);
  try { check_grid_factors(sg, {{n[0], n[1], n[2]}}); } catch (std::exception&) { return "skip"; }
  Orbits orb = make_orbits(sg, n[0], n[1], n[2]);
  if (!orb.ok) return "grid accepted by check_grid_factors is not mapped onto itself by an operation";
  Grid<float> g;
  g.spacegroup = sg;
  g.set_size_without_checking(n[0], n[1], n[2]);
  std::vector<int8_t> mask = get_asu_mask(g);
  if (mask.size() != g.data.size()) return "mask size";
  std::vector<int> zeros(orb.n_orbits, 0);
  for (size_t i = 0; i < mask.size(); ++i) {
    if (mask[i] == 0) zeros[orb.orbit_of[i]]++;
    else if (mask[i] != 1) return "mask value other than 0/1";
  }
  for (int k = 0; k < orb.n_orbits; ++k)
    if (zeros[k] != 1) return "orbit " + std::to_string(k) + " has " + std::to_string(zeros[k]) + " points marked 0";
  return "ok";
}

// o_symm which row nu nv nw seed : invariance, idempotence and the value of each symmetrize_*
static std::string o_symm(const std::vector<std::string>& w) {
  int which = (int) to_ll(w.at(0));
  int row = (int) to_ll(w.at(1));
  int n[3] = {(int) to_ll(w.at(2)), (int) to_ll(w.at(3)), (int) to_ll(w.at(4))};
  ll seed = to_ll(w.at(5));
  const SpaceGroup* sg = row_sg(row);
  try { check_grid_factors(sg, {{n[0], n[1], n[2]}}); } catch (std::exception&) { return "skip"; }
  Orbits orb = make_orbits(sg, n[0], n[1], n[2]);
  if (!orb.ok) return "grid accepted by check_grid_factors is not mapped onto itself by an operation";
  int n_ops = (int) orb.ops.size();
  Grid<float> g;
  g.spacegroup = sg;
  g.set_size_without_checking(n[0], n[1], n[2]);
  const float dflt = -7;
  for (size_t k = 0; k < g.data.size(); ++k) {
    int v = valfn2(seed, (ll) k);
    if (which == 5) v *= n_ops;                    // keeps the average exact
    if (which == 4 && (k * 2654435761u + seed) % 3 != 0) v = (int) dflt;
    g.data[k] = (float) v;
  }
  std::vector<float> orig = g.data;
  auto apply = [&](Grid<float>& gr) {
    switch (which) {
      case 0: gr.symmetrize_min(); break;
      case 1: gr.symmetrize_max(); break;
      case 2: gr.symmetrize_abs_max(); break;
      case 3: gr.symmetrize_sum(); break;
      case 4: gr.symmetrize_nondefault(dflt); break;
      case 5: gr.symmetrize_avg(); break;
    }
  };
  apply(g);
  std::string r = check_invariant(g, orb);
  if (!r.empty()) return r;
  // expected value per orbit, from the original data
  std::vector<std::vector<float>> members(orb.n_orbits);
  std::vector<int> first(orb.n_orbits, -1);
  for (size_t i = 0; i < orig.size(); ++i) {
    members[orb.orbit_of[i]].push_back(orig[i]);
    if (first[orb.orbit_of[i]] < 0) first[orb.orbit_of[i]] = (int) i;
  }
  for (int k = 0; k < orb.n_orbits; ++k) {
    const std::vector<float>& mem = members[k];
    float got = g.data[first[k]];
    float mn = *std::min_element(mem.begin(), mem.end()), mx = *std::max_element(mem.begin(), mem.end());
    double sum = 0; for (float x : mem) sum += x;
    double stab = (double) n_ops / mem.size();      // every orbit point is the image under n_ops/|orbit| operations
    bool ok = true;
    if (which == 0) ok = got == mn;
    else if (which == 1) ok = got == mx;
    else if (which == 2) ok = std::fabs(got) == std::max(std::fabs(mn), std::fabs(mx)) && std::find(mem.begin(), mem.end(), got) != mem.end();
    else if (which == 3) ok = got == (float) (sum * stab);
    else if (which == 5) ok = got == (float) (sum * stab / n_ops);
    else if (which == 4) {
      bool any = false; for (float x : mem) if (x != dflt) any = true;
      ok = any ? (got != dflt && std::find(mem.begin(), mem.end(), got) != mem.end()) : got == dflt;
    }
    if (!ok) return "orbit of index " + std::to_string(first[k]) + ": unexpected value " + std::to_string(got);
  }
  if (which != 3) {
    std::vector<float> once = g.data;
    apply(g);
    if (g.data != once) return "not idempotent";
  }
  return "ok";
}


// ------------------------------------------------------------------ C03: safety of the readers
static void on_alarm(int) {
  static const char msg[] = "ALARM: time limit for one case exceeded (non-termination?)\n";
  (void) !write(2, msg, sizeof msg - 1);
  _exit(14);
}
static void write_file(const std::string& path, const std::string& bytes) {
  fileptr_t f = file_open(path.c_str(), "wb");
  if (!bytes.empty() && std::fwrite(bytes.data(), bytes.size(), 1, f.get()) != 1) fail("write failed");
}
// would the reader/set-up allocate more than ASan's allocator can give? (then only the non-ASan build runs the case)
static bool huge_alloc(const std::string& file) {
  if (file.size() < 1024) return false;
  bool swap = ((unsigned char) file[4 * 53] == (is_little_endian() ? 0x11 : 0x44));
  auto word = [&](int w) { uint32_t v; std::memcpy(&v, &file[4 * (w - 1)], 4);
                           if (swap) v = __builtin_bswap32(v); return (long long) (int32_t) v; };
  unsigned long long a = (unsigned long long) word(1) * (unsigned long long) word(2) * (unsigned long long) word(3);
  unsigned long long b = (unsigned long long) word(8) * (unsigned long long) word(9) * (unsigned long long) word(10);
  return a > (1ull << 27) || b > (1ull << 27);
}
// a point count that the 2 GiB address-space limit may still admit: a legitimate but very long computation
// (e.g. the symmetry expansion of a 2^30-voxel cell), not run by the randomised oracle
static bool long_running(const std::string& file) {
  if (file.size() < 1024) return false;
  bool swap = ((unsigned char) file[4 * 53] == (is_little_endian() ? 0x11 : 0x44));
  auto word = [&](int w) { uint32_t v; std::memcpy(&v, &file[4 * (w - 1)], 4);
                           if (swap) v = __builtin_bswap32(v); return (long long) (int32_t) v; };
  unsigned long long a = (unsigned long long) word(1) * (unsigned long long) word(2) * (unsigned long long) word(3);
  unsigned long long b = (unsigned long long) word(8) * (unsigned long long) word(9) * (unsigned long long) word(10);
  auto mid = [](unsigned long long x) { return x > (1ull << 27) && x <= (1ull << 31); };
  return mid(a) || mid(b);
}
template<typename T> static std::string read_and_setup(const std::string& file, int smode, int via, ll dflt) {
  Ccp4<T> m;
  if (via == 0) {
    m.read_ccp4_from_memory(file.data(), file.size(), "mem");
  } else {
    std::string path = tmp_path(via == 2 ? ".ccp4.gz" : ".ccp4");
    if (via == 2) {
      gzFile g = gzopen(path.c_str(), "wb");
      if (!file.empty()) gzwrite(g, file.data(), (unsigned) file.size());
      gzclose(g);
    } else {
      write_file(path, file);
    }
    try { m.read_ccp4(MaybeGzipped(path)); } catch (...) { std::remove(path.c_str()); throw; }
    std::remove(path.c_str());
  }
  m.setup(default_of<T>(dflt), smode == 0 ? MapSetup::Full : smode == 1 ? MapSetup::NoSymmetry : MapSetup::ReorderOnly);
  return describe(m, dflt);
}
static std::string valid_file(int mode, bool swap, int ispg, int perm, ll seed) {
  static const int perms[6][3] = {{1,2,3},{1,3,2},{2,1,3},{2,3,1},{3,1,2},{3,2,1}};
  FileSpec fs;
  int n[3] = {4, 6, 2};
  int pos[3];
  for (int i = 0; i < 3; ++i) { fs.axes[i] = perms[perm][i]; pos[perms[perm][i] - 1] = i; }
  for (int i = 0; i < 3; ++i) { fs.samp[i] = n[i]; fs.n[pos[i]] = n[i] - (i == 0 ? 1 : 0); fs.start[pos[i]] = i; }
  fs.mode = mode; fs.swap = swap; fs.ispg = ispg; fs.nsymbt = 80;
  std::string file = make_header(fs);
  file.append(80, ' ');
  for (ll k = 0; k < (ll) fs.n[0] * fs.n[1] * fs.n[2]; ++k) append_value(file, mode, valfn(seed, k), swap);
  return file;
}
// o_trunc T mode swap ispg perm via : every prefix of a valid file, every set-up mode: value or exception
template<typename T> static std::string o_trunc(const std::vector<std::string>& w) {
  std::string file = valid_file((int) to_ll(w.at(1)), to_ll(w.at(2)) != 0, (int) to_ll(w.at(3)), (int) to_ll(w.at(4)), 5);
  int via = (int) to_ll(w.at(5));
  size_t step = via == 0 ? 1 : 37;
  int n_ok = 0;
  std::vector<size_t> cuts;
  for (size_t cut = 0; cut < file.size(); cut += step) cuts.push_back(cut);
  cuts.push_back(file.size());
  for (size_t cut : cuts)
    for (int smode = 0; smode < 3; ++smode) {
      hv::cpu_alarm(120);
      try { read_and_setup<T>(file.substr(0, cut), smode, via, std::is_same<T, float>::value ? NAN_Z : -1); ++n_ok; }
      catch (std::exception&) {}
      hv::cpu_alarm(0);
    }
  if (n_ok < 1) return "the complete file was not readable";
  return "ok";
}
// o_fuzz T mode swap via seed count : random corruption of header words of a valid file
template<typename T> static std::string o_fuzz(const std::vector<std::string>& w) {
  int mode = (int) to_ll(w.at(1)); bool swap = to_ll(w.at(2)) != 0; int via = (int) to_ll(w.at(3));
  unsigned long long st = (unsigned long long) to_ll(w.at(4)) * 6364136223846793005ULL + 1442695040888963407ULL;
  auto rnd = [&]() { st = st * 6364136223846793005ULL + 1442695040888963407ULL; return (unsigned) (st >> 33); };
  int count = (int) to_ll(w.at(5));
  static const int words[] = {1, 2, 3, 4, 5, 6, 7, 8, 9, 10, 17, 18, 19, 23, 24, 54};
  static const long long vals[] = {0, 1, -1, 2, 3, 4, 7, -2, -4, 80, 84, 160, 1000, 65536, 4000000, 4000004, -80,
                                   2147483647LL, -2147483648LL, 2147483646LL, -2147483647LL, 1073741824LL, 46341, 1291};
  for (int t = 0; t < count; ++t) {
    std::string file = valid_file(mode, swap, (rnd() % 3 == 0) ? 75 : (rnd() % 2 ? 19 : 1), rnd() % 6, t);
    int nmut = 1 + rnd() % 3;
    for (int k = 0; k < nmut; ++k) {
      int wd = words[rnd() % (sizeof words / sizeof words[0])];
      long long v = vals[rnd() % (sizeof vals / sizeof vals[0])];
      if (rnd() % 4 == 0) { uint32_t cur; std::memcpy(&cur, &file[4 * (wd - 1)], 4); if (swap) cur = __builtin_bswap32(cur);
                            long long c = (int32_t) cur; v = (rnd() % 3 == 0) ? c * 2 : (rnd() % 2 ? c + 1 : c - 1); }
      if (wd == 54) file[4 * 53 + (rnd() % 2)] = (char) rnd();
      else put32(file, wd, (uint32_t) v, swap);
    }
    if (rnd() % 5 == 0) file.resize(rnd() % (file.size() + 1));
    if ((kAsan && huge_alloc(file)) || long_running(file)) continue;
    for (int smode = 0; smode < 3; ++smode) {
      hv::cpu_alarm(120);
      try { read_and_setup<T>(file, smode, via, std::is_same<T, float>::value ? NAN_Z : -1); }
      catch (std::exception&) {}
      hv::cpu_alarm(0);
    }
  }
  return "ok";
}

// mstream size op op ... : r<len> s<n> g<size> c t   buffer byte i is '\n' iff i % 7 == 6
static std::string mstream(const std::vector<std::string>& w) {
  size_t size = (size_t) to_ll(w.at(0));
  std::vector<char> buf(size + 1, 'a');
  for (size_t i = 0; i < size; ++i) if (i % 7 == 6) buf[i] = '\n';
  // the stream sees exactly `size` bytes placed at the END of an allocation: reads past the end are caught
  std::vector<char> exact(buf.begin(), buf.begin() + size);
  exact.reserve(1);   // a non-null pointer also for the empty buffer
  MemoryStream ms(exact.data(), exact.size());
  std::string out;
  for (size_t i = 1; i < w.size(); ++i) {
    char op = w[i][0];
    ll arg = w[i].size() > 1 ? to_ll(w[i].substr(1)) : 0;
    ll ret = 0;
    if (op == 'r') { std::vector<char> dst((size_t) std::min<ll>(arg, 1 << 22) + 1); ret = ms.read(dst.data(), (size_t) arg); }
    else if (op == 's') ret = ms.skip((size_t) arg);
    else if (op == 'g') { std::vector<char> dst((size_t) arg + 1); ret = ms.gets(dst.data(), (int) arg) != nullptr; }
    else if (op == 'c') { int c = ms.getc(); ret = c == EOF ? -1 : 1; }
    else if (op == 't') { std::string rest = ms.read_rest(); ret = 1; }
    out += (out.empty() ? "" : " ") + std::to_string(ms.tell()) + ":" + std::to_string(ret);
  }
  return out;
}

// gz isize total gzsize hex : uncompress_into_buffer on the given .gz bytes
static std::string gz_cmd(const std::vector<std::string>& w, bool want_hash) {
  std::string bytes = hv::hex_decode(w.at(3));
  std::string path = tmp_path(".gz");
  write_file(path, bytes);
  std::string res;
  hv::cpu_alarm(60);
  try {
    MaybeGzipped in(path);
    CharArray a = in.uncompress_into_buffer();
    res = "OK " + std::to_string(a.size());
    if (want_hash) {
      ll h = 0;
      for (size_t i = 0; i < a.size(); ++i) h = (h * 31 + (unsigned char) a.data()[i]) % HMOD;
      res += " " + std::to_string(h);
    }
  } catch (std::exception&) { res = "EXC"; }
  hv::cpu_alarm(0);
  std::remove(path.c_str());
  return res;
}

// ------------------------------------------------------------------ dispatcher
static std::string handle(const std::string& cmd, const std::string& args) {
  std::vector<std::string> w = words(args);
  if (cmd == "modulo") return std::to_string(modulo((int) to_ll(w.at(0)), (int) to_ll(w.at(1))));
  if (cmd == "idx") {
    Grid<int8_t> g;
    g.set_size_without_checking((int) to_ll(w.at(0)), (int) to_ll(w.at(1)), (int) to_ll(w.at(2)));
    int u = (int) to_ll(w.at(3)), v = (int) to_ll(w.at(4)), x = (int) to_ll(w.at(5));
    return std::to_string(g.index_n(u, v, x)) + " " + std::to_string(g.index_s(u, v, x));
  }
  if (cmd == "gridfac") {
    GroupOps g = row_sg((int) to_ll(w.at(0)))->operations();
    auto f = g.find_grid_factors();
    return std::to_string(f[0]) + " " + std::to_string(f[1]) + " " + std::to_string(f[2]) + " " +
           std::to_string((int) g.are_directions_symmetry_related(1, 0)) + " " +
           std::to_string((int) g.are_directions_symmetry_related(2, 0)) + " " +
           std::to_string((int) g.are_directions_symmetry_related(2, 1));
  }
  if (cmd == "chkfac") {
    try { check_grid_factors(row_sg((int) to_ll(w.at(0))), {{(int) to_ll(w.at(1)), (int) to_ll(w.at(2)), (int) to_ll(w.at(3))}}); }
    catch (std::exception&) { return "0"; }
    return "1";
  }
  if (cmd == "sops") {
    Grid<int8_t> g;
    g.spacegroup = row_sg((int) to_ll(w.at(0)));
    g.set_size_without_checking((int) to_ll(w.at(1)), (int) to_ll(w.at(2)), (int) to_ll(w.at(3)));
    std::string s;
    auto ops = g.get_scaled_ops_except_id();
    s = std::to_string(ops.size());
    for (const GridOp& o : ops) {
      for (int i = 0; i < 3; ++i) for (int j = 0; j < 3; ++j) s += " " + std::to_string(o.scaled_op.rot[i][j]);
      for (int i = 0; i < 3; ++i) s += " " + std::to_string(o.scaled_op.tran[i]);
    }
    return s;
  }
  if (cmd == "bend") {         // a b c nu nv nw: AsuBrick(a, b, c).uvw_end(grid nu x nv x nw), model Map/BrickEnd.v
    GridMeta g;      // dimensions only: no data is allocated
    g.nu = (int) to_ll(w.at(3)); g.nv = (int) to_ll(w.at(4)); g.nw = (int) to_ll(w.at(5));
    g.axis_order = AxisOrder::XYZ;
    auto e = AsuBrick((int) to_ll(w.at(0)), (int) to_ll(w.at(1)), (int) to_ll(w.at(2))).uvw_end(g);
    return std::to_string(e[0]) + " " + std::to_string(e[1]) + " " + std::to_string(e[2]);
  }
  if (cmd == "brick") {
    Grid<int8_t> g;
    g.spacegroup = row_sg((int) to_ll(w.at(0)));
    g.set_size_without_checking((int) to_ll(w.at(1)), (int) to_ll(w.at(2)), (int) to_ll(w.at(3)));
    auto e = find_asu_brick(g.spacegroup).uvw_end(g);
    return std::to_string(e[0]) + " " + std::to_string(e[1]) + " " + std::to_string(e[2]);
  }
  if (cmd == "asumask") {
    Grid<float> g;
    g.spacegroup = row_sg((int) to_ll(w.at(0)));
    g.set_size_without_checking((int) to_ll(w.at(1)), (int) to_ll(w.at(2)), (int) to_ll(w.at(3)));
    auto e = find_asu_brick(g.spacegroup).uvw_end(g);
    if (e[0] != to_ll(w.at(4)) || e[1] != to_ll(w.at(5)) || e[2] != to_ll(w.at(6)))
      return "END " + std::to_string(e[0]) + " " + std::to_string(e[1]) + " " + std::to_string(e[2]);
    std::vector<int8_t> mask = get_asu_mask(g);
    return hash_data(mask, 0);
  }
  if (cmd == "symm") {
    int which = (int) to_ll(w.at(0));
    Grid<float> g;
    g.spacegroup = row_sg((int) to_ll(w.at(1)));
    g.set_size_without_checking((int) to_ll(w.at(2)), (int) to_ll(w.at(3)), (int) to_ll(w.at(4)));
    ll seed = to_ll(w.at(5)), dflt = to_ll(w.at(6));
    for (size_t k = 0; k < g.data.size(); ++k) g.data[k] = (float) valfn2(seed, (ll) k);
    switch (which) {
      case 0: g.symmetrize_min(); break;
      case 1: g.symmetrize_max(); break;
      case 2: g.symmetrize_abs_max(); break;
      case 3: g.symmetrize_sum(); break;
      default: g.symmetrize_nondefault((float) dflt); break;
    }
    return hash_data(g.data, dflt);
  }
  if (cmd == "hdrw") {   // hdrw row nu nv nw mode
    Ccp4<float> m;
    m.grid.spacegroup = row_sg((int) to_ll(w.at(0)));
    m.grid.unit_cell.set(20, 30, 40, 90, 90, 90);
    m.grid.set_size_without_checking((int) to_ll(w.at(1)), (int) to_ll(w.at(2)), (int) to_ll(w.at(3)));
    for (size_t k = 0; k < m.grid.data.size(); ++k) m.grid.data[k] = (float) valfn(1, (ll) k);
    m.update_ccp4_header((int) to_ll(w.at(4)), true);
    std::string s = std::to_string(m.ccp4_header.size());
    for (int wd : {1, 2, 3, 4, 5, 6, 7, 8, 9, 10, 17, 18, 19, 23, 24}) s += " " + std::to_string(m.header_i32(wd));
    return s;
  }
  if (cmd == "setup") return w.at(0) == "f" ? do_setup<float>(w) : do_setup<int8_t>(w);
  if (cmd == "o_extent") return o_extent(w);
  if (cmd == "o_zyx") return o_zyx(w);
  if (cmd == "o_perm") return w.at(0) == "f" ? o_perm<float>(w) : o_perm<int8_t>(w);
  if (cmd == "o_wr") return w.at(0) == "f" ? o_wr<float>(w) : o_wr<int8_t>(w);
  if (cmd == "o_asu") return o_asu(w);
  if (cmd == "o_trunc") return w.at(0) == "f" ? o_trunc<float>(w) : o_trunc<int8_t>(w);
  if (cmd == "o_fuzz") return w.at(0) == "f" ? o_fuzz<float>(w) : o_fuzz<int8_t>(w);
  if (cmd == "mstream") return mstream(w);
  if (cmd == "gz") return gz_cmd(w, false);
  if (cmd == "o_gzx") { std::string r = gz_cmd(w, false); return "ok"; }
  if (cmd == "o_symm") return o_symm(w);
  return "UNKNOWN-COMMAND";
}

int main() {
  hv::install_alarm_handler(on_alarm);
  if (!kAsan) {   // address-space limit so that absurd allocations throw std::bad_alloc
    struct rlimit rl; rl.rlim_cur = rl.rlim_max = 2ull << 30; setrlimit(RLIMIT_AS, &rl);
  }
  return hv::serve(handle);
}
