// C17 part of the structure-factor harness (Cromer-Liberman f', f'').
static bool fprime_handle(const std::string& cmd, const std::vector<std::string>& w, std::string& out) {
  return false;
}
