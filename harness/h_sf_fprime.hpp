// C17 part of the structure-factor harness (Cromer-Liberman f', f'').  src/fprime.cpp is included by
// h_sf.cpp, so the static tables (anonymous namespace) are visible here.
#include <atomic>

static bool same_bits(double a, double b) { return std::memcmp(&a, &b, 8) == 0; }

static const double kGaussX[5] = {0.04691007703067, 0.23076534494716, 0.5, 1. - 0.23076534494716, 1. - 0.04691007703067};

// energies (eV) at which the denominators of sigma0/1/2 vanish for orbital i of element z, per Gauss node
static double pole_energy(int z, int i, const OrbitalCoef& o, int j, const char** kind) {
  double x = kGaussX[j];
  if (o.nparm == 11) { *kind = "sigma0"; return 1000.0 * o.binden / x; }
  if (z >= 79 && i == 0) { *kind = "sigma1"; return 1000.0 * o.binden / std::sqrt(x); }
  *kind = "sigma2"; return 1000.0 * o.binden / (x * x);
}

// ORACLE purity: array == per-energy scalar calls, bit for bit, in any order, from nthreads threads
static std::string oracle_pure(int z, int nthreads, const std::vector<double>& e) {
  const double S1 = -777.25, S2 = 12345.5;
  int n = (int)e.size();
  std::vector<double> rp(n), rpp(n);
  for (int k = 0; k < n; ++k) { double b = S2; rp[k] = cromer_liberman(z, e[k], &b); rpp[k] = b; }
  // scalar call with a null fpp pointer gives the same f'
  for (int k = 0; k < n; ++k)
    if (!same_bits(cromer_liberman(z, e[k], nullptr), rp[k])) return "cromer_liberman(fpp=nullptr) differs at E=" + g17(e[k]);
  // array call, with guard cells after the end
  std::vector<double> a(n + 2, S1), b(n + 2, S2);
  cromer_liberman_for_array(z, n, e.data(), a.data(), b.data());
  for (int k = 0; k < n; ++k) {
    bool untouched = (z < 3 || z > 92);
    double wa = untouched ? S1 : rp[k], wb = untouched ? S2 : rpp[k];
    if (!same_bits(a[k], wa) || !same_bits(b[k], wb))
      return "array call differs from scalar call at index " + std::to_string(k) + " E=" + g17(e[k]) + ": array (" +
             g17(a[k]) + "," + g17(b[k]) + ") scalar (" + g17(wa) + "," + g17(wb) + ")";
  }
  for (int k = n; k < n + 2; ++k)
    if (!same_bits(a[k], S1) || !same_bits(b[k], S2)) return "array call wrote past npts";
  // reversed / rotated order
  for (int variant = 0; variant < 2 && n > 1; ++variant) {
    std::vector<int> perm(n);
    for (int k = 0; k < n; ++k) perm[k] = variant == 0 ? n - 1 - k : (k * 7 + 3) % n;
    if (variant == 1) { std::vector<char> seen(n, 0); bool ok = true; for (int p : perm) { if (seen[p]) ok = false; seen[p] = 1; } if (!ok) continue; }
    std::vector<double> pe(n), pa(n, S1), pb(n, S2);
    for (int k = 0; k < n; ++k) pe[k] = e[perm[k]];
    cromer_liberman_for_array(z, n, pe.data(), pa.data(), pb.data());
    for (int k = 0; k < n; ++k) {
      bool untouched = (z < 3 || z > 92);
      double wa = untouched ? S1 : rp[perm[k]], wb = untouched ? S2 : rpp[perm[k]];
      if (!same_bits(pa[k], wa) || !same_bits(pb[k], wb))
        return "result depends on the order of the energies (E=" + g17(pe[k]) + ")";
    }
  }
  // concurrent callers: each thread evaluates the array for z and for a neighbouring element
  if (nthreads > 1) {
    std::atomic<int> bad(0);
    std::vector<std::thread> th;
    for (int t = 0; t < nthreads; ++t)
      th.emplace_back([&, t]() {
        for (int rep = 0; rep < 3; ++rep) {
          int zz = (t & 1) ? z : (int)std::min(92LL, std::max(3LL, (long long)z + 1 + t));
          std::vector<double> ta(n, S1), tb(n, S2);
          cromer_liberman_for_array(zz, n, e.data(), ta.data(), tb.data());
          if (zz == z)
            for (int k = 0; k < n; ++k) {
              bool untouched = (z < 3 || z > 92);
              double wa = untouched ? S1 : rp[k], wb = untouched ? S2 : rpp[k];
              if (!same_bits(ta[k], wa) || !same_bits(tb[k], wb)) bad++;
            }
        }
      });
    for (auto& x : th) x.join();
    if (bad) return "results differ when called from " + std::to_string(nthreads) + " threads";
  }
  return "1";
}

// ORACLE well-behavedness on a dense grid + edge brackets + computed pole energies
static std::string oracle_scan(int z, int ngrid) {
  if (z < 3 || z > 92) return "skip";
  int n;
  OrbitalCoef* c = get_orbital_coefficients(z, &n);
  std::vector<double> edges;
  for (int i = 0; i < n; ++i) edges.push_back(1000.0 * c[i].binden);
  std::string fails;
  int nfail = 0;
  auto fail_add = [&](const std::string& s) { if (nfail++ < 4) fails += (fails.empty() ? "" : " | ") + s; };
  auto eval = [&](double E, double* f2) { return cromer_liberman(z, E, f2); };
  // 1. dense logarithmic grid 1..80 keV: finite, f'' >= 0; a step of f'' that is out of proportion with the
  //    neighbouring steps is a discontinuity, allowed (upward) only where an edge lies in between
  std::vector<double> gE(ngrid + 1), g2(ngrid + 1);
  for (int k = 0; k <= ngrid; ++k) {
    gE[k] = 1000.0 * std::exp(std::log(80.0) * k / ngrid);
    double f1 = eval(gE[k], &g2[k]);
    if (!std::isfinite(f1) || !std::isfinite(g2[k])) { fail_add("nonfinite E=" + g17(gE[k])); g2[k] = 0; continue; }
    if (g2[k] < 0) fail_add("negative fpp=" + g17(g2[k]) + " E=" + g17(gE[k]));
  }
  auto has_edge = [&](int k) {   // an edge in (gE[k-1], gE[k]]
    for (double e : edges) if (e > gE[k-1] * (1 - 1e-9) && e <= gE[k] * (1 + 1e-9)) return true;
    return false;
  };
  for (int k = 2; k < ngrid; ++k) {
    double d = std::fabs(g2[k] - g2[k-1]);
    if (has_edge(k)) {
      if (g2[k] < g2[k-1] * 0.97 - 1e-4) fail_add("fpp drops across an edge at E=" + g17(gE[k]));
      continue;
    }
    if (has_edge(k-1) || has_edge(k+1)) continue;
    double nb = std::max(std::fabs(g2[k-1] - g2[k-2]), std::fabs(g2[k+1] - g2[k]));
    if (d > 5 * nb + 1e-3 * g2[k] && d > 0.02 * g2[k] + 1e-4)
      fail_add("fpp jumps away from an edge between E=" + g17(gE[k-1]) + " and E=" + g17(gE[k]) + ": " + g17(g2[k-1]) + " -> " + g17(g2[k]));
  }
  // 2. brackets of every edge: finite, f'' >= 0, f'' jumps upward
  for (double e : edges) {
    if (e < 200 || e > 2e5) continue;
    double lo2, hi2;
    double lo1 = eval(e * (1 - 1e-6), &lo2), hi1 = eval(e * (1 + 1e-6), &hi2);
    if (!std::isfinite(lo1) || !std::isfinite(hi1) || lo2 < 0 || hi2 < 0) fail_add("bad value next to edge E=" + g17(e));
    if (hi2 < lo2 - 1e-9) fail_add("fpp jumps downward at edge E=" + g17(e));
    double f2; double at = eval(e, &f2);
    if (!std::isfinite(at) || !std::isfinite(f2) || f2 < 0) fail_add("bad value AT edge E=" + g17(e));
  }
  // 3. the energies where a sigma denominator vanishes: f' must stay finite, and must not spike
  for (int i = 0; i < n; ++i)
    for (int j = 0; j < 5; ++j) {
      const char* kind;
      double E0 = pole_energy(z, i, c[i], j, &kind);
      if (E0 < 1000 || E0 > 80000) continue;
      double f2;
      double E = E0;
      for (int s = 0; s < 8; ++s) E = std::nextafter(E, 0.0);
      for (int s = 0; s < 17; ++s) {
        double f1 = eval(E, &f2);
        if (!std::isfinite(f1) || !std::isfinite(f2)) fail_add("nonfinite at pole E=" + g17(E));
        E = std::nextafter(E, 1e9);
      }
      double base = 0.5 * (eval(E0 * (1 + 1e-3), &f2) + eval(E0 * (1 - 1e-3), &f2));
      double worst = 0;
      for (double d : {1e-4, -1e-4, 3e-5, -3e-5, 1e-5, -1e-5}) {
        double f1 = eval(E0 * (1 + d), &f2);
        if (std::fabs(f1 - base) > std::fabs(worst)) worst = f1 - base;
      }
      if (std::fabs(worst) > 100) {
        char b[200];
        std::snprintf(b, sizeof b, "spurious pole z=%d orb=%d node=%d %s E=%.8g: f' deviates by %.4g electrons within 1e-4 of it",
                      z, i, j, kind, E0, worst);
        fail_add(b);
      }
    }
  return fails.empty() ? "1" : fails;
}

static bool fprime_handle(const std::string& cmd, const std::vector<std::string>& w, std::string& out) {
  auto I = [&](size_t k) { return (int)hv::to_ll(w.at(k)); };
  auto D = [&](size_t k) { return num(w.at(k)); };
  if (cmd == "cl") { double f2 = -1; double f1 = cromer_liberman(I(0), D(1), &f2); out = g17(f1) + " " + g17(f2); return true; }
  if (cmd == "fpp") {
    int z = I(0); if (z < 3 || z > 92) fail("z");
    double f2 = -1; cromer_liberman(z, D(1), &f2); out = g17(f2); return true; }
  if (cmd == "o_pure") {
    std::vector<double> e; for (size_t k = 2; k < w.size(); ++k) e.push_back(D(k));
    out = oracle_pure(I(0), I(1), e); return true; }
  if (cmd == "o_scan") { out = oracle_scan(I(0), I(1)); return true; }
  if (cmd == "o_doc") {     // values quoted in docs/scattering.rst and tests/test_prog.py
    struct { int z; double e; double fp, fpp; double tol; } docs[] = {
      {34, 10332.0, -1.41862, 0.72389, 1e-5},              // (-1.41862..., 0.72389...)
      {34, hc() / 0.71073, -0.09201, 2.23336, 1e-5},       // (-0.09201..., 2.23336...)
      {34, 12345.0, -3.1985, 0.52258, 5.1e-5},             // gemmi fprime --energy=12345 Se
    };
    for (auto& d : docs) {
      double f2, f1 = cromer_liberman(d.z, d.e, &f2);
      // quoted with trailing "...": the printed digits are a truncation
      if (!(std::fabs(f1 - d.fp) <= d.tol && std::fabs(f2 - d.fpp) <= d.tol)) {
        out = "documented value for z=" + std::to_string(d.z) + " E=" + g17(d.e) + " is (" + g17(d.fp) + "," + g17(d.fpp) +
              "), computed (" + g17(f1) + "," + g17(f2) + ")"; return true; }
    }
    double cu = (double)(float)cromer_liberman(29, hc() / 0.8, nullptr);     // addends store float
    if (std::fabs(cu - 0.265503853559494) > 1e-14) { out = "documented Cu f' at 0.8 A is 0.265503853559494, computed " + g17(cu); return true; }
    out = "1"; return true;
  }
  return false;
}
