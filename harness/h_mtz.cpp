// Correspondence + oracle harness for the MTZ family (C08 write/read, C18 MTZ <-> SF-mmCIF).
// Line protocol (hcommon.hpp): cmd \t args -> cmd \t args \t result.
//   hdr   <spec>  : X <abstract texts> H <hex of all 80-byte records written> P <fields parsed back by gemmi>
//   o_rt  <spec>  : the C08 oracle: write_to_string -> read from memory / file / gz, native and byte-swapped
//   rd1   <hex20> : read_first_bytes -> "same offset"
//   wr1   ncol nrefl : first 20 bytes of a written file (data all zero)
//   rdd   <hex>   : read_first_bytes + read_raw_data on a hand-made prefix -> offset and data bytes
#include "hcommon.hpp"
#include <gemmi/mtz.hpp>
#include <gemmi/gz.hpp>
#include <gemmi/sprintf.hpp>
#include <gemmi/util.hpp>
#include <zlib.h>
#include <unistd.h>
#include <cmath>
#include <cstdint>
#include <stdexcept>

#include "h_mtz_conv.hpp"

using gemmi::Mtz;

namespace {

struct Tok {
  std::vector<std::string> w;
  size_t i = 0;
  explicit Tok(const std::string& s) : w(hv::words(s)) {}
  const std::string& next() {
    if (i >= w.size()) throw std::runtime_error("tok");
    return w[i++];
  }
  long long ll() { return hv::to_ll(next()); }
  double dbl() { return std::strtod(next().c_str(), nullptr); }
  std::string str() { return hv::hex_decode(next()); }
};

struct Rng {
  uint64_t s;
  explicit Rng(uint64_t seed) : s(seed * 2685821657736338717ULL + 88172645463325252ULL) {}
  uint32_t next() {
    s ^= s << 13; s ^= s >> 7; s ^= s << 17;
    return uint32_t(s >> 16);
  }
};

float from_bits(uint32_t b) { float f; std::memcpy(&f, &b, 4); return f; }
uint32_t to_bits(float f) { uint32_t b; std::memcpy(&b, &f, 4); return b; }

uint32_t weird_bits(Rng& r) {
  switch (r.next() % 12) {
    case 0: return 0x7fc00000u;                                  // quiet NaN
    case 1: return 0x7f800001u + (r.next() % 0x3ffffe);          // signalling NaN with payload
    case 2: return 0xffc00000u | (r.next() & 0x3fffff);          // negative quiet NaN with payload
    case 3: return r.next() & 1 ? 0x7f800000u : 0xff800000u;     // +-inf
    case 4: return r.next() & 0x807fffffu;                       // denormal / +-0
    case 5: return (r.next() & 1 ? 0x7f7fffffu : 0xff7fffffu);   // +-FLT_MAX
    case 6: return to_bits(float(int(r.next() % 2001) - 1000));
    case 7: return to_bits(float((int(r.next() % 2000001) - 1000000) / 1000.));
    default: return r.next();                                    // arbitrary bit pattern
  }
}

void fill_data(Mtz& m, int nrefl, uint64_t seed, int mode) {
  Rng r(seed);
  size_t nc = m.columns.size();
  m.nreflections = nrefl;
  m.data.resize(nc * nrefl);
  for (int i = 0; i < nrefl; ++i)
    for (size_t j = 0; j < nc; ++j) {
      float v;
      if (mode == 0 && j < 3)
        v = float(int(r.next() % 41) - 20);
      else if (mode == 2)   // tame values only
        v = j < 3 ? float(int(r.next() % 41) - 20) : float((int(r.next() % 200001) - 100000) / 100.);
      else
        v = from_bits(weird_bits(r));
      m.data[i * nc + j] = v;
    }
}

// spec -> Mtz (see props/fam_mtz.py: spec())
void build(Tok& t, Mtz& m) {
  std::string sg = t.str();
  const gemmi::SpaceGroup* g = gemmi::find_spacegroup_by_name(sg);
  if (g)
    m.set_spacegroup(g);
  m.title = t.str();
  m.valm = from_bits((uint32_t) t.ll());
  for (int i = 0; i < 5; ++i) m.sort_order[i] = (int) t.ll();
  double c[6];
  for (double& x : c) x = t.dbl();
  if (c[0] > 0)
    m.cell.set(c[0], c[1], c[2], c[3], c[4], c[5]);
  int symmode = (int) t.ll();
  int nrefl = (int) t.ll();
  uint64_t seed = (uint64_t) t.ll();
  int mode = (int) t.ll();
  int nds = (int) t.ll();
  for (int i = 0; i < nds; ++i) {
    Mtz::Dataset d;
    d.id = (int) t.ll();
    d.project_name = t.str();
    d.crystal_name = t.str();
    d.dataset_name = t.str();
    for (double& x : c) x = t.dbl();
    if (c[0] > 0)
      d.cell.set(c[0], c[1], c[2], c[3], c[4], c[5]);
    d.wavelength = t.dbl();
    m.datasets.push_back(d);
  }
  int ncol = (int) t.ll();
  for (int i = 0; i < ncol; ++i) {
    m.columns.emplace_back();
    Mtz::Column& col = m.columns.back();
    col.label = t.str();
    col.type = (char) t.ll();
    col.dataset_id = (int) t.ll();
    col.source = t.str();
    col.parent = &m;
    col.idx = i;
  }
  int nb = (int) t.ll();
  Rng br(seed ^ 0x5bd1e995);
  for (int i = 0; i < nb; ++i) {
    m.batches.emplace_back();
    Mtz::Batch& b = m.batches.back();
    b.number = (int) t.ll();
    b.title = t.str();
    for (int k = 0; k < 3; ++k) {
      std::string a = t.str();
      if (!a.empty())
        b.axes.push_back(a);
    }
    for (size_t k = 3; k < b.ints.size(); ++k) b.ints[k] = (int) br.next();
    for (float& f : b.floats) f = from_bits(weird_bits(br));
  }
  int nh = (int) t.ll();
  for (int i = 0; i < nh; ++i)
    m.history.push_back(t.str());
  m.appended_text = t.str();
  if (g && symmode != 0) {
    gemmi::GroupOps ops = g->operations();
    for (gemmi::Op op : ops) m.symops.push_back(op);
    if (symmode == 2 && m.symops.size() > 2)
      std::reverse(m.symops.begin() + 1, m.symops.end());
    if (symmode == 3)
      m.symops.pop_back();
  }
  fill_data(m, nrefl, seed, mode);
}

std::string fmt(const char* f, double v) {
  char b[512];
  int n = gemmi::snprintf_z(b, 512, f, v);
  return std::string(b, std::min(n, 511));
}

// positions of the 80-byte records and of the binary batch blocks in a written file
struct Layout {
  std::vector<size_t> recs;      // offsets of text records
  std::vector<size_t> bins;      // offsets of binary batch blocks (185 words each)
  size_t end = 0;                // offset just after MTZENDOFHEADERS
};

Layout layout(const std::string& s, size_t ndata, size_t nbatch) {
  Layout L;
  size_t p = 80 + 4 * ndata;
  bool in_batches = false;
  size_t seen_b = 0;
  int hist_left = 0;
  bool after_end = false;
  while (p + 80 <= s.size()) {
    L.recs.push_back(p);
    std::string r = s.substr(p, 80);
    p += 80;
    if (hist_left > 0) { --hist_left; continue; }
    if (!after_end) {
      if (r.compare(0, 4, "END ") == 0) after_end = true;
      continue;
    }
    if (!in_batches && r.compare(0, 8, "MTZHIST ") == 0) { hist_left = std::atoi(r.c_str() + 8); continue; }
    if (!in_batches && r.compare(0, 7, "MTZBATS") == 0) { in_batches = true; continue; }
    if (in_batches && seen_b < nbatch && r.compare(0, 3, "BH ") == 0) {
      L.recs.push_back(p);  // TITLE
      p += 80;
      L.bins.push_back(p);
      p += 4 * 185;
      ++seen_b;
      continue;           // BHCH is picked up by the next iteration
    }
    if (r.compare(0, 15, "MTZENDOFHEADERS") == 0) break;
  }
  L.end = p;
  return L;
}

void rev4(char* p) { std::swap(p[0], p[3]); std::swap(p[1], p[2]); }

// the file as a machine of the other endianness would have written it
std::string swap_file(const std::string& s, size_t ndata, const Layout& L) {
  std::string o = s;
  rev4(&o[4]);
  o[8] = 0x11; o[9] = 0x11; o[10] = 0; o[11] = 0;
  std::reverse(o.begin() + 12, o.begin() + 20);
  for (size_t i = 0; i < ndata; ++i) rev4(&o[80 + 4 * i]);
  for (size_t b : L.bins)
    for (size_t i = 0; i < 185; ++i) rev4(&o[b + 4 * i]);
  return o;
}

bool feq(double a, double b, double tol) {
  if (std::isnan(a) || std::isnan(b)) return std::isnan(a) && std::isnan(b);
  return std::fabs(a - b) <= tol;
}
bool cell_eq(const gemmi::UnitCell& a, const gemmi::UnitCell& b, double tol) {
  return feq(a.a, b.a, tol) && feq(a.b, b.b, tol) && feq(a.c, b.c, tol) &&
         feq(a.alpha, b.alpha, tol) && feq(a.beta, b.beta, tol) && feq(a.gamma, b.gamma, tol);
}

// compare an object read back (b) with the object written (a): every field the property names.
// strict: both were read from files that must be equivalent -> everything identical.
std::string compare(const Mtz& a, const Mtz& b, bool strict) {
  double tol = strict ? 0. : 0.5e-4 + 1e-9;
  if (a.data.size() != b.data.size()) return "data size";
  if (!a.data.empty() && std::memcmp(a.data.data(), b.data.data(), 4 * a.data.size()) != 0) {
    for (size_t i = 0; i < a.data.size(); ++i)
      if (to_bits(a.data[i]) != to_bits(b.data[i]))
        return "data word " + std::to_string(i);
  }
  if (a.nreflections != b.nreflections) return "nreflections";
  if (a.title != b.title) return "title [" + b.title + "]";
  if (a.columns.size() != b.columns.size()) return "ncol";
  for (size_t i = 0; i < a.columns.size(); ++i) {
    const Mtz::Column& x = a.columns[i];
    const Mtz::Column& y = b.columns[i];
    std::string at = " of column " + std::to_string(i);
    if (x.label != y.label) return "label" + at + " [" + y.label + "]";
    if (x.type != y.type) return "type" + at;
    if (x.dataset_id != y.dataset_id) return "dataset_id" + at + " " + std::to_string(y.dataset_id);
    if (x.source != y.source) return "source" + at + " [" + y.source + "]";
    if (strict && (to_bits(x.min_value) != to_bits(y.min_value) || to_bits(x.max_value) != to_bits(y.max_value)))
      return "min/max" + at;
  }
  if (a.datasets.size() != b.datasets.size()) return "ndatasets";
  for (size_t i = 0; i < a.datasets.size(); ++i) {
    const Mtz::Dataset& x = a.datasets[i];
    const Mtz::Dataset& y = b.datasets[i];
    std::string at = " of dataset " + std::to_string(i);
    if (x.id != y.id) return "id" + at;
    if (x.project_name != y.project_name) return "project" + at;
    if (x.crystal_name != y.crystal_name) return "crystal" + at;
    if (x.dataset_name != y.dataset_name) return "dataset name" + at;
    const gemmi::UnitCell& xc = strict || (x.cell.is_crystal() && x.cell.a > 0) ? x.cell : a.cell;
    if (!cell_eq(xc, y.cell, tol)) return "cell" + at;
    if (!feq(x.wavelength, y.wavelength, strict ? 0. : 0.5e-5 + 1e-10)) return "wavelength" + at;
  }
  if (!cell_eq(a.cell, b.cell, tol)) return "cell";
  if (a.spacegroup != b.spacegroup) return "spacegroup";
  if (strict) {
    if (a.symops != b.symops) return "symops";
    if (a.spacegroup_name != b.spacegroup_name || a.spacegroup_number != b.spacegroup_number) return "sg name/number";
    if (a.nsymop != b.nsymop) return "nsymop";
    if (std::memcmp(&a.min_1_d2, &b.min_1_d2, 8) != 0 || std::memcmp(&a.max_1_d2, &b.max_1_d2, 8) != 0) return "reso";
    if (a.version_stamp != b.version_stamp) return "version stamp";
    if (a.header_offset != b.header_offset) return "header_offset";
  } else if (a.spacegroup) {
    gemmi::GroupOps ops = a.spacegroup->operations();
    std::vector<gemmi::Op> all;
    for (gemmi::Op op : ops) all.push_back(op);
    bool is_perm = a.symops.size() == all.size();
    for (const gemmi::Op& op : all)
      if (is_perm && std::find(a.symops.begin(), a.symops.end(), op) == a.symops.end()) is_perm = false;
    // the SYMM records are either the object's own list or the operations of the space group
    if (b.symops != all && b.symops != a.symops) return "symops differ from the space group";
    if (is_perm && a.symops != b.symops) return "order of symops";
  }
  if (a.sort_order != b.sort_order) return "sort_order";
  if (to_bits(a.valm) != to_bits(b.valm) && !(std::isnan(a.valm) && std::isnan(b.valm))) return "valm";
  if (a.history != b.history) {
    for (size_t i = 0; i < std::min(a.history.size(), b.history.size()); ++i)
      if (a.history[i] != b.history[i])
        return "history line " + std::to_string(i) + " [" + hv::hex_encode(b.history[i]) + "]";
    return "history size";
  }
  if (a.batches.size() != b.batches.size()) return "nbatches";
  for (size_t i = 0; i < a.batches.size(); ++i) {
    const Mtz::Batch& x = a.batches[i];
    const Mtz::Batch& y = b.batches[i];
    std::string at = " of batch " + std::to_string(i);
    if (x.number != y.number) return "number" + at;
    if (x.title != y.title) return "title" + at + " [" + y.title + "]";
    if (x.ints != y.ints) return "ints" + at;
    if (x.floats.size() != y.floats.size() ||
        std::memcmp(x.floats.data(), y.floats.data(), 4 * x.floats.size()) != 0) return "floats" + at;
    if (x.axes != y.axes) return "axes" + at;
  }
  if (a.appended_text != b.appended_text) return "appended_text (" + std::to_string(b.appended_text.size()) + " bytes)";
  return "";
}

std::string tmpdir;
void cleanup() {
  if (!tmpdir.empty()) {
    for (const char* n : {"/a.mtz", "/a.mtz.gz", "/s.mtz", "/s.mtz.gz"})
      std::remove((tmpdir + n).c_str());
    rmdir(tmpdir.c_str());
  }
}
const std::string& scratch() {
  if (tmpdir.empty()) {
    char tpl[] = "/tmp/hmtz-XXXXXX";
    if (!mkdtemp(tpl)) throw std::runtime_error("mkdtemp");
    tmpdir = tpl;
    std::atexit(cleanup);
  }
  return tmpdir;
}
void put_file(const std::string& path, const std::string& s, bool gz) {
  if (gz) {
    gzFile f = gzopen(path.c_str(), "wb1");
    if (!f) throw std::runtime_error("gzopen");
    size_t off = 0;
    while (off < s.size()) {
      int n = gzwrite(f, s.data() + off, (unsigned) std::min<size_t>(s.size() - off, 1 << 20));
      if (n <= 0) { gzclose(f); throw std::runtime_error("gzwrite"); }
      off += n;
    }
    gzclose(f);
  } else {
    FILE* f = std::fopen(path.c_str(), "wb");
    if (!f) throw std::runtime_error("fopen");
    std::fwrite(s.data(), 1, s.size(), f);
    std::fclose(f);
  }
}

void read_mem(Mtz& m, const std::string& s) {
  gemmi::MemoryStream ms(s.data(), s.size());
  m.read_stream(ms, true);
}

std::string o_rt(const std::string& args) {
  Tok t(args);
  Mtz m;
  build(t, m);
  if (m.columns.size() < 3 || !m.spacegroup)
    return "skip";      // not writable (no space group / fewer than 3 columns)
  std::string s;
  m.write_to_string(s);
  Layout L = layout(s, m.data.size(), m.batches.size());
  if (L.end + m.appended_text.size() != s.size()) return "harness: layout mismatch";
  std::string r;
  // 1. from memory
  Mtz m1;
  read_mem(m1, s);
  r = compare(m, m1, false);
  if (!r.empty()) return "memory: " + r;
  // 2. from a file, written by write_to_file
  std::string p = scratch() + "/a.mtz";
  m.write_to_file(p);
  Mtz m2;
  m2.read_file(p);
  r = compare(m, m2, false);
  if (!r.empty()) return "file: " + r;
  r = compare(m1, m2, true);
  if (!r.empty()) return "file vs memory: " + r;
  // 3. through gzip, and through read_file_gz on the plain file
  put_file(p + ".gz", s, true);
  Mtz m3;
  m3.read_file_gz(p + ".gz");
  r = compare(m, m3, false);
  if (!r.empty()) return "gz: " + r;
  r = compare(m1, m3, true);
  if (!r.empty()) return "gz vs memory: " + r;
  Mtz m3b;
  m3b.read_file_gz(p);
  r = compare(m1, m3b, true);
  if (!r.empty()) return "read_file_gz(plain) vs memory: " + r;
  // 4. byte-swapped
  std::string sw = swap_file(s, m.data.size(), L);
  Mtz m4;
  read_mem(m4, sw);
  if (m4.same_byte_order) return "swapped: byte order not detected";
  r = compare(m, m4, false);
  if (!r.empty()) return "swapped: " + r;
  r = compare(m1, m4, true);
  if (!r.empty()) return "swapped vs native: " + r;
  put_file(scratch() + "/s.mtz", sw, false);
  Mtz m5;
  m5.read_file(scratch() + "/s.mtz");
  r = compare(m4, m5, true);
  if (!r.empty()) return "swapped file vs swapped memory: " + r;
  put_file(scratch() + "/s.mtz.gz", sw, true);
  Mtz m6;
  m6.read_file_gz(scratch() + "/s.mtz.gz");
  r = compare(m4, m6, true);
  if (!r.empty()) return "swapped gz vs swapped memory: " + r;
  return "ok";
}

std::string hdr(const std::string& args) {
  Tok t(args);
  Mtz m;
  build(t, m);
  std::string s;
  m.write_to_string(s);    // throws -> EXC
  std::string out = "X";
  auto add = [&](const std::string& x) { out += ' '; out += hv::hex_encode(x); };
  auto addi = [&](long long x) { out += ' '; out += std::to_string(x); };
  addi(m.cell.is_crystal() ? 1 : 0);
  if (m.cell.is_crystal())
    for (double v : {m.cell.a, m.cell.b, m.cell.c, m.cell.alpha, m.cell.beta, m.cell.gamma})
      add(fmt("%9.4f", v));
  gemmi::GroupOps ops = m.spacegroup->operations();
  addi(ops.order());
  addi((int) ops.sym_ops.size());
  addi(m.spacegroup->ccp4_lattice_type());
  addi(m.spacegroup->ccp4);
  add(m.spacegroup->hm);
  add(m.spacegroup->point_group_hm());
  std::vector<gemmi::Op> sy;
  if (!m.symops.empty() && ops.is_same_as(gemmi::split_centering_vectors(m.symops)))
    sy = m.symops;
  else
    for (gemmi::Op op : ops) sy.push_back(op);
  addi((long long) sy.size());
  for (const gemmi::Op& op : sy) add(gemmi::to_upper(op.triplet()));
  auto reso = m.calculate_min_max_1_d2();
  add(fmt("%-20.12f", reso[0]));
  add(fmt("%-20.12f", reso[1]));
  if (std::isnan(m.valm)) out += " -"; else add(fmt("%f", m.valm));
  size_t nc = m.columns.size();
  for (size_t j = 0; j < nc; ++j) {
    float lo = NAN, hi = NAN;
    for (int i = 0; i < m.nreflections; ++i) {
      float v = m.data[i * nc + j];
      if (std::isnan(v)) continue;
      if (std::isnan(lo)) { lo = hi = v; continue; }
      if (v < lo) lo = v;
      if (v > hi) hi = v;
    }
    add(fmt("%.9f", lo));
    add(fmt("%.9f", hi));
  }
  for (const Mtz::Dataset& d : m.datasets) {
    const gemmi::UnitCell& uc = (d.cell.is_crystal() && d.cell.a > 0 ? d.cell : m.cell);
    for (double v : {uc.a, uc.b, uc.c, uc.alpha, uc.beta, uc.gamma})
      add(fmt("%10.4f", v));
    add(fmt("%10.5f", d.wavelength));
  }
  Layout L = layout(s, m.data.size(), m.batches.size());
  std::string recs;
  for (size_t p : L.recs) recs += s.substr(p, 80);
  out += " H " + hv::hex_encode(recs);
  // parsed back by gemmi
  Mtz r;
  read_mem(r, s);
  out += " P";
  add(r.title);
  addi(r.columns.size()); addi(r.nreflections); addi(r.batches.size());
  for (int v : r.sort_order) addi(v);
  addi(r.nsymop); addi(r.spacegroup_number); add(r.spacegroup_name); addi(r.symops.size());
  addi(std::isnan(r.valm) ? 1 : 0);
  for (const Mtz::Column& c : r.columns) { add(c.label); addi((unsigned char) c.type); addi(c.dataset_id); add(c.source); }
  addi(r.datasets.size());
  for (const Mtz::Dataset& d : r.datasets) { addi(d.id); add(d.project_name); add(d.crystal_name); add(d.dataset_name); }
  addi(r.history.size());
  for (const std::string& h : r.history) add(h);
  for (const Mtz::Batch& b : r.batches) { addi(b.number); add(b.title); }
  return out;
}

std::string rd1(const std::string& args) {
  std::string b = hv::hex_decode(args);
  b.resize(80, '\0');
  Mtz m;
  gemmi::MemoryStream ms(b.data(), b.size());
  m.read_first_bytes(ms);
  return std::to_string(m.same_byte_order ? 1 : 0) + " " + std::to_string((long long) m.header_offset);
}

std::string wr1(const std::string& args) {
  Tok t(args);
  int ncol = (int) t.ll(), nrefl = (int) t.ll();
  Mtz m(true);
  m.set_spacegroup(gemmi::find_spacegroup_by_number(1));
  for (int i = 3; i < ncol; ++i) m.add_column("C" + std::to_string(i), 'R', 0, -1, false);
  if (ncol < 3) m.columns.resize(ncol);
  m.nreflections = nrefl;
  m.data.assign((size_t) ncol * nrefl, 0.f);
  std::string s;
  m.write_to_string(s);
  return hv::hex_encode(s.substr(0, 20));
}

std::string rdd(const std::string& args) {
  std::string b = hv::hex_decode(args);
  Mtz m;
  gemmi::MemoryStream ms(b.data(), b.size());
  m.read_first_bytes(ms);
  if (m.header_offset < 21 || (size_t) (m.header_offset - 21) * 4 + 80 > b.size())
    return "short";
  m.read_raw_data(ms, true);
  std::string d((const char*) m.data.data(), 4 * m.data.size());
  return std::to_string((long long) m.header_offset) + " " + std::to_string(ms.tell()) + " " + hv::hex_encode(d);
}

}  // namespace

int main() {
  return hv::serve([](const std::string& cmd, const std::string& args) -> std::string {
    if (cmd == "hdr") return hdr(args);
    if (cmd == "o_rt") return o_rt(args);
    if (cmd == "rd1") return rd1(args);
    if (cmd == "wr1") return wr1(args);
    if (cmd == "rdd") return rdd(args);
    std::string r;
    if (conv_handle(cmd, args, r)) return r;
    return "unknown command";
  });
}
