// Harness for property C14: maps and structure-factor grids are exact discrete Fourier transforms.
// Oracles compare gemmi's FFT-based results with O(N^2) direct sums in double precision.
#include "hcommon.hpp"
#include <cstring>
#include <gemmi/fourier.hpp>
#include <gemmi/asudata.hpp>
#include <gemmi/symmetry.hpp>
#include <gemmi/unitcell.hpp>
#include <cmath>
#include <complex>
#include <algorithm>
#include <map>
using namespace gemmi;
using hv::words; using hv::to_ll;
typedef std::complex<double> cplx;
static const double PI = 3.14159265358979323846;

struct Lcg {
  unsigned long long s;
  explicit Lcg(unsigned long long seed) : s(seed * 6364136223846793005ULL + 1442695040888963407ULL) {}
  unsigned next() { s = s * 6364136223846793005ULL + 1442695040888963407ULL; return unsigned(s >> 33); }
  double uni() { return (next() % 1000003) / 1000003.0; }
  int range(int lo, int hi) { return lo + int(next() % unsigned(hi - lo + 1)); }
};

static UnitCell cell_for(const SpaceGroup& sg) {
  switch (sg.crystal_system()) {
    case CrystalSystem::Triclinic: return UnitCell(11, 13, 17, 81, 97, 103);
    case CrystalSystem::Monoclinic:
      switch (sg.monoclinic_unique_axis()) {
        case 'a': return UnitCell(11, 13, 17, 101, 90, 90);
        case 'c': return UnitCell(11, 13, 17, 90, 90, 101);
        default: return UnitCell(11, 13, 17, 90, 101, 90);
      }
    case CrystalSystem::Orthorhombic: return UnitCell(11, 13, 17, 90, 90, 90);
    case CrystalSystem::Tetragonal: return UnitCell(13, 13, 17, 90, 90, 90);
    case CrystalSystem::Trigonal:
      if (sg.ext == 'R') return UnitCell(13, 13, 13, 75, 75, 75);
      return UnitCell(13, 13, 17, 90, 90, 120);
    case CrystalSystem::Hexagonal: return UnitCell(13, 13, 17, 90, 90, 120);
    case CrystalSystem::Cubic: return UnitCell(13, 13, 13, 90, 90, 90);
  }
  return UnitCell(10, 10, 10, 90, 90, 90);
}

struct Truth {
  std::vector<std::array<double,3>> pos;
  std::vector<double> f;
  cplx F(const Miller& h) const {
    cplx s = 0;
    for (size_t j = 0; j < pos.size(); ++j) {
      double arg = 2 * PI * (h[0] * pos[j][0] + h[1] * pos[j][1] + h[2] * pos[j][2]);
      s += f[j] * cplx(std::cos(arg), std::sin(arg));
    }
    return s;
  }
};

static std::string hs(const Miller& h) {
  return std::to_string(h[0]) + "," + std::to_string(h[1]) + "," + std::to_string(h[2]);
}

// reflections (ASU-unique, non-absent) that fit a grid of the given size, with |h| <= hmax
static std::vector<Miller> asu_list(const SpaceGroup& sg, const GroupOps& gops, std::array<int,3> size,
                                    int hmax, Lcg& rng, double keep) {
  ReciprocalAsu asu(&sg);
  std::vector<Miller> out;
  for (int h = -hmax; h <= hmax; ++h)
    for (int k = -hmax; k <= hmax; ++k)
      for (int l = -hmax; l <= hmax; ++l) {
        Miller m = {{h, k, l}};
        if (!asu.is_in(m) || gops.is_systematically_absent(m)) continue;
        if (h == 0 && k == 0 && l == 0) continue;
        // every symmetry mate must fit the grid (band-limited data)
        bool fits = true;
        for (const Op& op : gops.sym_ops) {
          Miller p = op.apply_to_hkl(m);
          for (int j = 0; j < 3; ++j)
            if (2 * std::abs(p[j]) >= size[j]) fits = false;
        }
        if (!fits) continue;
        if (rng.uni() > keep) continue;
        out.push_back(m);
      }
  return out;
}

static std::string handle(const std::string& cmd, const std::string& args) {
  std::vector<std::string> w = words(args);
  if (cmd == "alook") {
    // index arithmetic of ReciprocalGrid::prepare_asu_data (model Fft/AsuLookup.v). args: nu nv nw half  h k l ...
    // P 1 grid whose slot i holds the value (i, 1): the listed value tells which slot was read and whether it was conjugated
    FPhiGrid<float> g;
    g.spacegroup = &get_spacegroup_p1();
    g.unit_cell.set(20, 30, 40, 90, 90, 90);
    g.axis_order = AxisOrder::XYZ;
    g.half_l = to_ll(w.at(3)) != 0;
    g.set_size_without_checking((int) to_ll(w.at(0)), (int) to_ll(w.at(1)), (int) to_ll(w.at(2)));
    for (size_t i = 0; i < g.data.size(); ++i) g.data[i] = std::complex<float>((float) i, 1.f);
    AsuData<std::complex<float>> ad = g.prepare_asu_data(0, 0, true, true);
    std::map<Miller, std::complex<float>> m;
    for (const auto& hv_ : ad.v) m[hv_.hkl] = hv_.value;
    std::string out;
    for (size_t k = 4; k + 2 < w.size(); k += 3) {
      Miller h = {{(int) to_ll(w[k]), (int) to_ll(w[k + 1]), (int) to_ll(w[k + 2])}};
      auto it = m.find(h);
      out += (out.empty() ? "" : " ");
      if (it == m.end()) out += "-";
      else out += std::to_string((long) it->second.real()) + ":" + (it->second.imag() < 0 ? "1" : "0");
    }
    return out;
  }
  if (cmd == "place") {
    // placement bookkeeping: args: row nu nv nw half zyx n  h k l ...  (amplitude = serial, phase = 5 deg)
    const SpaceGroup& sg = spacegroup_tables::main[to_ll(w.at(0))];
    std::array<int,3> size = {{(int) to_ll(w.at(1)), (int) to_ll(w.at(2)), (int) to_ll(w.at(3))}};
    bool half = to_ll(w.at(4)) != 0, zyx = to_ll(w.at(5)) != 0;
    int n = (int) to_ll(w.at(6));
    AsuData<std::complex<float>> ad;
    ad.spacegroup_ = &sg;
    ad.unit_cell_ = cell_for(sg);
    for (int i = 0; i < n; ++i) {
      Miller h = {{(int) to_ll(w.at(7 + 3 * i)), (int) to_ll(w.at(8 + 3 * i)), (int) to_ll(w.at(9 + 3 * i))}};
      ad.v.push_back({h, std::polar(float(i + 1), float(5.0 * PI / 180))});
    }
    FPhiGrid<float> grid = get_f_phi_on_grid<float>(ad, size, half, zyx ? AxisOrder::ZYX : AxisOrder::XYZ);
    std::string s = std::to_string(grid.nu) + " " + std::to_string(grid.nv) + " " + std::to_string(grid.nw);
    for (size_t idx = 0; idx < grid.data.size(); ++idx) {
      std::complex<float> v = grid.data[idx];
      if (v == std::complex<float>()) continue;
      int serial = (int) std::lround(std::abs(v));
      double phi = std::arg(v) * 180 / PI;
      int sg_ = 0, kk = -1;
      for (int sgn : {1, -1})
        for (int k = 0; k < 24; ++k) {
          double d = std::fmod(phi - sgn * (5.0 + 15 * k) + 7200.0, 360.0);
          if (d > 180) d -= 360;
          if (std::fabs(d) < 0.02) { sg_ = sgn; kk = k; }
        }
      s += " " + std::to_string(idx) + ":" + std::to_string(serial) + ":" + std::to_string(sg_) + ":" + std::to_string(kk);
    }
    return s;
  }
  if (cmd == "o_tfm") {
    // transform_f_phi_to_map: the size it chooses and the map it returns
    // args: row seed hmax rate_x10 min0 min1 min2 zyx
    const SpaceGroup& sg = spacegroup_tables::main[to_ll(w.at(0))];
    Lcg rng((unsigned long long) to_ll(w.at(1)));
    int hmax = (int) to_ll(w.at(2));
    double rate = to_ll(w.at(3)) / 10.0;
    std::array<int,3> min_size = {{(int) to_ll(w.at(4)), (int) to_ll(w.at(5)), (int) to_ll(w.at(6))}};
    AxisOrder order = to_ll(w.at(7)) != 0 ? AxisOrder::ZYX : AxisOrder::XYZ;
    GroupOps gops = sg.operations();
    UnitCell cell = cell_for(sg);
    AsuData<std::complex<float>> ad;
    ad.spacegroup_ = &sg;
    ad.unit_cell_ = cell;
    std::array<int,3> huge = {{1000, 1000, 1000}};
    std::vector<Miller> hkls = asu_list(sg, gops, huge, hmax, rng, 0.5);
    if (hkls.empty()) return "skip";
    int serial = 0;
    for (const Miller& h : hkls)
      ad.v.push_back({h, std::polar(float(1 + (++serial % 7)), float(rng.uni() * 6.28))});
    for (auto& hv_ : ad.v)   // centric/real reflections need a consistent phase: use the truth of a point atom instead
      hv_.value = std::complex<float>((float) std::cos(2 * PI * (0.1 * hv_.hkl[0] + 0.2 * hv_.hkl[1] + 0.3 * hv_.hkl[2])), 0.f) * std::abs(hv_.value);
    Grid<float> map = transform_f_phi_to_map<float>(ad, min_size, rate, false, order);
    std::array<int,3> size = {{map.nu, map.nv, map.nw}};
    if (order == AxisOrder::ZYX) std::swap(size[0], size[2]);
    // (a) the size holds every index, respects min_size and the sampling rate, suits the space group and the FFT
    double max_1_d2 = 0;
    std::array<int,3> need = min_size;
    for (const auto& hv_ : ad.v) {
      max_1_d2 = std::max(max_1_d2, cell.calculate_1_d2(hv_.hkl));
      for (int j = 0; j < 3; ++j) need[j] = std::max(need[j], 2 * std::abs(hv_.hkl[j]) + 1);
    }
    double cellr[3] = {cell.ar, cell.br, cell.cr};
    for (int j = 0; j < 3; ++j) {
      if (size[j] < need[j]) return "bad size-too-small axis " + std::to_string(j) + ": " + std::to_string(size[j]) + " < " + std::to_string(need[j]);
      if (rate > 0 && size[j] < rate * std::sqrt(max_1_d2) / cellr[j] - 1e-9) return "bad size-below-sample-rate axis " + std::to_string(j);
      if (!has_small_factorization(size[j])) return "bad size-not-fft-friendly " + std::to_string(size[j]);
    }
    try { check_grid_factors(&sg, size); } catch (std::exception&) { return "bad size-incompatible-with-spacegroup"; }
    if (!data_fits_into(ad, size)) return "bad data-does-not-fit";
    // (b) the map is the one of the two-step route (which o_map compares with the Fourier sum) at that size
    Grid<float> ref = transform_f_phi_grid_to_map(get_f_phi_on_grid<float>(ad, size, true, order));
    if (ref.data.size() != map.data.size()) return "bad map-size";
    for (size_t i = 0; i < ref.data.size(); ++i)
      if (std::memcmp(&ref.data[i], &map.data[i], sizeof(float)) != 0) return "bad map differs from the two-step route at " + std::to_string(i);
    // (c) exact_size: taken as is when compatible, rejected otherwise
    Grid<float> m2 = transform_f_phi_to_map<float>(ad, size, rate, true, order);
    if (m2.data != map.data) return "bad exact-size map differs";
    std::array<int,3> odd = {{size[0] + 1, size[1], size[2] + 2}};
    bool compatible = true;
    try { check_grid_factors(&sg, odd); } catch (std::exception&) { compatible = false; }
    bool threw = false;
    try { transform_f_phi_to_map<float>(ad, odd, rate, true, order); } catch (std::exception&) { threw = true; }
    if (threw == compatible) return "bad exact-size acceptance";
    // (d) an ODD exact size along l (a half-l grid cannot tell 2n from 2n+1 points): the map has exactly the requested
    // dimensions and is the map of the full-grid two-step route (which o_map compares with the Fourier sum)
    std::array<int,3> oddl = {{size[0], size[1], size[2] + 1}};
    bool ok_oddl = data_fits_into(ad, oddl);
    try { check_grid_factors(&sg, oddl); } catch (std::exception&) { ok_oddl = false; }
    if (ok_oddl) {
      Grid<float> m3 = transform_f_phi_to_map<float>(ad, oddl, rate, true, order);
      std::array<int,3> got = {{m3.nu, m3.nv, m3.nw}};
      if (order == AxisOrder::ZYX) std::swap(got[0], got[2]);
      if (got != oddl) return "bad exact odd size along l not honoured: asked " + std::to_string(oddl[2]) + " got " + std::to_string(got[2]);
      Grid<float> ref3 = transform_f_phi_grid_to_map(get_f_phi_on_grid<float>(ad, oddl, false, order));
      if (ref3.data.size() != m3.data.size()) return "bad odd-l map-size";
      float mx3 = 0;
      for (float x : ref3.data) mx3 = std::max(mx3, std::fabs(x));
      for (size_t i = 0; i < ref3.data.size(); ++i)
        if (std::fabs(ref3.data[i] - m3.data[i]) > 3e-4f * mx3 + 1e-7f) return "bad odd-l map differs from the full-grid route at " + std::to_string(i);
    }
    return "ok";
  }
  if (cmd == "o_map" || cmd == "o_sf") {
    // args: row seed nu nv nw half zyx natoms
    const SpaceGroup& sg = spacegroup_tables::main[to_ll(w.at(0))];
    Lcg rng((unsigned long long) to_ll(w.at(1)));
    std::array<int,3> size = {{(int) to_ll(w.at(2)), (int) to_ll(w.at(3)), (int) to_ll(w.at(4))}};
    bool half = to_ll(w.at(5)) != 0, zyx = to_ll(w.at(6)) != 0;
    int natoms = (int) to_ll(w.at(7));
    GroupOps gops = sg.operations();
    check_grid_factors(&sg, size);   // throws -> EXC (caller treats as skip)
    UnitCell cell = cell_for(sg);
    Truth t;
    for (int a = 0; a < natoms; ++a) {
      std::array<double,3> x = {{rng.uni(), rng.uni(), rng.uni()}};
      double f = 1 + 5 * rng.uni();
      for (Op op : gops) { t.pos.push_back(op.apply_to_xyz(x)); t.f.push_back(f); }
    }
    int hmax = std::max(size[0], std::max(size[1], size[2])) / 2;
    std::vector<Miller> hkls = asu_list(sg, gops, size, hmax, rng, 0.8);
    if (hkls.empty()) return "skip";
    AsuData<std::complex<float>> ad;
    ad.spacegroup_ = &sg;
    ad.unit_cell_ = cell;
    // full (P1, both Friedel mates) set of coefficients, from the truth
    std::map<Miller, cplx> full;
    for (const Miller& h : hkls) {
      cplx F = t.F(h);
      ad.v.push_back({h, std::complex<float>((float) F.real(), (float) F.imag())});
      for (const Op& op : gops.sym_ops) {
        Miller k = op.apply_to_hkl(h);
        full[k] = t.F(k);
        Miller mk = {{-k[0], -k[1], -k[2]}};
        full[mk] = t.F(mk);
      }
    }
    AxisOrder order = zyx ? AxisOrder::ZYX : AxisOrder::XYZ;
    Grid<float> map = transform_f_phi_grid_to_map(get_f_phi_on_grid<float>(ad, size, half, order));
    // map dimensions
    int nu = size[0], nv = size[1], nw = size[2];
    // recorded finding C14-half-l-odd: a half-l grid does not record whether the size along l was 2n or 2n+1, and
    // transform_f_phi_grid_to_map takes 2n: the map of such a grid has one point fewer along l
    if (half && nw % 2 == 1 && (zyx ? map.nu : map.nw) == nw - 1) return "bad half-l-odd: map has " + std::to_string(nw - 1) + " points along l, grid was built for " + std::to_string(nw);
    if (zyx) {
      if (map.nu != nw || map.nv != nv || map.nw != nu) return "bad map-size-zyx";
    } else if (map.nu != nu || map.nv != nv || map.nw != nw) return "bad map-size";
    // direct sum rho(x) = 1/V sum_k F(k) exp(-2 pi i k.x)
    double V = cell.volume;
    std::vector<double> rho((size_t) nu * nv * nw);
    double maxabs = 0;
    for (int iw = 0; iw < nw; ++iw)
      for (int iv = 0; iv < nv; ++iv)
        for (int iu = 0; iu < nu; ++iu) {
          double x = double(iu) / nu, y = double(iv) / nv, z = double(iw) / nw;
          cplx s = 0;
          for (const auto& kv : full) {
            double arg = -2 * PI * (kv.first[0] * x + kv.first[1] * y + kv.first[2] * z);
            s += kv.second * cplx(std::cos(arg), std::sin(arg));
          }
          double r = s.real() / V;
          rho[((size_t) iw * nv + iv) * nu + iu] = r;
          maxabs = std::max(maxabs, std::fabs(r));
          if (std::fabs(s.imag()) > 1e-6 * (1 + std::abs(s))) return "bad oracle-internal: sum not real";
        }
    if (cmd == "o_map") {
      for (int iw = 0; iw < nw; ++iw)
        for (int iv = 0; iv < nv; ++iv)
          for (int iu = 0; iu < nu; ++iu) {
            float got = zyx ? map.data[((size_t) iu * nv + iv) * nw + iw]
                            : map.data[((size_t) iw * nv + iv) * nu + iu];
            double want = rho[((size_t) iw * nv + iv) * nu + iu];
            if (!(std::fabs(got - want) <= 2e-4 * maxabs + 1e-7))
              return "bad map-value at " + std::to_string(iu) + "," + std::to_string(iv) + "," + std::to_string(iw) +
                     " got " + std::to_string(got) + " want " + std::to_string(want);
          }
      // invariance under the space group (exact grid mapping since the grid is compatible)
      if (!zyx)
        for (Op op : gops)
          for (int iw = 0; iw < nw; iw += 2)
            for (int iv = 0; iv < nv; iv += 3)
              for (int iu = 0; iu < nu; ++iu) {
                long tu = (long) op.rot[0][0] * iu * nv * nw + (long) op.rot[0][1] * iv * nu * nw + (long) op.rot[0][2] * iw * nu * nv;
                // compute in units of 1/(24*nu) etc. separately per axis to stay exact
                auto img = [&](int ax, int n) {
                  // coordinate = (rot[ax][0]*iu/nu + rot[ax][1]*iv/nv + rot[ax][2]*iw/nw + tran[ax]) / 24
                  double c = (op.rot[ax][0] * double(iu) / nu + op.rot[ax][1] * double(iv) / nv +
                              op.rot[ax][2] * double(iw) / nw + op.tran[ax]) / 24.0;
                  double g = c * n;
                  long r = std::lround(g);
                  if (std::fabs(g - r) > 1e-6) return -1L;
                  return ((r % n) + n) % n;
                };
                (void) tu;
                long ju = img(0, nu), jv = img(1, nv), jw = img(2, nw);
                if (ju < 0 || jv < 0 || jw < 0) return "bad grid-not-invariant (image off grid)";
                float a = map.data[((size_t) iw * nv + iv) * nu + iu];
                float b = map.data[((size_t) jw * nv + jv) * nu + ju];
                if (std::fabs(a - b) > 4e-4 * maxabs + 1e-7) return "bad map-not-invariant under " + op.triplet();
              }
      return "ok";
    }
    // o_sf: structure factors from the (exact, double -> float) map
    Grid<float> m2;
    m2.spacegroup = &sg;
    m2.unit_cell = cell;
    m2.set_size_without_checking(nu, nv, nw);
    for (size_t i = 0; i < rho.size(); ++i) m2.data[i] = (float) rho[i];
    FPhiGrid<float> g = transform_map_to_f_phi(m2, half);
    double maxF = 0;
    for (const auto& kv : full) maxF = std::max(maxF, std::abs(kv.second));
    // every held index: compare with (V/N) sum rho exp(+2 pi i h.x); since rho is the exact band-limited
    // sum, that equals F(k) for k in `full` and 0 elsewhere
    int mh = (nu - 1) / 2, mk = (nv - 1) / 2, ml = (nw - 1) / 2;
    for (int h = -mh; h <= mh; ++h)
      for (int k = -mk; k <= mk; ++k)
        for (int l = -ml; l <= ml; ++l) {
          Miller m = {{h, k, l}};
          std::complex<float> got = g.get_value_by_hkl(m);
          auto it = full.find(m);
          cplx want = it == full.end() ? cplx(0) : it->second;
          if (std::abs(cplx(got.real(), got.imag()) - want) > 3e-4 * maxF + 1e-6)
            return "bad sf-value at " + hs(m);
        }
    // prepare_asu_data agrees with get_value_by_hkl and lists exactly the ASU reflections
    AsuData<std::complex<float>> out = g.prepare_asu_data();
    ReciprocalAsu asu(&sg);
    size_t expect = 0;
    for (int h = -mh; h <= mh; ++h)
      for (int k = -mk; k <= mk; ++k)
        for (int l = half ? -(g.nw - 1) : -ml; l <= (half ? g.nw - 1 : ml); ++l) {
          Miller m = {{h, k, l}};
          if (asu.is_in(m) && !gops.is_systematically_absent(m) && !(h == 0 && k == 0 && l == 0)) ++expect;
        }
    if (out.v.size() != expect) return "bad prepare_asu_data count " + std::to_string(out.v.size()) + " vs " + std::to_string(expect);
    for (const auto& hv_ : out.v) {
      if (!asu.is_in(hv_.hkl)) return "bad prepare_asu_data not-in-asu " + hs(hv_.hkl);
      bool in_range = std::abs(hv_.hkl[2]) <= ml;
      if (!in_range) continue;
      std::complex<float> ref = g.get_value_by_hkl(hv_.hkl);
      if (std::abs(ref - hv_.value) > 1e-5f * (1 + std::abs(ref))) return "bad prepare_asu_data value " + hs(hv_.hkl);
    }
    // inverse: F -> map -> F
    Grid<float> m3 = transform_f_phi_grid_to_map(get_f_phi_on_grid<float>(out, size, half, AxisOrder::XYZ));
    for (size_t i = 0; i < rho.size(); ++i)
      if (std::fabs(m3.data[i] - rho[i]) > 5e-4 * maxabs + 1e-7) return "bad inverse-transform";
    return "ok";
  }
  if (cmd == "o_variants") {
    // half/full and XYZ/ZYX give the same map. args: row seed nu nv nw
    const SpaceGroup& sg = spacegroup_tables::main[to_ll(w.at(0))];
    Lcg rng((unsigned long long) to_ll(w.at(1)));
    std::array<int,3> size = {{(int) to_ll(w.at(2)), (int) to_ll(w.at(3)), (int) to_ll(w.at(4))}};
    GroupOps gops = sg.operations();
    check_grid_factors(&sg, size);
    int hmax = std::max(size[0], std::max(size[1], size[2])) / 2;
    std::vector<Miller> hkls = asu_list(sg, gops, size, hmax, rng, 0.7);
    if (hkls.empty()) return "skip";
    AsuData<std::complex<float>> ad;
    ad.spacegroup_ = &sg;
    ad.unit_cell_ = cell_for(sg);
    for (const Miller& h : hkls) {
      // symmetry-consistent values are not needed here: all four variants see the same input; but centric
      // reflections need restricted phases for the Friedel completion to be consistent: use truth instead
      ad.v.push_back({h, std::complex<float>()});
    }
    Truth t;
    for (int a = 0; a < 3; ++a) {
      std::array<double,3> x = {{rng.uni(), rng.uni(), rng.uni()}};
      for (Op op : gops) { t.pos.push_back(op.apply_to_xyz(x)); t.f.push_back(1 + a); }
    }
    for (auto& item : ad.v) { cplx F = t.F(item.hkl); item.value = std::complex<float>((float) F.real(), (float) F.imag()); }
    Grid<float> a = transform_f_phi_grid_to_map(get_f_phi_on_grid<float>(ad, size, true, AxisOrder::XYZ));
    Grid<float> b = transform_f_phi_grid_to_map(get_f_phi_on_grid<float>(ad, size, false, AxisOrder::XYZ));
    Grid<float> c = transform_f_phi_grid_to_map(get_f_phi_on_grid<float>(ad, size, true, AxisOrder::ZYX));
    Grid<float> d = transform_f_phi_grid_to_map(get_f_phi_on_grid<float>(ad, size, false, AxisOrder::ZYX));
    float mx = 0;
    for (float v : a.data) mx = std::max(mx, std::fabs(v));
    int nu = size[0], nv = size[1], nw = size[2];
    if (nw % 2 == 1 && a.nw == nw - 1 && c.nu == nw - 1) {
      // recorded finding C14-half-l-odd (see o_map); the full-grid maps of the two axis orders must still agree
      for (int iw = 0; iw < nw; ++iw) for (int iv = 0; iv < nv; ++iv) for (int iu = 0; iu < nu; ++iu) {
        size_t i1 = ((size_t) iw * nv + iv) * nu + iu, i2 = ((size_t) iu * nv + iv) * nw + iw;
        float mxx = 0; for (float x : b.data) mxx = std::max(mxx, std::fabs(x));
        if (std::fabs(b.data[i1] - d.data[i2]) > 3e-4f * mxx + 1e-7f) return "bad xyz-vs-zyx (full grids)";
      }
      return "bad half-l-odd: half-l maps have " + std::to_string(nw - 1) + " points along l, grids were built for " + std::to_string(nw);
    }
    for (int iw = 0; iw < nw; ++iw)
      for (int iv = 0; iv < nv; ++iv)
        for (int iu = 0; iu < nu; ++iu) {
          size_t i1 = ((size_t) iw * nv + iv) * nu + iu, i2 = ((size_t) iu * nv + iv) * nw + iw;
          if (std::fabs(a.data[i1] - b.data[i1]) > 3e-4f * mx + 1e-7f) return "bad half-vs-full";
          if (std::fabs(a.data[i1] - c.data[i2]) > 3e-4f * mx + 1e-7f) return "bad xyz-vs-zyx(half)";
          if (std::fabs(a.data[i1] - d.data[i2]) > 3e-4f * mx + 1e-7f) return "bad xyz-vs-zyx(full)";
        }
    return "ok";
  }
  return "UNKNOWN";
}

int main() { return hv::serve(handle); }
