// C18 part of the MTZ harness (MTZ -> SF-mmCIF -> MTZ); included by h_mtz.cpp
#pragma once
#include <string>
inline bool conv_handle(const std::string&, const std::string&, std::string&) { return false; }
