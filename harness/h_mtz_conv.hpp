// C18 part of the MTZ harness (MTZ -> SF-mmCIF -> MTZ); included by h_mtz.cpp
//   o_conv <conv-spec> : end-to-end oracle on gemmi (write_cif -> read_string -> as_refln_blocks -> convert_block_to_mtz)
//   rows   <conv-spec> : X <text of every item as printed by its format> H <hex of the loop body written by gemmi>
#pragma once
#include <string>
#include <sstream>
#include <set>
#include <map>
#include <cmath>
#include <cstdint>
#include <cstring>
#include <gemmi/mtz.hpp>
#include <gemmi/mtz2cif.hpp>
#include <gemmi/cif2mtz.hpp>
#include <gemmi/refln.hpp>
#include <gemmi/read_cif.hpp>
#include <gemmi/sprintf.hpp>
#include <gemmi/numb.hpp>
#include "hcommon.hpp"

namespace conv {

struct CRng {
  uint64_t s;
  explicit CRng(uint64_t seed) : s(seed * 2685821657736338717ULL + 88172645463325252ULL) {}
  uint32_t next() { s ^= s << 13; s ^= s >> 7; s ^= s << 17; return uint32_t(s >> 16); }
};

struct Case {
  gemmi::Mtz mtz;
  gemmi::MtzToCif m2c;
  std::vector<std::string> spec;   // the spec lines in force (custom or default)
};

inline float gen_value(CRng& r, int mode, char type) {
  uint32_t k = r.next();
  if (type == 'I')
    return float(k % 20);
  switch (mode) {
    case 0: return float((int(k % 2000001) - 1000000) / 100.);           // tame, 2 decimals
    case 1: return (k % 4 == 0) ? NAN : float((int(k % 200001) - 100000) / 1000.);
    case 2: {                                                              // finite extremes
      static const float ex[] = {1e38f, -1e38f, 3.4028235e38f, 1e30f, 1e28f, 1e-30f, 1.17549435e-38f, -1e-45f,
                                 123456.789f, 0.f, -0.f, 1e10f, 9.9999994e9f, 16777216.f, 1e21f, -1e25f};
      return ex[k % 16];
    }
    default: {
      float f;
      uint32_t b = r.next();
      if ((b & 0x7f800000u) == 0x7f800000u) b &= 0xbfffffffu;            // keep it finite
      std::memcpy(&f, &b, 4);
      return (k % 5 == 0) ? NAN : f;
    }
  }
}

// conv-spec: skip_empty trim less_anom free_flag nrefl seed valmode ncols {hexlabel type}* nspec {hexline}*
inline void build(const std::string& args, Case& c) {
  std::vector<std::string> w = hv::words(args);
  size_t i = 0;
  auto nx = [&]() -> const std::string& { if (i >= w.size()) throw std::runtime_error("tok"); return w[i++]; };
  c.m2c.skip_empty = hv::to_ll(nx()) != 0;
  c.m2c.trim = (int) hv::to_ll(nx());
  c.m2c.less_anomalous = (int) hv::to_ll(nx());
  c.m2c.free_flag_value = (int) hv::to_ll(nx());
  int nrefl = (int) hv::to_ll(nx());
  uint64_t seed = (uint64_t) hv::to_ll(nx());
  int mode = (int) hv::to_ll(nx());
  gemmi::Mtz& m = c.mtz;
  m.title = "conv";
  m.set_spacegroup(gemmi::find_spacegroup_by_name("P 21 21 21"));
  m.cell.set(50.25, 60.5, 70.125, 90, 90, 90);
  m.add_base();
  m.datasets[0].cell = m.cell;
  gemmi::Mtz::Dataset& ds = m.add_dataset("ds1");
  ds.wavelength = 0.9795;
  int ncols = (int) hv::to_ll(nx());
  for (int k = 0; k < ncols; ++k) {
    std::string label = hv::hex_decode(nx());
    char type = (char) hv::to_ll(nx());
    m.add_column(label, type, 1, -1, false);
  }
  int nspec = (int) hv::to_ll(nx());
  for (int k = 0; k < nspec; ++k)
    c.m2c.spec_lines.push_back(hv::hex_decode(nx()));
  if (nspec == 0) {
    for (const char** l = gemmi::MtzToCif::default_spec(true); *l; ++l) c.spec.push_back(*l);
  } else {
    c.spec = c.m2c.spec_lines;
  }
  if (i < w.size()) {   // space group by table row, with a cell its crystal system allows
    long long row = hv::to_ll(nx());
    if (row < 0) {        // -k: the k-th tabulated setting with a rhombohedral lattice (R ...:H and R ...:R)
      long long k = -row, n = 0;
      row = 0;
      for (const gemmi::SpaceGroup& g : gemmi::spacegroup_tables::main)
        if (g.hm[0] == 'R' && ++n == k) { row = &g - gemmi::spacegroup_tables::main; break; }
    }
    const gemmi::SpaceGroup& sg = gemmi::spacegroup_tables::main[row];
    m.set_spacegroup(&sg);
    switch (sg.crystal_system()) {
      case gemmi::CrystalSystem::Triclinic: m.cell.set(50.25, 60.5, 70.125, 81, 97, 103); break;
      case gemmi::CrystalSystem::Monoclinic:
        switch (sg.monoclinic_unique_axis()) {
          case 'a': m.cell.set(50.25, 60.5, 70.125, 101, 90, 90); break;
          case 'c': m.cell.set(50.25, 60.5, 70.125, 90, 90, 101); break;
          default: m.cell.set(50.25, 60.5, 70.125, 90, 101, 90);
        }
        break;
      case gemmi::CrystalSystem::Orthorhombic: break;
      case gemmi::CrystalSystem::Tetragonal: m.cell.set(60.5, 60.5, 70.125, 90, 90, 90); break;
      case gemmi::CrystalSystem::Trigonal:
        if (sg.ext == 'R') { m.cell.set(60.5, 60.5, 60.5, 75.5, 75.5, 75.5); break; }
        // fall through
      case gemmi::CrystalSystem::Hexagonal: m.cell.set(60.5, 60.5, 70.125, 90, 90, 120); break;
      case gemmi::CrystalSystem::Cubic: m.cell.set(60.5, 60.5, 60.5, 90, 90, 90); break;
    }
    m.cell.set_cell_images_from_spacegroup(&sg);
    for (gemmi::Mtz::Dataset& d : m.datasets) d.cell = m.cell;
  }
  CRng r(seed);
  size_t nc = m.columns.size();
  m.nreflections = nrefl;
  m.data.resize(nc * nrefl);
  for (int n = 0; n < nrefl; ++n) {
    m.data[n * nc + 0] = float(n % 9);
    m.data[n * nc + 1] = float((n / 9) % 9);
    m.data[n * nc + 2] = float(n / 81 + 1);
    for (size_t j = 3; j < nc; ++j)
      m.data[n * nc + j] = gen_value(r, mode, m.columns[j].type);
  }
  c.m2c.with_history = false;
}

inline std::string fmt1(const std::string& f, float v) {
  char b[512];
  int n = gemmi::snprintf_z(b, 512, f.c_str(), v);
  return std::string(b, std::min(n, 511));
}

inline uint32_t bits(float f) { uint32_t b; std::memcpy(&b, &f, 4); return b; }

// label -> tag pairs announced by the writer in its "# __ dataset / LABEL -> tag" comments
inline std::vector<std::pair<std::string, std::string>> announced(const std::string& text) {
  std::vector<std::pair<std::string, std::string>> r;
  std::istringstream is(text);
  std::string line;
  while (std::getline(is, line))
    if (line.compare(0, 5, "# __ ") == 0) {
      size_t a = line.find(" / "), b = line.rfind(" -> ");
      if (a != std::string::npos && b != std::string::npos && b > a)
        r.emplace_back(line.substr(a + 3, b - a - 3), line.substr(b + 4));
    }
  return r;
}

// format of a tag according to the spec lines in force ("%g" when none)
inline std::string format_of(const Case& c, const std::string& tag, bool* is_status) {
  *is_status = false;
  for (const std::string& l : c.spec) {
    std::vector<std::string> w = hv::words(l);
    if (!w.empty() && (w[0] == "?" || w[0] == "&")) w.erase(w.begin());
    if (w.size() >= 3 && w[2] == tag) {
      if (w.size() >= 4) {
        if (w[3] == "S") { *is_status = true; return ""; }
        std::string f = "%" + w[3];
        if (f[1] == '_') f[1] = ' ';
        return f;
      }
      return "%g";
    }
  }
  return "%g";
}

inline std::string o_conv(const std::string& args) {
  Case c;
  build(args, c);
  const gemmi::Mtz& m = c.mtz;
  // the mmCIF carries the PDB-style Hermann-Mauguin name: settings it cannot tell apart are outside the property
  if (gemmi::find_spacegroup_by_name(m.spacegroup->pdb_name(), m.cell.alpha, m.cell.gamma) != m.spacegroup) return "skip";
  std::ostringstream os;
  try {
    c.m2c.write_cif(m, nullptr, nullptr, os);
  } catch (std::runtime_error& e) {
    return "skip";     // the spec does not apply to this file (column not found, wrong type, bad format)
  }
  std::string text = os.str();
  if (text.find('\0') != std::string::npos) return "NUL byte in the mmCIF text";
  gemmi::cif::Document doc;
  try {
    doc = gemmi::cif::read_string(text);
  } catch (std::runtime_error& e) {
    return std::string("mmCIF does not parse: ") + e.what();
  }
  auto ann = announced(text);
  // the source column of each announced tag, decided here from the spec alone: of the alternatives 'A|B|C' of the
  // spec line, the first one IN SPEC ORDER that is a label of the file ('{prev}' is the label of the line before)
  for (size_t i = 0; i < ann.size(); ++i)
    for (const std::string& l : c.spec) {
      std::vector<std::string> w = hv::words(l);
      if (!w.empty() && (w[0] == "?" || w[0] == "&")) w.erase(w.begin());
      if (w.size() < 3 || w[2] != ann[i].second) continue;
      std::string alts = w[0];
      size_t pp = alts.find("{prev}");
      if (pp != std::string::npos) {
        if (i == 0) break;
        alts.replace(pp, 6, ann[i-1].first);
      }
      if (alts.find('{') != std::string::npos) break;
      std::string want;
      size_t from = 0;
      while (want.empty() && from <= alts.size()) {
        size_t bar = alts.find('|', from);
        std::string alt = alts.substr(from, bar == std::string::npos ? std::string::npos : bar - from);
        for (const gemmi::Mtz::Column& col : m.columns)
          if (col.label == alt) { want = alt; break; }
        if (bar == std::string::npos) break;
        from = bar + 1;
      }
      if (want != ann[i].first)
        return "tag " + ann[i].second + " is written from column " + ann[i].first + ", the spec '" + w[0] +
               "' selects " + (want.empty() ? std::string("none") : want);
      break;
    }
  std::vector<gemmi::ReflnBlock> rbs = gemmi::as_refln_blocks(std::move(doc.blocks));
  if (rbs.empty() || !rbs[0].refln_loop) return "no refln loop";
  gemmi::ReflnBlock& rb = rbs[0];
  gemmi::cif::Loop& loop = *rb.refln_loop;
  if (!rb.is_unmerged() && !loop.tags.empty() && loop.tags[0].compare(0, 7, "_refln.") == 0) {
    // get_refln_block(): the same block is found by its labels (all labels of the loop) and by name; a label the
    // loop does not have is refused
    std::vector<std::string> labels;
    for (const std::string& t : loop.tags) labels.push_back(t.substr(7));
    gemmi::cif::Document d2 = gemmi::cif::read_string(text);
    gemmi::ReflnBlock g = gemmi::get_refln_block(std::move(d2.blocks), labels, rb.block.name.c_str());
    if (!g.ok() || g.block.name != rb.block.name) return "get_refln_block: wrong block";
    if (!g.default_loop || g.default_loop->tags != loop.tags || g.default_loop->values != loop.values)
      return "get_refln_block: reflection loop differs from as_refln_blocks";
    if (g.spacegroup != rb.spacegroup) return "get_refln_block: space group differs";
    if (g.cell.a != rb.cell.a || g.cell.b != rb.cell.b || g.cell.c != rb.cell.c || g.cell.alpha != rb.cell.alpha ||
        g.cell.beta != rb.cell.beta || g.cell.gamma != rb.cell.gamma) return "get_refln_block: cell differs";
    labels.push_back("no_such_label_");
    gemmi::cif::Document d3 = gemmi::cif::read_string(text);
    bool threw = false;
    try { gemmi::get_refln_block(std::move(d3.blocks), labels); } catch (std::exception&) { threw = true; }
    if (!threw) return "get_refln_block: accepts a label the loop does not have";
  }
  // expected rows
  size_t nc = m.columns.size();
  std::vector<int> src;   // column index per loop column (-1 for $. $?)
  std::vector<std::string> tags;
  for (const std::string& t : loop.tags) tags.push_back(t.substr(7));
  size_t ai = 0;
  for (const std::string& t : tags) {
    if (ai < ann.size() && ann[ai].second == t) {
      const gemmi::Mtz::Column* col = m.column_with_label(ann[ai].first);
      if (!col) return "announced label not in the file";
      src.push_back((int) col->idx);
      ++ai;
    } else {
      src.push_back(-1);
    }
  }
  if (ai != ann.size()) return "loop tags differ from the announced mapping";
  if (loop.values.size() % loop.tags.size() != 0) return "loop is not rectangular";
  std::vector<int> rows;
  for (int n = 0; n < m.nreflections; ++n) {
    const float* row = &m.data[n * nc];
    if (c.m2c.trim > 0) {
      bool out = false;
      for (int k = 0; k < 3; ++k) if (row[k] < -c.m2c.trim || row[k] > c.m2c.trim) out = true;
      if (out) continue;
    }
    if (c.m2c.skip_empty) {
      bool any = false, all_nan = true;
      for (int s : src)
        if (s >= 0 && m.columns[s].type != 'H' && m.columns[s].type != 'I') {
          any = true;
          if (!std::isnan(row[s])) all_nan = false;
        }
      if (any && all_nan) continue;
    }
    rows.push_back(n);
  }
  if (loop.length() != rows.size())
    return "rows: " + std::to_string(loop.length()) + " expected " + std::to_string(rows.size());
  // free flag rule
  int free_flag = c.m2c.free_flag_value;
  int status_src = -1;
  std::vector<int> sigma_src;
  for (size_t j = 0; j < tags.size(); ++j) {
    bool st;
    format_of(c, tags[j], &st);
    if (st) status_src = src[j];
    if (src[j] >= 0) {
      char ty = m.columns[src[j]].type;
      if (ty == 'Q' || ty == 'L' || ty == 'M') sigma_src.push_back(src[j]);
    }
  }
  if (free_flag < 0 && status_src >= 0) {
    int count = 0;
    for (int n = 0; n < m.nreflections; ++n) if (m.data[n * nc + status_src] == 0.f) ++count;
    free_flag = count < m.nreflections / 2 ? 0 : 1;
  }
  // expected value of every item after the text round trip
  std::vector<std::vector<float>> expect(tags.size());
  std::vector<std::vector<char>> kind(tags.size());   // 'v' value, 'n' missing, 'f'/'o'/'x' status, '-' not compared
  for (size_t j = 0; j < tags.size(); ++j) {
    bool st;
    std::string f = format_of(c, tags[j], &st);
    for (size_t r = 0; r < rows.size(); ++r) {
      const std::string& cell = loop.val(r, j);
      if (src[j] < 0) { kind[j].push_back('-'); expect[j].push_back(0); continue; }
      float v = m.data[rows[r] * nc + src[j]];
      if (st) {
        bool x = !sigma_src.empty();
        for (int s : sigma_src) if (!std::isnan(m.data[rows[r] * nc + s])) x = false;
        char k = x ? 'x' : (int(v) == free_flag ? 'f' : 'o');
        if (cell.size() != 1 || cell[0] != k)
          return "status of row " + std::to_string(r) + " is " + cell + " expected " + std::string(1, k);
        kind[j].push_back(k); expect[j].push_back(k == 'f' ? 0.f : 1.f);
      } else if (std::isnan(v)) {
        if (cell != "?") return "missing value of " + tags[j] + " row " + std::to_string(r) + " printed as " + cell;
        kind[j].push_back('n'); expect[j].push_back(NAN);
      } else {
        std::string t = fmt1(f, v);
        size_t a = t.find_first_not_of(' ');
        t = t.substr(a == std::string::npos ? 0 : a);
        t.erase(t.find_last_not_of(' ') + 1);
        if (cell != t)
          return "value of " + tags[j] + " row " + std::to_string(r) + " is [" + hv::hex_encode(cell) + "] expected [" + hv::hex_encode(t) + "]";
        float e = (float) std::strtod(t.c_str(), nullptr);
        // to the precision of the printed format: re-reading the text is the reference
        kind[j].push_back('v'); expect[j].push_back(e);
      }
    }
  }
  // back to MTZ
  {
    bool any_data = false;
    for (int sidx : src) if (sidx >= 0 && m.columns[sidx].type != 'H') any_data = true;
    if (!any_data) return "skip";    // convert_block_to_mtz refuses a block without data columns
  }
  gemmi::CifToMtz c2m;
  gemmi::Logger logger;
  gemmi::Mtz m2 = c2m.convert_block_to_mtz(rb, logger);
  if ((size_t) m2.nreflections != rows.size()) return "converted nreflections";
  if (m2.spacegroup != m.spacegroup) return "converted space group";
  double cp[6] = {m.cell.a, m.cell.b, m.cell.c, m.cell.alpha, m.cell.beta, m.cell.gamma};
  double cq[6] = {m2.cell.a, m2.cell.b, m2.cell.c, m2.cell.alpha, m2.cell.beta, m2.cell.gamma};
  for (int k = 0; k < 6; ++k) if (std::fabs(cp[k] - cq[k]) > 1e-4 * cp[k]) return "converted cell";
  size_t nc2 = m2.columns.size();
  for (size_t r = 0; r < rows.size(); ++r)
    for (int k = 0; k < 3; ++k)
      if (m2.data[r * nc2 + k] != m.data[rows[r] * nc + k])
        return "hkl of row " + std::to_string(r);
  std::vector<gemmi::CifToMtz::Entry> entries;
  for (const char** l = gemmi::CifToMtz::default_spec(true); *l; ++l) entries.emplace_back(*l);
  for (size_t j = 0; j < tags.size(); ++j) {
    if (src[j] < 0 || m.columns[src[j]].type == 'H') continue;
    const gemmi::CifToMtz::Entry* en = nullptr;
    for (const auto& e : entries) if (e.refln_tag == tags[j]) { en = &e; break; }
    if (!en) return "tag " + tags[j] + " is not in the CIF->MTZ specification";
    const gemmi::Mtz::Column* col = m2.column_with_label(en->col_label);
    if (!col) return "column " + en->col_label + " missing after conversion";
    if (col->type != m.columns[src[j]].type) return "type of " + en->col_label + " changed";
    for (size_t r = 0; r < rows.size(); ++r) {
      float got = m2.data[r * nc2 + col->idx];
      char k = kind[j][r];
      if (k == 'x' || k == '-') continue;
      float e = expect[j][r];
      if (std::isnan(e) ? !std::isnan(got) : bits(got) != bits(e) && !(got == e))
        return "value of " + en->col_label + " row " + std::to_string(r) + " = " + std::to_string(got) +
               " expected " + std::to_string(e);
    }
  }
  return "ok";
}

// the row formatter seen from outside: text of every item + the loop body
inline std::string rows_cmd(const std::string& args) {
  Case c;
  build(args, c);
  const gemmi::Mtz& m = c.mtz;
  std::ostringstream os;
  c.m2c.write_cif(m, nullptr, nullptr, os);
  std::string text = os.str();
  auto ann = announced(text);
  size_t lp = text.find("\nloop_\n_refln.");
  if (lp == std::string::npos) return "no loop";
  size_t p = lp + 7;
  std::vector<std::string> tags;
  while (text.compare(p, 7, "_refln.") == 0) {
    size_t e = text.find('\n', p);
    tags.push_back(text.substr(p + 7, e - p - 7));
    p = e + 1;
  }
  std::string body = text.substr(p);
  size_t endp = body.rfind("\n#");   // nothing follows the loop in merged output except the final newline(s)
  std::string out = "X " + std::to_string(tags.size()) + " " + std::to_string(m.nreflections);
  size_t nc = m.columns.size();
  size_t ai = 0;
  std::vector<int> src;
  for (const std::string& t : tags) {
    if (ai < ann.size() && ann[ai].second == t) { src.push_back((int) m.column_with_label(ann[ai].first)->idx); ++ai; }
    else src.push_back(-1);
  }
  // item kinds: N <minwidth> (missing), T <hex text> (number), S (status, text taken from output is not predicted here)
  for (int n = 0; n < m.nreflections; ++n)
    for (size_t j = 0; j < tags.size(); ++j) {
      bool st;
      std::string f = format_of(c, tags[j], &st);
      if (src[j] < 0 || st) return "unsupported item";
      float v = m.data[n * nc + src[j]];
      if (std::isnan(v)) {
        int mw = 0;
        const char* q = f.c_str() + 1;
        if (*q == ' ' || *q == '+' || *q == '-' || *q == '#') ++q;
        while (*q >= '0' && *q <= '9') mw = mw * 10 + (*q++ - '0');
        out += " N" + std::to_string(mw);
      } else {
        out += " T" + hv::hex_encode(fmt1(f, v));
      }
    }
  (void) endp;
  return out + " H " + hv::hex_encode(body);
}

}  // namespace conv

namespace conv {
// o_unm nsweeps nframes nrefl seed two_datasets : unmerged MTZ -> SF-mmCIF (_diffrn_refln) -> unmerged MTZ
inline std::string o_unm(const std::string& args) {
  std::vector<std::string> w = hv::words(args);
  int nsweeps = (int) hv::to_ll(w.at(0)), nframes = (int) hv::to_ll(w.at(1)), nrefl = (int) hv::to_ll(w.at(2));
  CRng r((uint64_t) hv::to_ll(w.at(3)));
  bool two_ds = hv::to_ll(w.at(4)) != 0;
  gemmi::Mtz m;
  m.title = "unm";
  m.set_spacegroup(gemmi::find_spacegroup_by_name("P 21 21 21"));
  m.cell.set(50.25, 60.5, 70.125, 90, 90, 90);
  m.cell.set_cell_images_from_spacegroup(m.spacegroup);
  m.add_base();
  m.datasets[0].cell = m.cell;
  m.add_dataset("xtal1").wavelength = 0.9795;
  if (two_ds) m.add_dataset("xtal2").wavelength = 1.5418;
  m.add_column("M/ISYM", 'Y', 0, -1, false);
  m.add_column("BATCH", 'B', 0, -1, false);
  m.add_column("I", 'J', 1, -1, false);
  m.add_column("SIGI", 'Q', 1, -1, false);
  std::vector<int> numbers;
  for (int s = 0; s < nsweeps; ++s)
    for (int f = 1; f <= nframes; ++f) {
      m.batches.emplace_back();
      gemmi::Mtz::Batch& b = m.batches.back();
      b.number = 100 * (s + 1) + f + (s == 2 ? 1300 : 0);    // a gap starts a new sweep; the third sweep far away
      b.title = "b";
      b.set_dataset_id(two_ds && s % 2 ? 2 : 1);
      b.set_cell(m.cell);
      b.set_wavelength(two_ds && s % 2 ? 1.5418f : 0.9795f);
      numbers.push_back(b.number);
    }
  size_t nc = m.columns.size();
  m.nreflections = nrefl;
  m.data.resize(nc * nrefl);
  for (int n = 0; n < nrefl; ++n) {
    float* row = &m.data[n * nc];
    // indices inside the P 21 21 21 ASU (h,k,l >= 0), ISYM 1, full reflections
    row[0] = float(r.next() % 9); row[1] = float(r.next() % 9); row[2] = float(1 + r.next() % 9);
    row[3] = 1.f;
    row[4] = (float) numbers[r.next() % numbers.size()];
    row[5] = float(int(r.next() % 200001) - 1000) / 4.f;
    row[6] = float(1 + r.next() % 4000) / 8.f;
  }
  gemmi::MtzToCif m2c;
  m2c.with_history = false;
  std::ostringstream os;
  try { m2c.write_cif(m, nullptr, nullptr, os); } catch (std::exception& e) { return std::string("write_cif throws: ") + e.what(); }
  std::string text = os.str();
  gemmi::cif::Document doc;
  try { doc = gemmi::cif::read_string(text); } catch (std::exception& e) { return std::string("mmCIF does not parse: ") + e.what(); }
  std::vector<gemmi::ReflnBlock> rbs = gemmi::as_refln_blocks(std::move(doc.blocks));
  if (rbs.empty() || !rbs[0].diffrn_refln_loop) return "no diffrn_refln loop";
  if (rbs[0].diffrn_refln_loop->length() != (size_t) nrefl) return "diffrn_refln loop does not have one row per reflection";
  gemmi::CifToMtz c2m;
  gemmi::Logger logger; logger.threshold = 0;
  gemmi::Mtz m2;
  try { m2 = c2m.convert_block_to_mtz(rbs[0], logger); } catch (std::exception& e) { return std::string("convert_block_to_mtz throws: ") + e.what(); }
  if (m2.nreflections != nrefl) return "number of reflections changed";
  if (m2.batches.empty()) return "converted file is not unmerged";
  if (m2.spacegroup != m.spacegroup) return "converted space group";
  const gemmi::Mtz::Column* ci = m2.column_with_label("I");
  const gemmi::Mtz::Column* cs = m2.column_with_label("SIGI");
  const gemmi::Mtz::Column* cb = m2.column_with_label("BATCH");
  const gemmi::Mtz::Column* cy = m2.column_with_label("M/ISYM");
  if (!ci || !cs || !cb || !cy) return "converted file lacks I/SIGI/BATCH/M/ISYM";
  size_t nc2 = m2.columns.size();
  std::map<int, int> fwd, back;
  std::set<int> header_numbers;
  for (const gemmi::Mtz::Batch& b : m2.batches)
    if (!header_numbers.insert(b.number).second) return "duplicate batch number " + std::to_string(b.number) + " in the converted file";
  for (int n = 0; n < nrefl; ++n) {
    const float* a = &m.data[n * nc];
    const float* b = &m2.data[n * nc2];
    if (a[0] != b[0] || a[1] != b[1] || a[2] != b[2]) return "Miller index of row " + std::to_string(n) + " changed";
    if ((int) b[cy->idx] % 256 != 1) return "M/ISYM of row " + std::to_string(n) + " changed";
    if (std::fabs(a[5] - b[ci->idx]) > 2e-4f * (1 + std::fabs(a[5]))) return "I of row " + std::to_string(n) + " changed";
    if (std::fabs(a[6] - b[cs->idx]) > 2e-4f * (1 + std::fabs(a[6]))) return "SIGI of row " + std::to_string(n) + " changed";
    int ob = (int) a[4], nb = (int) b[cb->idx];
    if (!header_numbers.count(nb)) return "BATCH " + std::to_string(nb) + " has no batch header";
    auto f = fwd.emplace(ob, nb);
    if (f.first->second != nb) return "one batch maps to two batch numbers";
    auto g = back.emplace(nb, ob);
    if (g.first->second != ob) return "two batches (" + std::to_string(g.first->second) + ", " + std::to_string(ob) +
                                      ") map to the same batch number " + std::to_string(nb);
  }
  // frames of one sweep keep their spacing
  for (const auto& p : fwd)
    for (const auto& q : fwd)
      if (p.first / 100 == q.first / 100 && p.first - q.first != p.second - q.second)
        return "frames of one sweep changed their spacing";
  return "ok";
}
}  // namespace conv

namespace conv {
// recipe <conv-spec>: what prepare_recipe decided, as far as the written file shows it: FAIL (write_cif threw a
// runtime_error: for a merged file only the specification can make it fail), or
//   R <hex tag>,... A <hex label>:<hex tag>,...     (tags of the loop; "label -> tag" announcements, in order)
inline std::string recipe_cmd(const std::string& args) {
  Case c;
  build(args, c);
  std::ostringstream os;
  try {
    c.m2c.write_cif(c.mtz, nullptr, nullptr, os);
  } catch (std::runtime_error&) {
    return "FAIL";
  }
  std::string text = os.str();
  auto ann = announced(text);
  size_t lp = text.find("\nloop_\n_refln.");
  if (lp == std::string::npos) return "no loop";
  size_t p = lp + 7;
  std::string out = "R ";
  bool first = true;
  while (text.compare(p, 7, "_refln.") == 0) {
    size_t e = text.find('\n', p);
    out += (first ? "" : ",") + hv::hex_encode(text.substr(p + 7, e - p - 7));
    first = false;
    p = e + 1;
  }
  out += " A ";
  if (ann.empty()) out += "none";
  first = true;
  for (const auto& a : ann) {
    out += (first ? "" : ",") + hv::hex_encode(a.first) + ":" + hv::hex_encode(a.second);
    first = false;
  }
  return out;
}
}  // namespace conv

inline bool conv_handle(const std::string& cmd, const std::string& args, std::string& r) {
  if (cmd == "o_unm") { r = conv::o_unm(args); return true; }
  if (cmd == "o_conv") { r = conv::o_conv(args); return true; }
  if (cmd == "rows") { r = conv::rows_cmd(args); return true; }
  if (cmd == "recipe") { r = conv::recipe_cmd(args); return true; }
  return false;
}
