// Correspondence harness for the symmetry family (C04, C05, C10): applies gemmi functions
// from /repo's working tree to inputs given on stdin.
#include "hcommon.hpp"
#include <gemmi/symmetry.hpp>
#include <cmath>
using namespace gemmi;
using hv::words; using hv::to_ll;

static Op read_op(const std::vector<std::string>& w, size_t at) {
  Op op;
  for (int i = 0; i < 3; ++i)
    for (int j = 0; j < 3; ++j)
      op.rot[i][j] = (int) to_ll(w.at(at + 3 * i + j));
  for (int i = 0; i < 3; ++i)
    op.tran[i] = (int) to_ll(w.at(at + 9 + i));
  op.notation = (char) to_ll(w.at(at + 12));
  return op;
}
static std::string op_str(const Op& op) {
  std::string s;
  for (int i = 0; i < 3; ++i)
    for (int j = 0; j < 3; ++j)
      s += std::to_string(op.rot[i][j]) + " ";
  for (int i = 0; i < 3; ++i)
    s += std::to_string(op.tran[i]) + " ";
  s += std::to_string((int)(unsigned char)op.notation);
  return s;
}
static std::string gops_str(const GroupOps& g) {
  std::string s = "S " + std::to_string(g.sym_ops.size());
  for (const Op& op : g.sym_ops) s += " " + op_str(op);
  s += " C " + std::to_string(g.cen_ops.size());
  for (const Op::Tran& t : g.cen_ops)
    s += " " + std::to_string(t[0]) + " " + std::to_string(t[1]) + " " + std::to_string(t[2]);
  return s;
}
static std::string idx_str(const SpaceGroup* sg) {
  return sg ? std::to_string(sg - spacegroup_tables::main) : std::string("-1");
}

static std::string asu_line(const SpaceGroup& sg, const GroupOps& gops, bool tnt, Op::Miller hkl) {
  ReciprocalAsu asu(&sg, tnt);
  std::string s = asu.is_in(hkl) ? "1" : "0";
  try {
    auto r = asu.to_asu(hkl, gops);
    s += " A " + std::to_string(r.first[0]) + " " + std::to_string(r.first[1]) + " " +
         std::to_string(r.first[2]) + " " + std::to_string(r.second);
  } catch (std::exception&) { s += " A EXC"; }
  try {
    auto r = asu.to_asu_sign(hkl, gops);
    s += " G " + std::to_string(r.first[0]) + " " + std::to_string(r.first[1]) + " " +
         std::to_string(r.first[2]) + " " + (r.second ? "1" : "0");
  } catch (std::exception&) { s += " G EXC"; }
  s += " P " + std::to_string((int)gops.is_systematically_absent(hkl)) + " " +
       std::to_string((int)gops.is_reflection_centric(hkl)) + " " +
       std::to_string(gops.epsilon_factor(hkl)) + " " +
       std::to_string(gops.epsilon_factor_without_centering(hkl));
  return s;
}

static std::string handle(const std::string& cmd, const std::string& args) {
  std::vector<std::string> w = words(args);
  if (cmd == "mul") return op_str(read_op(w, 0) * read_op(w, 13));
  if (cmd == "combine") return op_str(read_op(w, 0).combine(read_op(w, 13)));
  if (cmd == "inverse") return op_str(read_op(w, 0).inverse());
  if (cmd == "rottype") return std::to_string(read_op(w, 0).rot_type());
  if (cmd == "triplet") {
    return hv::hex_encode(read_op(w, 0).triplet((char) to_ll(w.at(13))));
  }
  if (cmd == "parse") return op_str(parse_triplet(hv::hex_decode(w.at(0)), (char) to_ll(w.at(1))));
  if (cmd == "hklops") {
    Op op = read_op(w, 0);
    Op::Miller h = {{(int) to_ll(w.at(13)), (int) to_ll(w.at(14)), (int) to_ll(w.at(15))}};
    Op::Miller a = op.apply_to_hkl(h), b = op.apply_to_hkl_without_division(h);
    const double mult = -2 * 3.1415926535897932384626433832795 / Op::DEN;
    double ps = op.phase_shift(h);
    long long num = std::llround(ps / mult);
    bool ok = std::fabs(ps - mult * num) <= 1e-9 * (1 + std::fabs(ps));
    return std::to_string(a[0]) + " " + std::to_string(a[1]) + " " + std::to_string(a[2]) + " " +
           std::to_string(b[0]) + " " + std::to_string(b[1]) + " " + std::to_string(b[2]) + " " +
           std::to_string(num) + (ok ? " ok" : " bad");
  }
  if (cmd == "xyz") {  // apply_to_xyz on rational coordinates x/d
    Op op = read_op(w, 0);
    long long x = to_ll(w.at(13)), y = to_ll(w.at(14)), z = to_ll(w.at(15)), d = to_ll(w.at(16));
    auto out = op.apply_to_xyz({{double(x) / d, double(y) / d, double(z) / d}});
    std::string s;
    bool ok = true;
    for (int i = 0; i < 3; ++i) {
      double v = out[i] * Op::DEN * d;
      long long r = std::llround(v);
      if (std::fabs(v - r) > 1e-6 * (1 + std::fabs(v))) ok = false;
      s += std::to_string(r) + " ";
    }
    return s + (ok ? "ok" : "bad");
  }
  if (cmd == "seitz") {
    Op op = read_op(w, 0);
    return op_str(seitz_to_op(op.float_seitz()));
  }
  if (cmd == "hall") return gops_str(symops_from_hall(hv::hex_decode(w.at(0)).c_str()));
  if (cmd == "gens") return gops_str(generators_from_hall(hv::hex_decode(w.at(0)).c_str()));
  if (cmd == "row") return gops_str(spacegroup_tables::main[to_ll(w.at(0))].operations());
  if (cmd == "sorted") {
    std::vector<Op> ops = spacegroup_tables::main[to_ll(w.at(0))].operations().all_ops_sorted();
    std::string s = std::to_string(ops.size());
    for (const Op& op : ops) s += " " + op_str(op);
    return s;
  }
  if (cmd == "rowinfo") {
    const SpaceGroup& sg = spacegroup_tables::main[to_ll(w.at(0))];
    GroupOps g = sg.operations();
    std::string s;
    s += std::to_string((int) sg.point_group()) + " " + std::to_string((int) sg.laue_class()) + " " +
         std::to_string((int) sg.crystal_system()) + " " + std::to_string((int) sg.is_sohncke()) + " " +
         std::to_string((int) sg.is_enantiomorphic()) + " " + std::to_string((int) sg.is_symmorphic()) + " " +
         std::to_string((int) sg.is_centrosymmetric()) + " " +
         std::to_string((int)(unsigned char) sg.centring_type()) + " " +
         std::to_string((int)(unsigned char) g.find_centering()) + " " + std::to_string(g.order()) + " " +
         std::to_string((int) sg.is_reference_setting()) + " " +
         std::to_string((int) g.is_centrosymmetric()) + " B " + op_str(sg.basisop()) +
         " H " + op_str(sg.change_of_hand_op()) + " X " + hv::hex_encode(sg.xhm()) +
         " N " + hv::hex_encode(sg.short_name());
    return s;
  }
  if (cmd == "byname") {
    std::string name = hv::hex_decode(w.at(0));
    int hint = (int) to_ll(w.at(1));
    std::string prefer = w.at(2) == "null" ? "" : hv::hex_decode(w.at(2));
    double alpha = hint == 0 ? 0. : 90., gamma = hint == 1 ? 90. : 120.;
    return idx_str(find_spacegroup_by_name(name, alpha, gamma, w.at(2) == "null" ? nullptr : prefer.c_str()));
  }
  if (cmd == "bynum") return idx_str(find_spacegroup_by_number((int) to_ll(w.at(0))));
  if (cmd == "byops") return idx_str(find_spacegroup_by_ops(spacegroup_tables::main[to_ll(w.at(0))].operations()));
  if (cmd == "byhall") return idx_str(find_spacegroup_by_ops(symops_from_hall(hv::hex_decode(w.at(0)).c_str())));
  if (cmd == "asu") {
    const SpaceGroup& sg = spacegroup_tables::main[to_ll(w.at(0))];
    GroupOps g = sg.operations();
    return asu_line(sg, g, to_ll(w.at(1)) != 0,
                    {{(int) to_ll(w.at(2)), (int) to_ll(w.at(3)), (int) to_ll(w.at(4))}});
  }
  if (cmd == "asucube") {  // bulk: row tnt N  -> one "asu" line per hkl
    long long row = to_ll(w.at(0)); bool tnt = to_ll(w.at(1)) != 0; int N = (int) to_ll(w.at(2));
    const SpaceGroup& sg = spacegroup_tables::main[row];
    GroupOps g = sg.operations();
    for (int h = -N; h <= N; ++h)
      for (int k = -N; k <= N; ++k)
        for (int l = -N; l <= N; ++l) {
          std::cout << "asu\t" << row << ' ' << (int) tnt << ' ' << h << ' ' << k << ' ' << l << '\t'
                    << asu_line(sg, g, tnt, {{h, k, l}}) << '\n';
        }
    return "";
  }
  if (cmd == "orbit") {
    // property oracle evaluated on the implementation: number of orbit members (incl. Friedel) inside the ASU
    long long row = to_ll(w.at(0)); bool tnt = to_ll(w.at(1)) != 0; int N = (int) to_ll(w.at(2));
    const SpaceGroup& sg = spacegroup_tables::main[row];
    GroupOps g = sg.operations();
    ReciprocalAsu asu(&sg, tnt);
    std::string bad;
    int nbad = 0;
    for (int h = -N; h <= N; ++h)
      for (int k = -N; k <= N; ++k)
        for (int l = -N; l <= N; ++l) {
          std::vector<Op::Miller> members;
          for (const Op& op : g.sym_ops) {
            Op::Miller m = op.apply_to_hkl({{h, k, l}});
            for (int sgn = 0; sgn < 2; ++sgn) {
              if (sgn) m = {{-m[0], -m[1], -m[2]}};
              if (asu.is_in(m) && std::find(members.begin(), members.end(), m) == members.end())
                members.push_back(m);
            }
          }
          if (members.size() != 1) {
            if (nbad++ == 0)
              bad = std::to_string(h) + " " + std::to_string(k) + " " + std::to_string(l) + " count " +
                    std::to_string(members.size());
          }
        }
    return std::to_string(nbad) + (nbad ? " first " + bad : "");
  }
  return "UNKNOWN";
}

int main() { return hv::serve(handle); }
