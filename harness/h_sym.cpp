// Correspondence harness for the symmetry family (C04, C05, C10): applies gemmi functions
// from /repo's working tree to inputs given on stdin.
#include "hcommon.hpp"
#include <gemmi/symmetry.hpp>
#include <cmath>
#include <algorithm>
using namespace gemmi;
using hv::words; using hv::to_ll;

static Op read_op(const std::vector<std::string>& w, size_t at) {
  Op op;
  for (int i = 0; i < 3; ++i)
    for (int j = 0; j < 3; ++j)
      op.rot[i][j] = (int) to_ll(w.at(at + 3 * i + j));
  for (int i = 0; i < 3; ++i)
    op.tran[i] = (int) to_ll(w.at(at + 9 + i));
  op.notation = (char) to_ll(w.at(at + 12));
  return op;
}
static std::string op_str(const Op& op) {
  std::string s;
  for (int i = 0; i < 3; ++i)
    for (int j = 0; j < 3; ++j)
      s += std::to_string(op.rot[i][j]) + " ";
  for (int i = 0; i < 3; ++i)
    s += std::to_string(op.tran[i]) + " ";
  s += std::to_string((int)(unsigned char)op.notation);
  return s;
}
static std::string gops_str(const GroupOps& g) {
  std::string s = "S " + std::to_string(g.sym_ops.size());
  for (const Op& op : g.sym_ops) s += " " + op_str(op);
  s += " C " + std::to_string(g.cen_ops.size());
  for (const Op::Tran& t : g.cen_ops)
    s += " " + std::to_string(t[0]) + " " + std::to_string(t[1]) + " " + std::to_string(t[2]);
  return s;
}
static std::string idx_str(const SpaceGroup* sg) {
  return sg ? std::to_string(sg - spacegroup_tables::main) : std::string("-1");
}

static std::string asu_line(const SpaceGroup& sg, const GroupOps& gops, bool tnt, Op::Miller hkl) {
  ReciprocalAsu asu(&sg, tnt);
  std::string s = asu.is_in(hkl) ? "1" : "0";
  try {
    auto r = asu.to_asu(hkl, gops);
    s += " A " + std::to_string(r.first[0]) + " " + std::to_string(r.first[1]) + " " +
         std::to_string(r.first[2]) + " " + std::to_string(r.second);
  } catch (std::exception&) { s += " A EXC"; }
  try {
    auto r = asu.to_asu_sign(hkl, gops);
    s += " G " + std::to_string(r.first[0]) + " " + std::to_string(r.first[1]) + " " +
         std::to_string(r.first[2]) + " " + (r.second ? "1" : "0");
  } catch (std::exception&) { s += " G EXC"; }
  s += " P " + std::to_string((int)gops.is_systematically_absent(hkl)) + " " +
       std::to_string((int)gops.is_reflection_centric(hkl)) + " " +
       std::to_string(gops.epsilon_factor(hkl)) + " " +
       std::to_string(gops.epsilon_factor_without_centering(hkl));
  return s;
}

static std::string handle(const std::string& cmd, const std::string& args) {
  std::vector<std::string> w = words(args);
  if (cmd == "mul") return op_str(read_op(w, 0) * read_op(w, 13));
  if (cmd == "combine") return op_str(read_op(w, 0).combine(read_op(w, 13)));
  if (cmd == "inverse") return op_str(read_op(w, 0).inverse());
  if (cmd == "rottype") return std::to_string(read_op(w, 0).rot_type());
  if (cmd == "triplet") {
    return hv::hex_encode(read_op(w, 0).triplet((char) to_ll(w.at(13))));
  }
  if (cmd == "parse") return op_str(parse_triplet(hv::hex_decode(w.at(0)), (char) to_ll(w.at(1))));
  if (cmd == "hklops") {
    Op op = read_op(w, 0);
    Op::Miller h = {{(int) to_ll(w.at(13)), (int) to_ll(w.at(14)), (int) to_ll(w.at(15))}};
    Op::Miller a = op.apply_to_hkl(h), b = op.apply_to_hkl_without_division(h);
    const double mult = -2 * 3.1415926535897932384626433832795 / Op::DEN;
    double ps = op.phase_shift(h);
    long long num = std::llround(ps / mult);
    bool ok = std::fabs(ps - mult * num) <= 1e-9 * (1 + std::fabs(ps));
    return std::to_string(a[0]) + " " + std::to_string(a[1]) + " " + std::to_string(a[2]) + " " +
           std::to_string(b[0]) + " " + std::to_string(b[1]) + " " + std::to_string(b[2]) + " " +
           std::to_string(num) + (ok ? " ok" : " bad");
  }
  if (cmd == "xyz") {  // apply_to_xyz on rational coordinates x/d
    Op op = read_op(w, 0);
    long long x = to_ll(w.at(13)), y = to_ll(w.at(14)), z = to_ll(w.at(15)), d = to_ll(w.at(16));
    auto out = op.apply_to_xyz({{double(x) / d, double(y) / d, double(z) / d}});
    std::string s;
    bool ok = true;
    for (int i = 0; i < 3; ++i) {
      double v = out[i] * Op::DEN * d;
      long long r = std::llround(v);
      if (std::fabs(v - r) > 1e-6 * (1 + std::fabs(v))) ok = false;
      s += std::to_string(r) + " ";
    }
    return s + (ok ? "ok" : "bad");
  }
  if (cmd == "seitz") {
    Op op = read_op(w, 0);
    return op_str(seitz_to_op(op.float_seitz()));
  }
  if (cmd == "hall") return gops_str(symops_from_hall(hv::hex_decode(w.at(0)).c_str()));
  if (cmd == "gens") return gops_str(generators_from_hall(hv::hex_decode(w.at(0)).c_str()));
  if (cmd == "row") return gops_str(spacegroup_tables::main[to_ll(w.at(0))].operations());
  if (cmd == "sorted") {
    std::vector<Op> ops = spacegroup_tables::main[to_ll(w.at(0))].operations().all_ops_sorted();
    std::string s = std::to_string(ops.size());
    for (const Op& op : ops) s += " " + op_str(op);
    return s;
  }
  if (cmd == "rowinfo") {
    const SpaceGroup& sg = spacegroup_tables::main[to_ll(w.at(0))];
    GroupOps g = sg.operations();
    std::string s;
    s += std::to_string((int) sg.point_group()) + " " + std::to_string((int) sg.laue_class()) + " " +
         std::to_string((int) sg.crystal_system()) + " " + std::to_string((int) sg.is_sohncke()) + " " +
         std::to_string((int) sg.is_enantiomorphic()) + " " + std::to_string((int) sg.is_symmorphic()) + " " +
         std::to_string((int) sg.is_centrosymmetric()) + " " +
         std::to_string((int)(unsigned char) sg.centring_type()) + " " +
         std::to_string((int)(unsigned char) g.find_centering()) + " " + std::to_string(g.order()) + " " +
         std::to_string((int) sg.is_reference_setting()) + " " +
         std::to_string((int) g.is_centrosymmetric()) + " B " + op_str(sg.basisop()) +
         " H " + op_str(sg.change_of_hand_op()) + " X " + hv::hex_encode(sg.xhm()) +
         " N " + hv::hex_encode(sg.short_name());
    return s;
  }
  if (cmd == "byname") {
    std::string name = hv::hex_decode(w.at(0));
    int hint = (int) to_ll(w.at(1));
    std::string prefer = w.at(2) == "null" ? "" : hv::hex_decode(w.at(2));
    double alpha = hint == 0 ? 0. : 90., gamma = hint == 1 ? 90. : 120.;
    return idx_str(find_spacegroup_by_name(name, alpha, gamma, w.at(2) == "null" ? nullptr : prefer.c_str()));
  }
  if (cmd == "bynum") return idx_str(find_spacegroup_by_number((int) to_ll(w.at(0))));
  if (cmd == "byops") return idx_str(find_spacegroup_by_ops(spacegroup_tables::main[to_ll(w.at(0))].operations()));
  if (cmd == "byhall") return idx_str(find_spacegroup_by_ops(symops_from_hall(hv::hex_decode(w.at(0)).c_str())));
  if (cmd == "asu") {
    const SpaceGroup& sg = spacegroup_tables::main[to_ll(w.at(0))];
    GroupOps g = sg.operations();
    return asu_line(sg, g, to_ll(w.at(1)) != 0,
                    {{(int) to_ll(w.at(2)), (int) to_ll(w.at(3)), (int) to_ll(w.at(4))}});
  }
  if (cmd == "asucube") {  // bulk: row tnt N  -> one "asu" line per hkl
    long long row = to_ll(w.at(0)); bool tnt = to_ll(w.at(1)) != 0; int N = (int) to_ll(w.at(2));
    const SpaceGroup& sg = spacegroup_tables::main[row];
    GroupOps g = sg.operations();
    for (int h = -N; h <= N; ++h)
      for (int k = -N; k <= N; ++k)
        for (int l = -N; l <= N; ++l) {
          std::cout << "asu\t" << row << ' ' << (int) tnt << ' ' << h << ' ' << k << ' ' << l << '\t'
                    << asu_line(sg, g, tnt, {{h, k, l}}) << '\n';
        }
    return "";
  }

  if (cmd == "o_pred") {
    // absence / centricity / epsilon against their definitions over the full operation list
    long long row = to_ll(w.at(0)); int N = (int) to_ll(w.at(1));
    const SpaceGroup& sg = spacegroup_tables::main[row];
    GroupOps g = sg.operations();
    std::vector<Op> all;
    for (Op op : g) all.push_back(op);
    ReciprocalAsu asu(&sg), asut(&sg, true);
    for (int h = -N; h <= N; ++h)
      for (int k = -N; k <= N; ++k)
        for (int l = -N; l <= N; ++l) {
          Op::Miller m = {{h, k, l}};
          bool absent = false, centric = false;
          int eps = 0;
          for (const Op& op : all) {
            Op::Miller r = op.apply_to_hkl_without_division(m);
            if (r[0] == 24 * h && r[1] == 24 * k && r[2] == 24 * l) {
              ++eps;
              if ((h * op.tran[0] + k * op.tran[1] + l * op.tran[2]) % 24 != 0) absent = true;
            }
            if (r[0] == -24 * h && r[1] == -24 * k && r[2] == -24 * l) centric = true;
          }
          std::string at = " at " + std::to_string(h) + " " + std::to_string(k) + " " + std::to_string(l);
          if (g.is_systematically_absent(m) != absent) return "bad absent" + at;
          if (g.is_reflection_centric(m) != centric) return "bad centric" + at;
          if (g.epsilon_factor(m) != eps) return "bad epsilon" + at;
          // to_asu returns a member related by the reported operation, inside the ASU
          for (int tnt = 0; tnt < 2; ++tnt) {
            const ReciprocalAsu& a = tnt ? asut : asu;
            auto r = a.to_asu(m, g);
            if (!a.is_in(r.first)) return "bad to_asu result outside ASU" + at;
            Op::Miller chk = g.sym_ops.at((r.second - 1) / 2).apply_to_hkl(m);
            if (r.second % 2 == 0) chk = {{-chk[0], -chk[1], -chk[2]}};
            if (chk != r.first) return "bad to_asu isym does not relate" + at;
            auto r2 = a.to_asu_sign(m, g);
            if (r2.first != r.first) return "bad to_asu_sign differs from to_asu" + at;
          }
        }
    return "ok";
  }

  if (cmd == "o_alt") {  // every alternative name (with its origin-choice suffix) resolves to its own row
    size_t i = (size_t) to_ll(w.at(0));
    const SpaceGroupAltName& a = spacegroup_tables::alt_names[i];
    std::string hm = a.hm;
    std::vector<std::string> names;
    std::string nospace;
    for (char c : hm) if (c != ' ') nospace += c;
    if (a.ext) {
      names = {hm + ":" + a.ext, nospace + ":" + a.ext, hm + " :" + a.ext, nospace + ": " + a.ext};
    } else {
      names = {hm, nospace};
    }
    for (const std::string& n : names) {
      const SpaceGroup* sg = find_spacegroup_by_name(n);
      if (sg != &spacegroup_tables::main[a.pos])
        return "bad alt-name '" + n + "' -> " + idx_str(sg) + " expected " + std::to_string(a.pos);
    }
    // the two origin choices of an aliased name are different groups
    if (a.ext) {
      const SpaceGroup* s1 = find_spacegroup_by_name(hm + ":1");
      const SpaceGroup* s2 = find_spacegroup_by_name(hm + ":2");
      if (s1 && s2 && s1->operations().is_same_as(s2->operations())) return "bad alt-name origin choices coincide";
    }
    return "ok";
  }
  if (cmd == "o_orbit") {
    // property oracle evaluated on the implementation: number of orbit members (incl. Friedel) inside the ASU
    long long row = to_ll(w.at(0)); bool tnt = to_ll(w.at(1)) != 0; int N = (int) to_ll(w.at(2));
    const SpaceGroup& sg = spacegroup_tables::main[row];
    GroupOps g = sg.operations();
    ReciprocalAsu asu(&sg, tnt);
    std::string bad;
    int nbad = 0;
    for (int h = -N; h <= N; ++h)
      for (int k = -N; k <= N; ++k)
        for (int l = -N; l <= N; ++l) {
          std::vector<Op::Miller> members;
          for (const Op& op : g.sym_ops) {
            Op::Miller m = op.apply_to_hkl({{h, k, l}});
            for (int sgn = 0; sgn < 2; ++sgn) {
              if (sgn) m = {{-m[0], -m[1], -m[2]}};
              if (asu.is_in(m) && std::find(members.begin(), members.end(), m) == members.end())
                members.push_back(m);
            }
          }
          if (members.size() != 1) {
            if (nbad++ == 0)
              bad = std::to_string(h) + " " + std::to_string(k) + " " + std::to_string(l) + " count " +
                    std::to_string(members.size());
          }
        }
    return nbad == 0 ? std::string("ok") : std::to_string(nbad) + " bad, first " + bad;
  }

  // ---- property oracles evaluated on the implementation (used to search for a failing input) ----
  if (cmd == "o_rt") {  // print -> parse round trip in every style the operator can be printed in
    Op op = read_op(w, 0);
    std::string bad;
    for (char style : {'x', 'X', 'a', 'A', 'h', 'H'}) {
      Op o = op;
      if ((style | 0x20) == 'h') {
        if (op.tran != Op::Tran{0, 0, 0}) continue;
        o = op.as_hkl();
      } else {
        o.notation = 'x';
      }
      std::string t = o.triplet(style);
      Op back = parse_triplet(t);
      if (back != o || ((style | 0x20) == 'h') != back.is_hkl()) { bad = std::string(1, style) + ":" + t; break; }
    }
    return bad.empty() ? "1" : "0 " + hv::hex_encode(bad);
  }
  if (cmd == "o_inv") {  // a * a^-1 == identity whenever the true inverse is representable in 1/24 units
    Op a = read_op(w, 0);
    // true inverse by exact rational arithmetic: adj(R)*24^2/det and -(R^-1 t)
    long long r[3][3], adj[3][3];
    for (int i = 0; i < 3; ++i) for (int j = 0; j < 3; ++j) r[i][j] = a.rot[i][j];
    long long det = r[0][0] * (r[1][1] * r[2][2] - r[1][2] * r[2][1]) - r[0][1] * (r[1][0] * r[2][2] - r[1][2] * r[2][0])
                  + r[0][2] * (r[1][0] * r[2][1] - r[1][1] * r[2][0]);
    if (det == 0) return "skip";
    adj[0][0] = r[1][1] * r[2][2] - r[2][1] * r[1][2]; adj[0][1] = r[0][2] * r[2][1] - r[0][1] * r[2][2];
    adj[0][2] = r[0][1] * r[1][2] - r[0][2] * r[1][1]; adj[1][0] = r[1][2] * r[2][0] - r[1][0] * r[2][2];
    adj[1][1] = r[0][0] * r[2][2] - r[0][2] * r[2][0]; adj[1][2] = r[1][0] * r[0][2] - r[0][0] * r[1][2];
    adj[2][0] = r[1][0] * r[2][1] - r[2][0] * r[1][1]; adj[2][1] = r[2][0] * r[0][1] - r[0][0] * r[2][1];
    adj[2][2] = r[0][0] * r[1][1] - r[1][0] * r[0][1];
    Op t;  // the true inverse, if representable
    for (int i = 0; i < 3; ++i)
      for (int j = 0; j < 3; ++j) {
        long long num = adj[i][j] * 576;
        if (num % det != 0) return "skip";
        t.rot[i][j] = (int) (num / det);
      }
    for (int i = 0; i < 3; ++i) {
      long long num = -(t.rot[i][0] * (long long) a.tran[0] + t.rot[i][1] * (long long) a.tran[1] + t.rot[i][2] * (long long) a.tran[2]);
      if (num % 24 != 0) return "skip";
      t.tran[i] = (int) (num / 24);
    }
    Op inv = a.inverse();
    if (inv != t) return "0 inverse-differs-from-exact-inverse";
    if (a.combine(inv) != Op::identity() || inv.combine(a) != Op::identity()) return "0 product-not-identity";
    return "1";
  }
  if (cmd == "o_spell") {  // two documented spellings of the same operator parse to the same Op
    Op a = parse_triplet(hv::hex_decode(w.at(0)));
    Op b = parse_triplet(hv::hex_decode(w.at(1)));
    return a == b ? "1" : "0 " + a.triplet() + " vs " + b.triplet();
  }
  if (cmd == "o_comp") {  // (a.combine(b))(x) == a(b(x)) on a rational point when the product is representable
    Op a = read_op(w, 0), b = read_op(w, 13);
    long long x[3] = {to_ll(w.at(26)), to_ll(w.at(27)), to_ll(w.at(28))};
    long long d = to_ll(w.at(29));
    // representable: every raw entry divisible by DEN
    for (int i = 0; i < 3; ++i) {
      long long t = (long long) a.tran[i] * 24;
      for (int j = 0; j < 3; ++j) {
        long long r = 0;
        for (int k = 0; k < 3; ++k) r += (long long) a.rot[i][k] * b.rot[k][j];
        if (r % 24 != 0) return "skip";
        t += (long long) a.rot[i][j] * b.tran[j];
      }
      if (t % 24 != 0) return "skip";
    }
    Op c = a.combine(b);
    // exact integer arithmetic scaled by 24*24*d
    for (int i = 0; i < 3; ++i) {
      long long bx[3];
      for (int k = 0; k < 3; ++k)
        bx[k] = b.rot[k][0] * x[0] + b.rot[k][1] * x[1] + b.rot[k][2] * x[2] + b.tran[k] * d;  // *24*d
      long long lhs = (c.rot[i][0] * x[0] + c.rot[i][1] * x[1] + c.rot[i][2] * x[2] + c.tran[i] * d) * 24;
      long long rhs = a.rot[i][0] * bx[0] + a.rot[i][1] * bx[1] + a.rot[i][2] * bx[2] + a.tran[i] * d * 24;
      if (lhs != rhs) return "0";
    }
    // and the library's floating-point application agrees
    auto p = c.apply_to_xyz({{double(x[0]) / d, double(x[1]) / d, double(x[2]) / d}});
    auto q = a.apply_to_xyz(b.apply_to_xyz({{double(x[0]) / d, double(x[1]) / d, double(x[2]) / d}}));
    for (int i = 0; i < 3; ++i)
      if (std::fabs(p[i] - q[i]) > 1e-9 * (1 + std::fabs(p[i]))) return "0";
    return "1";
  }
  if (cmd == "o_dual") {  // (h.R).x + h.t == h.(Rx+t), phase shift == -2 pi h.t/24
    Op a = read_op(w, 0);
    Op::Miller h = {{(int) to_ll(w.at(13)), (int) to_ll(w.at(14)), (int) to_ll(w.at(15))}};
    long long x[3] = {to_ll(w.at(16)), to_ll(w.at(17)), to_ll(w.at(18))};
    Op::Miller hr = a.apply_to_hkl_without_division(h);
    long long lhs = 0, rhs = 0;
    for (int i = 0; i < 3; ++i) {
      lhs += (long long) hr[i] * x[i] + (long long) h[i] * a.tran[i];
      rhs += (long long) h[i] * (a.rot[i][0] * x[0] + a.rot[i][1] * x[1] + a.rot[i][2] * x[2] + a.tran[i]);
    }
    const double mult = -2 * 3.1415926535897932384626433832795 / Op::DEN;
    long long ht = (long long) h[0] * a.tran[0] + (long long) h[1] * a.tran[1] + (long long) h[2] * a.tran[2];
    bool ps_ok = std::fabs(a.phase_shift(h) - mult * ht) <= 1e-9 * (1 + std::fabs(mult * ht));
    return (lhs == rhs && ps_ok) ? "1" : "0";
  }
  if (cmd == "o_group") {  // closure, inverses, identity, lookups, triplets of one table row
    long long row = to_ll(w.at(0));
    const SpaceGroup& sg = spacegroup_tables::main[row];
    GroupOps g = sg.operations();
    std::vector<Op> ops = g.all_ops_sorted();
    auto has = [&](const Op& o) { return std::binary_search(ops.begin(), ops.end(), o); };
    if (g.sym_ops.empty() || g.sym_ops[0] != Op::identity()) return "bad identity-first";
    for (size_t i = 1; i < ops.size(); ++i) if (ops[i] == ops[i-1]) return "bad duplicate";
    for (const Op& a : ops) {
      bool inv = false;
      for (const Op& b : ops) {
        Op c = a * b;
        if (!has(c)) return "bad closure " + a.triplet() + " * " + b.triplet();
        if (c == Op::identity()) inv = true;
      }
      if (!inv) return "bad inverse " + a.triplet();
      if (parse_triplet(a.triplet()) != a) return "bad triplet " + a.triplet();
    }
    const SpaceGroup* first_x = nullptr; const SpaceGroup* first_c = nullptr;
    for (const SpaceGroup& s2 : spacegroup_tables::main) {
      if (!first_x && s2.xhm() == sg.xhm()) first_x = &s2;
      if (!first_c && sg.ccp4 != 0 && s2.ccp4 == sg.ccp4) first_c = &s2;
    }
    if (find_spacegroup_by_name(sg.xhm()) != first_x) return "bad lookup-xhm";
    if (sg.ccp4 != 0 && find_spacegroup_by_number(sg.ccp4) != first_c) return "bad lookup-ccp4";
    const SpaceGroup* by_ops = find_spacegroup_by_ops(g);
    if (by_ops == nullptr || !by_ops->operations().is_same_as(g) || by_ops > &sg) return "bad lookup-ops";
    for (const SpaceGroup* s2 = spacegroup_tables::main; s2 < by_ops; ++s2)
      if (s2->operations().is_same_as(g)) return "bad lookup-ops-not-first";
    // reference setting transformed by the tabulated change of basis
    GroupOps ref = get_spacegroup_reference_setting(sg.number).operations();
    ref.change_basis_forward(sg.basisop());
    if (!ref.is_same_as(g)) return "bad reference-transform";
    // classification from the operations
    bool all_pos = true;
    for (const Op& o : g.sym_ops) if (o.det_rot() <= 0) all_pos = false;
    if (all_pos != sg.is_sohncke()) return "bad sohncke";
    if (g.is_centrosymmetric() != sg.is_centrosymmetric()) return "bad centrosymmetric";
    if (g.find_centering() != sg.centring_type()) return "bad centring";
    return "ok";
  }
  return "UNKNOWN";
}

int main() { return hv::serve(handle); }
