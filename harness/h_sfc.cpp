// Harness for property C15: calculated structure factors obey symmetry; direct and FFT routes agree.
// The oracle is the textbook sum evaluated independently in long double.
#include "hcommon.hpp"
#include <gemmi/addends.hpp>
#include <gemmi/model.hpp>
#include <gemmi/small.hpp>
// the per-element cache (scattering_factors_) is private: the sfseq command reads its occupancy
#define private public
#include <gemmi/sfcalc.hpp>
#undef private
#include <gemmi/dencalc.hpp>
#include <gemmi/fourier.hpp>
#include <gemmi/it92.hpp>
#include <gemmi/c4322.hpp>
#include <gemmi/neutron92.hpp>
#include <gemmi/model.hpp>
#include <gemmi/small.hpp>
#include <gemmi/symmetry.hpp>
#include <cmath>
#include <complex>
using namespace gemmi;
using hv::words; using hv::to_ll;
typedef std::complex<long double> lcplx;
static const long double LPI = 3.14159265358979323846264338327950288L;

struct Lcg {
  unsigned long long s;
  explicit Lcg(unsigned long long seed) : s(seed * 6364136223846793005ULL + 1442695040888963407ULL) {}
  unsigned next() { s = s * 6364136223846793005ULL + 1442695040888963407ULL; return unsigned(s >> 33); }
  double uni() { return (next() % 1000003) / 1000003.0; }
  int range(int lo, int hi) { return lo + int(next() % unsigned(hi - lo + 1)); }
};

static UnitCell cell_for(const SpaceGroup& sg, double scale) {
  double a = 11 * scale, b = 13 * scale, c = 17 * scale;
  switch (sg.crystal_system()) {
    case CrystalSystem::Triclinic: return UnitCell(a, b, c, 81, 97, 103);
    case CrystalSystem::Monoclinic:
      switch (sg.monoclinic_unique_axis()) {
        case 'a': return UnitCell(a, b, c, 101, 90, 90);
        case 'c': return UnitCell(a, b, c, 90, 90, 101);
        default: return UnitCell(a, b, c, 90, 101, 90);
      }
    case CrystalSystem::Orthorhombic: return UnitCell(a, b, c, 90, 90, 90);
    case CrystalSystem::Tetragonal: return UnitCell(b, b, c, 90, 90, 90);
    case CrystalSystem::Trigonal:
      if (sg.ext == 'R') return UnitCell(b, b, b, 75, 75, 75);
      return UnitCell(b, b, c, 90, 90, 120);
    case CrystalSystem::Hexagonal: return UnitCell(b, b, c, 90, 90, 120);
    case CrystalSystem::Cubic: return UnitCell(b, b, b, 90, 90, 90);
  }
  return UnitCell(10, 10, 10, 90, 90, 90);
}

static std::string hs(const Miller& h) {
  return std::to_string(h[0]) + "," + std::to_string(h[1]) + "," + std::to_string(h[2]);
}

static Structure make_structure(const SpaceGroup& sg, Lcg& rng, int natoms, bool aniso, bool charges, double scale) {
  Structure st;
  st.cell = cell_for(sg, scale);
  st.spacegroup_hm = sg.xhm();
  st.models.emplace_back(1);
  st.models[0].chains.emplace_back("A");
  Chain& ch = st.models[0].chains[0];
  const El els[] = {El::C, El::N, El::O, El::S, El::Fe, El::Zn, El::P, El::Ca, El::H, El::Se};
  for (int i = 0; i < natoms; ++i) {
    Residue res;
    res.name = "XXX";
    res.seqid.num = i + 1;
    Atom at;
    at.name = "X" + std::to_string(i);
    at.element = Element(els[rng.range(0, 9)]);
    Fractional f(rng.uni(), rng.uni(), rng.uni());
    int special = rng.range(0, 6);
    if (special == 0) f.x = 0;
    if (special == 1) { f.x = 0; f.y = 0; }
    if (special == 2) { f.x = 0.5; f.y = 0.5; f.z = 0.5; }
    if (special == 3) f.y = f.x;
    at.pos = st.cell.orthogonalize(f);
    at.occ = (float) (special <= 3 ? 0.5 : (rng.range(0, 2) ? 1.0 : 0.3 + 0.6 * rng.uni()));
    at.b_iso = (float) (5 + 55 * rng.uni());
    if (charges && (at.element == El::Fe || at.element == El::O || at.element == El::Ca))
      at.charge = at.element == El::O ? -1 : (signed char) rng.range(2, 3);
    if (aniso && rng.range(0, 1)) {
      // random symmetric positive definite U = A A^T * small
      double A[3][3];
      for (auto& r : A) for (double& v : r) v = 0.25 * (rng.uni() - 0.5);
      for (int k = 0; k < 3; ++k) A[k][k] += 0.2 + 0.3 * rng.uni();
      double U[3][3];
      for (int r = 0; r < 3; ++r)
        for (int c = 0; c < 3; ++c) {
          U[r][c] = 0;
          for (int k = 0; k < 3; ++k) U[r][c] += A[r][k] * A[c][k];
        }
      at.aniso = SMat33<float>{(float) U[0][0], (float) U[1][1], (float) U[2][2],
                               (float) U[0][1], (float) U[0][2], (float) U[1][2]};
    }
    res.atoms.push_back(at);
    ch.residues.push_back(res);
  }
  st.setup_cell_images();
  return st;
}

// textbook sum: sum over atoms and ALL symmetry images (rotation parts x centring) of
// occ * f(stol2) * DWF * exp(2 pi i h.(Rx+t))
template<typename Table>
static lcplx textbook(const Structure& st, const GroupOps& gops, const Miller& h, const Addends* addends = nullptr) {
  const UnitCell& cell = st.cell;
  double stol2 = cell.calculate_stol_sq(h);
  lcplx sum = 0;
  for (const Chain& ch : st.models[0].chains)
    for (const Residue& res : ch.residues)
      for (const Atom& at : res.atoms) {
        long double f = Table::get(at.element.elem, at.charge).calculate_sf((typename Table::Coef::coef_type) stol2);
        if (addends) f += addends->get(at.element);   // the addend (f') belongs to the element, whatever the charge
        Fractional fx = cell.fractionalize(at.pos);
        for (Op op : gops) {
          std::array<double,3> x = op.apply_to_xyz({{fx.x, fx.y, fx.z}});
          long double arg = 2 * LPI * ((long double) h[0] * x[0] + (long double) h[1] * x[1] + (long double) h[2] * x[2]);
          long double dwf;
          if (!at.aniso.nonzero()) {
            dwf = std::exp(-(long double) at.b_iso * stol2);
          } else {
            // h' = h R (row vector), s = frac^T h' (Cartesian reciprocal vector), DWF = exp(-2 pi^2 s^T U s)
            long double hr[3];
            for (int j = 0; j < 3; ++j)
              hr[j] = ((long double) h[0] * op.rot[0][j] + (long double) h[1] * op.rot[1][j] + (long double) h[2] * op.rot[2][j]) / 24.0L;
            long double s[3];
            const Mat33& F = cell.frac.mat;
            for (int j = 0; j < 3; ++j)
              s[j] = F[0][j] * hr[0] + F[1][j] * hr[1] + F[2][j] * hr[2];
            const auto& U = at.aniso;
            long double q = U.u11 * s[0] * s[0] + U.u22 * s[1] * s[1] + U.u33 * s[2] * s[2] +
                            2 * (U.u12 * s[0] * s[1] + U.u13 * s[0] * s[2] + U.u23 * s[1] * s[2]);
            dwf = std::exp(-2 * LPI * LPI * q);
          }
          sum += (long double) at.occ * f * dwf * lcplx(std::cos(arg), std::sin(arg));
        }
      }
  return sum;
}

template<typename Table>
static std::string direct_oracle(const SpaceGroup& sg, Lcg& rng, int natoms, bool aniso, bool charges, int hmax) {
  Structure st = make_structure(sg, rng, natoms, aniso, charges, 1.0);
  GroupOps gops = sg.operations();
  if ((int) st.cell.images.size() + 1 != gops.order()) return "bad cell-images count";
  StructureFactorCalculator<Table> calc(st.cell);
  // addends (real f' corrections per element) in most cases; always when ions are present: an ion gets the addend of
  // its element exactly like the neutral atom
  Addends addends;
  bool with_addends = rng.range(0, 3) != 0 || charges;
  if (with_addends) {
    addends.set(Element(El::Fe), -1.35f); addends.set(Element(El::Zn), -1.6f); addends.set(Element(El::Se), -2.8f);
    addends.set(Element(El::S), 0.32f); addends.set(Element(El::Ca), 0.34f); addends.set(Element(El::P), 0.28f);
    addends.set(Element(El::O), 0.05f); addends.set(Element(El::C), 0.02f); addends.set(Element(El::N), 0.03f);
    calc.addends = addends;
  }
  std::map<Miller, std::complex<double>> F;
  double maxF = 0;
  for (int h = -hmax; h <= hmax; ++h)
    for (int k = -hmax; k <= hmax; ++k)
      for (int l = -hmax; l <= hmax; ++l) {
        Miller m = {{h, k, l}};
        std::complex<double> v = calc.calculate_sf_from_model(st.models[0], m);
        F[m] = v;
        maxF = std::max(maxF, std::abs(v));
      }
  for (const auto& kv : F) {
    const Miller& m = kv.first;
    lcplx want = textbook<Table>(st, gops, m, with_addends ? &addends : nullptr);
    if (std::abs(lcplx(kv.second.real(), kv.second.imag()) - want) > 1e-8L * (1 + maxF))
      return "bad textbook-sum at " + hs(m);
    // Friedel
    Miller mm = {{-m[0], -m[1], -m[2]}};
    if (std::abs(F[mm] - std::conj(kv.second)) > 1e-8 * (1 + maxF)) return "bad friedel at " + hs(m);
    // absences
    if (gops.is_systematically_absent(m) && std::abs(kv.second) > 1e-7 * (1 + maxF)) return "bad absent-not-zero at " + hs(m);
    // symmetry equivalents
    for (const Op& op : gops.sym_ops) {
      Miller r = op.apply_to_hkl(m);
      auto it = F.find(r);
      if (it == F.end()) continue;
      double ps = op.phase_shift(m);
      std::complex<double> want2 = kv.second * std::complex<double>(std::cos(ps), std::sin(ps));
      if (std::abs(it->second - want2) > 1e-7 * (1 + maxF)) return "bad symmetry-relation at " + hs(m) + " op " + op.triplet();
    }
  }
  return "ok";
}

template<typename Table>
static std::string fft_oracle(const SpaceGroup& sg, Lcg& rng, int natoms, bool aniso, double scale, bool with_addends) {
  Structure st = make_structure(sg, rng, natoms, aniso, false, scale);
  // the FFT route assumes occupancies of atoms on special positions are already reduced; avoid overlap
  // of an atom with its own images changing nothing: both routes sum over all images identically.
  GroupOps gops = sg.operations();
  double d_min = 2.2;
  // anomalous corrections f' as addends (the same in both routes), for half of the X-ray cases (the density route
  // documents that it uses addends only with tables that have a constant term, i.e. IT92)
  Addends addends;
  if (with_addends && rng.range(0, 1)) {
    addends.set(Element(El::Fe), -1.35f); addends.set(Element(El::Zn), -1.6f); addends.set(Element(El::Se), -2.8f);
    addends.set(Element(El::S), 0.32f); addends.set(Element(El::Ca), 0.34f); addends.set(Element(El::P), 0.28f);
  }
  auto run = [&](double rate, float cutoff, std::vector<std::complex<double>>& out, std::vector<Miller>& hkls) {
    DensityCalculator<Table, float> dc;
    dc.addends = addends;
    dc.d_min = d_min;
    dc.rate = rate;
    dc.cutoff = cutoff;
    dc.grid.setup_from(st);
    dc.set_refmac_compatible_blur(st.models[0]);
    dc.put_model_density_on_grid(st.models[0]);
    FPhiGrid<float> g = transform_map_to_f_phi(dc.grid, true);
    out.clear(); hkls.clear();
    int mh = (int) (st.cell.a / d_min) + 1, mk = (int) (st.cell.b / d_min) + 1, ml = (int) (st.cell.c / d_min) + 1;
    for (int h = -mh; h <= mh; ++h)
      for (int k = -mk; k <= mk; ++k)
        for (int l = 0; l <= ml; ++l) {
          Miller m = {{h, k, l}};
          if (h == 0 && k == 0 && l == 0) continue;
          double inv_d2 = st.cell.calculate_1_d2(m);
          if (inv_d2 > 1 / (d_min * d_min)) continue;
          if (!g.has_index(h, k, l)) continue;
          std::complex<float> v = g.get_value_by_hkl(m, dc.blur);
          out.push_back(std::complex<double>(v.real(), v.imag()));
          hkls.push_back(m);
        }
  };
  std::vector<std::complex<double>> f1, f2;
  std::vector<Miller> h1, h2;
  run(1.5, 1e-5f, f1, h1);
  run(2.5, 1e-7f, f2, h2);
  StructureFactorCalculator<Table> calc(st.cell);
  calc.addends = addends;
  auto rfactor = [&](const std::vector<std::complex<double>>& f, const std::vector<Miller>& hk) {
    double num = 0, den = 0;
    for (size_t i = 0; i < hk.size(); ++i) {
      std::complex<double> d = calc.calculate_sf_from_model(st.models[0], hk[i]);
      num += std::abs(d - f[i]);
      den += std::abs(d);
    }
    return den > 0 ? num / den : 0.;
  };
  double r1 = rfactor(f1, h1), r2 = rfactor(f2, h2);
  char buf[100];
  std::snprintf(buf, sizeof buf, " R1=%.5f R2=%.5f n=%zu", r1, r2, h1.size());
  if (h1.size() < 20) return "skip";
  if (!(r1 < 0.01)) return std::string("bad R-factor-default") + buf;
  if (!(r2 <= r1 * 1.05 + 1e-5)) return std::string("bad R-factor-not-shrinking") + buf;
  return "ok";
}

static std::string small_oracle(const SpaceGroup& sg, Lcg& rng, int nsites, int hmax) {
  SmallStructure ss;
  ss.cell = cell_for(sg, 1.0);
  ss.spacegroup_hm = sg.xhm();
  ss.spacegroup = &sg;
  ss.cell.set_cell_images_from_spacegroup(&sg);
  GroupOps gops = sg.operations();
  const El els[] = {El::C, El::N, El::O, El::S, El::Cl, El::Cu};
  for (int i = 0; i < nsites; ++i) {
    SmallStructure::Site s;
    s.label = "A" + std::to_string(i);
    s.element = Element(els[rng.range(0, 5)]);
    s.fract = Fractional(rng.uni(), rng.uni(), rng.uni());
    s.occ = rng.range(0, 1) ? 1.0 : 0.25 + 0.7 * rng.uni();
    if (rng.range(0, 1)) {
      s.u_iso = 0.01 + 0.08 * rng.uni();
    } else {
      double a = 0.02 + 0.05 * rng.uni(), b = 0.02 + 0.05 * rng.uni(), c = 0.02 + 0.05 * rng.uni();
      s.aniso = SMat33<double>{a, b, c, 0.3 * std::sqrt(a * b) * (rng.uni() - 0.5), 0.3 * std::sqrt(a * c) * (rng.uni() - 0.5),
                               0.3 * std::sqrt(b * c) * (rng.uni() - 0.5)};
    }
    ss.sites.push_back(s);
  }
  StructureFactorCalculator<IT92<double>> calc(ss.cell);
  double maxF = 0;
  std::map<Miller, std::complex<double>> F;
  for (int h = -hmax; h <= hmax; ++h)
    for (int k = -hmax; k <= hmax; ++k)
      for (int l = -hmax; l <= hmax; ++l) {
        Miller m = {{h, k, l}};
        F[m] = calc.calculate_sf_from_small_structure(ss, m);
        maxF = std::max(maxF, std::abs(F[m]));
      }
  const UnitCell& cell = ss.cell;
  for (const auto& kv : F) {
    const Miller& m = kv.first;
    double stol2 = cell.calculate_stol_sq(m);
    lcplx sum = 0;
    for (const auto& s : ss.sites) {
      long double f = IT92<double>::get(s.element.elem, s.charge).calculate_sf(stol2);
      for (Op op : gops) {
        std::array<double,3> x = op.apply_to_xyz({{s.fract.x, s.fract.y, s.fract.z}});
        long double arg = 2 * LPI * ((long double) m[0] * x[0] + (long double) m[1] * x[1] + (long double) m[2] * x[2]);
        long double dwf;
        if (!s.aniso.nonzero()) {
          dwf = std::exp(-8 * LPI * LPI * (long double) s.u_iso * stol2);
        } else {
          long double hr[3];
          for (int j = 0; j < 3; ++j)
            hr[j] = ((long double) m[0] * op.rot[0][j] + (long double) m[1] * op.rot[1][j] + (long double) m[2] * op.rot[2][j]) / 24.0L;
          long double v[3] = {hr[0] * cell.ar, hr[1] * cell.br, hr[2] * cell.cr};
          const auto& U = s.aniso;
          long double q = U.u11 * v[0] * v[0] + U.u22 * v[1] * v[1] + U.u33 * v[2] * v[2] +
                          2 * (U.u12 * v[0] * v[1] + U.u13 * v[0] * v[2] + U.u23 * v[1] * v[2]);
          dwf = std::exp(-2 * LPI * LPI * q);
        }
        sum += (long double) s.occ * f * dwf * lcplx(std::cos(arg), std::sin(arg));
      }
    }
    if (std::abs(lcplx(kv.second.real(), kv.second.imag()) - sum) > 1e-8L * (1 + maxF))
      return "bad small-structure textbook-sum at " + hs(m);
  }
  return "ok";
}

static std::string handle(const std::string& cmd, const std::string& args) {
  std::vector<std::string> w = words(args);
  const SpaceGroup& sg = spacegroup_tables::main[to_ll(w.at(0))];
  Lcg rng((unsigned long long) to_ll(w.at(1)));
  if (cmd == "sfseq") {
    // model correspondence for the per-element form-factor cache (Sfc/SfCache.v).
    // args: table ignore_charge stol2_milli el:charge ...  -> per call T/F (the returned value is, bit for bit, the
    // table value of (el, charge) at this stol2 plus the addend of el) ":" the filled cache slots after the call
    IT92<double>::ignore_charge = to_ll(w.at(1)) != 0;
    // a reflection with the requested (sin theta / lambda)^2: stol2 = h^2 / (4 a^2) for h = 1
    double stol2 = to_ll(w.at(2)) / 1000.0;
    UnitCell cell(stol2 > 0 ? std::sqrt(1 / (4 * stol2)) : 10., 10, 10, 90, 90, 90);
    StructureFactorCalculator<IT92<double>> calc(cell);
    for (int z = 1; z < 99; ++z) calc.addends.set(Element(z), 0.01f * (float) (z % 7) - 0.02f);
    calc.set_stol2_and_scattering_factors(Miller{{stol2 > 0 ? 1 : 0, 0, 0}});
    std::string out;
    std::vector<int> els;
    for (size_t i = 3; i < w.size(); ++i) {
      size_t c = w[i].find(':');
      int z = (int) to_ll(w[i].substr(0, c)), ch = (int) to_ll(w[i].substr(c + 1));
      if (std::find(els.begin(), els.end(), z) == els.end()) els.push_back(z);
      Element el(z);
      double got = calc.get_scattering_factor(el, (signed char) ch);
      double want = IT92<double>::get(el.elem, (signed char) ch).calculate_sf(calc.stol2_) + calc.addends.get(el);
      if (want == 0.) { IT92<double>::ignore_charge = true; return "skip"; }   // the zero value is the cache's empty mark
      out += (out.empty() ? "" : " ") + std::string(got == want ? "T" : "F") + ":";
      std::vector<int> sorted = els;
      std::sort(sorted.begin(), sorted.end());
      bool first = true;
      for (int e : sorted)
        if (calc.scattering_factors_[Element(e).ordinal()] != 0.) { out += (first ? "" : ",") + std::to_string(e); first = false; }
    }
    IT92<double>::ignore_charge = true;
    return out;
  }
  if (cmd == "sfhist") {
    // several reflections on ONE calculator object (model Sfc/SfCache.v, section Worlds).
    // args: table R<w> | G<el>:<ch> ...   R<w> = world w: reflection (1+w%5, 0, 0) and addend set number w, installed by
    // set_stol2_and_scattering_factors (as every calculate_* entry point does); consecutive worlds may share the reflection
    // (w and w+5) or the addends. Per G: T when the value equals, bit for bit, table value + addend in the current world.
    IT92<double>::ignore_charge = false;
    UnitCell cell(10, 10, 10, 90, 90, 90);
    StructureFactorCalculator<IT92<double>> calc(cell);
    std::string out;
    for (size_t i = 1; i < w.size(); ++i) {
      if (w[i][0] == 'R') {
        int wd = (int) to_ll(w[i].substr(1));
        for (int z = 1; z < 99; ++z) calc.addends.set(Element(z), 0.01f * (float) ((z + wd) % 7) - 0.02f + 0.001f * (float) (wd / 5));
        calc.set_stol2_and_scattering_factors(Miller{{1 + wd % 5, 0, 0}});
      } else {
        size_t c = w[i].find(':');
        int z = (int) to_ll(w[i].substr(1, c - 1)), ch = (int) to_ll(w[i].substr(c + 1));
        Element el(z);
        double got = calc.get_scattering_factor(el, (signed char) ch);
        double want = IT92<double>::get(el.elem, (signed char) ch).calculate_sf(calc.stol2_) + calc.addends.get(el);
        out += (out.empty() ? "" : " ") + std::string(got == want ? "T" : "F");
      }
    }
    IT92<double>::ignore_charge = true;
    return out;
  }
  if (cmd == "o_direct") {
    // args: row seed natoms aniso table hmax charges
    int natoms = (int) to_ll(w.at(2)); bool aniso = to_ll(w.at(3)) != 0; int table = (int) to_ll(w.at(4));
    int hmax = (int) to_ll(w.at(5)); bool charges = to_ll(w.at(6)) != 0;
    IT92<double>::ignore_charge = !charges;
    std::string r;
    if (table == 0) r = direct_oracle<IT92<double>>(sg, rng, natoms, aniso, charges, hmax);
    else if (table == 1) r = direct_oracle<C4322<double>>(sg, rng, natoms, aniso, false, hmax);
    else r = direct_oracle<Neutron92<double>>(sg, rng, natoms, aniso, false, hmax);
    IT92<double>::ignore_charge = true;
    return r;
  }
  if (cmd == "o_fft") {
    int natoms = (int) to_ll(w.at(2)); bool aniso = to_ll(w.at(3)) != 0; int table = (int) to_ll(w.at(4));
    // optional 6th argument: cell scale x 100 (default 1.6; below ~0.7 an atom's density reaches past half a cell edge)
    double scale = w.size() > 5 ? to_ll(w.at(5)) / 100.0 : 1.6;
    // small cells only with few operations: dozens of overlapping images of each atom in a 5 A cell make nearly all
    // structure factors vanish, and the R factor (a ratio to their sum) ill-conditioned
    if (scale < 1.0 && sg.operations().order() > 8) return "skip";
    if (table == 0) return fft_oracle<IT92<float>>(sg, rng, natoms, aniso, scale, true);
    if (table == 1) return fft_oracle<C4322<float>>(sg, rng, natoms, aniso, scale, false);
    return fft_oracle<Neutron92<float>>(sg, rng, natoms, aniso, scale, false);
  }
  if (cmd == "o_charge") {
    // two ions of one element with different tabulated charges: the form factor of each must be its own
    Structure st = make_structure(sg, rng, 2, false, false, 1.0);
    int k = 0;
    for (Residue& res : st.models[0].chains[0].residues)
      for (Atom& at : res.atoms) {
        at.element = Element(El::Fe);
        at.charge = (signed char) (k++ == 0 ? 2 : 3);
        at.occ = 1.0f;
      }
    IT92<double>::ignore_charge = false;
    GroupOps gops = sg.operations();
    StructureFactorCalculator<IT92<double>> calc(st.cell);
    std::string r = "ok";
    for (int h = 0; h <= 3 && r == "ok"; ++h)
      for (int kk = -2; kk <= 2 && r == "ok"; ++kk)
        for (int l = -2; l <= 2; ++l) {
          Miller m = {{h, kk, l}};
          std::complex<double> v = calc.calculate_sf_from_model(st.models[0], m);
          lcplx want = textbook<IT92<double>>(st, gops, m);
          if (std::abs(lcplx(v.real(), v.imag()) - want) > 1e-8L * (1 + std::abs(want))) {
            r = "bad form factor of the second ion (cache keyed by element only?) at " + hs(m);
            break;
          }
        }
    IT92<double>::ignore_charge = true;
    return r;
  }
  if (cmd == "o_small") return small_oracle(sg, rng, (int) to_ll(w.at(2)), (int) to_ll(w.at(3)));
  return "UNKNOWN";
}

int main() { return hv::serve(handle); }
