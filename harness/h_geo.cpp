// Correspondence + oracle harness for the geometry family (C11 unit cell, C20 neighbour search).
// Built from the repository's working tree. Protocol: cmd \t args  ->  cmd \t args \t result.
//  * correspondence commands take an exact cell ("qcell": rational edges, angles as tan(angle/2) or R/H-/H+)
//    and print doubles with 17 digits; the extracted Coq model recomputes them exactly.
//  * oracle commands (o_...) take a cell in degrees and test a law of the property on gemmi itself.
#include "hcommon.hpp"
#include <gemmi/unitcell.hpp>
#include <gemmi/symmetry.hpp>
#include <gemmi/neighbor.hpp>
#include <cmath>
#include <algorithm>
#include <set>
#include <map>
using namespace gemmi;
using hv::words; using hv::to_ll;
typedef std::vector<std::string> Words;

static double rat(const std::string& s) {
  size_t p = s.find('/');
  if (p == std::string::npos) return std::strtod(s.c_str(), nullptr);
  return std::strtod(s.substr(0, p).c_str(), nullptr) / std::strtod(s.substr(p + 1).c_str(), nullptr);
}
static double qangle(const std::string& s) {
  if (s == "R") return 90.0;
  if (s == "H-") return 120.0;
  if (s == "H+") return 60.0;
  return deg(2 * std::atan(rat(s)));
}
static UnitCell qcell(const Words& w, size_t at = 0) {
  return UnitCell(rat(w.at(at)), rat(w.at(at+1)), rat(w.at(at+2)),
                  qangle(w.at(at+3)), qangle(w.at(at+4)), qangle(w.at(at+5)));
}
static UnitCell dcell(const Words& w, size_t at = 0) {
  return UnitCell(rat(w.at(at)), rat(w.at(at+1)), rat(w.at(at+2)),
                  rat(w.at(at+3)), rat(w.at(at+4)), rat(w.at(at+5)));
}
static std::string num(double d) {
  char buf[40];
  std::snprintf(buf, sizeof buf, "%.17g", d);
  return buf;
}
static void put(std::string& s, double d) { if (!s.empty()) s += ' '; s += num(d); }
static void put_mat(std::string& s, const Mat33& m) {
  for (int i = 0; i < 3; ++i) for (int j = 0; j < 3; ++j) put(s, m[i][j]);
}
static void put_smat(std::string& s, const SMat33<double>& m) {
  for (double d : m.elements_pdb()) put(s, d);
}
static Op read_rot(const Words& w, size_t at) {
  Op op;
  for (int i = 0; i < 3; ++i)
    for (int j = 0; j < 3; ++j)
      op.rot[i][j] = (int) to_ll(w.at(at + 3 * i + j));
  op.tran = {0, 0, 0};
  op.notation = ' ';
  return op;
}
static double cosd(double a) { return a == 90. ? 0. : std::cos(rad(a)); }

// independent metric tensor from the six parameters
static Mat33 own_metric(const UnitCell& c) {
  double ca = cosd(c.alpha), cb = cosd(c.beta), cg = cosd(c.gamma);
  return Mat33(c.a*c.a, c.a*c.b*cg, c.a*c.c*cb,
               c.a*c.b*cg, c.b*c.b, c.b*c.c*ca,
               c.a*c.c*cb, c.b*c.c*ca, c.c*c.c);
}
static double max_abs(const Mat33& m) {
  double r = 0;
  for (int i = 0; i < 3; ++i) for (int j = 0; j < 3; ++j) r = std::max(r, std::fabs(m[i][j]));
  return r;
}
static std::string failtxt(const char* what, double got, double want) {
  return std::string(what) + " got=" + num(got) + " want=" + num(want);
}
static bool close_rel(double x, double y, double rel, double scale = 0) {
  return std::fabs(x - y) <= rel * std::max(std::max(std::fabs(x), std::fabs(y)), scale);
}

#include "h_geo_ns.hpp"

static std::string handle(const std::string& cmd, const std::string& args) {
  Words w = words(args);
  // ------------------------------------------------------------ correspondence (C11)
  if (cmd == "props") {
    UnitCell c = qcell(w);
    std::string s;
    put(s, c.volume); put(s, c.ar); put(s, c.br); put(s, c.cr);
    put(s, c.cos_alphar); put(s, c.cos_betar); put(s, c.cos_gammar);
    put_mat(s, c.orth.mat); put_mat(s, c.frac.mat);
    put_smat(s, c.metric_tensor()); put_smat(s, c.reciprocal_metric_tensor());
    return s;
  }
  if (cmd == "recip") {
    UnitCell c = qcell(w);
    UnitCell r = c.reciprocal();
    UnitCell rr = r.reciprocal();
    std::string s;
    for (const UnitCell* u : {&r, &rr}) {
      put(s, u->a); put(s, u->b); put(s, u->c);
      put(s, std::cos(rad(u->alpha))); put(s, std::cos(rad(u->beta))); put(s, std::cos(rad(u->gamma)));
      put(s, u->volume);
    }
    return s;
  }
  if (cmd == "d2") {
    UnitCell c = qcell(w);
    Miller hkl = {{(int) to_ll(w.at(6)), (int) to_ll(w.at(7)), (int) to_ll(w.at(8))}};
    return num(c.calculate_1_d2(hkl));
  }
  if (cmd == "box") {
    UnitCell c = qcell(w);
    Box<Fractional> f;
    f.minimum = Fractional(rat(w.at(6)), rat(w.at(7)), rat(w.at(8)));
    f.maximum = Fractional(rat(w.at(9)), rat(w.at(10)), rat(w.at(11)));
    Box<Position> b = c.orthogonalize_box(f);
    std::string s;
    put(s, b.minimum.x); put(s, b.minimum.y); put(s, b.minimum.z);
    put(s, b.maximum.x); put(s, b.maximum.y); put(s, b.maximum.z);
    return s;
  }
  if (cmd == "dist") {
    UnitCell c = qcell(w);
    Fractional p(rat(w.at(6)), rat(w.at(7)), rat(w.at(8)));
    Fractional q(rat(w.at(9)), rat(w.at(10)), rat(w.at(11)));
    NearestImage im = c.find_nearest_pbc_image(q, p, 0);
    std::string s;
    put(s, c.distance_sq(p, q)); put(s, im.dist_sq);
    for (int i = 0; i < 3; ++i) s += " " + std::to_string(im.pbc_shift[i]);
    return s;
  }
  if (cmd == "compat") {
    UnitCell c = qcell(w);
    double eps = rat(w.at(6));
    GroupOps g;
    int n = (int) to_ll(w.at(7));
    for (int i = 0; i < n; ++i) g.sym_ops.push_back(read_rot(w, 8 + 9 * i));
    return c.is_compatible_with_groupops(g, eps) ? "1" : "0";
  }
  if (cmd == "cb") {
    UnitCell c = qcell(w);
    Op op = read_rot(w, 6);
    UnitCell n = c.changed_basis_backward(op, false);
    std::string s;
    put_smat(s, n.metric_tensor());
    return s;
  }
  if (cmd == "sgops") {   // rotation parts of a space group's symmetry operations (generator input)
    const SpaceGroup* sg = find_spacegroup_by_name(args);
    if (!sg) return "none";
    GroupOps g = sg->operations();
    std::string s = std::to_string(g.sym_ops.size());
    for (const Op& op : g.sym_ops)
      for (int i = 0; i < 3; ++i) for (int j = 0; j < 3; ++j) s += " " + std::to_string(op.rot[i][j]);
    return s;
  }
  // ------------------------------------------------------------ oracles on the implementation (C11)
  if (cmd == "o_inv") {
    UnitCell c = dcell(w);
    Mat33 p1 = c.frac.mat.multiply(c.orth.mat), p2 = c.orth.mat.multiply(c.frac.mat);
    for (int i = 0; i < 3; ++i) for (int j = 0; j < 3; ++j) {
      double want = i == j ? 1. : 0.;
      if (std::fabs(p1[i][j] - want) > 1e-9) return failtxt("frac*orth", p1[i][j], want);
      if (std::fabs(p2[i][j] - want) > 1e-9) return failtxt("orth*frac", p2[i][j], want);
    }
    Fractional f(rat(w.at(6)), rat(w.at(7)), rat(w.at(8)));
    Fractional f2 = c.fractionalize(c.orthogonalize(f));
    double sc = 1 + std::fabs(f.x) + std::fabs(f.y) + std::fabs(f.z);
    if (!f2.approx(f, 1e-9 * sc)) return failtxt("fractionalize(orthogonalize(f)).x", f2.x, f.x);
    Position p(f.x * c.a, f.y * c.b, f.z * c.c);
    Position p3 = c.orthogonalize(c.fractionalize(p));
    if (!p3.approx(p, 1e-9 * sc * (c.a + c.b + c.c))) return failtxt("orthogonalize(fractionalize(p)).x", p3.x, p.x);
    return "1";
  }
  if (cmd == "o_vol") {
    UnitCell c = dcell(w);
    double d = c.orth.mat.determinant();
    if (!(c.volume > 0)) return failtxt("volume positive", c.volume, d);
    if (!close_rel(c.volume, d, 1e-9)) return failtxt("volume vs det(orth)", c.volume, d);
    double g = own_metric(c).determinant();
    if (!close_rel(c.volume * c.volume, g, 1e-9)) return failtxt("volume^2 vs det(G)", c.volume * c.volume, g);
    return "1";
  }
  if (cmd == "o_recip") {
    UnitCell c = dcell(w);
    UnitCell r = c.reciprocal();
    UnitCell rr = r.reciprocal();
    if (!close_rel(rr.a, c.a, 1e-8)) return failtxt("rr.a", rr.a, c.a);
    if (!close_rel(rr.b, c.b, 1e-8)) return failtxt("rr.b", rr.b, c.b);
    if (!close_rel(rr.c, c.c, 1e-8)) return failtxt("rr.c", rr.c, c.c);
    if (std::fabs(rr.alpha - c.alpha) > 1e-6) return failtxt("rr.alpha", rr.alpha, c.alpha);
    if (std::fabs(rr.beta - c.beta) > 1e-6) return failtxt("rr.beta", rr.beta, c.beta);
    if (std::fabs(rr.gamma - c.gamma) > 1e-6) return failtxt("rr.gamma", rr.gamma, c.gamma);
    if (!close_rel(r.volume * c.volume, 1.0, 1e-9)) return failtxt("V*V'", r.volume * c.volume, 1.0);
    // G* G = I with an independently built G
    Mat33 p = c.reciprocal_metric_tensor().as_mat33().multiply(own_metric(c));
    for (int i = 0; i < 3; ++i) for (int j = 0; j < 3; ++j)
      if (std::fabs(p[i][j] - (i == j ? 1. : 0.)) > 1e-9) return failtxt("Gstar*G", p[i][j], i == j ? 1. : 0.);
    // the reciprocal cell's own metric tensor is G*
    Mat33 d = r.metric_tensor().as_mat33() - c.reciprocal_metric_tensor().as_mat33();
    if (max_abs(d) > 1e-9 * max_abs(c.reciprocal_metric_tensor().as_mat33()))
      return failtxt("metric(reciprocal) - Gstar", max_abs(d), 0);
    return "1";
  }
  if (cmd == "o_d2") {
    UnitCell c = dcell(w);
    Miller hkl = {{(int) to_ll(w.at(6)), (int) to_ll(w.at(7)), (int) to_ll(w.at(8))}};
    double got = c.calculate_1_d2(hkl);
    Vec3 h(hkl);
    Vec3 v = c.orth.mat.inverse().transpose().multiply(h);     // generic inverse, not the closed-form frac
    double sc = sq(hkl[0] / c.a) + sq(hkl[1] / c.b) + sq(hkl[2] / c.c);
    if (!close_rel(got, v.length_sq(), 1e-9, sc)) return failtxt("1/d^2 vs |orth^-T h|^2", got, v.length_sq());
    Vec3 v2 = c.frac.mat.transpose().multiply(h);
    if (!close_rel(got, v2.length_sq(), 1e-9, sc)) return failtxt("1/d^2 vs |frac^T h|^2", got, v2.length_sq());
    double q = h.dot(own_metric(c).inverse().multiply(h));
    if (!close_rel(got, q, 1e-9, sc)) return failtxt("1/d^2 vs h G^-1 h", got, q);
    if (hkl[0] || hkl[1] || hkl[2])
      if (!close_rel(c.calculate_d(hkl), 1 / std::sqrt(q), 1e-9)) return failtxt("d", c.calculate_d(hkl), 1 / std::sqrt(q));
    return "1";
  }
  if (cmd == "o_box") {
    UnitCell c = dcell(w);
    Box<Fractional> f;
    f.minimum = Fractional(rat(w.at(6)), rat(w.at(7)), rat(w.at(8)));
    f.maximum = Fractional(rat(w.at(9)), rat(w.at(10)), rat(w.at(11)));
    Box<Position> b = c.orthogonalize_box(f);
    double tol = 1e-9 * (c.a + c.b + c.c) * (1 + std::fabs(f.minimum.x) + std::fabs(f.minimum.y) + std::fabs(f.minimum.z)
                                             + std::fabs(f.maximum.x) + std::fabs(f.maximum.y) + std::fabs(f.maximum.z));
    for (int i = 0; i < 8; ++i) {
      Fractional corner(i & 1 ? f.maximum.x : f.minimum.x, i & 2 ? f.maximum.y : f.minimum.y,
                        i & 4 ? f.maximum.z : f.minimum.z);
      Position p = c.orthogonalize(corner);
      for (int j = 0; j < 3; ++j)
        if (p.at(j) < b.minimum.at(j) - tol || p.at(j) > b.maximum.at(j) + tol)
          return "corner " + std::to_string(i & 1) + std::to_string((i >> 1) & 1) + std::to_string(i >> 2) +
                 " coordinate " + std::to_string(j) + " = " + num(p.at(j)) + " outside [" +
                 num(b.minimum.at(j)) + ", " + num(b.maximum.at(j)) + "]";
    }
    return "1";
  }
  if (cmd == "o_dist") {
    UnitCell c = dcell(w);
    Fractional p(rat(w.at(6)), rat(w.at(7)), rat(w.at(8)));
    Fractional q(rat(w.at(9)), rat(w.at(10)), rat(w.at(11)));
    Fractional n((double) to_ll(w.at(12)), (double) to_ll(w.at(13)), (double) to_ll(w.at(14)));
    Fractional m((double) to_ll(w.at(15)), (double) to_ll(w.at(16)), (double) to_ll(w.at(17)));
    Fractional d = p - q;
    for (int j = 0; j < 3; ++j) {
      double t = std::fabs(d.at(j) - std::floor(d.at(j)) - 0.5);
      if (t < 1e-6) return "skip";       // rounding tie
    }
    double d0 = c.distance_sq(p, q);
    double d1 = c.distance_sq(p + n, q);
    double d2 = c.distance_sq(p, q + m);
    double d3 = c.distance_sq(p + n, q + m);
    double sc = 1e-9 * sq(c.a + c.b + c.c) ;
    if (std::fabs(d1 - d0) > 1e-9 * d0 + 1e-7 * sc) return failtxt("distance_sq(p+n,q)", d1, d0);
    if (std::fabs(d2 - d0) > 1e-9 * d0 + 1e-7 * sc) return failtxt("distance_sq(p,q+m)", d2, d0);
    if (std::fabs(d3 - d0) > 1e-9 * d0 + 1e-7 * sc) return failtxt("distance_sq(p+n,q+m)", d3, d0);
    if (std::fabs(c.distance_sq(q, p) - d0) > 1e-9 * d0) return failtxt("distance_sq(q,p)", c.distance_sq(q, p), d0);
    // the Position overload and the nearest-image shift agree with it
    double d4 = c.distance_sq(c.orthogonalize(p + n), c.orthogonalize(q));
    if (std::fabs(d4 - d0) > 1e-8 * d0 + 1e-6 * sc) return failtxt("distance_sq(Position)", d4, d0);
    NearestImage im = c.find_nearest_pbc_image(q, p + n, 0);
    if (std::fabs(im.dist_sq - d0) > 1e-9 * d0 + 1e-7 * sc) return failtxt("find_nearest_pbc_image.dist_sq", im.dist_sq, d0);
    Fractional sh(im.pbc_shift[0], im.pbc_shift[1], im.pbc_shift[2]);
    double d5 = c.orthogonalize_difference(p + n - q + sh).length_sq();
    if (std::fabs(d5 - d0) > 1e-9 * d0 + 1e-7 * sc) return failtxt("|p + shift - q|^2", d5, d0);
    return "1";
  }
  if (cmd == "o_cb") {
    UnitCell c = dcell(w);
    Op op = read_rot(w, 6);
    Op inv;
    try { inv = op.inverse(); } catch (std::exception&) { return "skip"; }
    if (op.combine(inv).rot != Op::identity().rot) return "skip";   // inverse not exact in 1/24 units
    UnitCell f = c.changed_basis_forward(op, false);
    UnitCell b = f.changed_basis_backward(op, false);
    if (!close_rel(b.a, c.a, 1e-8)) return failtxt("a", b.a, c.a);
    if (!close_rel(b.b, c.b, 1e-8)) return failtxt("b", b.b, c.b);
    if (!close_rel(b.c, c.c, 1e-8)) return failtxt("c", b.c, c.c);
    if (std::fabs(b.alpha - c.alpha) > 1e-6) return failtxt("alpha", b.alpha, c.alpha);
    if (std::fabs(b.beta - c.beta) > 1e-6) return failtxt("beta", b.beta, c.beta);
    if (std::fabs(b.gamma - c.gamma) > 1e-6) return failtxt("gamma", b.gamma, c.gamma);
    // the forward cell's metric tensor is P^T G P with P = rot(op^-1), independently computed
    Mat33 P = rot_as_mat33(inv);
    Mat33 want = P.transpose().multiply(own_metric(c)).multiply(P);
    Mat33 d = f.metric_tensor().as_mat33() - want;
    if (max_abs(d) > 1e-9 * max_abs(want)) return failtxt("metric(forward) - P^T G P", max_abs(d), 0);
    return "1";
  }
  if (cmd == "o_compat") {
    UnitCell c = dcell(w);
    double eps = rat(w.at(6));
    std::string name;
    for (size_t i = 7; i < w.size(); ++i) name += (i > 7 ? " " : "") + w[i];
    const SpaceGroup* sg = find_spacegroup_by_name(name);
    if (!sg) return "skip";
    GroupOps g = sg->operations();
    bool got = c.is_compatible_with_groupops(g, eps);
    if (got != c.is_compatible_with_spacegroup(sg, eps)) return "is_compatible_with_spacegroup differs";
    Mat33 G = own_metric(c);
    double dev = 0;
    for (const Op& op : g.sym_ops) {
      Mat33 R = rot_as_mat33(op);
      dev = std::max(dev, max_abs(R.transpose().multiply(G).multiply(R) - G));
    }
    if (std::fabs(dev - eps) < 1e-6 * std::max(1.0, max_abs(G))) return "skip";
    bool want = dev <= eps;
    if (got != want)
      return std::string("is_compatible=") + (got ? "1" : "0") + " but max |R^T G R - G| = " + num(dev);
    return "1";
  }
  std::string r;
  if (handle_ns(cmd, w, args, r)) return r;
  return "UNKNOWN";
}

int main() { return hv::serve(handle); }
