// Harness for property C13: moving reflections to symmetry-equivalent indices (Mtz::ensure_asu,
// AsuData::ensure_asu, expand_to_p1, switch_to_original/asu_hkl, reindex) on /repo's working tree.
// Oracles compare transformed data with a structure-factor function computed from point atoms,
// which is symmetry-consistent by construction.
#include "hcommon.hpp"
#include <gemmi/mtz.hpp>
#include <gemmi/reciproc.hpp>
#include <set>
#include <gemmi/asudata.hpp>
#include <gemmi/symmetry.hpp>
#include <gemmi/unitcell.hpp>
#include <cmath>
#include <complex>
#include <algorithm>
#include <map>
using namespace gemmi;
using hv::words; using hv::to_ll;
typedef std::complex<double> cplx;
static const double PI = 3.14159265358979323846;

struct Truth {
  std::vector<std::array<double,3>> pos;  // all symmetry copies
  std::vector<cplx> f;   // real part: normal scattering, imaginary part: anomalous f"
  cplx sum(const Miller& h, bool anom) const {
    cplx s = 0;
    for (size_t j = 0; j < pos.size(); ++j) {
      double arg = 2 * PI * (h[0] * pos[j][0] + h[1] * pos[j][1] + h[2] * pos[j][2]);
      s += (anom ? f[j] : cplx(f[j].real(), 0)) * cplx(std::cos(arg), std::sin(arg));
    }
    return s;
  }
  cplx F(const Miller& h) const { return sum(h, false); }    // obeys Friedel's law
  cplx Fa(const Miller& h) const { return sum(h, true); }    // anomalous: F(+) and F(-) differ
};

// simple deterministic generator
struct Lcg {
  unsigned long long s;
  explicit Lcg(unsigned long long seed) : s(seed * 6364136223846793005ULL + 1442695040888963407ULL) {}
  unsigned next() { s = s * 6364136223846793005ULL + 1442695040888963407ULL; return unsigned(s >> 33); }
  double uni() { return (next() % 1000003) / 1000003.0; }
  int range(int lo, int hi) { return lo + int(next() % unsigned(hi - lo + 1)); }
};

static Truth make_truth(const GroupOps& gops, Lcg& rng, int natoms, bool anomalous) {
  Truth t;
  for (int a = 0; a < natoms; ++a) {
    std::array<double,3> x = {{rng.uni(), rng.uni(), rng.uni()}};
    cplx f(1.0 + 5 * rng.uni(), anomalous ? 0.3 + 2 * rng.uni() : 0.0);
    for (Op op : gops) {
      t.pos.push_back(op.apply_to_xyz(x));
      t.f.push_back(f);
    }
  }
  return t;
}

static UnitCell cell_for(const SpaceGroup& sg) {
  // a cell compatible with the crystal system (values only matter for d-spacing checks)
  switch (sg.crystal_system()) {
    case CrystalSystem::Triclinic: return UnitCell(11, 13, 17, 81, 97, 103);
    case CrystalSystem::Monoclinic:
      switch (sg.monoclinic_unique_axis()) {
        case 'a': return UnitCell(11, 13, 17, 101, 90, 90);
        case 'c': return UnitCell(11, 13, 17, 90, 90, 101);
        default: return UnitCell(11, 13, 17, 90, 101, 90);
      }
    case CrystalSystem::Orthorhombic: return UnitCell(11, 13, 17, 90, 90, 90);
    case CrystalSystem::Tetragonal: return UnitCell(13, 13, 17, 90, 90, 90);
    case CrystalSystem::Trigonal:
      if (sg.ext == 'R') return UnitCell(13, 13, 13, 75, 75, 75);
      return UnitCell(13, 13, 17, 90, 90, 120);
    case CrystalSystem::Hexagonal: return UnitCell(13, 13, 17, 90, 90, 120);
    case CrystalSystem::Cubic: return UnitCell(13, 13, 13, 90, 90, 90);
  }
  return UnitCell(10, 10, 10, 90, 90, 90);
}

static double angdiff(double a, double b) {  // degrees
  double d = std::fmod(a - b, 360.0);
  if (d < -180) d += 360;
  if (d > 180) d -= 360;
  return std::fabs(d);
}
static double hl(const float* abcd, double phi_deg) {
  double p = phi_deg * PI / 180;
  return abcd[0] * std::cos(p) + abcd[1] * std::sin(p) + abcd[2] * std::cos(2 * p) + abcd[3] * std::sin(2 * p);
}

enum { cH, cK, cL, cF, cPHI, cA, cB, cC, cD, cFP, cFM, cDANO, cFM2, cFP2, NCOL };

static void init_merged(Mtz& mtz, const SpaceGroup& sg) {
  mtz.set_spacegroup(&sg);
  mtz.set_cell_for_all(cell_for(sg));
  mtz.add_base();
  mtz.add_dataset("ds");
  const char* labels[] = {"F", "PHI", "HLA", "HLB", "HLC", "HLD", "F(+)", "F(-)", "DANO"};
  const char types[] = {'F', 'P', 'A', 'A', 'A', 'A', 'G', 'G', 'D'};
  for (int i = 0; i < 9; ++i)
    mtz.add_column(labels[i], types[i], 1, -1, false);
  // a second dataset that uses the same labels for its own (+)/(-) pair (half the values of the first)
  mtz.add_dataset("ds2");
  // stored the other way round: the (-) column precedes its (+) partner
  mtz.add_column("F(-)", 'G', 2, -1, false);
  mtz.add_column("F(+)", 'G', 2, -1, false);
}

static std::vector<float> truth_row(const Truth& t, const GroupOps& gops, const Miller& h, Lcg& rng) {
  std::vector<float> r(NCOL);
  cplx F = t.F(h), Fp = t.Fa(h), Fm = t.Fa({{-h[0], -h[1], -h[2]}});
  r[cH] = (float) h[0]; r[cK] = (float) h[1]; r[cL] = (float) h[2];
  r[cF] = (float) std::abs(F);
  r[cPHI] = (float) (std::arg(F) * 180 / PI);
  for (int i = cA; i <= cD; ++i) r[i] = (float) (rng.uni() * 4 - 2);
  bool centric = gops.is_reflection_centric(h);
  r[cFP] = (float) std::abs(Fp);
  r[cFM] = centric ? NAN : (float) std::abs(Fm);
  r[cDANO] = centric ? 0.f : r[cFP] - r[cFM];
  r[cFP2] = 0.5f * r[cFP];
  r[cFM2] = 0.5f * r[cFM];
  return r;
}

// check one transformed row against the truth. orig = the row before the transformation.
static std::string check_row(const Truth& t, const GroupOps& gops, const float* row, const float* orig,
                             bool check_anom) {
  Miller h = {{(int) row[cH], (int) row[cK], (int) row[cL]}};
  Miller h0 = {{(int) orig[cH], (int) orig[cK], (int) orig[cL]}};
  cplx F = t.F(h), F0 = t.F(h0);
  double amp = std::abs(F);
  if (std::fabs(row[cF] - amp) > 1e-3 * (1 + amp)) return "amplitude";
  if (amp > 0.05) {
    if (angdiff(row[cPHI], std::arg(F) * 180 / PI) > 0.05 + 3.0 / amp * 0.01) return "phase";
    // HL: phi' = argF(h') + s*(phi - argF(h)); find s from the truth relation F(h') = F(h)^(s) * unit
    // s = +1 if h' is a rotation image of h, -1 if it is a rotation image of -h (either, if centric)
    bool plus = false, minus = false;
    for (const Op& op : gops.sym_ops) {
      Miller m = op.apply_to_hkl(h0);
      if (m == h) plus = true;
      if (m[0] == -h[0] && m[1] == -h[1] && m[2] == -h[2]) minus = true;
    }
    if (!plus && !minus) return "not-equivalent";
    bool ok_any = false;
    for (int s : {1, -1}) {
      if ((s == 1 && !plus) || (s == -1 && !minus)) continue;
      bool ok = true;
      for (double phi : {10.0, 77.0, 200.0, 311.0}) {
        double phi2 = std::arg(F) * 180 / PI + s * (phi - std::arg(F0) * 180 / PI);
        if (std::fabs(hl(row + cA, phi2) - hl(orig + cA, phi)) > 2e-3 * (1 + 3.0 / amp)) ok = false;
      }
      if (ok) ok_any = true;
    }
    if (!ok_any) return "HL";
  }
  if (check_anom) {
    bool centric = gops.is_reflection_centric(h);
    double ap = std::abs(t.Fa(h));
    if (std::fabs(row[cFP] - ap) > 1e-3 * (1 + ap)) return "F(+)";
    if (!centric) {
      double am = std::abs(t.Fa({{-h[0], -h[1], -h[2]}}));
      if (std::isnan(row[cFM]) || std::fabs(row[cFM] - am) > 1e-3 * (1 + am)) return "F(-)";
      if (std::fabs(row[cDANO] - (ap - am)) > 2e-3 * (1 + ap)) return "DANO";
    } else if (!std::isnan(row[cFM])) {
      return "F(-) of centric";
    }
    // the second dataset carries its own (+)/(-) pair under the same labels: half the values of the first
    auto same = [](float a, float b) { return (std::isnan(a) && std::isnan(b)) || std::fabs(a - b) <= 1e-5f * (1 + std::fabs(b)); };
    if (!same(row[cFP2], 0.5f * row[cFP]) || !same(row[cFM2], 0.5f * row[cFM])) return "F(+)/F(-) of the second dataset";
  }
  return "";
}

static std::string hs(const Miller& h) {
  return std::to_string(h[0]) + "," + std::to_string(h[1]) + "," + std::to_string(h[2]);
}

static std::string handle(const std::string& cmd, const std::string& args) {
  std::vector<std::string> w = words(args);
  if (cmd == "move") {
    // model correspondence: one reflection through Mtz::ensure_asu and AsuData::ensure_asu
    // args: row tnt h k l ; PHI = 5 deg, F(+)=1, F(-)=2, DANO=-1
    const SpaceGroup& sg = spacegroup_tables::main[to_ll(w.at(0))];
    bool tnt = to_ll(w.at(1)) != 0;
    Miller h = {{(int) to_ll(w.at(2)), (int) to_ll(w.at(3)), (int) to_ll(w.at(4))}};
    Mtz mtz;
    init_merged(mtz, sg);
    std::vector<float> r(NCOL, 0.f);
    r[cH] = (float) h[0]; r[cK] = (float) h[1]; r[cL] = (float) h[2];
    r[cF] = 5; r[cPHI] = 5.0f; r[cFP] = 1; r[cFM] = 2; r[cDANO] = -1;
    mtz.set_data(r.data(), r.size());
    mtz.ensure_asu(tnt);
    const float* o = mtz.data.data();
    auto decode = [](double phi) {
      // phi = s * (5 + 15 k) -> (s, k mod 24)
      double p = std::fmod(phi + 720.0, 360.0);
      for (int s : {1, -1})
        for (int k = 0; k < 24; ++k)
          if (angdiff(p, s * (5.0 + 15 * k)) < 0.01)
            return std::to_string(s) + " " + std::to_string(k);
      return std::string("? ?");
    };
    std::string s = std::to_string((int) o[cH]) + " " + std::to_string((int) o[cK]) + " " +
                    std::to_string((int) o[cL]) + " " + decode(o[cPHI]) + " " +
                    (o[cFP] == 2 ? "1" : "0") + " " + (o[cDANO] == 1 ? "1" : "0");
    // AsuData<complex<float>> path
    AsuData<std::complex<float>> ad;
    ad.spacegroup_ = &sg;
    ad.unit_cell_ = mtz.cell;
    ad.v.push_back({h, std::polar(5.0f, float(5.0 * PI / 180))});
    ad.ensure_asu(tnt);
    s += " D " + std::to_string(ad.v[0].hkl[0]) + " " + std::to_string(ad.v[0].hkl[1]) + " " +
         std::to_string(ad.v[0].hkl[2]) + " " + decode(std::arg(ad.v[0].value) * 180 / PI);
    return s;
  }
  if (cmd == "rx") {
    // model correspondence for the row rule of Mtz::reindex: args r00..r22 | h k l ... -> kept rows with new indices
    Op op;
    for (int i = 0; i < 3; ++i)
      for (int j = 0; j < 3; ++j)
        op.rot[i][j] = (int) to_ll(w.at(3 * i + j));
    op.tran = {{0, 0, 0}};
    op.notation = 'x';
    Mtz mtz;
    mtz.set_cell_for_all(UnitCell(30, 40, 50, 90, 90, 90));
    mtz.add_base();
    std::vector<float> data;
    for (size_t k = 10; k + 2 < w.size(); k += 3)
      for (int j = 0; j < 3; ++j) data.push_back((float) to_ll(w[k + j]));
    if (data.empty()) return "0";
    mtz.set_data(data.data(), data.size());
    mtz.reindex(op);
    std::string out = std::to_string(mtz.nreflections);
    for (size_t n = 0; n < mtz.data.size(); n += 3) out += " " + std::to_string((int) mtz.data[n]) + " " +
        std::to_string((int) mtz.data[n + 1]) + " " + std::to_string((int) mtz.data[n + 2]);
    return out;
  }
  if (cmd == "pm") {
    // model correspondence for Mtz::positions_of_plus_minus_columns and the (+)/(-) swap of Mtz::ensure_asu.
    // args: columns as labelhex:type:dataset (the first three are H K L), then "|", then one row of small integers
    // whose index (-1,-2,-3) is moved through its Friedel mate in P 1. Result: the pairs, "|", the row after ensure_asu
    // (with the original index put back).
    Mtz mtz;
    mtz.set_spacegroup(&get_spacegroup_p1());
    mtz.set_cell_for_all(UnitCell(30, 40, 50, 90, 90, 90));
    size_t k = 0;
    int maxds = 0;
    std::vector<std::array<std::string, 3>> cols;
    for (; k < w.size() && w[k] != "|"; ++k) {
      size_t a = w[k].find(':'), b = w[k].rfind(':');
      cols.push_back({{w[k].substr(0, a), w[k].substr(a + 1, b - a - 1), w[k].substr(b + 1)}});
      maxds = std::max(maxds, (int) to_ll(cols.back()[2]));
    }
    for (int d = 0; d <= maxds; ++d) { mtz.datasets.emplace_back(); mtz.datasets.back().id = d; mtz.datasets.back().cell = mtz.cell; }
    for (size_t i = 0; i < cols.size(); ++i) {
      mtz.columns.emplace_back();
      Mtz::Column& c = mtz.columns.back();
      std::string lab;
      for (size_t q = 0; q + 1 < cols[i][0].size(); q += 2) lab += (char) std::stoi(cols[i][0].substr(q, 2), nullptr, 16);
      c.label = lab; c.type = (char) to_ll(cols[i][1]); c.dataset_id = (int) to_ll(cols[i][2]);
      c.parent = &mtz; c.idx = i;
    }
    std::string s;
    for (auto& pr : mtz.positions_of_plus_minus_columns())
      s += (s.empty() ? "" : " ") + std::to_string(pr.first) + "-" + std::to_string(pr.second);
    s += " |";
    std::vector<float> row;
    for (++k; k < w.size(); ++k) row.push_back((float) to_ll(w[k]));
    if (row.size() != cols.size() || row.size() < 3) return "bad-args";
    mtz.set_data(row.data(), row.size());
    mtz.ensure_asu(false);
    if (mtz.data.size() != row.size() || mtz.data[0] != -row[0] || mtz.data[1] != -row[1] || mtz.data[2] != -row[2]) return "bad-hkl";
    for (size_t i = 0; i < row.size(); ++i) s += " " + std::to_string((int) (i < 3 ? row[i] : mtz.data[i]));
    return s;
  }
  if (cmd == "o_miller") {
    // make_miller_vector / count_reflections: args row dmin_x100 dmax_x100
    const SpaceGroup& sg = spacegroup_tables::main[to_ll(w.at(0))];
    double dmin = to_ll(w.at(1)) / 100.0 + 1e-7, dmax = to_ll(w.at(2)) / 100.0;
    UnitCell cell = cell_for(sg);
    cell.set_cell_images_from_spacegroup(&sg);
    GroupOps gops = sg.operations();
    ReciprocalAsu asu(&sg);
    std::vector<Miller> uniq = make_miller_vector(cell, &sg, dmin, dmax, true);
    std::vector<Miller> full = make_miller_vector(cell, &sg, dmin, dmax, false);
    if ((int) uniq.size() != count_reflections(cell, &sg, dmin, dmax, true)) return "bad count unique";
    if ((int) full.size() != count_reflections(cell, &sg, dmin, dmax, false)) return "bad count all";
    auto in_range = [&](const Miller& h) {
      double v = cell.calculate_1_d2(h);
      return v <= 1 / (dmin * dmin) && v > (dmax > 0 ? 1 / (dmax * dmax) : 0.);   // (0,0,0) is not a reflection
    };
    std::set<Miller> us(uniq.begin(), uniq.end()), fs(full.begin(), full.end());
    if (us.size() != uniq.size() || fs.size() != full.size()) return "bad duplicate reflection";
    for (const Miller& h : uniq)
      if (!asu.is_in(h) || gops.is_systematically_absent(h) || !in_range(h)) return "bad unique list holds " + hs(h);
    // brute force over a cube that certainly contains the resolution sphere
    int L = (int) std::ceil(std::max(cell.a, std::max(cell.b, cell.c)) / dmin) + 2;
    size_t n_all = 0;
    for (int h = -L; h <= L; ++h) for (int k = -L; k <= L; ++k) for (int l = -L; l <= L; ++l) {
      Miller m = {{h, k, l}};
      if (!in_range(m) || gops.is_systematically_absent(m)) continue;
      // margin: skip indices whose 1/d^2 is within rounding of the limits
      double v = cell.calculate_1_d2(m), a1 = 1 / (dmin * dmin), a2 = dmax > 0 ? 1 / (dmax * dmax) : -1;
      if (std::fabs(v - a1) < 1e-9 * a1 || std::fabs(v - a2) < 1e-9) continue;
      ++n_all;
      if (!fs.count(m)) return "bad missing from the full list: " + hs(m);
      if (asu.is_in(m) != (us.count(m) != 0)) return "bad unique list disagrees with the ASU for " + hs(m);
      // its ASU equivalent is listed, and is the only listed member of the orbit
      Miller a = asu.to_asu(m, gops).first;
      if (!us.count(a)) return "bad ASU equivalent not listed: " + hs(m) + " -> " + hs(a);
      int listed = 0;
      std::set<Miller> orbit;
      for (const Op& op : gops.sym_ops) {
        Miller p = op.apply_to_hkl(m);
        orbit.insert(p);
        orbit.insert(Miller{{-p[0], -p[1], -p[2]}});
      }
      for (const Miller& p : orbit) listed += (int) us.count(p);
      if (listed != 1) return "bad orbit of " + hs(m) + " has " + std::to_string(listed) + " members in the unique list";
    }
    // every listed reflection is inside the shell (with the library's own 1/d^2), present, and inside the cube just
    // scanned; so the full list is exactly the set the brute force saw plus indices within rounding of a limit
    size_t n_margin = 0;
    for (const Miller& m : full) {
      if (!in_range(m) || gops.is_systematically_absent(m)) return "bad full list holds " + hs(m);
      if (std::abs(m[0]) > L || std::abs(m[1]) > L || std::abs(m[2]) > L) return "bad full list holds (outside the cube) " + hs(m);
      double v = cell.calculate_1_d2(m), a1 = 1 / (dmin * dmin), a2 = dmax > 0 ? 1 / (dmax * dmax) : -1;
      if (std::fabs(v - a1) < 1e-9 * a1 || std::fabs(v - a2) < 1e-9) ++n_margin;
    }
    if (n_all + n_margin != full.size()) return "bad full list holds reflections outside the sphere";
    return uniq.empty() ? "skip" : "ok";
  }
  if (cmd == "expand") {
    // model correspondence: one reflection (PHI = 5 deg) through Mtz::expand_to_p1
    // args: row h k l -> for each appended row: h k l k24 (phase = 5 + 15*k24 degrees)
    const SpaceGroup& sg = spacegroup_tables::main[to_ll(w.at(0))];
    Miller h = {{(int) to_ll(w.at(1)), (int) to_ll(w.at(2)), (int) to_ll(w.at(3))}};
    Mtz mtz;
    init_merged(mtz, sg);
    std::vector<float> r(NCOL, 0.f);
    r[cH] = (float) h[0]; r[cK] = (float) h[1]; r[cL] = (float) h[2];
    r[cF] = 5; r[cPHI] = 5.0f; r[cFP] = 1; r[cFM] = 2; r[cDANO] = -1;
    mtz.set_data(r.data(), r.size());
    mtz.expand_to_p1();
    std::string s = std::to_string(mtz.nreflections - 1);
    for (size_t n = 0; n < mtz.data.size(); n += NCOL) {
      const float* o = &mtz.data[n];
      double p = std::fmod(o[cPHI] + 720.0, 360.0);
      int kk = -1;
      for (int k = 0; k < 24; ++k)
        if (angdiff(p, 5.0 + 15 * k) < 0.01) kk = k;
      if (n == 0) {   // the original row must be untouched
        if ((int) o[cH] != h[0] || (int) o[cK] != h[1] || (int) o[cL] != h[2] || kk != 0) return "bad-first-row";
        continue;
      }
      s += " " + std::to_string((int) o[cH]) + " " + std::to_string((int) o[cK]) + " " + std::to_string((int) o[cL]) +
           " " + std::to_string(kk);
    }
    return s;
  }
  if (cmd == "o_ensure" || cmd == "o_asudata" || cmd == "o_expand") {
    // args: row tnt seed natoms nrefl hmax
    const SpaceGroup& sg = spacegroup_tables::main[to_ll(w.at(0))];
    bool tnt = to_ll(w.at(1)) != 0;
    Lcg rng((unsigned long long) to_ll(w.at(2)));
    int natoms = (int) to_ll(w.at(3)), nrefl = (int) to_ll(w.at(4)), hmax = (int) to_ll(w.at(5));
    GroupOps gops = sg.operations();
    Truth t = make_truth(gops, rng, natoms, true);
    ReciprocalAsu asu(&sg, tnt);
    std::vector<Miller> hkls;
    for (int i = 0; i < nrefl; ++i) {
      Miller h = {{rng.range(-hmax, hmax), rng.range(-hmax, hmax), rng.range(-hmax, hmax)}};
      int kind = rng.range(0, 9);
      if (kind == 0) h[0] = 0; else if (kind == 1) h[1] = 0; else if (kind == 2) h[2] = 0;
      else if (kind == 3) h[1] = h[0]; else if (kind == 4) { h[0] = 0; h[1] = 0; }
      else if (kind == 5) { h[1] = 0; h[2] = 0; } else if (kind == 6) { h[1] = h[0]; h[2] = h[0]; }
      if (h == Miller{{0, 0, 0}}) continue;
      if (gops.is_systematically_absent(h)) continue;  // truth is 0 there, phase undefined
      if (cmd == "o_expand") h = asu.to_asu(h, gops).first;
      if (std::find(hkls.begin(), hkls.end(), h) == hkls.end())
        hkls.push_back(h);
    }
    if (cmd == "o_asudata") {
      AsuData<std::complex<float>> ad;
      ad.spacegroup_ = &sg;
      ad.unit_cell_ = cell_for(sg);
      for (const Miller& h : hkls) {
        cplx F = t.F(h);
        ad.v.push_back({h, std::complex<float>((float) F.real(), (float) F.imag())});
      }
      ad.ensure_asu(tnt);
      for (size_t i = 0; i < ad.v.size(); ++i) {
        const Miller& h2 = ad.v[i].hkl;
        if (!asu.is_in(h2)) return "bad not-in-asu " + hs(hkls[i]) + " -> " + hs(h2);
        cplx F = t.F(h2);
        cplx got(ad.v[i].value.real(), ad.v[i].value.imag());
        if (std::abs(got - F) > 2e-3 * (1 + std::abs(F)))
          return "bad value " + hs(hkls[i]) + " -> " + hs(h2);
      }
      return "ok";
    }
    Mtz mtz;
    init_merged(mtz, sg);
    std::vector<float> data;
    for (const Miller& h : hkls) {
      std::vector<float> r = truth_row(t, gops, h, rng);
      data.insert(data.end(), r.begin(), r.end());
    }
    if (data.empty()) return "skip";
    mtz.set_data(data.data(), data.size());
    if (cmd == "o_ensure") {
      mtz.ensure_asu(tnt);
      if (mtz.data.size() != data.size()) return "bad size";
      for (size_t n = 0; n < data.size(); n += NCOL) {
        Miller h2 = mtz.get_hkl(n);
        if (!asu.is_in(h2)) return "bad not-in-asu " + hs(hkls[n / NCOL]) + " -> " + hs(h2);
        std::string e = check_row(t, gops, &mtz.data[n], &data[n], true);
        if (!e.empty()) return "bad " + e + " " + hs(hkls[n / NCOL]) + " -> " + hs(h2);
      }
      return "ok";
    }
    // o_expand
    mtz.expand_to_p1();
    if (mtz.spacegroup != &get_spacegroup_p1()) return "bad spacegroup-after-expand";
    std::map<Miller, int> count;
    for (size_t n = 0; n < mtz.data.size(); n += NCOL) {
      Miller h2 = mtz.get_hkl(n);
      count[h2]++;
      // find the original row it came from: an ASU-unique reflection equivalent to h2
      Miller ha = asu.to_asu(h2, gops).first;
      auto it = std::find(hkls.begin(), hkls.end(), ha);
      if (it == hkls.end()) return "bad unexpected-hkl " + hs(h2);
      size_t n0 = size_t(it - hkls.begin()) * NCOL;
      // anomalous columns are not transformed by expand_to_p1 (no Friedel mates are generated): skip them
      std::string e = check_row(t, gops, &mtz.data[n], &data[n0], false);
      if (!e.empty()) return "bad " + e + " " + hs(ha) + " -> " + hs(h2);
    }
    for (const Miller& h : hkls) {
      for (const Op& op : gops.sym_ops) {
        Miller m = op.apply_to_hkl(h);
        Miller mm = {{-m[0], -m[1], -m[2]}};
        int c = (count.count(m) ? count[m] : 0) + (m != mm && count.count(mm) ? count[mm] : 0);
        if (c != 1) return "bad orbit-coverage " + hs(h) + " member " + hs(m) + " count " + std::to_string(c);
      }
    }
    return "ok";
  }
  if (cmd == "o_switch") {
    // unmerged round trip; args: row seed nrefl hmax
    const SpaceGroup& sg = spacegroup_tables::main[to_ll(w.at(0))];
    Lcg rng((unsigned long long) to_ll(w.at(1)));
    int nrefl = (int) to_ll(w.at(2)), hmax = (int) to_ll(w.at(3));
    Mtz mtz;
    mtz.set_spacegroup(&sg);
    mtz.set_cell_for_all(cell_for(sg));
    mtz.add_base();
    mtz.add_dataset("ds");
    mtz.add_column("M/ISYM", 'Y', 1, -1, false);
    mtz.add_column("BATCH", 'B', 1, -1, false);
    mtz.add_column("I", 'J', 1, -1, false);
    mtz.batches.emplace_back();
    mtz.batches.back().number = 1;
    GroupOps gops = sg.operations();
    // SYMM records hold every operation (rotation parts x centring vectors)
    for (Op op : gops) mtz.symops.push_back(op);
    std::vector<float> data;
    std::vector<Miller> orig;
    for (int i = 0; i < nrefl; ++i) {
      Miller h = {{rng.range(-hmax, hmax), rng.range(-hmax, hmax), rng.range(-hmax, hmax)}};
      if (rng.range(0, 5) == 0) h[rng.range(0, 2)] = 0;
      orig.push_back(h);
      int mflag = 256 * rng.range(0, 3);
      data.insert(data.end(), {(float) h[0], (float) h[1], (float) h[2], (float) mflag, 1.f, (float) i});
    }
    mtz.set_data(data.data(), data.size());
    mtz.indices_switched_to_original = true;
    if (!mtz.switch_to_asu_hkl()) return "bad switch_to_asu returned false";
    ReciprocalAsu asu(&sg);
    std::vector<float> asu_data = mtz.data;
    for (size_t n = 0; n < mtz.data.size(); n += 6) {
      Miller ha = mtz.get_hkl(n);
      if (!asu.is_in(ha)) return "bad not-in-asu " + hs(orig[n / 6]) + " -> " + hs(ha);
      int m = (int) mtz.data[n + 3];
      if ((m & ~0xff) != (int) data[n + 3]) return "bad M-flag-changed";
      int isym = m & 0xff;
      if (isym < 1 || isym > 2 * (int) gops.sym_ops.size()) return "bad isym-range";
      Miller chk = gops.sym_ops[(isym - 1) / 2].apply_to_hkl(orig[n / 6]);
      if (isym % 2 == 0) chk = {{-chk[0], -chk[1], -chk[2]}};
      if (chk != ha) return "bad isym-does-not-relate " + hs(orig[n / 6]) + " isym " + std::to_string(isym);
    }
    if (!mtz.switch_to_original_hkl()) return "bad switch_to_original returned false";
    for (size_t n = 0; n < mtz.data.size(); n += 6) {
      if (mtz.get_hkl(n) != orig[n / 6])
        return "bad original-not-restored " + hs(orig[n / 6]) + " got " + hs(mtz.get_hkl(n));
      if (mtz.data[n + 3] != asu_data[n + 3]) return "bad M/ISYM-changed-by-switch_to_original";
    }
    if (!mtz.switch_to_asu_hkl()) return "bad second switch_to_asu returned false";
    if (mtz.data != asu_data) return "bad asu-original-asu differs";
    return "ok";
  }
  if (cmd == "o_reindex") {
    // args: row seed nrefl hmax op(13 ints)
    const SpaceGroup& sg = spacegroup_tables::main[to_ll(w.at(0))];
    Lcg rng((unsigned long long) to_ll(w.at(1)));
    int nrefl = (int) to_ll(w.at(2)), hmax = (int) to_ll(w.at(3));
    Op op;
    for (int i = 0; i < 3; ++i)
      for (int j = 0; j < 3; ++j)
        op.rot[i][j] = (int) to_ll(w.at(4 + 3 * i + j));
    op.tran = {{0, 0, 0}};
    op.notation = (char) to_ll(w.at(16));
    Mtz mtz;
    init_merged(mtz, sg);
    GroupOps gops = sg.operations();
    std::vector<float> data;
    std::vector<Miller> hkls;
    for (int i = 0; i < nrefl; ++i) {
      Miller h = {{rng.range(-hmax, hmax), rng.range(-hmax, hmax), rng.range(-hmax, hmax)}};
      if (std::find(hkls.begin(), hkls.end(), h) != hkls.end()) continue;
      hkls.push_back(h);
      std::vector<float> r(NCOL, 1.f);
      r[cH] = (float) h[0]; r[cK] = (float) h[1]; r[cL] = (float) h[2];
      r[cF] = (float) (hkls.size() - 1);   // serial number to identify the row later
      data.insert(data.end(), r.begin(), r.end());
    }
    mtz.set_data(data.data(), data.size());
    UnitCell cell0 = mtz.cell;
    mtz.reindex(op);
    const SpaceGroup* sg1 = mtz.spacegroup;
    if (!sg1) return "bad no-spacegroup";
    GroupOps gops1 = sg1->operations();
    if (gops1.order() != gops.order()) return "bad group-order-changed";
    size_t nkept = mtz.data.size() / NCOL;
    for (size_t n = 0; n < mtz.data.size(); n += NCOL) {
      Miller h1 = mtz.get_hkl(n);
      const Miller& h0 = hkls[(size_t) mtz.data[n + cF]];
      double d0 = cell0.calculate_1_d2(h0), d1 = mtz.cell.calculate_1_d2(h1);
      if (std::fabs(d0 - d1) > 1e-6 * (1 + d0)) return "bad d-spacing " + hs(h0) + " -> " + hs(h1);
      if (gops.is_systematically_absent(h0) != gops1.is_systematically_absent(h1))
        return "bad absence " + hs(h0) + " -> " + hs(h1);
      if (gops.is_reflection_centric(h0) != gops1.is_reflection_centric(h1))
        return "bad centricity " + hs(h0) + " -> " + hs(h1);
      if (gops.epsilon_factor(h0) != gops1.epsilon_factor(h1))
        return "bad epsilon " + hs(h0) + " -> " + hs(h1);
    }
    if (nkept != hkls.size()) return "skip";   // fractional indices removed: inverse cannot restore
    // undo with the inverse operator
    Op inv = op.inverse();
    // exactness of the inverse is a precondition
    if (op.combine(inv) != Op::identity() && !(op.combine(inv).rot == Op::identity().rot)) return "skip";
    mtz.reindex(inv);
    if (mtz.spacegroup != &sg) {
      // alias rows have the same operations
      if (!mtz.spacegroup || !mtz.spacegroup->operations().is_same_as(gops)) return "bad spacegroup-not-restored";
    }
    if (mtz.data.size() != data.size()) return "bad rows-lost-on-inverse";
    for (size_t n = 0; n < mtz.data.size(); n += NCOL)
      if (mtz.get_hkl(n) != hkls[(size_t) mtz.data[n + cF]]) return "bad hkl-not-restored " + hs(mtz.get_hkl(n));
    const UnitCell& c = mtz.cell;
    if (std::fabs(c.a - cell0.a) + std::fabs(c.b - cell0.b) + std::fabs(c.c - cell0.c) +
        std::fabs(c.alpha - cell0.alpha) + std::fabs(c.beta - cell0.beta) + std::fabs(c.gamma - cell0.gamma) > 1e-6)
      return "bad cell-not-restored";
    return "ok";
  }
  return "UNKNOWN";
}

int main() { return hv::serve(handle); }
