// Harness for the model of parse_operation_expr (Readers/OperExpr.v, property C02). The function lives in an anonymous
// namespace of src/mmcif.cpp: this translation unit includes that source file textually (and is linked with the other
// sources of the library, not with mmcif.cpp itself).
#include "hcommon.hpp"
#include <src/mmcif.cpp>
#include <unistd.h>
using hv::words;

static std::string handle(const std::string& cmd, const std::string& args) {
  std::vector<std::string> w = words(args);
  if (cmd == "operexpr") {      // operexpr <hex text>: the operation names (hex), or EXC
    std::string expr = w.empty() || w[0] == "-" ? std::string() : hv::hex_decode(w[0]);
    hv::cpu_alarm(5);    // a text of a few bytes is parsed in microseconds: a loop that does not stop is ended here (SIGALRM)
    std::vector<std::string> r = gemmi::parse_operation_expr(expr);
    hv::cpu_alarm(0);
    // the names of a long range are summarised: count, first and last (the model expands them the same way)
    std::string out = std::to_string(r.size());
    size_t shown = 0;
    for (size_t i = 0; i < r.size(); ++i)
      if (i < 40 || i + 3 > r.size()) { out += " " + (r[i].empty() ? std::string("-") : hv::hex_encode(r[i])); ++shown; }
    return out;
  }
  return "UNKNOWN";
}

int main() { return hv::serve(handle); }
