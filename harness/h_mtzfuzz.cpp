// Harness for property C03 (MTZ part): structure-aware corruption and truncation of valid MTZ files
// produced by gemmi itself, read back through every reading mode under ASan+UBSan with an alarm.
#include "hcommon.hpp"
#include <gemmi/mtz.hpp>
#include <gemmi/gz.hpp>
#include <zlib.h>
#include <gemmi/symmetry.hpp>
#include <csignal>
#include <unistd.h>
#include <fstream>
#include <cctype>
#include <algorithm>
#include <sys/resource.h>
#if defined(__SANITIZE_ADDRESS__)
static const bool kAsan = true;
#else
static const bool kAsan = false;
#endif
using namespace gemmi;
using hv::words; using hv::to_ll;

static void on_alarm(int) {
  const char msg[] = "TIMEOUT-IN-READER\n";
  ssize_t r = write(2, msg, sizeof msg - 1); (void) r;
  _exit(97);
}

struct Lcg {
  unsigned long long s;
  explicit Lcg(unsigned long long seed) : s(seed * 6364136223846793005ULL + 1442695040888963407ULL) {}
  unsigned next() { s = s * 6364136223846793005ULL + 1442695040888963407ULL; return unsigned(s >> 33); }
};

// variants of valid files: 0 merged, 1 unmerged with batches, 2 tests/5e5z.mtz, 3 merged with no reflections
static std::string valid_file(int variant) {
  if (variant == 2) {
    std::ifstream f("/repo/tests/5e5z.mtz", std::ios::binary);
    return std::string((std::istreambuf_iterator<char>(f)), std::istreambuf_iterator<char>());
  }
  Mtz mtz;
  mtz.title = "fuzz seed file";
  mtz.set_spacegroup(find_spacegroup_by_name("P 21 21 21"));
  mtz.set_cell_for_all(UnitCell(30, 40, 50, 90, 90, 90));
  mtz.add_base();
  mtz.add_dataset("ds1");
  mtz.datasets.back().wavelength = 0.9795;
  if (variant == 1) {
    mtz.add_column("M/ISYM", 'Y', 1, -1, false);
    mtz.add_column("BATCH", 'B', 1, -1, false);
    mtz.add_column("I", 'J', 1, -1, false);
    mtz.add_column("SIGI", 'Q', 1, -1, false);
    for (int b = 1; b <= 3; ++b) {
      mtz.batches.emplace_back();
      mtz.batches.back().number = b;
      mtz.batches.back().title = "batch title";
      mtz.batches.back().set_dataset_id(1);
      mtz.batches.back().set_cell(mtz.cell);
    }
  } else {
    mtz.add_column("F", 'F', 1, -1, false);
    mtz.add_column("SIGF", 'Q', 1, -1, false);
    mtz.add_column("FREE", 'I', 1, -1, false);
  }
  mtz.history = {"first history line", "second"};
  std::vector<float> data;
  int nref = variant == 3 ? 0 : 12;
  for (int i = 0; i < nref; ++i) {
    data.push_back(float(i % 4)); data.push_back(float(i / 4)); data.push_back(float(1 + i % 3));
    if (variant == 1) { data.push_back(1.f); data.push_back(float(1 + i % 3)); data.push_back(10.f * i); data.push_back(1.f); }
    else { data.push_back(10.f * i); data.push_back(1.f); data.push_back(float(i % 2)); }
  }
  if (nref > 0) mtz.set_data(data.data(), data.size());
  else { mtz.nreflections = 0; }
  mtz.sort_order = {{1, 2, 3, 0, 0}};
  std::string out;
  mtz.write_to_string(out);
  return out;
}

// numeric tokens in the text header region (after the data section)
struct Tok { size_t pos, len; };
static std::vector<Tok> header_tokens(const std::string& f) {
  std::vector<Tok> toks;
  if (f.size() < 80) return toks;
  int off = 0;
  std::memcpy(&off, f.data() + 4, 4);
  size_t start = off > 0 ? 4 * size_t(off - 1) : 80;
  if (start > f.size()) start = 80;
  for (size_t i = start; i < f.size();) {
    bool num_start = std::isdigit((unsigned char) f[i]) || (f[i] == '-' && i + 1 < f.size() && std::isdigit((unsigned char) f[i + 1]));
    bool boundary = i == 0 || f[i - 1] == ' ';
    if (num_start && boundary) {
      size_t j = i + 1;
      while (j < f.size() && std::isdigit((unsigned char) f[j])) ++j;
      if (j >= f.size() || f[j] == ' ')   // integers only (not 30.0000)
        toks.push_back({i, j - i});
      i = j;
    } else {
      ++i;
    }
  }
  return toks;
}


static std::string read_all_modes(std::string file, int mode) {
  // mode bit 0: with_data; bits 1-2: 0 memory, 1 file, 2 gzip file, 3 gzip file followed by a corrupt second member
  bool with_data = mode & 1;
  int via = (mode >> 1) & 3;
  hv::cpu_alarm(10);
  std::string r;
  try {
    Mtz mtz;
    if (via == 0) {
      MemoryStream ms(file.data(), file.size());
      mtz.read_stream(ms, with_data);
    } else {
      char path[64];
      std::snprintf(path, sizeof path, "/tmp/verif_mtzfuzz_%d.%s", (int) getpid(), via >= 2 ? "mtz.gz" : "mtz");
      if (via >= 2) {
        gzFile gz = gzopen(path, "wb");
        gzwrite(gz, file.data(), (unsigned) file.size());
        gzclose(gz);
        if (via == 3) {      // a second gzip member whose deflate body is corrupt / cut short
          char p2[80];
          std::snprintf(p2, sizeof p2, "%s.2", path);
          gzFile g2 = gzopen(p2, "wb");
          std::string more(3000, 'x');
          for (size_t i = 0; i < more.size(); ++i) more[i] = char('a' + (i * 7 + i / 13) % 23);
          gzwrite(g2, more.data(), (unsigned) more.size());
          gzclose(g2);
          std::ifstream in2(p2, std::ios::binary);
          std::string m2((std::istreambuf_iterator<char>(in2)), std::istreambuf_iterator<char>());
          std::remove(p2);
          for (size_t i = 12; i + 8 < m2.size(); i += 5) m2[i] = char(m2[i] ^ 0x5a);   // keep the 10-byte header
          if (file.size() % 2) m2.resize(m2.size() / 2);
          std::ofstream app(path, std::ios::binary | std::ios::app);
          app.write(m2.data(), (std::streamsize) m2.size());
        }
      } else {
        std::ofstream o(path, std::ios::binary);
        o.write(file.data(), (std::streamsize) file.size());
      }
      try { mtz.read_file_gz(path, with_data); } catch (...) { std::remove(path); throw; }
      std::remove(path);
    }
    // touch what was read
    size_t n = mtz.columns.size() + mtz.batches.size() + mtz.history.size() + mtz.data.size();
    for (const Mtz::Batch& b : mtz.batches) n += b.ints.size() + b.floats.size() + b.axes.size();
    if (with_data && mtz.has_data() && !mtz.columns.empty() && mtz.nreflections > 0)
      n += (size_t) mtz.get_hkl(0)[0] * 0;
    r = "OK";
    (void) n;
  } catch (std::exception&) {
    r = "EXC";
  }
  hv::cpu_alarm(0);
  return r;
}

static std::string handle(const std::string& cmd, const std::string& args) {
  std::vector<std::string> w = words(args);
  int variant = (int) to_ll(w.at(0));
  std::string f = valid_file(variant);
  if (cmd == "mtz_size") return std::to_string(f.size());
  if (cmd == "mtz_valid") return read_all_modes(f, (int) to_ll(w.at(1)));
  if (cmd == "mtz_toks") {       // values of the integer tokens of the text header
    std::string out;
    for (const Tok& t : header_tokens(f)) out += (out.empty() ? "" : " ") + f.substr(t.pos, t.len);
    return out;
  }
  if (cmd == "mtz_tok") {        // variant mode (token value)+ : integer tokens overwritten in place
    std::vector<Tok> toks = header_tokens(f);
    std::vector<std::pair<size_t, std::string>> edits;
    for (size_t i = 2; i + 1 < w.size(); i += 2) edits.emplace_back((size_t) to_ll(w[i]), w[i + 1]);
    std::sort(edits.begin(), edits.end(), [](const std::pair<size_t, std::string>& a, const std::pair<size_t, std::string>& b) { return a.first > b.first; });
    for (const auto& e : edits) {
      const Tok& t = toks.at(e.first);
      std::string repl = e.second;
      // keep the 80-column record layout where possible: right-align in the old field, eat following blanks if longer
      if (repl.size() < t.len) repl = std::string(t.len - repl.size(), ' ') + repl;
      size_t len = t.len;
      while (len < repl.size() && t.pos + len + 1 < f.size() && f[t.pos + len] == ' ' && f[t.pos + len + 1] == ' ') ++len;
      f.replace(t.pos, len, repl);
    }
    return read_all_modes(f, (int) to_ll(w.at(1)));
  }
  if (cmd == "mtz_rec") {        // variant mode key hex(text): the text of the first header record starting with key is replaced
    std::string key = w.at(2), text = hv::hex_decode(w.at(3));
    int off = 0;
    std::memcpy(&off, f.data() + 4, 4);
    size_t start = off > 0 ? 4 * size_t(off - 1) : 80;
    for (size_t p = start; p + 80 <= f.size(); p += 80)
      if (f.compare(p, key.size(), key) == 0) {
        std::string rec = (key + " " + text).substr(0, 80);
        rec.resize(80, ' ');
        f.replace(p, 80, rec);
        break;
      }
    return read_all_modes(f, (int) to_ll(w.at(1)));
  }
  if (cmd == "mtz_cut") {        // variant offset mode
    size_t off = (size_t) to_ll(w.at(1));
    if (off < f.size()) f.resize(off);
    return read_all_modes(f, (int) to_ll(w.at(2)));
  }
  if (cmd == "mtz_word") {       // variant word_index(0..19 in the first 80 bytes) value_index mode
    size_t wi = (size_t) to_ll(w.at(1));
    static const int vals[] = {0, 1, -1, 2, 20, 21, 22, 0x7fffffff, (int) 0x80000000, 1000000, 0x01020304, 0x44410000, 0x11110000, 5};
    int v = vals[to_ll(w.at(2)) % (sizeof vals / sizeof vals[0])];
    if (4 * wi + 4 <= f.size()) std::memcpy(&f[4 * wi], &v, 4);
    return read_all_modes(f, (int) to_ll(w.at(3)));
  }
  if (cmd == "mtz_off64") {      // variant value64 mode: 64-bit header offset (word 1 = -1, bytes 12..19 = value)
    long long v = to_ll(w.at(1));
    int m1 = -1;
    if (f.size() >= 20) { std::memcpy(&f[4], &m1, 4); std::memcpy(&f[12], &v, 8); }
    return read_all_modes(f, (int) to_ll(w.at(2)));
  }
  if (cmd == "mtz_rand") {       // variant seed nmut mode: random corruption of the header region / batch binary blocks
    Lcg rng((unsigned long long) to_ll(w.at(1)));
    int nmut = (int) to_ll(w.at(2));
    int off = 0;
    std::memcpy(&off, f.data() + 4, 4);
    size_t start = off > 0 ? 4 * size_t(off - 1) : 80;
    for (int i = 0; i < nmut; ++i) {
      size_t pos = (rng.next() % 4 == 0) ? rng.next() % std::min<size_t>(f.size(), 96) : start + rng.next() % (f.size() - start);
      switch (rng.next() % 4) {
        case 0: f[pos] = (char) (rng.next() & 0xff); break;
        case 1: f[pos] = "0123456789- "[rng.next() % 12]; break;
        case 2: f.erase(pos, 1 + rng.next() % 90); break;
        case 3: f.insert(pos, std::string(1 + rng.next() % 90, "0 9A"[rng.next() % 4])); break;
      }
      if (f.size() <= start + 1) break;
    }
    return read_all_modes(f, (int) to_ll(w.at(3)));
  }
  return "UNKNOWN";
}

int main() {
  hv::install_alarm_handler(on_alarm);
  if (!kAsan) {   // address-space limit so that absurd allocations throw std::bad_alloc
    struct rlimit rl; rl.rlim_cur = rl.rlim_max = 2ull << 30; setrlimit(RLIMIT_AS, &rl);
  }
  return hv::serve(handle);
}
