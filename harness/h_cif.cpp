// Correspondence + oracle harness for the CIF family (C01): quote/as_string, the CIF writer with every
// WriteOptions value, BufOstream positions, and the write->read round trip, on the repo's working tree.
#include "hcommon.hpp"
#include <gemmi/numb.hpp>
#include <cstdio>
#include <sstream>
#include <algorithm>
#include <cstdint>
#include <cstring>
#include <ostream>
#include <vector>
#include <array>
#include <unordered_set>
#include <map>
#include <memory>
// BufOstream keeps buf/ptr private; the harness reads ptr-buf after every operation
#define private public
#include <gemmi/to_cif.hpp>
#undef private
#include <gemmi/cif.hpp>
#include <gemmi/json.hpp>
#include <gemmi/to_json.hpp>

using namespace gemmi;
using hv::words; using hv::to_ll; using hv::hex_encode; using hv::hex_decode;

static std::string fnv(const std::string& s) {
  uint64_t h = 0xcbf29ce484222325ULL;
  for (unsigned char c : s) { h ^= c; h *= 1099511628211ULL; }
  char b[32];
  std::snprintf(b, sizeof b, "%016llx", (unsigned long long) h);
  return b;
}
static std::string digest(const std::string& s) {
  std::string r = std::to_string(s.size()) + " " + fnv(s);
  if (s.size() <= 1500) r += " " + hex_encode(s);
  return r;
}

static cif::WriteOptions read_opts(const std::vector<std::string>& w, size_t at) {
  cif::WriteOptions o;
  o.prefer_pairs = to_ll(w.at(at)) != 0;
  o.compact = to_ll(w.at(at + 1)) != 0;
  o.misuse_hash = to_ll(w.at(at + 2)) != 0;
  o.align_pairs = (std::uint16_t) to_ll(w.at(at + 3));
  o.align_loops = (std::uint16_t) to_ll(w.at(at + 4));
  return o;
}

// DOM tokens: B name | P tag value | L ntags nvalues tags.. values.. | F name ... E | C text | X
static void read_items(const std::vector<std::string>& w, size_t& i, std::vector<cif::Item>& items, bool in_frame) {
  while (i < w.size()) {
    const std::string& t = w[i];
    if (t == "B") return;
    if (t == "E") { if (in_frame) { ++i; } return; }
    ++i;
    if (t == "P") {
      items.emplace_back(hex_decode(w.at(i)), hex_decode(w.at(i + 1)));
      i += 2;
    } else if (t == "L") {
      size_t nt = (size_t) to_ll(w.at(i)), nv = (size_t) to_ll(w.at(i + 1));
      i += 2;
      items.emplace_back(cif::LoopArg{});
      cif::Loop& loop = items.back().loop;
      for (size_t k = 0; k < nt; ++k) loop.tags.push_back(hex_decode(w.at(i++)));
      for (size_t k = 0; k < nv; ++k) loop.values.push_back(hex_decode(w.at(i++)));
    } else if (t == "F") {
      items.emplace_back(cif::FrameArg{hex_decode(w.at(i++))});
      // items may reallocate while the frame is filled only through its own vector
      std::vector<cif::Item> inner;
      read_items(w, i, inner, true);
      items.back().frame.items = std::move(inner);
    } else if (t == "C") {
      items.emplace_back(cif::CommentArg{hex_decode(w.at(i++))});
    } else if (t == "X") {
      items.emplace_back();
    } else {
      throw std::runtime_error("bad DOM token " + t);
    }
  }
}
static cif::Document read_dom(const std::vector<std::string>& w, size_t i) {
  cif::Document d;
  while (i < w.size()) {
    if (w[i] != "B") throw std::runtime_error("expected B");
    d.blocks.emplace_back(hex_decode(w.at(i + 1)));
    i += 2;
    read_items(w, i, d.blocks.back().items, false);
  }
  return d;
}
static void dump_items(const std::vector<cif::Item>& items, std::string& s) {
  for (const cif::Item& it : items) {
    switch (it.type) {
      case cif::ItemType::Pair:
        s += " P " + hex_encode(it.pair[0]) + " " + hex_encode(it.pair[1]);
        break;
      case cif::ItemType::Loop:
        s += " L " + std::to_string(it.loop.tags.size()) + " " + std::to_string(it.loop.values.size());
        for (const std::string& t : it.loop.tags) s += " " + hex_encode(t);
        for (const std::string& v : it.loop.values) s += " " + hex_encode(v);
        break;
      case cif::ItemType::Frame:
        s += " F " + hex_encode(it.frame.name);
        dump_items(it.frame.items, s);
        s += " E";
        break;
      case cif::ItemType::Comment:
        s += " C " + hex_encode(it.pair[1]);
        break;
      case cif::ItemType::Erased:
        s += " X";
        break;
    }
  }
}
static std::string dump_dom(const cif::Document& d) {
  std::string s;
  for (const cif::Block& b : d.blocks) {
    s += (s.empty() ? "B " : " B ") + hex_encode(b.name);
    dump_items(b.items, s);
  }
  return s.empty() ? "-" : s;
}

// ---- the documented normalisations of a write->read round trip (test code, not gemmi code)
static std::string drop_cr_before_lf(const std::string& v) {
  std::string r;
  for (size_t i = 0; i < v.size(); ++i)
    if (!(v[i] == '\r' && i + 1 < v.size() && v[i + 1] == '\n'))
      r += v[i];
  return r;
}
static std::string norm_value(const std::string& v) {
  return cif::is_text_field(v) ? drop_cr_before_lf(v) : v;
}
static void norm_items(const std::vector<cif::Item>& in, std::vector<cif::Item>& out, const cif::WriteOptions& o) {
  for (const cif::Item& it : in) {
    if (it.type == cif::ItemType::Pair) {
      out.emplace_back(it.pair[0], norm_value(it.pair[1]));
    } else if (it.type == cif::ItemType::Loop) {
      if (it.loop.values.empty()) continue;                       // value-less loops are dropped
      if (o.prefer_pairs && it.loop.values.size() == it.loop.tags.size()) {   // single row -> pairs
        for (size_t k = 0; k < it.loop.tags.size(); ++k)
          out.emplace_back(it.loop.tags[k], norm_value(it.loop.values[k]));
      } else {
        out.emplace_back(cif::LoopArg{});
        cif::Loop& l = out.back().loop;
        l.tags = it.loop.tags;
        for (const std::string& v : it.loop.values) l.values.push_back(norm_value(v));
      }
    } else if (it.type == cif::ItemType::Frame) {
      std::vector<cif::Item> inner;
      norm_items(it.frame.items, inner, o);
      out.emplace_back(cif::FrameArg{it.frame.name});
      out.back().frame.items = std::move(inner);
    }
    // comments are not read back (the parser does not store them); erased items are not written
  }
}
static cif::Document normalise(const cif::Document& d, const cif::WriteOptions& o) {
  cif::Document r;
  for (const cif::Block& b : d.blocks) {
    r.blocks.emplace_back(b.name);
    norm_items(b.items, r.blocks.back().items, o);
  }
  return r;
}

static std::string write_doc(const cif::Document& d, const cif::WriteOptions& o) {
  std::ostringstream os;
  cif::write_cif_to_stream(os, d, o);
  return os.str();
}

static std::string first_diff(const std::string& a, const std::string& b) {
  size_t i = 0;
  while (i < a.size() && i < b.size() && a[i] == b[i]) ++i;
  size_t from = i > 30 ? i - 30 : 0;
  return "differs at " + std::to_string(i) + ": expected ..." + a.substr(from, 90) + " got ..." + b.substr(from, 90);
}

// write -> read(level) -> compare with normalise(doc)
static std::string roundtrip(const cif::Document& d, const cif::WriteOptions& o, int level) {
  std::string text = write_doc(d, o);
  cif::Document back;
  try {
    back = cif::read_memory(text.data(), text.size(), "written", level);
  } catch (std::exception& e) {
    std::string m = e.what();
    std::replace(m.begin(), m.end(), '\t', ' ');
    std::replace(m.begin(), m.end(), '\n', ' ');
    return "written text is rejected: " + m + " text=" + hex_encode(text.substr(0, 600));
  }
  std::string want = dump_dom(normalise(d, o)), got = dump_dom(back);
  if (want != got)
    return "re-read document " + first_diff(want, got);
  return "ok";
}

// the `value` rule of cif.hpp in isolation: one arbitrary byte first (a '\n' makes bol true), then rules::value
struct lexprobe : cif::pegtl::seq<cif::pegtl::any, cif::rules::value> {};
template<typename Rule> struct NoAction : cif::pegtl::nothing<Rule> {};

static std::string handle(const std::string& cmd, const std::string& args) {
  std::vector<std::string> w = words(args);
  if (cmd == "lex") {          // bol hex: OK <token length> | NO | ERR
    bool bol = to_ll(w.at(0)) != 0;
    std::string text = (bol ? "\n" : " ") + hex_decode(w.at(1));
    cif::pegtl::memory_input<> in(text.data(), text.size(), "lex");
    try {
      bool ok = cif::pegtl::parse<lexprobe, NoAction, cif::Errors>(in);
      return ok ? "OK " + std::to_string(in.byte() - 1) : std::string("NO");
    } catch (cif::pegtl::parse_error&) {
      return "ERR";
    }
  }
  if (cmd == "q") {            // is_null is_text_field as_string quote
    std::string s = hex_decode(w.at(0));
    std::string as;
    try { as = hex_encode(cif::as_string(s)); } catch (std::exception&) { as = "EXC"; }
    return std::string(cif::is_null(s) ? "1" : "0") + " " + (cif::is_text_field(s) ? "1" : "0") + " " +
           as + " " + hex_encode(cif::quote(s));
  }
  if (cmd == "jnum") {         // a CIF number: what the JSON writer prints for it (quote_numbers = 0), and does sajson take it
    std::string s = hex_decode(w.at(0));
    if (!cif::is_numb(s)) return "skip";
    if (s[0] == '0' && s.size() > 1 && s[1] != '.') return "skip";   // 012 is written as a string, not by write_as_number
    cif::Document d;
    d.blocks.emplace_back("q");
    d.blocks[0].items.emplace_back("_c.t", s);
    cif::JsonWriteOptions jo = cif::JsonWriteOptions::mmjson();
    jo.quote_numbers = 0;
    std::ostringstream os;
    cif::write_json_to_stream(os, d, jo);
    std::string json = os.str();
    size_t a = json.find("\"t\": [");
    if (a == std::string::npos) return "no-tag " + hex_encode(json);
    a += 6;
    size_t e = json.find_first_of("]\n }", a);
    std::string num = json.substr(a, e == std::string::npos ? std::string::npos : e - a);
    bool ok = true;
    try { std::string copy = json; cif::read_mmjson_insitu(&copy[0], copy.size(), "j"); } catch (std::exception&) { ok = false; }
    return hex_encode(num) + " " + (ok ? "1" : "0");
  }
  if (cmd == "write") {        // pp compact hash ap al DOM...
    cif::WriteOptions o = read_opts(w, 0);
    cif::Document d = read_dom(w, 5);
    return digest(write_doc(d, o));
  }
  if (cmd == "buf") {          // w<len> p P<n>: ptr-buf after every operation, then the output
    std::ostringstream os;
    std::string r;
    {
      cif::BufOstream b(os);
      int k = 0;
      for (const std::string& t : w) {
        size_t n = t.size() > 1 ? (size_t) to_ll(t.substr(1)) : 0;
        if (t[0] == 'w') { std::string s(n, char('a' + k % 26)); b.write(s.data(), s.size()); }
        else if (t[0] == 'p') b.put(char('a' + k % 26));
        else if (t[0] == 'P') b.pad(n);
        else throw std::runtime_error("bad op");
        r += std::to_string(b.ptr - b.buf) + " ";
        ++k;
      }
    }
    std::string out = os.str();
    return r + "| " + std::to_string(out.size()) + " " + fnv(out);
  }
  if (cmd == "parse") {        // level hex -> DOM dump
    int level = (int) to_ll(w.at(0));
    std::string text = hex_decode(w.at(1));
    cif::Document d = cif::read_memory(text.data(), text.size(), "in", level);
    return dump_dom(d);
  }
  // ---- oracles on the implementation
  if (cmd == "o_q") {          // as_string(quote(s)) == s unless quote() had to use ';' and s ends with CR
    std::string s = hex_decode(w.at(0));
    std::string qs = cif::quote(s);
    bool semi = qs[0] == ';' && qs.size() >= 3 && qs != s;
    bool excused = semi && !s.empty() && s.back() == '\r';
    std::string back = cif::as_string(qs);
    if (back != s && !excused) return "as_string(quote(s)) != s: quote=" + hex_encode(qs) + " back=" + hex_encode(back);
    // written in a pair and read again
    bool relex_excused = semi && (excused || s.find("\n;") != std::string::npos ||
                                  s.find("\r\n") != std::string::npos);
    cif::Document d;
    d.blocks.emplace_back("q");
    d.blocks[0].items.emplace_back("_t", qs);
    cif::WriteOptions o = read_opts(w, 1);
    std::string text = write_doc(d, o);
    try {
      cif::Document back2 = cif::read_memory(text.data(), text.size(), "written", 1);
      const std::string* v = back2.blocks.at(0).find_value("_t");
      if (!v) return "value not read back";
      if (*v != qs && !relex_excused) return "raw value changed: " + hex_encode(*v);
      if (cif::as_string(*v) != s && !relex_excused) return "string changed: " + hex_encode(cif::as_string(*v));
    } catch (std::exception& e) {
      if (!relex_excused) return std::string("written text is rejected: ") + e.what();
    }
    return "ok";
  }
  if (cmd == "o_dom") {        // level pp compact hash ap al DOM...: write -> read -> == normalise(doc)
    int level = (int) to_ll(w.at(0));
    cif::WriteOptions o = read_opts(w, 1);
    cif::Document d = read_dom(w, 6);
    return roundtrip(d, o, level);
  }
  if (cmd == "o_rt") {         // level pp compact hash ap al hextext: read -> write -> read
    int level = (int) to_ll(w.at(0));
    cif::WriteOptions o = read_opts(w, 1);
    std::string text = hex_decode(w.at(6));
    cif::Document d;
    try {
      d = cif::read_memory(text.data(), text.size(), "in", level);
    } catch (std::exception&) {
      return "skip";
    }
    return roundtrip(d, o, level);
  }
  if (cmd == "o_json" || cmd == "o_mmjson") {
    // dump of a document read from mmJSON: raw value, or its string content when it is delimited
    bool numeric_level = (cmd == "o_mmjson");
    auto val = [numeric_level](const std::string& v) {
      bool delimited = !v.empty() && (v[0] == '\'' || v[0] == '"' || v[0] == ';');
      if (numeric_level && !delimited && cif::is_numb(v)) {
        // numeric level: the mmJSON writer may re-spell a number (sign, leading zeros, s.u. stripped)
        char buf[40];
        std::snprintf(buf, sizeof buf, "N%.17g", cif::as_number(v));
        return std::string(buf);
      }
      return hex_encode(delimited ? cif::as_string(v) : v);
    };
    auto dump = [&](const cif::Document& d) {
      std::string r;
      for (const cif::Block& b : d.blocks) {
        r += "B " + hex_encode(b.name);
        for (const cif::Item& it : b.items) {
          if (it.type == cif::ItemType::Pair)
            r += " P " + hex_encode(it.pair[0]) + " " + val(it.pair[1]);
          else if (it.type == cif::ItemType::Loop) {
            r += " L " + std::to_string(it.loop.tags.size()) + " " + std::to_string(it.loop.values.size());
            for (const std::string& t : it.loop.tags) r += " " + hex_encode(t);
            for (const std::string& v : it.loop.values) r += " " + val(v);
          }
        }
        r += " ";
      }
      return r;
    };
    if (cmd == "o_json") {     // hexjson | expected dump: the reader assigns to every item the content it was given
      size_t bar = args.find('|');
      std::string json = hex_decode(words(args.substr(0, bar)).at(0));
      std::string want = args.substr(bar + 1);
      cif::Document d = cif::read_mmjson_insitu(&json[0], json.size(), "json");
      std::vector<std::string> a = words(dump(d)), b = words(want);
      if (a != b) {
        std::string got; for (const std::string& x : a) got += x + " ";
        return "mmJSON reader: document differs from the JSON content: got " + got;
      }
      return "ok";
    }
    // o_mmjson DOM: write_mmjson -> read_mmjson_insitu, string content of every value is kept
    cif::Document d = read_dom(w, 0);
    std::ostringstream os;
    cif::write_mmjson_to_stream(os, d);
    std::string json = os.str();
    std::string keep = json;
    cif::Document back = cif::read_mmjson_insitu(&json[0], json.size(), "json");
    std::vector<std::string> a = words(dump(back)), b = words(dump(d));
    if (a != b) {
      std::string got; for (const std::string& x : a) got += x + " ";
      return "mmJSON round trip: got " + got + " json=" + hex_encode(keep.substr(0, 400));
    }
    return "ok";
  }
  throw std::runtime_error("unknown command");
}

int main() { return hv::serve(handle); }
