// C20 part of the geometry harness (neighbour search) - included by h_geo.cpp.
//  walk : the (bin, lattice shift) sequence of NeighborSearch::for_each_cell, observed through its callback
//         (bin = offset of the passed vector in grid.data, shift = wrapped query - passed fractional)
//  o_ns : find_atoms / find_neighbors / for_each / find_nearest_atom against brute force over
//         atoms x symmetry images x lattice translations
#include <gemmi/model.hpp>

struct NsSetup {
  Model model{1};
  UnitCell cell;
  std::vector<NcsOp> ncs;
  std::vector<const Atom*> atoms;     // flat list, in chain/residue/atom order
  std::vector<std::array<int,3>> cra; // indices of each atom
  double rbuild = 0;
  bool include_h = true;
  // the symmetry images computed here from the definition (not taken from UnitCell::images): all operations of the
  // group except the identity, in the order of GroupOps iteration; then for every NCS operator N the image N
  // followed by S o N for those operations S (S acts on fractional coordinates of the NCS copy)
  std::vector<Op> sym;                // non-identity operations
};

// image number im (1-based as in Mark::image_idx; 0 = the atom itself) applied to an atom position -> fractional
static Fractional image_of(const NsSetup& s, int im, const Position& pos) {
  if (im == 0) return s.cell.fractionalize(pos);
  int nsym = (int) s.sym.size();
  int k = im - 1;
  Position p = pos;
  int si = -1;                        // which symmetry operation (-1 none)
  if (k < nsym) {
    si = k;
  } else {
    k -= nsym;
    int n = k / (nsym + 1), r = k % (nsym + 1);
    p = Position(s.ncs.at(n).tr.apply(pos));
    si = r - 1;
  }
  Fractional f = s.cell.fractionalize(p);
  if (si < 0) return f;
  const Op& op = s.sym[si];
  std::array<double, 3> x = op.apply_to_xyz({{f.x, f.y, f.z}});
  return Fractional(x[0], x[1], x[2]);
}
static int image_count(const NsSetup& s) { return (int) s.sym.size() + (int) s.ncs.size() * ((int) s.sym.size() + 1); }

// tokens: a b c al be ga  sg|-  nncs {12 numbers}  rbuild inc_h  natoms {x y z alt el}
static size_t read_setup(const Words& w, NsSetup& s) {
  size_t i = 0;
  s.cell = dcell(w, 0); i = 6;
  std::string sgname = w.at(i++);
  std::replace(sgname.begin(), sgname.end(), '_', ' ');
  if (sgname != "-") {
    const SpaceGroup* sg = find_spacegroup_by_name(sgname);
    if (!sg) fail("unknown space group");
    s.cell.set_cell_images_from_spacegroup(sg);
    for (Op op : sg->operations())
      if (op != Op::identity()) s.sym.push_back(op);
  }
  int nncs = (int) to_ll(w.at(i++));
  for (int n = 0; n < nncs; ++n) {
    NcsOp op;
    op.id = std::to_string(n + 1);
    op.given = false;
    for (int r = 0; r < 3; ++r) for (int c = 0; c < 3; ++c) op.tr.mat[r][c] = rat(w.at(i++));
    op.tr.vec = Vec3(rat(w.at(i)), rat(w.at(i+1)), rat(w.at(i+2))); i += 3;
    s.ncs.push_back(op);
  }
  if (nncs) s.cell.add_ncs_images_to_cs_images(s.ncs);
  s.rbuild = rat(w.at(i++));
  s.include_h = to_ll(w.at(i++)) != 0;
  int natoms = (int) to_ll(w.at(i++));
  s.model.chains.emplace_back("A");
  for (int n = 0; n < natoms; ++n) {
    if (n % 7 == 0 && n > 0 && n % 21 == 0) s.model.chains.emplace_back("B");
    Chain& ch = s.model.chains.back();
    if (n % 3 == 0 || ch.residues.empty()) {
      ch.residues.emplace_back();
      ch.residues.back().name = "ALA";
      ch.residues.back().seqid.num = n;
    }
    Atom a;
    a.name = "X" + std::to_string(n);
    a.pos = Position(rat(w.at(i)), rat(w.at(i+1)), rat(w.at(i+2)));
    a.altloc = w.at(i+3) == "-" ? '\0' : w.at(i+3)[0];
    a.element = w.at(i+4) == "H" ? El::H : (w.at(i+4) == "D" ? El::D : El::C);
    i += 5;
    ch.residues.back().atoms.push_back(a);
  }
  for (int c = 0; c < (int) s.model.chains.size(); ++c)
    for (int r = 0; r < (int) s.model.chains[c].residues.size(); ++r)
      for (int a = 0; a < (int) s.model.chains[c].residues[r].atoms.size(); ++a) {
        s.atoms.push_back(&s.model.chains[c].residues[r].atoms[a]);
        s.cra.push_back({{c, r, a}});
      }
  return i;
}

struct Hit { int atom; int image; double dist; };

// every (atom, image, lattice translation) with dist < rmax (no conformer / min_dist filter)
static std::vector<Hit> brute(const NsSetup& s, const Position& q, double rmax) {
  std::vector<Hit> out;
  const UnitCell& c = s.cell;
  bool pbc = c.is_crystal();
  for (int n = 0; n < (int) s.atoms.size(); ++n) {
    const Atom& a = *s.atoms[n];
    if (!s.include_h && a.is_hydrogen()) continue;
    if (!pbc) {
      // images are the NCS copies, in Cartesian space
      for (int im = 0; im <= (int) s.ncs.size(); ++im) {
        Position p = im == 0 ? a.pos : s.ncs[im - 1].apply(a.pos);
        double d = p.dist(q);
        if (d < rmax) out.push_back({n, im, d});
      }
      continue;
    }
    Fractional fq = c.fractionalize(q);
    for (int im = 0; im <= image_count(s); ++im) {
      Fractional f = image_of(s, im, a.pos);
      Fractional d = f - fq;
      // |dfrac_i| <= a*_i |dcart|: translations that can bring the image within rmax
      double wx = rmax * c.ar + 1e-9, wy = rmax * c.br + 1e-9, wz = rmax * c.cr + 1e-9;
      for (int sx = (int) std::floor(-d.x - wx); sx <= (int) std::ceil(-d.x + wx); ++sx)
        for (int sy = (int) std::floor(-d.y - wy); sy <= (int) std::ceil(-d.y + wy); ++sy)
          for (int sz = (int) std::floor(-d.z - wz); sz <= (int) std::ceil(-d.z + wz); ++sz) {
            double dist = c.orthogonalize_difference(Fractional(d.x + sx, d.y + sy, d.z + sz)).length();
            if (dist < rmax) out.push_back({n, im, dist});
          }
    }
  }
  return out;
}

static int atom_index(const NsSetup& s, const NeighborSearch::Mark& m) {
  for (int n = 0; n < (int) s.cra.size(); ++n)
    if (s.cra[n][0] == m.chain_idx && s.cra[n][1] == m.residue_idx && s.cra[n][2] == m.atom_idx) return n;
  return -1;
}

static const double GUARD = 1e-7;   // distances this close to radius / min_dist are not decided
static const double DTOL = 1e-9;    // two computations of the same distance agree to this (relative to 1 + d)

// position of the element of v nearest to d, or end() if none is within DTOL
static std::vector<double>::iterator nearest_in(std::vector<double>& v, double d) {
  auto best = v.end();
  for (auto it = v.begin(); it != v.end(); ++it)
    if (std::fabs(*it - d) <= DTOL * (1 + d) && (best == v.end() || std::fabs(*it - d) < std::fabs(*best - d)))
      best = it;
  return best;
}

// compare got (atom,image,dist) with the brute-force list filtered by [min_dist, radius) and conformer
static std::string compare_hits(const NsSetup& s, std::vector<Hit> got, const std::vector<Hit>& all,
                                char alt, double min_dist, double radius) {
  typedef std::pair<int,int> Key;
  std::map<Key, std::vector<double>> sure, maybe, gotm;
  for (const Hit& h : all) {
    if (!is_same_conformer(alt, s.atoms[h.atom]->altloc)) continue;
    bool in_sure = h.dist < radius - GUARD && h.dist >= min_dist + GUARD;
    bool out_sure = h.dist >= radius + GUARD || h.dist < min_dist - GUARD;
    if (in_sure) sure[{h.atom, h.image}].push_back(h.dist);
    else if (!out_sure) maybe[{h.atom, h.image}].push_back(h.dist);
  }
  for (const Hit& h : got) gotm[{h.atom, h.image}].push_back(h.dist);
  for (auto& kv : sure) {
    std::vector<double>& g = gotm[kv.first];
    std::vector<double> want = kv.second;
    for (double d : want) {
      auto it = nearest_in(g, d);
      if (it == g.end())
        return "MISSING atom " + std::to_string(kv.first.first) + " image " + std::to_string(kv.first.second) +
               " at distance " + num(d) + " (radius " + num(radius) + ", min_dist " + num(min_dist) + ")";
      g.erase(it);
    }
  }
  for (auto& kv : gotm) {
    std::vector<double> m = maybe[kv.first];
    for (double d : kv.second) {
      auto it = nearest_in(m, d);
      if (it == m.end())
        return "EXTRA atom " + std::to_string(kv.first.first) + " image " + std::to_string(kv.first.second) +
               " reported at distance " + num(d) + " (duplicate, too far, too near or wrong conformer; radius " +
               num(radius) + ", min_dist " + num(min_dist) + ")";
      m.erase(it);
    }
  }
  return "";
}

static bool handle_ns(const std::string& cmd, const Words& w, const std::string& args, std::string& out) {
  if (cmd == "walk") {
    // tokens: a b c al be ga  rbuild  x y z  k
    UnitCell cell = dcell(w, 0);
    Model model(1);
    NeighborSearch ns(model, cell, rat(w.at(6)));
    Position pos(rat(w.at(7)), rat(w.at(8)), rat(w.at(9)));
    int k = (int) to_ll(w.at(10));
    Fractional fr0 = ns.grid.unit_cell.fractionalize(pos);
    if (ns.use_pbc) fr0 = fr0.wrap_to_unit();
    const UnitCell& gc = ns.grid.unit_cell;
    int n3[3] = {ns.grid.nu, ns.grid.nv, ns.grid.nw};
    double rl[3] = {gc.ar, gc.br, gc.cr};
    std::string s;
    for (int i = 0; i < 3; ++i) s += std::to_string(n3[i]) + " ";
    s += std::to_string(int(fr0.x * ns.grid.nu)) + " " + std::to_string(int(fr0.y * ns.grid.nv)) +
         " " + std::to_string(int(fr0.z * ns.grid.nw)) + " " + std::to_string(k) + " " + (ns.use_pbc ? "1" : "0");
    for (int i = 0; i < 3; ++i) s += " " + std::to_string(ns.bins_to_visit(k, rl[i], n3[i]));
    for (int i = 0; i < 3; ++i) s += " " + num(ns.radius_specified * rl[i] * n3[i]);
    s += " :";
    ns.for_each_cell(pos, [&](std::vector<NeighborSearch::Mark>& marks, const Fractional& fr) {
      long idx = &marks - ns.grid.data.data();
      s += " " + std::to_string(idx) + " " + std::to_string(iround(fr0.x - fr.x)) + " " +
           std::to_string(iround(fr0.y - fr.y)) + " " + std::to_string(iround(fr0.z - fr.z));
    }, k);
    out = s;
    return true;
  }
  if (cmd == "o_ns") {
    NsSetup s;
    size_t i = read_setup(w, s);
    NeighborSearch ns(s.model, s.cell, s.rbuild);
    ns.populate(s.include_h);
    // every stored mark is its atom moved by get_image_transformation(image_idx), up to a lattice translation
    for (const std::vector<NeighborSearch::Mark>& marks : ns.grid.data)
      for (const NeighborSearch::Mark& m : marks) {
        int ai = atom_index(s, m);
        if (ai < 0) { out = "mark with indices of no atom"; return true; }
        if (!ns.use_pbc) continue;
        Fractional f = ns.grid.unit_cell.fractionalize(s.atoms[ai]->pos);
        Fractional fi = ns.get_image_transformation(m.image_idx).apply(f);
        Fractional fm = ns.grid.unit_cell.fractionalize(m.pos);
        double d[3] = {fi.x - fm.x, fi.y - fm.y, fi.z - fm.z};
        for (double x : d)
          if (std::fabs(x - std::round(x)) > 1e-6)
            { out = "mark of atom " + std::to_string(ai) + " is not the image " + std::to_string(m.image_idx) +
                    " given by get_image_transformation"; return true; }
      }
    bool threw = false;
    try { ns.get_image_transformation((int) ns.grid.unit_cell.images.size() + 1); } catch (std::exception&) { threw = true; }
    if (!threw) { out = "get_image_transformation accepts an index beyond the images"; return true; }
    int nq = (int) to_ll(w.at(i++));
    for (int qn = 0; qn < nq; ++qn) {
      Position q(rat(w.at(i)), rat(w.at(i+1)), rat(w.at(i+2)));
      char alt = w.at(i+3) == "-" ? '\0' : w.at(i+3)[0];
      double radius = rat(w.at(i+4)), min_dist = rat(w.at(i+5));
      i += 6;
      std::string tag = "query " + std::to_string(qn) + ": ";
      double reff = radius == 0 ? s.rbuild : radius;
      std::vector<Hit> all = brute(s, q, reff + 2 * GUARD);
      // find_atoms
      std::vector<Hit> got;
      // a Mark does not say which lattice translation was used: distances are recovered through for_each,
      // whose filter find_atoms applies (same k, same radius); the counts must agree
      size_t n_find_atoms = ns.find_atoms(q, alt, min_dist, radius).size();
      ns.for_each(q, alt, reff, [&](NeighborSearch::Mark& m, double dist_sq) {
        if (dist_sq >= sq(min_dist))
          got.push_back({atom_index(s, m), (int) m.image_idx, std::sqrt(dist_sq)});
      }, ns.sufficient_k(radius));
      if (got.size() != n_find_atoms)
        { out = tag + "find_atoms returns " + std::to_string(n_find_atoms) + " marks, for_each " + std::to_string(got.size()); return true; }
      for (const Hit& h : got)
        if (h.atom < 0) { out = tag + "mark with indices of no atom"; return true; }
      std::string r = compare_hits(s, got, all, alt, min_dist, reff);
      if (!r.empty()) { out = tag + "find_atoms " + r; return true; }
      // find_neighbors(atom) is find_atoms(atom.pos, atom.altloc, ...)
      if (!s.atoms.empty()) {
        const Atom& a = *s.atoms[qn % s.atoms.size()];
        std::vector<Hit> got2;
        size_t n2 = ns.find_neighbors(a, min_dist, radius).size();
        ns.for_each(a.pos, a.altloc, reff, [&](NeighborSearch::Mark& m, double dist_sq) {
          if (dist_sq >= sq(min_dist))
            got2.push_back({atom_index(s, m), (int) m.image_idx, std::sqrt(dist_sq)});
        }, ns.sufficient_k(radius));
        if (n2 != got2.size()) { out = tag + "find_neighbors count differs from for_each"; return true; }
        r = compare_hits(s, got2, brute(s, a.pos, reff + 2 * GUARD), a.altloc, min_dist, reff);
        if (!r.empty()) { out = tag + "find_neighbors(atom " + std::to_string(qn % s.atoms.size()) + ") " + r; return true; }
      }
      // find_nearest_atom (ignores conformers), unlimited and limited by the radius
      for (int pass = 0; pass < 2; ++pass) {
        double lim = pass == 0 ? INFINITY : reff;
        NeighborSearch::Mark* m = pass == 0 ? ns.find_nearest_atom(q) : ns.find_nearest_atom(q, radius);
        double dgot = INFINITY;
        if (m) {
          // distance of the reported mark: the smallest over lattice translations of this (atom, image).
          // m->pos is one lattice copy of it, so its periodic distance bounds the search window.
          int ai = atom_index(s, *m);
          double bound = s.cell.is_crystal() ? std::sqrt(s.cell.distance_sq(m->pos, q)) : m->pos.dist(q);
          for (const Hit& h : brute(s, q, bound * (1 + 1e-9) + 1e-6))
            if (h.atom == ai && h.image == m->image_idx) dgot = std::min(dgot, h.dist);
        }
        // the true minimum: look within dgot (or within lim / a few cell lengths when nothing was returned)
        double look = m ? dgot * (1 + 1e-9) + 1e-6
                        : (std::isinf(lim) ? 3 * (s.cell.a + s.cell.b + s.cell.c) : lim);
        double dmin = INFINITY;
        for (const Hit& h : brute(s, q, look)) dmin = std::min(dmin, h.dist);
        if (!m) {
          bool pbc = s.cell.is_crystal();
          if (dmin < lim - GUARD && (pbc || !std::isinf(lim) || dmin < INFINITY))
            { out = tag + "find_nearest_atom(" + (pass ? num(radius) : std::string("inf")) + ") returns null but an atom is at distance " + num(dmin); return true; }
        } else {
          if (dgot > dmin + 1e-6 * (1 + dmin))
            { out = tag + "find_nearest_atom(" + (pass ? num(radius) : std::string("inf")) + ") returns an atom at " + num(dgot) + " but the nearest is at " + num(dmin); return true; }
          if (dgot >= lim + GUARD)
            { out = tag + "find_nearest_atom returns an atom beyond the radius: " + num(dgot); return true; }
        }
      }
    }
    out = "1";
    return true;
  }
  return false;
}
