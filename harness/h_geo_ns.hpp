// C20 part of the geometry harness (neighbour search) - included by h_geo.cpp
static bool handle_ns(const std::string& cmd, const Words& w, const std::string& args, std::string& out) {
  return false;
}
