(* Proofs for property C14 on the placement model. *)
From Coq Require Import Lia ZifyBool.
From GV Require Import Sym.AsuDefs Move.MoveProofs Fft.Place.
Local Open Scope Z_scope.
Ltac Zify.zify_post_hook ::= Z.to_euclidean_division_equations.

(* mixed-radix indexing is injective on the index box *)
Lemma index_q_inj : forall g u v w u' v' w',
  0 <= u < g_nu g -> 0 <= v < g_nv g -> 0 <= u' < g_nu g -> 0 <= v' < g_nv g ->
  index_q g u v w = index_q g u' v' w' -> u = u' /\ v = v' /\ w = w'.
Proof.
  intros g u v w u' v' w' Hu Hv Hu' Hv' H. unfold index_q in H.
  set (nu := g_nu g) in *. set (nv := g_nv g) in *.
  assert (E1 : (w * nv + v) = (w' * nv + v')) by nia.
  assert (E2 : u = u') by nia.
  assert (E3 : w = w') by nia.
  assert (E4 : v = v') by nia.
  auto.
Qed.

(* two different indices that fit the (full) grid never share a slot *)
Theorem rindex_n_injective_full : forall g u v w u' v' w',
  g_half g = false ->
  has_index g u v w = true -> has_index g u' v' w' = true ->
  rindex_n g u v w = rindex_n g u' v' w' -> u = u' /\ v = v' /\ w = w'.
Proof.
  intros g u v w u' v' w' Hh H1 H2 E. unfold has_index in *. rewrite Hh in *. cbn [andb] in *.
  unfold rindex_n in E.
  apply index_q_inj in E; try (destruct (u >=? 0) eqn:?; lia); try (destruct (v >=? 0) eqn:?; lia);
    try (destruct (u' >=? 0) eqn:?; lia); try (destruct (v' >=? 0) eqn:?; lia).
  destruct E as [E1 [E2 E3]].
  destruct (u >=? 0) eqn:?, (u' >=? 0) eqn:?, (v >=? 0) eqn:?, (v' >=? 0) eqn:?,
           (w >=? 0) eqn:?, (w' >=? 0) eqn:?; lia.
Qed.

Section PlacementValue.
  Variable gr : gops.
  Variable phi : v3 -> Z.
  Hypothesis Hrot : forall o h, In o (sym_ops gr) ->
    (phi (divide_hkl (apply_to_hkl_nodiv o h)) - (phi h - dot h (tran o))) mod 24 = 0.
  Hypothesis Hfriedel : forall h, (phi (neg_v3 h) + phi h) mod 24 = 0.

  (* the index (as hkl, undoing the ZYX swap) a written slot stands for *)
  Definition slot_hkl (sign : Z) (hklp : v3) : v3 := scale_v3 sign hklp.

  (* whatever place_one writes is the true phase of the index it is written for:
     sign * (phi h + shift) = phi (sign * (h R)) modulo a full turn *)
  Theorem placed_phase_correct : forall g serial hkl o idx sg sh ser,
    In o (sym_ops gr) ->
    place_one g serial hkl o = Some (idx, (ser, sg, sh)) ->
    (sg = 1 \/ sg = -1) /\
    (sg * (phi hkl + sh) - phi (slot_hkl sg (apply_to_hkl o hkl))) mod 24 = 0.
  Proof.
    intros g serial hkl o idx sg sh ser Ho H. unfold place_one in H.
    destruct (apply_to_hkl o hkl) as [[h k] l] eqn:E.
    destruct (if g_zyx g then (l, k, h) else (h, k, l)) as [[a b] c].
    destruct (negb (has_index g a b c)); [discriminate|].
    inversion H; subst; clear H.
    pose proof (Hrot o hkl Ho) as H1. unfold apply_to_hkl in E. rewrite E in H1.
    destruct (negb (g_half g) || (l >=? 0)).
    - split; [left; reflexivity|]. unfold slot_hkl, scale_v3, map_v3.
      replace (1 * h, 1 * k, 1 * l) with (h, k, l) by (repeat f_equal; ring).
      set (p := phi (h, k, l)) in *. set (p0 := phi hkl) in *. set (d := dot hkl (tran o)) in *.
      clearbody p p0 d. lia.
    - split; [right; reflexivity|]. unfold slot_hkl, scale_v3, map_v3.
      pose proof (Hfriedel (h, k, l)) as H2. unfold neg_v3 in H2.
      replace (-1 * h, -1 * k, -1 * l) with (- h, - k, - l) by (repeat f_equal; ring).
      set (p := phi (h, k, l)) in *. set (pn := phi (- h, - k, - l)) in *.
      set (p0 := phi hkl) in *. set (d := dot hkl (tran o)) in *.
      clearbody p pn p0 d. lia.
  Qed.
End PlacementValue.
