(* Whole-function soundness of get_f_phi_on_grid (model Fft/Place.v): EVERY coefficient the function leaves in
   the reciprocal grid - written by the loop over reflections and symmetry operations (first writer wins) or
   copied by add_friedel_mates - sits in the slot of a Miller index k that belongs to the orbit (with Friedel
   mates) of the reflection it was taken from, fits the grid, and carries the true phase of k, for any
   symmetry-consistent phase function. Both axis orders, half-l and full grids. *)
From Coq Require Import Lia ZifyBool.
From GV Require Import Sym.AsuDefs Move.MoveProofs Fft.Place Fft.PlaceProofs.
Local Open Scope Z_scope.

Definition coords (g : rgrid) (k : v3) : v3 :=
  let '(h, kk, l) := k in if g_zyx g then (l, kk, h) else (h, kk, l).
Definition idx_of (g : rgrid) (k : v3) : Z := let '(a, b, c) := coords g k in rindex_n g a b c.
Definition fits (g : rgrid) (k : v3) : bool := let '(a, b, c) := coords g k in has_index g a b c.

Definition wrapc (x n : Z) : Z := if x >=? 0 then x else x + n.

Lemma rindex_n_wrapc : forall g a b c,
  rindex_n g a b c = index_q g (wrapc a (g_nu g)) (wrapc b (g_nv g)) (wrapc c (g_nw g)).
Proof. reflexivity. Qed.

Lemma wrapc_range_full : forall x n, Z.abs (2 * x) < n -> 0 <= wrapc x n < n.
Proof. intros x n H. unfold wrapc. destruct (x >=? 0) eqn:E; lia. Qed.

Lemma wrap_mate_full : forall x n u, Z.abs (2 * x) < n -> 0 <= u < n ->
  wrapc x n = mate u n -> wrapc (- x) n = u.
Proof.
  intros x n u Hx Hu E. unfold wrapc, mate in *.
  destruct (u =? 0) eqn:U; destruct (x >=? 0) eqn:X; destruct (- x >=? 0) eqn:Y; lia.
Qed.

Lemma wrap_mate_half : forall x n, Z.abs x < n -> wrapc x n = 0 -> wrapc (- x) n = 0.
Proof.
  intros x n Hx E. unfold wrapc in *.
  destruct (x >=? 0) eqn:X; destruct (- x >=? 0) eqn:Y; lia.
Qed.

Lemma lookup_In : forall m i s, lookup m i = Some s -> In (i, s) m.
Proof.
  induction m as [|[j t] m IH]; intros i s H; cbn [lookup] in H; [discriminate|].
  destruct (i =? j) eqn:E.
  - apply Z.eqb_eq in E. subst. injection H as ->. left. reflexivity.
  - right. apply IH. exact H.
Qed.

Lemma In_zrange : forall n x, In x (zrange n) -> 0 <= x < n.
Proof.
  intros n x H. unfold zrange in H. apply in_map_iff in H. destruct H as [k [<- Hk]].
  apply in_seq in Hk. lia.
Qed.

Lemma fold_left_inv : forall (A B : Type) (P : A -> Prop) (f : A -> B -> A) (l : list B) (a : A),
  P a -> (forall a b, P a -> In b l -> P (f a b)) -> P (fold_left f l a).
Proof.
  intros A B P f l. induction l as [|b t IH]; intros a Ha Hf; cbn [fold_left]; [exact Ha|].
  apply IH; [apply Hf; [exact Ha|left; reflexivity]|].
  intros a' b' Ha' Hb'. apply Hf; [exact Ha'|right; exact Hb'].
Qed.

Lemma has_index_neg : forall g a b c, has_index g (- a) (- b) (- c) = has_index g a b c.
Proof.
  intros g a b c. unfold has_index.
  replace (2 * - a) with (- (2 * a)) by ring. replace (2 * - b) with (- (2 * b)) by ring.
  replace (2 * - c) with (- (2 * c)) by ring.
  destruct (g_half g && g_zyx g); destruct (g_half g && negb (g_zyx g)); rewrite !Z.abs_opp; reflexivity.
Qed.

Lemma coords_neg : forall g k, coords g (neg_v3 k) = neg_v3 (coords g k).
Proof. intros g [[h kk] l]. unfold coords, neg_v3. destruct (g_zyx g); reflexivity. Qed.

Lemma fits_neg : forall g k, fits g (neg_v3 k) = fits g k.
Proof.
  intros g k. unfold fits. rewrite coords_neg. destruct (coords g k) as [[a b] c]. unfold neg_v3.
  apply has_index_neg.
Qed.

Section Whole.
  Variable gr : gops.
  Variable phi : v3 -> Z.
  Variable refl : list (Z * v3).
  Hypothesis Hrot : forall o h, In o (sym_ops gr) ->
    (phi (divide_hkl (apply_to_hkl_nodiv o h)) - (phi h - dot h (tran o))) mod 24 = 0.
  Hypothesis Hfriedel : forall h, (phi (neg_v3 h) + phi h) mod 24 = 0.

  (* what it means for one grid entry to be right *)
  Definition entry_ok (g : rgrid) (e : Z * slot) : Prop :=
    let '(idx, (ser, sg, sh)) := e in
    exists hkl0 o k, In (ser, hkl0) refl /\ In o (sym_ops gr) /\
      (k = apply_to_hkl o hkl0 \/ k = neg_v3 (apply_to_hkl o hkl0)) /\
      fits g k = true /\ idx = idx_of g k /\ (sg = 1 \/ sg = -1) /\
      (sg * (phi hkl0 + sh) - phi k) mod 24 = 0.

  Lemma place_one_ok : forall g ser hkl o e,
    In (ser, hkl) refl -> In o (sym_ops gr) -> place_one g ser hkl o = Some e -> entry_ok g e.
  Proof.
    intros g ser hkl o [idx [[ser' sg] sh]] Hr Ho H.
    destruct (placed_phase_correct gr phi Hrot Hfriedel g ser hkl o idx sg sh ser' Ho H) as [Hsg Hph].
    unfold place_one in H.
    destruct (apply_to_hkl o hkl) as [[h k] l] eqn:E.
    destruct (if g_zyx g then (l, k, h) else (h, k, l)) as [[a b] c] eqn:Ec.
    destruct (has_index g a b c) eqn:Hi; cbn [negb] in H; [|discriminate].
    injection H as Hidx Hser Hsgn Hsh. subst ser'. rewrite Hsgn in Hidx.
    exists hkl, o, (slot_hkl sg (h, k, l)). split; [exact Hr|]. split; [exact Ho|].
    assert (Hk : slot_hkl sg (h, k, l) = (h, k, l) /\ sg = 1 \/ slot_hkl sg (h, k, l) = neg_v3 (h, k, l) /\ sg = -1).
    { destruct Hsg as [->| ->]; [left|right]; split; try reflexivity;
        unfold slot_hkl, scale_v3, map_v3, neg_v3; cbv beta iota zeta; repeat f_equal; ring. }
    split; [rewrite E; destruct Hk as [[-> _]|[-> _]]; [left|right]; reflexivity|].
    assert (Hc : coords g (h, k, l) = (a, b, c)) by (unfold coords; exact Ec).
    split; [|split; [|split; [exact Hsg|exact Hph]]].
    - destruct Hk as [[-> _]|[-> _]]; [|rewrite fits_neg]; unfold fits; rewrite Hc; exact Hi.
    - rewrite <- Hidx. unfold idx_of.
      destruct Hk as [[-> ->]|[-> ->]].
      + rewrite Hc. f_equal; ring.
      + rewrite coords_neg, Hc. unfold neg_v3. f_equal; ring.
  Qed.

  Lemma place_refl_ok : forall g m sh, In sh refl ->
    Forall (entry_ok g) m -> Forall (entry_ok g) (place_refl g (sym_ops gr) m sh).
  Proof.
    intros g m [ser hkl] Hin Hm. unfold place_refl. cbn [fst snd].
    apply (fold_left_inv _ _ (Forall (entry_ok g))); [exact Hm|].
    intros m' o Hm' Ho.
    destruct (place_one g ser hkl o) as [[idx s]|] eqn:E; [|exact Hm'].
    destruct (lookup m' idx); [exact Hm'|].
    constructor; [|exact Hm']. exact (place_one_ok g ser hkl o (idx, s) Hin Ho E).
  Qed.

  (* add_friedel_mates: a slot (u, v, w) of the box whose Friedel mate slot holds a right entry for k
     receives the conjugate, which is right for -k *)
  Lemma friedel_fill_ok : forall g m u v w,
    0 <= u < g_nu g -> 0 <= v < g_nv g -> 0 <= w < g_nw g ->
    (g_half g = true -> if g_zyx g then u = 0 else w = 0) ->
    Forall (entry_ok g) m -> Forall (entry_ok g) (friedel_fill g m u v w).
  Proof.
    intros g m u v w Hu Hv Hw Hhalf Hm. unfold friedel_fill.
    destruct (lookup m (index_q g u v w)); [exact Hm|].
    destruct (lookup m (index_q g (mate u (g_nu g)) (mate v (g_nv g)) (mate w (g_nw g)))) as [s|] eqn:L; [|exact Hm].
    constructor; [|exact Hm].
    apply lookup_In in L. rewrite Forall_forall in Hm. specialize (Hm _ L).
    destruct s as [[ser sg] sh]. cbn [conj_slot]. unfold entry_ok in *.
    destruct Hm as [hkl0 [o [k [Hr [Ho [Hk [Hf [Hi [Hsg Hph]]]]]]]]].
    exists hkl0, o, (neg_v3 k). split; [exact Hr|]. split; [exact Ho|].
    split; [destruct Hk as [->| ->]; [right; reflexivity|left; destruct (apply_to_hkl o hkl0) as [[x y] z]; unfold neg_v3; repeat f_equal; ring]|].
    split; [rewrite fits_neg; exact Hf|].
    split.
    - (* the slot of -k is (u, v, w) *)
      unfold idx_of in *. rewrite coords_neg. unfold fits in Hf.
      destruct (coords g k) as [[a b] c]. unfold neg_v3.
      rewrite rindex_n_wrapc in *. unfold has_index in Hf.
      assert (Hmu : 0 <= mate u (g_nu g) < g_nu g) by (unfold mate; destruct (u =? 0) eqn:?; lia).
      assert (Hmv : 0 <= mate v (g_nv g) < g_nv g) by (unfold mate; destruct (v =? 0) eqn:?; lia).
      apply andb_prop in Hf. destruct Hf as [Hf Hc]. apply andb_prop in Hf. destruct Hf as [Ha Hb].
      apply Z.ltb_lt in Hb.
      destruct (g_half g) eqn:Hh; [destruct (g_zyx g) eqn:Hz|]; cbn [andb negb] in Ha, Hc;
        apply Z.ltb_lt in Ha; apply Z.ltb_lt in Hc.
      + (* half, ZYX: the halved axis is u, and u = 0 *)
        assert (U0 : u = 0) by (apply Hhalf; reflexivity). subst u.
        change (mate 0 (g_nu g)) with 0 in Hi.
        assert (Hwa : 0 <= wrapc a (g_nu g) < g_nu g) by (unfold wrapc; destruct (a >=? 0) eqn:?; lia).
        symmetry in Hi. apply index_q_inj in Hi; try assumption; try (apply wrapc_range_full; assumption); try lia.
        destruct Hi as [E1 [E2 E3]].
        rewrite (wrap_mate_half a (g_nu g) Ha E1).
        rewrite (wrap_mate_full b (g_nv g) v Hb Hv E2).
        rewrite (wrap_mate_full c (g_nw g) w Hc Hw E3). reflexivity.
      + (* half, XYZ: the halved axis is w, and w = 0 *)
        assert (W0 : w = 0) by (apply Hhalf; reflexivity). subst w.
        change (mate 0 (g_nw g)) with 0 in Hi.
        symmetry in Hi. apply index_q_inj in Hi; try assumption; try (apply wrapc_range_full; assumption).
        destruct Hi as [E1 [E2 E3]].
        rewrite (wrap_mate_full a (g_nu g) u Ha Hu E1).
        rewrite (wrap_mate_full b (g_nv g) v Hb Hv E2).
        rewrite (wrap_mate_half c (g_nw g) Hc E3). reflexivity.
      + (* full grid *)
        symmetry in Hi. apply index_q_inj in Hi; try assumption; try (apply wrapc_range_full; assumption).
        destruct Hi as [E1 [E2 E3]].
        rewrite (wrap_mate_full a (g_nu g) u Ha Hu E1).
        rewrite (wrap_mate_full b (g_nv g) v Hb Hv E2).
        rewrite (wrap_mate_full c (g_nw g) w Hc Hw E3). reflexivity.
    - split; [destruct Hsg as [->| ->]; [right|left]; reflexivity|].
      pose proof (Hfriedel k) as Hfk.
      set (p := phi k) in *. set (pn := phi (neg_v3 k)) in *. set (p0 := phi hkl0) in *.
      clearbody p pn p0. destruct Hsg as [->| ->]; lia.
  Qed.

  Lemma add_friedel_mates_ok : forall g m, 0 < g_nu g -> 0 < g_nw g ->
    Forall (entry_ok g) m -> Forall (entry_ok g) (add_friedel_mates g m).
  Proof.
    intros g m Hnu Hnw Hm. unfold add_friedel_mates.
    destruct (g_zyx g) eqn:Hz; cbn [negb].
    - apply (fold_left_inv _ _ (Forall (entry_ok g))); [exact Hm|]. intros m1 w H1 Hw. apply In_zrange in Hw.
      apply (fold_left_inv _ _ (Forall (entry_ok g))); [exact H1|]. intros m2 v H2 Hv. apply In_zrange in Hv.
      destruct (g_half g) eqn:Hh.
      + apply friedel_fill_ok; try assumption; try lia. intros _. rewrite Hz. reflexivity.
      + apply (fold_left_inv _ _ (Forall (entry_ok g))); [exact H2|]. intros m3 u H3 Hu. apply In_zrange in Hu.
        apply friedel_fill_ok; try assumption. intros X. rewrite Hh in X. discriminate.
    - apply (fold_left_inv _ _ (Forall (entry_ok g))); [exact Hm|]. intros m1 w H1 Hw. apply In_zrange in Hw.
      apply (fold_left_inv _ _ (Forall (entry_ok g))); [exact H1|]. intros m2 v H2 Hv. apply In_zrange in Hv.
      apply (fold_left_inv _ _ (Forall (entry_ok g))); [exact H2|]. intros m3 u H3 Hu. apply In_zrange in Hu.
      apply friedel_fill_ok; try assumption.
      + destruct (g_half g); lia.
      + intros X. rewrite X in Hw. rewrite Hz. lia.
  Qed.

  (* the whole function *)
  Theorem f_phi_on_grid_sound : forall size half zyx,
    let '(g, m) := f_phi_on_grid size half zyx gr refl in
    0 < g_nu g -> 0 < g_nw g -> Forall (entry_ok g) m.
  Proof.
    intros size half zyx. unfold f_phi_on_grid.
    set (g := init_grid size half zyx). intros Hnu Hnw.
    assert (H : Forall (entry_ok g) (fold_left (place_refl g (sym_ops gr)) refl [])).
    { apply (fold_left_inv _ _ (Forall (entry_ok g))); [constructor|].
      intros m sh Hm Hsh. apply place_refl_ok; assumption. }
    destruct (gops_centro gr); [exact H|apply add_friedel_mates_ok; assumption].
  Qed.
End Whole.

(* ---------------- completeness: nothing that belongs in the grid is left out ---------------- *)
Definition filled (m : gridmap) (i : Z) : Prop := lookup m i <> None.

Lemma filled_cons : forall m i j s, filled m i -> filled ((j, s) :: m) i.
Proof. intros m i j s H. unfold filled in *. cbn [lookup]. destruct (i =? j); [discriminate|exact H]. Qed.
Lemma filled_here : forall m i s, filled ((i, s) :: m) i.
Proof. intros m i s. unfold filled. cbn [lookup]. rewrite Z.eqb_refl. discriminate. Qed.

Lemma fold_left_reach : forall (A B : Type) (P Q : A -> Prop) (f : A -> B -> A) (l : list B) (x : B) (a : A),
  In x l -> (forall a b, P a -> P (f a b)) -> (forall a b, Q a -> Q (f a b)) ->
  (forall a, Q a -> P (f a x)) -> Q a -> P (fold_left f l a).
Proof.
  intros A B P Q f l x. induction l as [|b t IH]; intros a Hin HP HQ Hx Ha; [destruct Hin|].
  cbn [fold_left]. destruct Hin as [->|Hin].
  - apply (fold_left_inv _ _ P); [apply Hx; exact Ha|]. intros a' b' Ha' _. apply HP. exact Ha'.
  - apply IH; try assumption. apply HQ. exact Ha.
Qed.

Lemma place_step_mono : forall g ser hkl m o i, filled m i ->
  filled (match place_one g ser hkl o with
          | Some (idx, s) => match lookup m idx with None => (idx, s) :: m | Some _ => m end
          | None => m end) i.
Proof.
  intros g ser hkl m o i H. destruct (place_one g ser hkl o) as [[idx s]|]; [|exact H].
  destruct (lookup m idx); [exact H|apply filled_cons; exact H].
Qed.

Lemma place_refl_mono : forall g ops m sh i, filled m i -> filled (place_refl g ops m sh) i.
Proof.
  intros g ops m sh i H. unfold place_refl. apply (fold_left_inv _ _ (fun m => filled m i)); [exact H|].
  intros m' o Hm' _. apply place_step_mono. exact Hm'.
Qed.

(* the loop: every (reflection, operation) image that fits the grid has its slot filled *)
Lemma place_refl_covers : forall g ops m ser hkl o idx s,
  In o ops -> place_one g ser hkl o = Some (idx, s) -> filled (place_refl g ops m (ser, hkl)) idx.
Proof.
  intros g ops m ser hkl o idx s Ho E. unfold place_refl. cbn [fst snd].
  apply (fold_left_reach _ _ (fun m => filled m idx) (fun _ => True)) with (x := o); auto.
  - intros m' o' H. apply place_step_mono. exact H.
  - intros m' _. rewrite E. destruct (lookup m' idx) eqn:L; [unfold filled; rewrite L; discriminate|apply filled_here].
Qed.

Theorem loop_covers : forall g ops refl ser hkl o idx s,
  In (ser, hkl) refl -> In o ops -> place_one g ser hkl o = Some (idx, s) ->
  filled (fold_left (place_refl g ops) refl []) idx.
Proof.
  intros g ops refl ser hkl o idx s Hr Ho E.
  apply (fold_left_reach _ _ (fun m => filled m idx) (fun _ => True)) with (x := (ser, hkl)); auto.
  - intros m sh H. apply place_refl_mono. exact H.
  - intros m _. apply (place_refl_covers g ops m ser hkl o idx s Ho E).
Qed.

(* add_friedel_mates: monotone, and a slot of the visited region whose mate is filled gets filled *)
Lemma friedel_fill_mono : forall g m u v w i, filled m i -> filled (friedel_fill g m u v w) i.
Proof.
  intros g m u v w i H. unfold friedel_fill. destruct (lookup m (index_q g u v w)); [exact H|].
  destruct (lookup m (index_q g (mate u (g_nu g)) (mate v (g_nv g)) (mate w (g_nw g)))); [apply filled_cons|]; exact H.
Qed.

Lemma friedel_fill_at : forall g m u v w,
  filled m (index_q g (mate u (g_nu g)) (mate v (g_nv g)) (mate w (g_nw g))) ->
  filled (friedel_fill g m u v w) (index_q g u v w).
Proof.
  intros g m u v w H. unfold friedel_fill. destruct (lookup m (index_q g u v w)) eqn:L.
  - unfold filled. rewrite L. discriminate.
  - unfold filled in H. destruct (lookup m (index_q g (mate u (g_nu g)) (mate v (g_nv g)) (mate w (g_nw g)))); [apply filled_here|contradiction].
Qed.

Lemma In_zrange_intro : forall n x, 0 <= x < n -> In x (zrange n).
Proof.
  intros n x H. unfold zrange. apply in_map_iff. exists (Z.to_nat x). split; [lia|]. apply in_seq. lia.
Qed.

Lemma add_friedel_mates_mono : forall g m i, filled m i -> filled (add_friedel_mates g m) i.
Proof.
  intros g m i H. unfold add_friedel_mates.
  destruct (negb (g_zyx g)).
  - apply (fold_left_inv _ _ (fun m => filled m i)); [exact H|]. intros m1 w H1 _.
    apply (fold_left_inv _ _ (fun m => filled m i)); [exact H1|]. intros m2 v H2 _.
    apply (fold_left_inv _ _ (fun m => filled m i)); [exact H2|]. intros m3 u H3 _.
    apply friedel_fill_mono. exact H3.
  - apply (fold_left_inv _ _ (fun m => filled m i)); [exact H|]. intros m1 w H1 _.
    apply (fold_left_inv _ _ (fun m => filled m i)); [exact H1|]. intros m2 v H2 _.
    destruct (g_half g); [apply friedel_fill_mono; exact H2|].
    apply (fold_left_inv _ _ (fun m => filled m i)); [exact H2|]. intros m3 u H3 _.
    apply friedel_fill_mono. exact H3.
Qed.

(* every slot (u, v, w) of the region add_friedel_mates visits - the whole box of a full grid, the plane
   of the halved axis = 0 of a half grid - is filled afterwards if its Friedel-mate slot was filled *)
Theorem add_friedel_mates_covers : forall g m u v w,
  0 <= u < g_nu g -> 0 <= v < g_nv g -> 0 <= w < g_nw g ->
  (g_half g = true -> if g_zyx g then u = 0 else w = 0) ->
  filled m (index_q g (mate u (g_nu g)) (mate v (g_nv g)) (mate w (g_nw g))) ->
  filled (add_friedel_mates g m) (index_q g u v w).
Proof.
  intros g m u v w Hu Hv Hw Hhalf Hm. unfold add_friedel_mates.
  set (P := fun m => filled m (index_q g u v w)).
  set (Q := fun m => filled m (index_q g (mate u (g_nu g)) (mate v (g_nv g)) (mate w (g_nw g)))).
  assert (Pf : forall m a b c, P m -> P (friedel_fill g m a b c)) by (intros; apply friedel_fill_mono; assumption).
  assert (Qf : forall m a b c, Q m -> Q (friedel_fill g m a b c)) by (intros; apply friedel_fill_mono; assumption).
  destruct (g_zyx g) eqn:Hz; cbn [negb].
  - (* ZYX *)
    apply (fold_left_reach _ _ P Q) with (x := w); [apply In_zrange_intro; exact Hw| | | |exact Hm].
    + intros m1 w1 H1. apply (fold_left_inv _ _ P); [exact H1|]. intros m2 v2 H2 _.
      destruct (g_half g); [apply Pf; exact H2|]. apply (fold_left_inv _ _ P); [exact H2|]. intros; apply Pf; assumption.
    + intros m1 w1 H1. apply (fold_left_inv _ _ Q); [exact H1|]. intros m2 v2 H2 _.
      destruct (g_half g); [apply Qf; exact H2|]. apply (fold_left_inv _ _ Q); [exact H2|]. intros; apply Qf; assumption.
    + intros m1 H1.
      apply (fold_left_reach _ _ P Q) with (x := v); [apply In_zrange_intro; exact Hv| | | |exact H1].
      * intros m2 v2 H2. destruct (g_half g); [apply Pf; exact H2|].
        apply (fold_left_inv _ _ P); [exact H2|]. intros; apply Pf; assumption.
      * intros m2 v2 H2. destruct (g_half g); [apply Qf; exact H2|].
        apply (fold_left_inv _ _ Q); [exact H2|]. intros; apply Qf; assumption.
      * intros m2 H2. destruct (g_half g) eqn:Hh.
        -- assert (U0 : u = 0) by (apply Hhalf; reflexivity). unfold P. subst u. apply friedel_fill_at. exact H2.
        -- apply (fold_left_reach _ _ P Q) with (x := u); [apply In_zrange_intro; exact Hu| | | |exact H2].
           ++ intros; apply Pf; assumption.
           ++ intros; apply Qf; assumption.
           ++ intros m3 H3. apply friedel_fill_at. exact H3.
  - (* XYZ *)
    assert (Hwr : In w (zrange (if g_half g then 1 else g_nw g))).
    { apply In_zrange_intro. destruct (g_half g) eqn:Hh; [|exact Hw]. assert (w = 0) by (apply Hhalf; reflexivity). lia. }
    apply (fold_left_reach _ _ P Q) with (x := w); [exact Hwr| | | |exact Hm].
    + intros m1 w1 H1. apply (fold_left_inv _ _ P); [exact H1|]. intros m2 v2 H2 _.
      apply (fold_left_inv _ _ P); [exact H2|]. intros; apply Pf; assumption.
    + intros m1 w1 H1. apply (fold_left_inv _ _ Q); [exact H1|]. intros m2 v2 H2 _.
      apply (fold_left_inv _ _ Q); [exact H2|]. intros; apply Qf; assumption.
    + intros m1 H1.
      apply (fold_left_reach _ _ P Q) with (x := v); [apply In_zrange_intro; exact Hv| | | |exact H1].
      * intros m2 v2 H2. apply (fold_left_inv _ _ P); [exact H2|]. intros; apply Pf; assumption.
      * intros m2 v2 H2. apply (fold_left_inv _ _ Q); [exact H2|]. intros; apply Qf; assumption.
      * intros m2 H2.
        apply (fold_left_reach _ _ P Q) with (x := u); [apply In_zrange_intro; exact Hu| | | |exact H2].
        -- intros; apply Pf; assumption.
        -- intros; apply Qf; assumption.
        -- intros m3 H3. apply friedel_fill_at. exact H3.
Qed.

(* the whole function, completeness of the loop part: for every listed reflection and every operation whose
   image fits the grid, the slot the image is stored in is filled in the result *)
Theorem f_phi_on_grid_complete : forall size half zyx gr refl ser hkl o idx s,
  In (ser, hkl) refl -> In o (sym_ops gr) ->
  place_one (init_grid size half zyx) ser hkl o = Some (idx, s) ->
  filled (snd (f_phi_on_grid size half zyx gr refl)) idx.
Proof.
  intros size half zyx gr refl ser hkl o idx s Hr Ho E. unfold f_phi_on_grid. cbn [snd].
  pose proof (loop_covers _ (sym_ops gr) refl ser hkl o idx s Hr Ho E) as H.
  destruct (gops_centro gr); [exact H|apply add_friedel_mates_mono; exact H].
Qed.
