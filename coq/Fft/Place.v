(* Model of get_f_phi_on_grid's placement bookkeeping and add_friedel_mates
   (include/gemmi/fourier.hpp, recgrid.hpp). A slot holds (serial of the reflection, sign, shift):
   the stored phase is sign * (phi + shift * 15 degrees). *)
From GV Require Export Sym.AsuDefs.
Local Open Scope Z_scope.

Record rgrid := mkRG { g_nu : Z; g_nv : Z; g_nw : Z; g_half : bool; g_zyx : bool }.

(* initialize_hkl_grid: size is the real-space grid size requested *)
Definition init_grid (size : v3) (half zyx : bool) : rgrid :=
  let '(a, b, c) := size in
  let c1 := if half then cdiv c 2 + 1 else c in
  if zyx then mkRG c1 b a half zyx else mkRG a b c1 half zyx.

Definition has_index (g : rgrid) (u v w : Z) : bool :=
  let half_u := g_half g && g_zyx g in
  let half_w := g_half g && negb (g_zyx g) in
  (Z.abs (if half_u then u else 2 * u) <? g_nu g) &&
  (Z.abs (2 * v) <? g_nv g) &&
  (Z.abs (if half_w then w else 2 * w) <? g_nw g).

Definition index_q (g : rgrid) (u v w : Z) : Z := (w * g_nv g + v) * g_nu g + u.
(* ReciprocalGrid::index_n *)
Definition rindex_n (g : rgrid) (u v w : Z) : Z :=
  index_q g (if u >=? 0 then u else u + g_nu g)
            (if v >=? 0 then v else v + g_nv g)
            (if w >=? 0 then w else w + g_nw g).

Definition slot : Type := (Z * Z * Z)%type.   (* serial, sign, shift24 *)
Definition gridmap := list (Z * slot).
Fixpoint lookup (m : gridmap) (i : Z) : option slot :=
  match m with [] => None | (j, s) :: t => if i =? j then Some s else lookup t i end.

(* one (reflection, operation) pair: Some (idx, slot) if it is written (slot empty is checked by the caller) *)
Definition place_one (g : rgrid) (serial : Z) (hkl : v3) (o : op) : option (Z * slot) :=
  let '(h, k, l) := apply_to_hkl o hkl in
  let lp := l in
  let '(a, b, c) := if g_zyx g then (l, k, h) else (h, k, l) in
  if negb (has_index g a b c) then None else
  let sign := if negb (g_half g) || (lp >=? 0) then 1 else -1 in
  Some (rindex_n g (sign * a) (sign * b) (sign * c),
        (serial, sign, - dot hkl (tran o))).

Definition place_refl (g : rgrid) (ops : list op) (m : gridmap) (sh : Z * v3) : gridmap :=
  fold_left (fun m o =>
    match place_one g (fst sh) (snd sh) o with
    | Some (idx, s) => match lookup m idx with None => (idx, s) :: m | Some _ => m end
    | None => m
    end) ops m.

Definition zrange (n : Z) : list Z := map Z.of_nat (seq 0 (Z.to_nat n)).
Definition mate (i n : Z) : Z := if i =? 0 then 0 else n - i.
Definition conj_slot (s : slot) : slot := let '(a, sg, sh) := s in (a, - sg, sh).

Definition friedel_fill (g : rgrid) (m : gridmap) (u v w : Z) : gridmap :=
  let idx := index_q g u v w in
  match lookup m idx with
  | Some _ => m
  | None => match lookup m (index_q g (mate u (g_nu g)) (mate v (g_nv g)) (mate w (g_nw g))) with
            | Some s => (idx, conj_slot s) :: m
            | None => m
            end
  end.

Definition add_friedel_mates (g : rgrid) (m : gridmap) : gridmap :=
  if negb (g_zyx g) then
    fold_left (fun m w => fold_left (fun m v => fold_left (fun m u => friedel_fill g m u v w)
      (zrange (g_nu g)) m) (zrange (g_nv g)) m)
      (zrange (if g_half g then 1 else g_nw g)) m
  else
    fold_left (fun m w => fold_left (fun m v =>
      if g_half g then friedel_fill g m 0 v w
      else fold_left (fun m u => friedel_fill g m u v w) (zrange (g_nu g)) m)
      (zrange (g_nv g)) m) (zrange (g_nw g)) m.

(* get_f_phi_on_grid: reflections with f = 0 are skipped by the caller *)
Definition f_phi_on_grid (size : v3) (half zyx : bool) (gr : gops) (refl : list (Z * v3)) : rgrid * gridmap :=
  let g := init_grid size half zyx in
  let m := fold_left (place_refl g (sym_ops gr)) refl [] in
  (g, if gops_centro gr then m else add_friedel_mates g m).
