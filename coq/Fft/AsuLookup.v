(* Model of the index arithmetic of ReciprocalGrid::prepare_asu_data (include/gemmi/recgrid.hpp, XYZ order):
     hi  =  h >= 0 ?  h :  h + nu      hi_ = -h >= 0 ? -h : -h + nu      (the same for k with nv)
     l < 0 on a half-l grid:  friedel_mate_value(get_value_q(hi_, ki_, -l))        else  get_value_q(hi, ki, li)
   Result: the slot that is read and whether the value is conjugated. *)
From Coq Require Import Lia.
From GV Require Import Fft.Place.
Local Open Scope Z_scope.

Definition wrap_idx (h n : Z) : Z := if h >=? 0 then h else h + n.

Definition asu_lookup (g : rgrid) (hkl : v3) : Z * bool :=
  let '(h, k, l) := hkl in
  if g_half g && (l <? 0)
  then (index_q g (wrap_idx (- h) (g_nu g)) (wrap_idx (- k) (g_nv g)) (- l), true)
  else (index_q g (wrap_idx h (g_nu g)) (wrap_idx k (g_nv g)) (wrap_idx l (g_nw g)), false).

(* the slot read for hkl is the slot get_f_phi_on_grid writes for hkl: rindex_n of the index itself, or - on a half-l grid
   for l < 0 - rindex_n of its Friedel mate, the value being conjugated (place_one: sign = -1 exactly in that case) *)
Theorem asu_lookup_is_placement_index : forall g h k l,
  asu_lookup g (h, k, l) =
  if g_half g && (l <? 0) then (rindex_n g (- h) (- k) (- l), true) else (rindex_n g h k l, false).
Proof.
  intros g h k l. unfold asu_lookup, rindex_n, wrap_idx.
  destruct (g_half g && (l <? 0)) eqn:E; [|reflexivity].
  apply andb_prop in E. destruct E as [_ E]. apply Z.ltb_lt in E.
  replace (- l >=? 0) with true by (symmetry; apply Z.geb_le; lia). reflexivity.
Qed.

Lemma idx_bound : forall nu nv nw u v w, 0 <= u < nu -> 0 <= v < nv -> 0 <= w < nw ->
  0 <= (w * nv + v) * nu + u < nu * nv * nw.
Proof.
  intros nu nv nw u v w Hu Hv Hw.
  assert (P1 : 0 <= w * nv) by (apply Z.mul_nonneg_nonneg; lia).
  assert (P2 : 0 <= (w * nv + v) * nu) by (apply Z.mul_nonneg_nonneg; lia).
  split; [lia|].
  assert (Q1 : (w + 1) * nv <= nw * nv) by (apply Z.mul_le_mono_nonneg_r; lia).
  assert (Q2 : ((w * nv + v) + 1) * nu <= nw * nv * nu) by (apply Z.mul_le_mono_nonneg_r; lia).
  replace (nu * nv * nw) with (nw * nv * nu) by ring. lia.
Qed.

(* and it lies inside the grid for every index the (XYZ) grid holds *)
Theorem asu_lookup_in_bounds : forall g h k l,
  g_zyx g = false -> 0 < g_nu g -> 0 < g_nv g -> 0 < g_nw g -> has_index g h k l = true ->
  0 <= fst (asu_lookup g (h, k, l)) < g_nu g * g_nv g * g_nw g.
Proof.
  intros g h k l Hz Hu Hv Hw Hi. unfold has_index in Hi. rewrite Hz in Hi. rewrite andb_false_r in Hi. cbn [negb] in Hi.
  rewrite andb_true_r in Hi.
  apply andb_prop in Hi. destruct Hi as [Hi H3]. apply andb_prop in Hi. destruct Hi as [H1 H2].
  apply Z.ltb_lt in H1, H2.
  assert (W : forall x n, 0 < n -> Z.abs (2 * x) < n -> 0 <= wrap_idx x n < n /\ 0 <= wrap_idx (- x) n < n).
  { intros x n Hn Hx. unfold wrap_idx. destruct (x >=? 0) eqn:E1; destruct (- x >=? 0) eqn:E2; lia. }
  destruct (W h _ Hu H1) as [A1 A2]. destruct (W k _ Hv H2) as [B1 B2].
  unfold asu_lookup, index_q.
  destruct (g_half g) eqn:Eh; cbn [andb] in *.
  - apply Z.ltb_lt in H3. destruct (l <? 0) eqn:El; cbn [fst].
    + apply Z.ltb_lt in El. apply idx_bound; [exact A2|exact B2|lia].
    + apply Z.ltb_ge in El.
      assert (Wl : wrap_idx l (g_nw g) = l) by (unfold wrap_idx; replace (l >=? 0) with true by (symmetry; apply Z.geb_le; lia); reflexivity).
      rewrite Wl. apply idx_bound; [exact A1|exact B1|lia].
  - apply Z.ltb_lt in H3. cbn [fst]. destruct (W l _ Hw H3) as [C1 _]. apply idx_bound; assumption.
Qed.
