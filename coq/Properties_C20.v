(* Property C20: neighbour search returns exactly the atoms within the radius.
   Statements only; proofs live in Geo/NeighborProofs.v. What is proved is the integer core of
   NeighborSearch::for_each_cell (Geo/Neighbor.v): which bins are visited with which lattice shifts.
   The geometric part (a bin is at least one radius wide, distances, symmetry images) is decided by the
   brute-force oracle of the check, not by a theorem: C20_..._partial in that sense. *)
From Coq Require Import ZArith QArith List.
From Coq Require Import Reals.
From GV Require Import Geo.Neighbor Geo.NeighborProofs Geo.NeighborReal.
Local Open Scope Z_scope.

(* the shift lambda is floor division, and the bin index it leaves is the non-negative remainder *)
Theorem C20_shift_is_floor_div : forall j n, 0 < n ->
  shift j n = j / n /\ 0 <= j - shift j n * n < n.
Proof. exact shift_is_floor_div. Qed.
Print Assumptions C20_shift_is_floor_div.

(* each (bin, lattice shift) of the (2ku+1)(2kv+1)(2kw+1) window is visited exactly once - no image is
   reported twice and none of the window is skipped, also for axes with 1 or 2 bins *)
Theorem C20_walk_bijective_partial : forall nu nv nw cu cv cw ku kv kw,
  0 < nu -> 0 < nv -> 0 < nw -> 0 <= ku -> 0 <= kv -> 0 <= kw ->
  NoDup (walk nu nv nw cu cv cw ku kv kw) /\
  forall idx du dv dw,
    In (idx, (du, dv, dw)) (walk nu nv nw cu cv cw ku kv kw) <->
    exists bu bv bw, idx = index_q nu nv bu bv bw /\
      in_window cu ku nu bu du /\ in_window cv kv nv bv dv /\ in_window cw kw nw bw dw.
Proof. exact walk_bijective_l. Qed.
Print Assumptions C20_walk_bijective_partial.

(* non-periodic branch: exactly the existing bins of the window *)
Theorem C20_clamped_axis : forall c k n,
  NoDup (axis_clamped c k n) /\
  forall b, In b (axis_clamped c k n) <-> (0 <= b < n /\ c - k <= b <= c + k).
Proof. exact axis_clamped_spec. Qed.
Print Assumptions C20_clamped_axis.

(* bins_to_visit: the bins visited on each side span k radii (ratio = radius / bin width), up to 1e-9 *)
Theorem C20_bins_to_visit_covers : forall k ratio, (0 <= k)%Z -> (0 <= ratio)%Q ->
  (bins_to_visit k ratio < 2147483647 / 4)%Z ->
  (inject_Z k * ratio <= inject_Z (bins_to_visit k ratio) * (1 + (1 # 1000000000)))%Q.
Proof. exact bins_to_visit_covers_l. Qed.
Print Assumptions C20_bins_to_visit_covers.

(* ---- the geometric half, over the reals: COMPLETENESS of the periodic walk.
   Along one axis the fractional coordinate is an affine function of the position whose linear part s has length
   ar (the reciprocal cell length). A stored mark has wrapped coordinate fa in [0,1) and sits in bin floor(fa n);
   its lattice copy fa + d is the one located at x. If x is within R of the query q (Euclidean distance) and the
   walk visits ku >= R * ar * n bins on each side of the bin of the query, the bin of the mark is visited, with
   exactly the lattice shift d: no image within the radius is missed, and it is reported with the right shift.
   (ku >= R * ar * n is what bins_to_visit provides up to its 1e-9 guard: C20_bins_to_visit_covers.) *)
Theorem C20_axis_complete_over_R : forall (n ku d : Z) (fq fa R ar s1 s2 s3 q1 q2 q3 x1 x2 x3 off : R),
  (0 < n)%Z -> (0 <= ar)%R -> (0 <= R)%R ->
  (s1² + s2² + s3² = ar²)%R ->
  (fq = s1 * q1 + s2 * q2 + s3 * q3 + off)%R ->
  (fa + IZR d = s1 * x1 + s2 * x2 + s3 * x3 + off)%R ->
  (0 <= fa < 1)%R ->
  ((x1 - q1)² + (x2 - q2)² + (x3 - q3)² <= R²)%R ->
  (R * ar * IZR n <= IZR ku)%R ->
  in_window (Flocq.Core.Raux.Zfloor (fq * IZR n)) ku n (Flocq.Core.Raux.Zfloor (fa * IZR n)) d.
Proof. exact axis_complete. Qed.
Print Assumptions C20_axis_complete_over_R.

(* three axes: the slot of the mark, with its lattice shift, is among the (slot, shift) pairs the walk produces *)
Theorem C20_walk_complete_over_R : forall (nu nv nw ku kv kw du dv dw : Z) (fqx fqy fqz fax fay faz : R),
  (0 < nu)%Z -> (0 < nv)%Z -> (0 < nw)%Z -> (0 <= ku)%Z -> (0 <= kv)%Z -> (0 <= kw)%Z ->
  in_window (Flocq.Core.Raux.Zfloor (fqx * IZR nu)) ku nu (Flocq.Core.Raux.Zfloor (fax * IZR nu)) du ->
  in_window (Flocq.Core.Raux.Zfloor (fqy * IZR nv)) kv nv (Flocq.Core.Raux.Zfloor (fay * IZR nv)) dv ->
  in_window (Flocq.Core.Raux.Zfloor (fqz * IZR nw)) kw nw (Flocq.Core.Raux.Zfloor (faz * IZR nw)) dw ->
  In (index_q nu nv (Flocq.Core.Raux.Zfloor (fax * IZR nu)) (Flocq.Core.Raux.Zfloor (fay * IZR nv))
                    (Flocq.Core.Raux.Zfloor (faz * IZR nw)), (du, dv, dw))
     (walk nu nv nw (Flocq.Core.Raux.Zfloor (fqx * IZR nu)) (Flocq.Core.Raux.Zfloor (fqy * IZR nv))
           (Flocq.Core.Raux.Zfloor (fqz * IZR nw)) ku kv kw).
Proof. exact walk_complete. Qed.
Print Assumptions C20_walk_complete_over_R.

