(* Property C20: neighbour search returns exactly the atoms within the radius.
   Statements only; proofs live in Geo/NeighborProofs.v. What is proved is the integer core of
   NeighborSearch::for_each_cell (Geo/Neighbor.v): which bins are visited with which lattice shifts.
   The geometric part (a bin is at least one radius wide, distances, symmetry images) is decided by the
   brute-force oracle of the check, not by a theorem: C20_..._partial in that sense. *)
From Coq Require Import ZArith QArith List.
From GV Require Import Geo.Neighbor Geo.NeighborProofs.
Local Open Scope Z_scope.

(* the shift lambda is floor division, and the bin index it leaves is the non-negative remainder *)
Theorem C20_shift_is_floor_div : forall j n, 0 < n ->
  shift j n = j / n /\ 0 <= j - shift j n * n < n.
Proof. exact shift_is_floor_div. Qed.
Print Assumptions C20_shift_is_floor_div.

(* each (bin, lattice shift) of the (2ku+1)(2kv+1)(2kw+1) window is visited exactly once - no image is
   reported twice and none of the window is skipped, also for axes with 1 or 2 bins *)
Theorem C20_walk_bijective_partial : forall nu nv nw cu cv cw ku kv kw,
  0 < nu -> 0 < nv -> 0 < nw -> 0 <= ku -> 0 <= kv -> 0 <= kw ->
  NoDup (walk nu nv nw cu cv cw ku kv kw) /\
  forall idx du dv dw,
    In (idx, (du, dv, dw)) (walk nu nv nw cu cv cw ku kv kw) <->
    exists bu bv bw, idx = index_q nu nv bu bv bw /\
      in_window cu ku nu bu du /\ in_window cv kv nv bv dv /\ in_window cw kw nw bw dw.
Proof. exact walk_bijective_l. Qed.
Print Assumptions C20_walk_bijective_partial.

(* non-periodic branch: exactly the existing bins of the window *)
Theorem C20_clamped_axis : forall c k n,
  NoDup (axis_clamped c k n) /\
  forall b, In b (axis_clamped c k n) <-> (0 <= b < n /\ c - k <= b <= c + k).
Proof. exact axis_clamped_spec. Qed.
Print Assumptions C20_clamped_axis.

(* bins_to_visit: the bins visited on each side span k radii (ratio = radius / bin width), up to 1e-9 *)
Theorem C20_bins_to_visit_covers : forall k ratio, (0 <= k)%Z -> (0 <= ratio)%Q ->
  (bins_to_visit k ratio < 2147483647 / 4)%Z ->
  (inject_Z k * ratio <= inject_Z (bins_to_visit k ratio) * (1 + (1 # 1000000000)))%Q.
Proof. exact bins_to_visit_covers_l. Qed.
Print Assumptions C20_bins_to_visit_covers.
