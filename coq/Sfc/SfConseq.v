(* Property C15, the "consequently" clauses, as corollaries of the direct-sum algebra of Sfc/SfSym.v:
   systematically absent reflections are zero, Friedel mates are conjugate when the weights are real.
   C is any commutative ring in which x = a x forces a = 1 or x = 0 (a field, e.g. the complex numbers), e a faithful
   character of period 24 d. *)
From Coq Require Import Lia Permutation.
From GV Require Import Sym.Op Sym.OpProofs Sym.Group Sym.SgCheck Sym.AsuDefs Sfc.SfSym Sfc.SfTable Sfc.CenPerm Sym.AsuSpec.
Local Open Scope Z_scope.

Section Conseq.
  Variable C : Type.
  Variables (c0 c1 : C) (cadd cmul : C -> C -> C).
  Variable d : Z.
  Variable e : Z -> C.
  Hypothesis cadd_comm : forall a b, cadd a b = cadd b a.
  Hypothesis cadd_assoc : forall a b c, cadd a (cadd b c) = cadd (cadd a b) c.
  Hypothesis cmul_comm : forall a b, cmul a b = cmul b a.
  Hypothesis cmul_assoc : forall a b c, cmul a (cmul b c) = cmul (cmul a b) c.
  Hypothesis cmul_add : forall a b c, cmul a (cadd b c) = cadd (cmul a b) (cmul a c).
  Hypothesis cmul_0 : forall a, cmul a c0 = c0.
  Hypothesis e_add : forall a b, e (a + b) = cmul (e a) (e b).
  Hypothesis e_period : forall a k, e (a + 24 * d * k) = e a.
  Hypothesis d_pos : 0 < d.
  (* field-like: a fixed point of a multiplication is zero unless the factor is one *)
  Hypothesis no_fix : forall a x, cmul a x = x -> a = c1 \/ x = c0.
  (* e is faithful: only whole turns give one *)
  Hypothesis e_faithful : forall n, e n = c1 -> exists k, n = 24 * d * k.

  Notation F := (sf_sum C c0 cadd cmul d e).

  (* an operation that maps h onto itself with a fractional phase shift forces F(h) = 0 *)
  Theorem sym_absent_zero : forall r g R, In r sg_table -> operations r = HOk g -> In R (sym_ops g) ->
    forall w h X, apply_to_hkl_nodiv R h = scale_v3 DEN h -> Z.rem (dot h (tran R)) DEN <> 0 ->
    F w h (all_ops g) X = c0.
  Proof.
    intros r g R Hin Hop HR w h X Hfix Hph.
    pose proof (table_sf_symmetry C c0 cadd cmul d e cadd_comm cadd_assoc cmul_comm cmul_assoc cmul_add cmul_0
                  e_add e_period r g R Hin Hop HR w h X) as S.
    assert (Eh : apply_to_hkl R h = h).
    { unfold apply_to_hkl. rewrite Hfix. destruct h as [[a b] c]. unfold scale_v3, divide_hkl, map_v3, DEN.
      repeat match goal with |- (_, _) = (_, _) => f_equal end; apply cdiv_of_mult; ring. }
    rewrite Eh in S. symmetry in S. destruct (no_fix _ _ S) as [A|Z]; [|exact Z].
    exfalso. destruct (e_faithful _ A) as [k Hk]. apply Hph.
    assert (E : dot h (tran R) = (- k) * DEN) by (unfold DEN; nia).
    rewrite E. apply Z.rem_mul. unfold DEN. lia.
  Qed.

  (* a centring vector with a fractional phase forces F(h) = 0 *)
  Lemma term_centring : forall h g c X, exists k,
    term d h (add_centering g c) X = dot h c * d + term d h g X + 24 * d * k.
  Proof.
    intros [[h0 h1] h2] g [[c0' c1'] c2'] X. unfold term, add_centering, wrap, translated, wrapped_tran.
    cbn [rot tran]. destruct (tran g) as [[t0 t1] t2]. cbn [add_v3]. rewrite !wrap1_mod.
    destruct (mat_vec_raw (rot g) X) as [[a b] c]. cbn [dot].
    exists (- (h0 * ((t0 + c0') / 24) + h1 * ((t1 + c1') / 24) + h2 * ((t2 + c2') / 24))).
    pose proof (Z.div_mod (t0 + c0') 24 ltac:(lia)). pose proof (Z.div_mod (t1 + c1') 24 ltac:(lia)).
    pose proof (Z.div_mod (t2 + c2') 24 ltac:(lia)).
    set (q0 := (t0 + c0') / 24) in *. set (q1 := (t1 + c1') / 24) in *. set (q2 := (t2 + c2') / 24) in *.
    set (r0 := (t0 + c0') mod 24) in *. set (r1 := (t1 + c1') mod 24) in *. set (r2 := (t2 + c2') mod 24) in *.
    clearbody q0 q1 q2 r0 r1 r2. nia.
  Qed.

  Theorem centring_absent_zero : forall r g c, In r sg_table -> operations r = HOk g -> In c (cen_ops g) ->
    forall w h X, Z.rem (dot h c) DEN <> 0 -> F w h (all_ops g) X = c0.
  Proof.
    intros r g c Hin Hop Hc w h X Hph.
    pose proof (table_centring_permutes r g c Hin Hop Hc) as P.
    set (f := fun kk : m33 * v3 => cmul w (e (dot h (mat_vec_raw (fst kk) X) + dot h (snd kk) * d))).
    assert (Ef : forall l, map (fun g0 => cmul w (e (term d h g0 X))) l = map f (map key l)).
    { intros l. rewrite map_map. apply map_ext. intros g0. reflexivity. }
    assert (S : F w h (all_ops g) X = cmul (e (dot h c * d)) (F w h (all_ops g) X)).
    { unfold sf_sum at 1. rewrite Ef.
      rewrite <- (fold_perm C c0 cadd cadd_comm cadd_assoc _ _ (Permutation_map f P)).
      rewrite map_map.
      assert (E1 : map (fun x => f (key (add_centering x c))) (all_ops g) =
                   map (fun x => cmul (e (dot h c * d)) x) (map (fun g0 => cmul w (e (term d h g0 X))) (all_ops g))).
      { rewrite map_map. apply map_ext. intros g0.
        change (f (key (add_centering g0 c))) with (cmul w (e (term d h (add_centering g0 c) X))).
        destruct (term_centring h g0 c X) as [k Hk]. rewrite Hk, e_period, e_add.
        rewrite !cmul_assoc, (cmul_comm w). reflexivity. }
      rewrite E1. apply (factor_out C c0 cadd cmul cmul_add cmul_0). }
    symmetry in S. destruct (no_fix _ _ S) as [A|Z]; [|exact Z].
    exfalso. destruct (e_faithful _ A) as [k Hk]. apply Hph.
    assert (E : dot h c = k * DEN) by (unfold DEN; nia).
    rewrite E. apply Z.rem_mul. unfold DEN. lia.
  Qed.

  (* SYSTEMATICALLY ABSENT REFLECTIONS ARE ZERO: for every tabulated group, every reflection the library's
     is_systematically_absent flags, every atom position and weight *)
  Theorem absent_reflections_zero : forall r g, In r sg_table -> operations r = HOk g ->
    forall w h X, is_systematically_absent g h = true -> F w h (all_ops g) X = c0.
  Proof.
    intros r g Hin Hop w h X Ha.
    apply (table_absent_iff r g h Hin Hop) in Ha. destruct Ha as [o [c [Ho [Hc [Hfix Hph]]]]].
    destruct (Z.eq_dec (Z.rem (dot h (tran o)) DEN) 0) as [Z0|NZ].
    - apply (centring_absent_zero r g c Hin Hop Hc). intro Zc. apply Hph.
      assert (Ed : dot h (add_v3 (tran o) c) = dot h (tran o) + dot h c).
      { destruct h as [[h0 h1] h2]. destruct (tran o) as [[t0 t1] t2]. destruct c as [[x y] z]. cbn [add_v3 dot]. ring. }
      rewrite Ed. apply Z.rem_divide in Z0; [|unfold DEN; lia]. apply Z.rem_divide in Zc; [|unfold DEN; lia].
      apply Z.rem_divide; [unfold DEN; lia|]. apply Z.divide_add_r; assumption.
    - exact (sym_absent_zero r g o Hin Hop Ho w h X Hfix NZ).
  Qed.

  (* Friedel's law for real weights: F(-h) = conj F(h), for any list of operations *)
  Variable conj : C -> C.
  Hypothesis conj_add : forall a b, conj (cadd a b) = cadd (conj a) (conj b).
  Hypothesis conj_mul : forall a b, conj (cmul a b) = cmul (conj a) (conj b).
  Hypothesis conj_0 : conj c0 = c0.
  Hypothesis conj_e : forall n, conj (e n) = e (- n).

  Lemma term_neg : forall h g X, term d (neg_v3 h) g X = - term d h g X.
  Proof.
    intros [[h0 h1] h2] g X. unfold term. destruct (mat_vec_raw (rot g) X) as [[a b] c].
    destruct (tran g) as [[t0 t1] t2]. cbn [neg_v3 dot]. ring.
  Qed.

  Theorem friedel_conjugate : forall w, conj w = w -> forall h G X,
    F w (neg_v3 h) G X = conj (F w h G X).
  Proof.
    intros w Hw h G X. unfold sf_sum. induction G as [|g t IH]; cbn [map fold_right].
    - symmetry. exact conj_0.
    - rewrite conj_add, conj_mul, conj_e, Hw, term_neg, IH. reflexivity.
  Qed.
End Conseq.
