(* Shard 7: left multiplication by every rotation part is injective on the operation list (rows i mod 8 = 7). *)
From GV Require Import Sym.SgCheck Sym.SgShardDefs Sfc.PermDefs.
Lemma shard_ok : forallb row_perm_ok_b (pchunk 7) = true.
Proof. vm_cast_no_check (@eq_refl bool true). Qed.
