(* Adding a centring vector of the group to every operation permutes the operation list: finite check over the
   table regenerated from /repo, lifted to a Permutation. *)
From Coq Require Import Lia Permutation.
From GV Require Import Sym.SgCheck Sym.SgShardDefs Sym.SgProofs Sfc.SfSym Sfc.PermDefs Sfc.SfTable.
Local Open Scope Z_scope.

Definition row_cen_ok_b (ir : Z * sgrow) : bool :=
  match operations (snd ir) with
  | HOk g => let ops := all_ops g in
             forallb (fun c => nodup_b (map (fun x => add_centering x c) ops) &&
                               forallb (fun x => mem_op (add_centering x c) ops) ops) (cen_ops g)
  | _ => false
  end.

Lemma all_rows_cen : forallb row_cen_ok_b indexed_table = true.
Proof. vm_cast_no_check (@eq_refl bool true). Qed.

Lemma table_centring_permutes : forall r g c, In r sg_table -> operations r = HOk g -> In c (cen_ops g) ->
  Permutation (map (fun x => key (add_centering x c)) (all_ops g)) (map key (all_ops g)).
Proof.
  intros r g c Hin Hop Hc.
  destruct (In_indexed r Hin) as [i Hi].
  pose proof (proj1 (forallb_forall _ _) all_rows_cen _ Hi) as P. unfold row_cen_ok_b in P.
  cbn [snd] in P. rewrite Hop in P. rewrite forallb_forall in P. specialize (P c Hc).
  apply andb_true_iff in P. destruct P as [P Q].
  apply nodup_b_NoDup in P. rewrite map_map in P.
  apply NoDup_Permutation_bis.
  - exact P.
  - rewrite !map_length. lia.
  - intros k Hk. apply in_map_iff in Hk. destruct Hk as [x [Hx Hxin]].
    rewrite forallb_forall in Q. specialize (Q x Hxin). unfold mem_op in Q.
    apply existsb_exists in Q. destruct Q as [c' [Hc' E]].
    apply in_map_iff. exists c'. split; [|exact Hc']. rewrite <- Hx. symmetry. apply op_eqb_key. exact E.
Qed.
