(* The symmetry law of the direct sum when the weight of an image depends on the image: occupancy x form factor x
   ANISOTROPIC Debye-Waller factor.  calculate_sf_from_atom_sf evaluates the factor of image g at the index rotated by
   g (dwf_aniso(site, image.mat.left_multiply(hkl))): the weight is an arbitrary function wt of h_g = rot(g)^T h.
   Since rot(R g)^T h = rot(g)^T (hR), the law F(hR) = F(h) exp(-2 pi i h.t) holds for every such weight. *)
From Coq Require Import Lia Permutation.
From GV Require Import Sym.Op Sym.OpProofs Sym.SgCheck Sym.SgShardDefs Sym.SgProofs Sym.AsuDefs Sym.AsuProofs Move.MoveProofs Sfc.SfSym Sfc.PermDefs Sfc.SfTable.
Local Open Scope Z_scope.

Section SfAniso.
  Variable C : Type.
  Variables (c0 : C) (cadd cmul : C -> C -> C).
  Variable d : Z.
  Variable e : Z -> C.
  Hypothesis cadd_comm : forall a b, cadd a b = cadd b a.
  Hypothesis cadd_assoc : forall a b c, cadd a (cadd b c) = cadd (cadd a b) c.
  Hypothesis cmul_comm : forall a b, cmul a b = cmul b a.
  Hypothesis cmul_assoc : forall a b c, cmul a (cmul b c) = cmul (cmul a b) c.
  Hypothesis cmul_add : forall a b c, cmul a (cadd b c) = cadd (cmul a b) (cmul a c).
  Hypothesis cmul_0 : forall a, cmul a c0 = c0.
  Hypothesis e_add : forall a b, e (a + b) = cmul (e a) (e b).
  Hypothesis e_period : forall a k, e (a + 24 * d * k) = e a.

  Variable wt : v3 -> C.      (* weight as a function of the index rotated into the frame of the image *)

  Definition rot_index (g : op) (h : v3) : v3 := mat_vec_raw (transpose (rot g)) h.

  Definition sf_sum_g (h : v3) (G : list op) (X : v3) : C :=
    fold_right cadd c0 (map (fun g => cmul (wt (rot_index g h)) (e (term d h g X))) G).

  Variable R : op.
  Variable M : m33.
  Hypothesis HR : rot R = map_m33 (fun x => 24 * x) M.

  (* rot(R g)^T h = rot(g)^T (hR) *)
  Lemma rot_index_mul : forall g h, rot_index (op_mul R g) h = rot_index g (hR R h).
  Proof.
    intros g h. rewrite (hR_exact R M HR). unfold rot_index, op_mul, wrap, combine'. cbn [rot]. rewrite HR.
    destruct M as [[[[m00 m01] m02] [[m10 m11] m12]] [[m20 m21] m22]].
    destruct (rot g) as [[[[g00 g01] g02] [[g10 g11] g12]] [[g20 g21] g22]].
    destruct h as [[h0 h1] h2].
    cbn -[Z.mul Z.add cdiv]. unfold DEN.
    repeat match goal with
    | |- context [cdiv (24 * ?a * ?x + 24 * ?b * ?y + 24 * ?c * ?z) 24] =>
      replace (cdiv (24 * a * x + 24 * b * y + 24 * c * z) 24) with (a * x + b * y + c * z)
        by (symmetry; apply cdiv_of_mult; ring)
    end.
    repeat match goal with |- (_, _) = (_, _) => f_equal end; ring.
  Qed.

  Variable G : list op.
  Hypothesis Hperm : Permutation (map (fun g => key (op_mul R g)) G) (map key G).

  Theorem sf_symmetry_g : forall h X,
    sf_sum_g (hR R h) G X = cmul (e (- (dot h (tran R) * d))) (sf_sum_g h G X).
  Proof.
    intros h X. unfold sf_sum_g.
    assert (E1 : map (fun g => cmul (wt (rot_index g (hR R h))) (e (term d (hR R h) g X))) G =
                 map (fun x => cmul (e (- (dot h (tran R) * d))) x)
                     (map (fun g => cmul (wt (rot_index (op_mul R g) h)) (e (term d h (op_mul R g) X))) G)).
    { rewrite map_map. apply map_ext. intros g.
      destruct (term_shift C c0 cadd cmul d e cadd_comm cadd_assoc cmul_comm cmul_assoc cmul_add cmul_0 e_add e_period
                  R M HR h g X (fun _ _ => I)) as [k Hk].
      rewrite Hk, e_period, rot_index_mul.
      replace (term d h (op_mul R g) X - dot h (tran R) * d)
        with (- (dot h (tran R) * d) + term d h (op_mul R g) X) by ring.
      rewrite e_add. rewrite !cmul_assoc. rewrite (cmul_comm (wt _)). reflexivity. }
    rewrite E1, (factor_out C c0 cadd cmul cmul_add cmul_0). f_equal.
    set (f := fun kk : m33 * v3 =>
           cmul (wt (mat_vec_raw (transpose (fst kk)) h)) (e (dot h (mat_vec_raw (fst kk) X) + dot h (snd kk) * d))).
    assert (Ef : forall l, map (fun g => cmul (wt (rot_index g h)) (e (term d h g X))) l = map f (map key l)).
    { intros l. rewrite map_map. apply map_ext. intros g. reflexivity. }
    assert (Ef' : map (fun g => cmul (wt (rot_index (op_mul R g) h)) (e (term d h (op_mul R g) X))) G
                  = map f (map (fun g => key (op_mul R g)) G)).
    { rewrite map_map. apply map_ext. intros g. reflexivity. }
    rewrite Ef', Ef. apply (fold_perm C c0 cadd cadd_comm cadd_assoc). apply Permutation_map. exact Hperm.
  Qed.
End SfAniso.

(* for every tabulated group *)
Theorem table_sf_symmetry_aniso :
  forall (C : Type) (c0 : C) (cadd cmul : C -> C -> C) (d : Z) (e : Z -> C),
  (forall a b, cadd a b = cadd b a) -> (forall a b c, cadd a (cadd b c) = cadd (cadd a b) c) ->
  (forall a b, cmul a b = cmul b a) -> (forall a b c, cmul a (cmul b c) = cmul (cmul a b) c) ->
  (forall a b c, cmul a (cadd b c) = cadd (cmul a b) (cmul a c)) -> (forall a, cmul a c0 = c0) ->
  (forall a b, e (a + b) = cmul (e a) (e b)) -> (forall a k, e (a + 24 * d * k) = e a) ->
  forall (wt : v3 -> C) r g R, In r sg_table -> operations r = HOk g -> In R (sym_ops g) ->
  forall h X,
    sf_sum_g C c0 cadd cmul d e wt (apply_to_hkl R h) (all_ops g) X
    = cmul (e (- (dot h (tran R) * d))) (sf_sum_g C c0 cadd cmul d e wt h (all_ops g) X).
Proof.
  intros C c0 cadd cmul d e H1 H2 H3 H4 H5 H6 H7 H8 wt r g R Hin Hop HR h X.
  pose proof (proj1 (forallb_forall _ _) rows_unimodular r Hin) as U.
  unfold row_unimodular_b in U. rewrite Hop in U. rewrite forallb_forall in U. specialize (U R HR).
  unfold unimodular24_b in U. apply andb_true_iff in U. destruct U as [U _]. apply m33_eqb_eq in U.
  apply (sf_symmetry_g C c0 cadd cmul d e H1 H2 H3 H4 H5 H6 H7 H8 wt R (unit_rot (rot R))).
  - symmetry. exact U.
  - exact (table_left_mul_permutes r g R Hin Hop HR).
Qed.
