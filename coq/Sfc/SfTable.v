(* The symmetry law of the direct structure-factor sum holds for every tabulated group:
   instantiation of Sfc.SfSym.sf_symmetry for each row of the regenerated table. *)
From Coq Require Import Lia Permutation.
From GV Require Import Sym.SgCheck Sym.SgShardDefs Sym.SgProofs Sym.AsuDefs Sym.AsuProofs Move.MoveProofs
                       Sfc.SfSym Sfc.PermDefs.
From GV Require Sfc.PermShard00 Sfc.PermShard01 Sfc.PermShard02 Sfc.PermShard03
                Sfc.PermShard04 Sfc.PermShard05 Sfc.PermShard06 Sfc.PermShard07.
Local Open Scope Z_scope.

Lemma all_rows_perm : forallb row_perm_ok_b indexed_table = true.
Proof.
  apply forallb_forall. intros x Hx.
  assert (Hk : 0 <= fst x mod pshards < pshards) by (apply Z.mod_pos_bound; reflexivity).
  unfold pshards in Hk.
  assert (Hin : In x (pchunk (fst x mod 8))).
  { unfold pchunk. apply filter_In. split; [exact Hx|]. apply Z.eqb_refl. }
  assert (C : fst x mod 8 = 0 \/ fst x mod 8 = 1 \/ fst x mod 8 = 2 \/ fst x mod 8 = 3 \/
              fst x mod 8 = 4 \/ fst x mod 8 = 5 \/ fst x mod 8 = 6 \/ fst x mod 8 = 7) by lia.
  destruct C as [C|[C|[C|[C|[C|[C|[C|C]]]]]]]; rewrite C in Hin.
  - exact (proj1 (forallb_forall _ _) PermShard00.shard_ok x Hin).
  - exact (proj1 (forallb_forall _ _) PermShard01.shard_ok x Hin).
  - exact (proj1 (forallb_forall _ _) PermShard02.shard_ok x Hin).
  - exact (proj1 (forallb_forall _ _) PermShard03.shard_ok x Hin).
  - exact (proj1 (forallb_forall _ _) PermShard04.shard_ok x Hin).
  - exact (proj1 (forallb_forall _ _) PermShard05.shard_ok x Hin).
  - exact (proj1 (forallb_forall _ _) PermShard06.shard_ok x Hin).
  - exact (proj1 (forallb_forall _ _) PermShard07.shard_ok x Hin).
Qed.

Lemma op_eqb_key : forall a b, op_eqb a b = true <-> key a = key b.
Proof.
  intros a b. unfold op_eqb, key. split.
  - intros H. apply andb_true_iff in H. destruct H as [H1 H2].
    apply m33_eqb_eq in H1. apply AsuSpec.v3_eqb_true in H2. rewrite H1, H2. reflexivity.
  - intros H. inversion H as [[H1 H2]]. rewrite H1, H2.
    destruct (rot b) as [[[[? ?] ?] [[? ?] ?]] [[? ?] ?]]. destruct (tran b) as [[? ?] ?].
    unfold m33_eqb, v3_eqb. rewrite !Z.eqb_refl. reflexivity.
Qed.

Lemma nodup_b_NoDup : forall l, nodup_b l = true -> NoDup (map key l).
Proof.
  induction l as [|x l IH]; intros H; cbn; [constructor|].
  cbn in H. apply andb_true_iff in H. destruct H as [H1 H2]. constructor; [|apply IH; exact H2].
  intros Hin. apply in_map_iff in Hin. destruct Hin as [y [Hy Hin]].
  apply negb_true_iff in H1. unfold mem_op in H1.
  assert (existsb (op_eqb x) l = true).
  { apply existsb_exists. exists y. split; [exact Hin|]. apply op_eqb_key. symmetry. exact Hy. }
  congruence.
Qed.

(* left multiplication by a rotation part permutes the operation list of a tabulated group *)
Lemma table_left_mul_permutes : forall r g R, In r sg_table -> operations r = HOk g -> In R (sym_ops g) ->
  Permutation (map (fun x => key (op_mul R x)) (all_ops g)) (map key (all_ops g)).
Proof.
  intros r g R Hin Hop HR.
  destruct (In_indexed r Hin) as [i Hi].
  pose proof (proj1 (forallb_forall _ _) all_rows_perm _ Hi) as P. unfold row_perm_ok_b in P.
  cbn [snd] in P. rewrite Hop in P. rewrite forallb_forall in P. specialize (P R HR).
  apply andb_true_iff in P. destruct P as [P Q].
  apply nodup_b_NoDup in P. rewrite map_map in P.
  apply NoDup_Permutation_bis.
  - exact P.
  - rewrite !map_length. lia.
  - intros k Hk. apply in_map_iff in Hk. destruct Hk as [x [Hx Hxin]].
    rewrite forallb_forall in Q. specialize (Q x Hxin). unfold mem_op in Q.
    apply existsb_exists in Q. destruct Q as [c [Hc E]].
    apply in_map_iff. exists c. split; [|exact Hc]. rewrite <- Hx. symmetry. apply op_eqb_key. exact E.
Qed.

(* F(hR) = F(h) exp(-2 pi i h.t) for the direct sum over all images, for every tabulated group,
   every rotation part R, every reflection, every rational position X/d and every abstract
   character e of period 24 d *)
Theorem table_sf_symmetry :
  forall (C : Type) (c0 : C) (cadd cmul : C -> C -> C) (d : Z) (e : Z -> C),
  (forall a b, cadd a b = cadd b a) -> (forall a b c, cadd a (cadd b c) = cadd (cadd a b) c) ->
  (forall a b, cmul a b = cmul b a) -> (forall a b c, cmul a (cmul b c) = cmul (cmul a b) c) ->
  (forall a b c, cmul a (cadd b c) = cadd (cmul a b) (cmul a c)) -> (forall a, cmul a c0 = c0) ->
  (forall a b, e (a + b) = cmul (e a) (e b)) -> (forall a k, e (a + 24 * d * k) = e a) ->
  forall r g R, In r sg_table -> operations r = HOk g -> In R (sym_ops g) ->
  forall w h X,
    sf_sum C c0 cadd cmul d e w (apply_to_hkl R h) (all_ops g) X
    = cmul (e (- (dot h (tran R) * d))) (sf_sum C c0 cadd cmul d e w h (all_ops g) X).
Proof.
  intros C c0 cadd cmul d e H1 H2 H3 H4 H5 H6 H7 H8 r g R Hin Hop HR w h X.
  pose proof (proj1 (forallb_forall _ _) rows_unimodular r Hin) as U.
  unfold row_unimodular_b in U. rewrite Hop in U. rewrite forallb_forall in U. specialize (U R HR).
  unfold unimodular24_b in U. apply andb_true_iff in U. destruct U as [U _]. apply m33_eqb_eq in U.
  apply (sf_symmetry C c0 cadd cmul d e H1 H2 H3 H4 H5 H6 H7 H8 R (unit_rot (rot R))).
  - symmetry. exact U.
  - exact (table_left_mul_permutes r g R Hin Hop HR).
Qed.
