From GV Require Export Sym.SgCheck Sym.SgShardDefs.
Local Open Scope Z_scope.

(* for every rotation part R of the row, g |-> R*g maps the full operation list into itself and has no
   two equal images *)
Definition row_perm_ok_b (ir : Z * sgrow) : bool :=
  match operations (snd ir) with
  | HOk g => let ops := all_ops g in
             forallb (fun R => nodup_b (map (fun x => op_mul R x) ops) &&
                               forallb (fun x => mem_op (op_mul R x) ops) ops) (sym_ops g)
  | _ => false
  end.
Definition pshards : Z := 8.
Definition pchunk (k : Z) : list (Z * sgrow) :=
  filter (fun ir => fst ir mod pshards =? k) indexed_table.
