(* Property C15, algebraic part: the direct structure-factor sum over all symmetry images obeys
   F(hR) = F(h) exp(-2 pi i h.t).  The sum is modelled as in calculate_sf_from_atom_sf (identity plus
   images): one term per operation of the group.  Positions are rational: X/d with X integral, so the
   phase of a term is an integer number of 1/(24 d) turns; exp(2 pi i n/(24 d)) is an abstract character e. *)
From Coq Require Import Lia ZifyBool Permutation.
From GV Require Import Sym.Op Sym.OpProofs.
Local Open Scope Z_scope.

Section SfSym.
  Variable C : Type.
  Variables (c0 : C) (cadd cmul : C -> C -> C).
  Variable d : Z.                    (* common denominator of the fractional coordinates *)
  Variable e : Z -> C.               (* e n = exp(2 pi i n / (24 d)) *)
  Hypothesis cadd_comm : forall a b, cadd a b = cadd b a.
  Hypothesis cadd_assoc : forall a b c, cadd a (cadd b c) = cadd (cadd a b) c.
  Hypothesis cmul_comm : forall a b, cmul a b = cmul b a.
  Hypothesis cmul_assoc : forall a b c, cmul a (cmul b c) = cmul (cmul a b) c.
  Hypothesis cmul_add : forall a b c, cmul a (cadd b c) = cadd (cmul a b) (cmul a c).
  Hypothesis cmul_0 : forall a, cmul a c0 = c0.
  Hypothesis e_add : forall a b, e (a + b) = cmul (e a) (e b).
  Hypothesis e_period : forall a k, e (a + 24 * d * k) = e a.

  (* phase (in 1/(24 d) turns) of the term of operation g for reflection h and atom at X/d *)
  Definition term (h : v3) (g : op) (X : v3) : Z :=
    dot h (mat_vec_raw (rot g) X) + dot h (tran g) * d.

  (* occ * f * DWF is the same real weight w for all images of an isotropic atom *)
  Definition sf_sum (w : C) (h : v3) (G : list op) (X : v3) : C :=
    fold_right cadd c0 (map (fun g => cmul w (e (term h g X))) G).

  Lemma fold_perm : forall (l l' : list C), Permutation l l' ->
    fold_right cadd c0 l = fold_right cadd c0 l'.
  Proof.
    intros l l' P. induction P as [| x l l' P IH | x y l | l l' l'' P1 IH1 P2 IH2]; cbn.
    - reflexivity.
    - rewrite IH. reflexivity.
    - rewrite !cadd_assoc, (cadd_comm y x). reflexivity.
    - rewrite IH1, IH2. reflexivity.
  Qed.

  Lemma factor_out : forall c (l : list C),
    fold_right cadd c0 (map (fun x => cmul c x) l) = cmul c (fold_right cadd c0 l).
  Proof.
    intros c l. induction l as [|x l IH]; cbn; [rewrite cmul_0; reflexivity|].
    rewrite IH, cmul_add. reflexivity.
  Qed.

  (* R has an integral rotation part: rot R = 24 * M *)
  Variable R : op.
  Variable M : m33.
  Hypothesis HR : rot R = map_m33 (fun x => 24 * x) M.

  Definition hR (h : v3) : v3 := apply_to_hkl R h.

  Lemma hR_exact : forall h, hR h = mat_vec_raw (transpose M) h.
  Proof.
    intros [[h k] l]. unfold hR, apply_to_hkl, apply_to_hkl_nodiv, divide_hkl. rewrite HR.
    destruct M as [[[[a b] c] [[a' b'] c']] [[a'' b''] c'']].
    cbn -[Z.mul Z.add cdiv]. unfold map_v3, DEN.
    repeat match goal with |- (_, _) = (_, _) => f_equal end; apply cdiv_of_mult; ring.
  Qed.

  (* the phase of the term of g at hR equals the phase of the term of R*g at h, minus h.t_R,
     up to whole turns coming from the reduction of the translation modulo the lattice *)
  Lemma term_shift : forall h g X, (forall x, In x [fst (fst (tran g)); snd (fst (tran g)); snd (tran g)] -> True) ->
    exists k, term (hR h) g X = term h (op_mul R g) X - dot h (tran R) * d + 24 * d * k.
  Proof.
    intros h g X _. rewrite hR_exact.
    unfold op_mul, wrap, wrapped_tran, combine', term. cbn [rot tran nota]. rewrite HR.
    destruct M as [[[[m00 m01] m02] [[m10 m11] m12]] [[m20 m21] m22]].
    destruct g as [gr gt ng]. destruct gr as [[[[g00 g01] g02] [[g10 g11] g12]] [[g20 g21] g22]].
    destruct gt as [[u0 u1] u2].
    destruct (tran R) as [[t0 t1] t2]. destruct h as [[h0 h1] h2]. destruct X as [[x0 x1] x2].
    cbn -[Z.mul Z.add cdiv wrap1]. unfold DEN.
    (* exact divisions of the combined rotation and translation *)
    repeat match goal with
    | |- context [cdiv (24 * ?a * ?x + 24 * ?b * ?y + 24 * ?c * ?z) 24] =>
      replace (cdiv (24 * a * x + 24 * b * y + 24 * c * z) 24) with (a * x + b * y + c * z)
        by (symmetry; apply cdiv_of_mult; ring)
    | |- context [cdiv (?t * 24 + (24 * ?a * ?x + 24 * ?b * ?y + 24 * ?c * ?z)) 24] =>
      replace (cdiv (t * 24 + (24 * a * x + 24 * b * y + 24 * c * z)) 24) with (t + (a * x + b * y + c * z))
        by (symmetry; apply cdiv_of_mult; ring)
    end.
    rewrite !wrap1_mod.
    set (T0 := t0 + (m00 * u0 + m01 * u1 + m02 * u2)).
    set (T1 := t1 + (m10 * u0 + m11 * u1 + m12 * u2)).
    set (T2 := t2 + (m20 * u0 + m21 * u1 + m22 * u2)).
    exists (h0 * (T0 / 24) + h1 * (T1 / 24) + h2 * (T2 / 24)).
    pose proof (Z.div_mod T0 24 ltac:(lia)). pose proof (Z.div_mod T1 24 ltac:(lia)).
    pose proof (Z.div_mod T2 24 ltac:(lia)).
    set (q0 := T0 / 24) in *. set (q1 := T1 / 24) in *. set (q2 := T2 / 24) in *.
    set (r0 := T0 mod 24) in *. set (r1 := T1 mod 24) in *. set (r2 := T2 mod 24) in *.
    unfold T0, T1, T2 in *. clearbody q0 q1 q2 r0 r1 r2. nia.
  Qed.

  (* G is stable under left multiplication by R, as a multiset of (rotation, translation) *)
  Variable G : list op.
  Definition key (g : op) : m33 * v3 := (rot g, tran g).
  Hypothesis Hperm : Permutation (map (fun g => key (op_mul R g)) G) (map key G).

  Lemma term_key : forall h g g' X, key g = key g' -> term h g X = term h g' X.
  Proof. intros h g g' X E. unfold key in E. inversion E as [[E1 E2]]. unfold term. rewrite E1, E2. reflexivity. Qed.

  Theorem sf_symmetry : forall w h X,
    sf_sum w (hR h) G X = cmul (e (- (dot h (tran R) * d))) (sf_sum w h G X).
  Proof.
    intros w h X. unfold sf_sum.
    (* rewrite every term through term_shift *)
    assert (E1 : map (fun g => cmul w (e (term (hR h) g X))) G =
                 map (fun x => cmul (e (- (dot h (tran R) * d))) x)
                     (map (fun g => cmul w (e (term h (op_mul R g) X))) G)).
    { rewrite map_map. apply map_ext. intros g.
      destruct (term_shift h g X (fun _ _ => I)) as [k Hk]. rewrite Hk.
      rewrite e_period.
      replace (term h (op_mul R g) X - dot h (tran R) * d)
        with (- (dot h (tran R) * d) + term h (op_mul R g) X) by ring.
      rewrite e_add. rewrite !cmul_assoc. rewrite (cmul_comm w). reflexivity. }
    rewrite E1, factor_out. f_equal.
    (* permutation of the group *)
    set (f := fun kk : m33 * v3 => cmul w (e (dot h (mat_vec_raw (fst kk) X) + dot h (snd kk) * d))).
    assert (Ef : forall l, map (fun g => cmul w (e (term h g X))) l = map f (map key l)).
    { intros l. rewrite map_map. apply map_ext. intros g. reflexivity. }
    assert (Ef' : map (fun g => cmul w (e (term h (op_mul R g) X))) G
                  = map f (map (fun g => key (op_mul R g)) G)).
    { rewrite map_map. apply map_ext. intros g. reflexivity. }
    rewrite Ef', Ef. apply fold_perm. apply Permutation_map. exact Hperm.
  Qed.
End SfSym.

(* anisotropic displacement: transporting the tensor to the image equals using the rotated index,
   (hR)^T U (hR) = h^T (R U R^T) h : the identity behind dwf_aniso(site, image.mat.left_multiply(hkl)) *)
Definition quad (u : m33) (v : v3) : Z := dot v (mat_vec_raw u v).
Theorem aniso_image_identity : forall (u r : m33) (h : v3),
  quad u (mat_vec_raw (transpose r) h) = quad (mat_mul_raw (mat_mul_raw r u) (transpose r)) h.
Proof.
  intros u r h. destruct u as [[[[u00 u01] u02] [[u10 u11] u12]] [[u20 u21] u22]].
  destruct r as [[[[r00 r01] r02] [[r10 r11] r12]] [[r20 r21] r22]].
  destruct h as [[h0 h1] h2]. unfold quad. cbn -[Z.mul Z.add]. ring.
Qed.
