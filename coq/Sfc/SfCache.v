(* Model of the per-element form-factor cache of StructureFactorCalculator (include/gemmi/sfcalc.hpp):

     set_stol2_and_scattering_factors(hkl):  cache := all zero
     get_scattering_factor(element, charge):
        double& sfactor = cache[element];
        if (sfactor == 0. || charge != 0) {
          double sf = Table::get(element, charge).calculate_sf(stol2) + addends.get(element);
          if (charge != 0) return sf;          // the cache is per element: ions bypass it
          sfactor = sf;
        }
        return sfactor;

   The value type V is abstract (with a test for zero, the "empty" mark of the cache); val el ch stands for
   Table::get(el, ch).calculate_sf(stol2) + addends.get(el) at the current reflection. *)
From Coq Require Export ZArith List Bool.
Export ListNotations.
Local Open Scope Z_scope.

Section Cache.
Variable V : Type.
Variable vzero : V.
Variable is_zero : V -> bool.
Variable val : Z -> Z -> V.      (* element ordinal, charge *)

Definition cache := Z -> V.       (* total map, initially zero everywhere *)
Definition empty : cache := fun _ => vzero.
Definition upd (c : cache) (el : Z) (v : V) : cache := fun e => if e =? el then v else c e.

Definition get_sf (c : cache) (call : Z * Z) : cache * V :=
  let '(el, ch) := call in
  if is_zero (c el) || negb (ch =? 0) then
    let sf := val el ch in
    if negb (ch =? 0) then (c, sf) else (upd c el sf, sf)
  else (c, c el).

(* all the calls made for one reflection, in order *)
Fixpoint run (c : cache) (calls : list (Z * Z)) : cache * list V :=
  match calls with
  | [] => (c, [])
  | x :: t => let '(c1, v) := get_sf c x in let '(c2, vs) := run c1 t in (c2, v :: vs)
  end.

(* every slot is empty or holds the value of the NEUTRAL atom of its element *)
Definition cache_ok (c : cache) : Prop := forall el, is_zero (c el) = true \/ c el = val el 0.

Lemma empty_ok : is_zero vzero = true -> cache_ok empty.
Proof. intros H el. left. exact H. Qed.

Lemma get_sf_correct : forall c el ch, cache_ok c ->
  snd (get_sf c (el, ch)) = val el ch /\ cache_ok (fst (get_sf c (el, ch))).
Proof.
  intros c el ch OK. unfold get_sf.
  destruct (Z.eqb_spec ch 0) as [->|N]; simpl.
  - rewrite orb_false_r. destruct (is_zero (c el)) eqn:E; simpl.
    + split; [reflexivity|]. intros e. unfold upd. destruct (Z.eqb_spec e el) as [->|]; [right; reflexivity|apply OK].
    + split; [|exact OK]. destruct (OK el) as [H|H]; [congruence|exact H].
  - rewrite orb_true_r. simpl. split; [reflexivity|exact OK].
Qed.

Theorem run_correct : forall calls c, cache_ok c ->
  snd (run c calls) = map (fun x => val (fst x) (snd x)) calls /\ cache_ok (fst (run c calls)).
Proof.
  induction calls as [|[el ch] t IH]; intros c OK; [split; [reflexivity|exact OK]|].
  cbn [run]. destruct (get_sf_correct c el ch OK) as [H1 H2].
  destruct (get_sf c (el, ch)) as [c1 v] eqn:E. simpl in H1, H2.
  destruct (IH c1 H2) as [H3 H4]. destruct (run c1 t) as [c2 vs]. simpl in *. subst v. rewrite H3.
  split; [reflexivity|exact H4].
Qed.

(* the snapshot's logic (before the repair c0c8ba7): the cached value was returned for ions too *)
Definition get_sf_snapshot (c : cache) (call : Z * Z) : cache * V :=
  let '(el, ch) := call in
  if is_zero (c el) then let sf := val el ch in (upd c el sf, sf) else (c, c el).
End Cache.

(* a symbolic instance: values are (element, charge) tags, 0 marks the empty slot *)
Definition tag (el ch : Z) : Z := 1 + (el * 32 + (ch + 16)).
Definition tag_is_zero (v : Z) : bool := v =? 0.

Lemma snapshot_refuted :
  snd (get_sf_snapshot Z tag_is_zero tag (fst (get_sf_snapshot Z tag_is_zero tag (empty Z 0) (26, 0))) (26, 3))
  <> tag 26 3.
Proof. vm_compute. discriminate. Qed.

(* ---- several reflections on one calculator object ----
   The value function depends on the reflection and on the addends in force (a "world" w); every calculate_* entry point
   starts with set_stol2_and_scattering_factors, which installs the new world and empties the cache. *)
Section Worlds.
Variable V W : Type.
Variable vzero : V.
Variable is_zero : V -> bool.
Variable wval : W -> Z -> Z -> V.

Inductive cop := Reset (w : W) | Get (el ch : Z).

Definition cstep (st : W * cache V) (o : cop) : (W * cache V) * option V :=
  match o with
  | Reset w => ((w, empty V vzero), None)
  | Get el ch => let '(c', v) := get_sf V is_zero (wval (fst st)) (snd st) (el, ch) in ((fst st, c'), Some v)
  end.

Fixpoint crun (st : W * cache V) (ops : list cop) : list (option V) :=
  match ops with
  | [] => []
  | o :: t => let '(st', r) := cstep st o in r :: crun st' t
  end.

(* what every call should return: the value in the world installed by the latest Reset *)
Fixpoint cspec (w : W) (ops : list cop) : list (option V) :=
  match ops with
  | [] => []
  | Reset w' :: t => None :: cspec w' t
  | Get el ch :: t => Some (wval w el ch) :: cspec w t
  end.

Theorem crun_correct : is_zero vzero = true -> forall ops w c,
  cache_ok V is_zero (wval w) c -> crun (w, c) ops = cspec w ops.
Proof.
  intros Hz. induction ops as [|o t IH]; intros w c OK; [reflexivity|].
  destruct o as [w'|el ch]; cbn [crun cstep cspec].
  - f_equal. apply IH. apply empty_ok. exact Hz.
  - destruct (get_sf_correct V is_zero (wval w) c el ch OK) as [H1 H2].
    cbn [fst snd]. destruct (get_sf V is_zero (wval w) c (el, ch)) as [c' v] eqn:E. cbn [fst snd] in *. subst v.
    f_equal. apply IH. exact H2.
Qed.
End Worlds.
