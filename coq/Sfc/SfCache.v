(* Model of the per-element form-factor cache of StructureFactorCalculator (include/gemmi/sfcalc.hpp):

     set_stol2_and_scattering_factors(hkl):  cache := all zero
     get_scattering_factor(element, charge):
        double& sfactor = cache[element];
        if (sfactor == 0. || charge != 0) {
          double sf = Table::get(element, charge).calculate_sf(stol2) + addends.get(element);
          if (charge != 0) return sf;          // the cache is per element: ions bypass it
          sfactor = sf;
        }
        return sfactor;

   The value type V is abstract (with a test for zero, the "empty" mark of the cache); val el ch stands for
   Table::get(el, ch).calculate_sf(stol2) + addends.get(el) at the current reflection. *)
From Coq Require Export ZArith List Bool.
Export ListNotations.
Local Open Scope Z_scope.

Section Cache.
Variable V : Type.
Variable vzero : V.
Variable is_zero : V -> bool.
Variable val : Z -> Z -> V.      (* element ordinal, charge *)

Definition cache := Z -> V.       (* total map, initially zero everywhere *)
Definition empty : cache := fun _ => vzero.
Definition upd (c : cache) (el : Z) (v : V) : cache := fun e => if e =? el then v else c e.

Definition get_sf (c : cache) (call : Z * Z) : cache * V :=
  let '(el, ch) := call in
  if is_zero (c el) || negb (ch =? 0) then
    let sf := val el ch in
    if negb (ch =? 0) then (c, sf) else (upd c el sf, sf)
  else (c, c el).

(* all the calls made for one reflection, in order *)
Fixpoint run (c : cache) (calls : list (Z * Z)) : cache * list V :=
  match calls with
  | [] => (c, [])
  | x :: t => let '(c1, v) := get_sf c x in let '(c2, vs) := run c1 t in (c2, v :: vs)
  end.

(* every slot is empty or holds the value of the NEUTRAL atom of its element *)
Definition cache_ok (c : cache) : Prop := forall el, is_zero (c el) = true \/ c el = val el 0.

Lemma empty_ok : is_zero vzero = true -> cache_ok empty.
Proof. intros H el. left. exact H. Qed.

Lemma get_sf_correct : forall c el ch, cache_ok c ->
  snd (get_sf c (el, ch)) = val el ch /\ cache_ok (fst (get_sf c (el, ch))).
Proof.
  intros c el ch OK. unfold get_sf.
  destruct (Z.eqb_spec ch 0) as [->|N]; simpl.
  - rewrite orb_false_r. destruct (is_zero (c el)) eqn:E; simpl.
    + split; [reflexivity|]. intros e. unfold upd. destruct (Z.eqb_spec e el) as [->|]; [right; reflexivity|apply OK].
    + split; [|exact OK]. destruct (OK el) as [H|H]; [congruence|exact H].
  - rewrite orb_true_r. simpl. split; [reflexivity|exact OK].
Qed.

Theorem run_correct : forall calls c, cache_ok c ->
  snd (run c calls) = map (fun x => val (fst x) (snd x)) calls /\ cache_ok (fst (run c calls)).
Proof.
  induction calls as [|[el ch] t IH]; intros c OK; [split; [reflexivity|exact OK]|].
  cbn [run]. destruct (get_sf_correct c el ch OK) as [H1 H2].
  destruct (get_sf c (el, ch)) as [c1 v] eqn:E. simpl in H1, H2.
  destruct (IH c1 H2) as [H3 H4]. destruct (run c1 t) as [c2 vs]. simpl in *. subst v. rewrite H3.
  split; [reflexivity|exact H4].
Qed.

(* the snapshot's logic (before the repair c0c8ba7): the cached value was returned for ions too *)
Definition get_sf_snapshot (c : cache) (call : Z * Z) : cache * V :=
  let '(el, ch) := call in
  if is_zero (c el) then let sf := val el ch in (upd c el sf, sf) else (c, c el).
End Cache.

(* a symbolic instance: values are (element, charge) tags, 0 marks the empty slot *)
Definition tag (el ch : Z) : Z := 1 + (el * 32 + (ch + 16)).
Definition tag_is_zero (v : Z) : bool := v =? 0.

Lemma snapshot_refuted :
  snd (get_sf_snapshot Z tag_is_zero tag (fst (get_sf_snapshot Z tag_is_zero tag (empty Z 0) (26, 0))) (26, 3))
  <> tag 26 3.
Proof. vm_compute. discriminate. Qed.
