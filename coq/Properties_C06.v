(* Property C06: PDB files written by gemmi read back to the same model; padding is irrelevant.
   Statements only. Model: Pdb/Hy36.v (fixed-column integer codecs as coded), Pdb/Records.v (the 122-byte line
   buffer as state, copy_line, the blanking of the buffer tail, record handlers reading at fixed columns).
   Proofs: Pdb/Hy36Proofs.v, Pdb/RecordsProofs.v. *)
From GV Require Import Base.Str Pdb.Hy36 Pdb.Records Pdb.Hy36Proofs Pdb.RecordsProofs.
Local Open Scope Z_scope.

(* atom serial numbers: the whole hybrid-36 range survives its 5-column field, whatever follows the field *)
Theorem C06_hy36_serial_roundtrip : forall n rest, 0 <= n <= 43770015 ->
  read_serial (field5 (encode_serial n) ++ rest) = n.
Proof. exact serial_roundtrip. Qed.
Print Assumptions C06_hy36_serial_roundtrip.

(* residue numbers with insertion code: -999 .. 9999 in decimal, 10000 .. 1223055 in base 36 *)
Theorem C06_hy36_seqid_roundtrip : forall n icode rest, -999 <= n <= 1223055 -> icode <> 13 -> icode <> 10 ->
  read_seq_id (field5 (write_seq_id n icode) ++ rest) = (Some n, icode).
Proof. exact seqid_roundtrip. Qed.
Print Assumptions C06_hy36_seqid_roundtrip.

Theorem C06_charge_roundtrip : forall q, -9 <= q <= 9 ->
  let '(d, s) := write_charge q in read_charge d s = Some q.
Proof. exact charge_roundtrip. Qed.
Print Assumptions C06_charge_roundtrip.

Theorem C06_altloc_roundtrip : forall a, a <> 32 -> read_altloc (write_altloc a) = a.
Proof. exact altloc_roundtrip. Qed.
Print Assumptions C06_altloc_roundtrip.

(* the state a record handler works on (buffer, length, rest of the stream) is a function of the stream alone:
   no byte of an earlier line is visible, for every record kind, every line and every max_line_length *)
Theorem C06_no_stale_bytes : forall buf1 buf2 size data, wf buf1 -> wf buf2 -> (size <= 121)%nat ->
  next_line buf1 size data = next_line buf2 size data.
Proof. exact next_line_no_stale. Qed.
Print Assumptions C06_no_stale_bytes.

(* ... and the invariant (122 bytes, last one NUL, 0 < len <= 120) is kept, so this holds at every line *)
Theorem C06_line_buffer_invariant : forall b size d b' len r, wf b -> (size <= 121)%nat ->
  next_line b size d = Some (b', len, r) -> wf b' /\ (0 < len <= 120)%nat.
Proof. exact next_line_wf. Qed.
Print Assumptions C06_line_buffer_invariant.

Theorem C06_records_independent_of_initial_buffer : forall fuel s b1 b2 size d, wf b1 -> wf b2 -> (size <= 121)%nat ->
  run fuel s b1 size d = run fuel s b2 size d.
Proof. exact run_no_stale. Qed.
Print Assumptions C06_records_independent_of_initial_buffer.

(* copy_line by itself (the snapshot's loop) does NOT have this property: an unpadded 2-residue SEQRES line
   read into the buffer left by a 13-residue line yields 12 residues *)
Theorem C06_copy_line_alone_stale_refuted : exists b1 b2 d, wf b1 /\ wf b2 /\
  run_raw 1 empty_pst b1 121 d <> run_raw 1 empty_pst b2 121 d.
Proof. exact copy_line_alone_stale. Qed.
Print Assumptions C06_copy_line_alone_stale_refuted.

(* Padding / CR-LF, buffer level (partial): a line without its trailing blanks, with k trailing blanks, or with CR before
   the LF fills the record buffer with the same bytes up to blank <-> terminator (LF, CR, NUL) substitutions - `norm` maps
   the three terminators to a blank - whatever the buffer held before, and leaves the same rest of the stream.
   MISSING for the full C06_padding_irrelevant: that every field reader (read_string, read_int, read_seq_id, single
   columns) treats a terminator at those positions like a blank; this link is checked by correspondence (recs) and by the
   o_pad / o_rt / o_file oracles on gemmi, not proved. *)
Theorem C06_padding_same_buffer_partial : forall c k cr rest size buf1 buf2 b1 l1 r1 b2 l2 r2,
  wf buf1 -> wf buf2 -> (size <= 121)%nat -> plain c -> (cr = [] \/ cr = [13]) ->
  (S (length c + k + length cr) < size)%nat ->
  next_line buf1 size (c ++ 10 :: rest) = Some (b1, l1, r1) ->
  next_line buf2 size ((c ++ repeat 32 k ++ cr) ++ 10 :: rest) = Some (b2, l2, r2) ->
  norm b1 = norm b2 /\ r1 = r2.
Proof. exact padding_same_buffer. Qed.
Print Assumptions C06_padding_same_buffer_partial.
