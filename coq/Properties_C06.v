(* Property C06: PDB files written by gemmi read back to the same model; padding is irrelevant.
   Statements only. Model: Pdb/Hy36.v (fixed-column integer codecs as coded), Pdb/Records.v (the 122-byte line
   buffer as state, copy_line, the blanking of the buffer tail, record handlers reading at fixed columns).
   Proofs: Pdb/Hy36Proofs.v, Pdb/RecordsProofs.v. *)
From GV Require Import Base.Str Pdb.Hy36 Pdb.Records Pdb.Hy36Proofs Pdb.RecordsProofs.
From GV Require Import Pdb.AtomLine Pdb.AtomLineProofs Pdb.AtomFmt_gen Pdb.AtomFmt Pdb.Cryst1 Pdb.HelixLine Pdb.SheetLine.
Local Open Scope Z_scope.

(* atom serial numbers: the whole hybrid-36 range survives its 5-column field, whatever follows the field *)
Theorem C06_hy36_serial_roundtrip : forall n rest, 0 <= n <= 43770015 ->
  read_serial (field5 (encode_serial n) ++ rest) = n.
Proof. exact serial_roundtrip. Qed.
Print Assumptions C06_hy36_serial_roundtrip.

(* residue numbers with insertion code: -999 .. 9999 in decimal, 10000 .. 1223055 in base 36 *)
Theorem C06_hy36_seqid_roundtrip : forall n icode rest, -999 <= n <= 1223055 -> icode <> 13 -> icode <> 10 ->
  read_seq_id (field5 (write_seq_id n icode) ++ rest) = (Some n, icode).
Proof. exact seqid_roundtrip. Qed.
Print Assumptions C06_hy36_seqid_roundtrip.

Theorem C06_charge_roundtrip : forall q, -9 <= q <= 9 ->
  let '(d, s) := write_charge q in read_charge d s = Some q.
Proof. exact charge_roundtrip. Qed.
Print Assumptions C06_charge_roundtrip.

Theorem C06_altloc_roundtrip : forall a, a <> 32 -> ~ (97 <= a <= 122) -> read_altloc (write_altloc a) = a.
Proof. exact altloc_roundtrip. Qed.
Print Assumptions C06_altloc_roundtrip.

(* the state a record handler works on (buffer, length, rest of the stream) is a function of the stream alone:
   no byte of an earlier line is visible, for every record kind, every line and every max_line_length *)
Theorem C06_no_stale_bytes : forall buf1 buf2 size data, wf buf1 -> wf buf2 -> (size <= 121)%nat ->
  next_line buf1 size data = next_line buf2 size data.
Proof. exact next_line_no_stale. Qed.
Print Assumptions C06_no_stale_bytes.

(* ... and the invariant (122 bytes, last one NUL, 0 < len <= 120) is kept, so this holds at every line *)
Theorem C06_line_buffer_invariant : forall b size d b' len r, wf b -> (size <= 121)%nat ->
  next_line b size d = Some (b', len, r) -> wf b' /\ (0 < len <= 120)%nat.
Proof. exact next_line_wf. Qed.
Print Assumptions C06_line_buffer_invariant.

Theorem C06_records_independent_of_initial_buffer : forall fuel s b1 b2 size d, wf b1 -> wf b2 -> (size <= 121)%nat ->
  run fuel s b1 size d = run fuel s b2 size d.
Proof. exact run_no_stale. Qed.
Print Assumptions C06_records_independent_of_initial_buffer.

(* copy_line by itself (the snapshot's loop) does NOT have this property: an unpadded 2-residue SEQRES line
   read into the buffer left by a 13-residue line yields 12 residues *)
Theorem C06_copy_line_alone_stale_refuted : exists b1 b2 d, wf b1 /\ wf b2 /\
  run_raw 1 empty_pst b1 121 d <> run_raw 1 empty_pst b2 121 d.
Proof. exact copy_line_alone_stale. Qed.
Print Assumptions C06_copy_line_alone_stale_refuted.

(* Padding / CR-LF, buffer level (partial): a line without its trailing blanks, with k trailing blanks, or with CR before
   the LF fills the record buffer with the same bytes up to blank <-> terminator (LF, CR, NUL) substitutions - `norm` maps
   the three terminators to a blank - whatever the buffer held before, and leaves the same rest of the stream.
   MISSING for the full C06_padding_irrelevant: that every field reader (read_string, read_int, read_seq_id, single
   columns) treats a terminator at those positions like a blank; this link is checked by correspondence (recs) and by the
   o_pad / o_rt / o_file oracles on gemmi, not proved. *)
Theorem C06_padding_same_buffer_partial : forall c k cr rest size buf1 buf2 b1 l1 r1 b2 l2 r2,
  wf buf1 -> wf buf2 -> (size <= 121)%nat -> plain c -> (cr = [] \/ cr = [13]) ->
  (S (length c + k + length cr) < size)%nat ->
  next_line buf1 size (c ++ 10 :: rest) = Some (b1, l1, r1) ->
  next_line buf2 size ((c ++ repeat 32 k ++ cr) ++ 10 :: rest) = Some (b2, l2, r2) ->
  norm b1 = norm b2 /\ r1 = r2.
Proof. exact padding_same_buffer. Qed.
Print Assumptions C06_padding_same_buffer_partial.

(* ------------------------------------------------------------------------------------------------------------
   The ATOM / HETATM record (model of the 80 columns written by write_chain_atoms and of the fields
   read_pdb_from_stream takes from them: Pdb/AtomLine.v, compared with gemmi on every run, command "atomline").
   For EVERY atom whose fields fit their columns (fits: serial and residue number in the hybrid-36 ranges, names
   without leading / trailing blanks and no longer than their columns, element symbol of one or two capitals, charge
   -9..9) and whatever follows the line in the buffer: record name, serial, atom name (with the alignment rule of
   padded_name), altloc, residue name, chain, residue number, insertion code, segment, element columns and charge
   are read back exactly, and the three numeric fields come back byte for byte. *)
Theorem C06_atom_record_roundtrip : forall t xyz occ b rest, fits t xyz occ b ->
  read_atom (atom_line t xyz occ b ++ rest) 81 =
  mkRd (t_het t) (t_serial t) (t_name t) (t_altloc t) (t_resname t) (t_chain t) (Some (t_seqnum t), t_icode t)
       (t_segment t)
       (Some (match t_el t with [e] => (32, e) | [e1; e2] => (e1, e2) | _ => (0, 0) end))
       (Some (t_charge t)) xyz occ b.
Proof. exact atom_line_roundtrip. Qed.
Print Assumptions C06_atom_record_roundtrip.

(* non-vacuity: HETATM 100000 (hybrid-36 serial A0000), atom HO5' of residue 0PR in chain AA, number -999 with
   insertion code A, segment "S 1", deuterium, charge -2 *)
Theorem C06_atom_record_example :
  fits ex_atom (repeat 49 24) (repeat 50 6) (repeat 51 6) /\
  firstn 30 (atom_line ex_atom (repeat 49 24) (repeat 50 6) (repeat 51 6)) =
  [72;69;84;65;84;77;65;48;48;48;48;32;72;79;53;39;66;48;80;82;65;65;45;57;57;57;65;32;32;32].
Proof. exact ex_atom_fits. Qed.
Print Assumptions C06_atom_record_example.

(* THE TIE TO THE SOURCE TEXT: the line of the model is what a printf interpreter (Pdb/AtomFmt.v: %[-][w][.p]s, %c,
   numbers as ready-made texts) produces from the two format strings that gen/extract_atom_fmt.py copies out of
   write_chain_atoms in src/to_pdb.cpp on every run.  Changing a width, a precision or a blank in the source changes
   the statement the kernel checks here. *)
Theorem C06_atom_line_is_source_format : forall t x y z occ b,
  fmt_line t x y z occ b = Some (atom_line t (x ++ y ++ z) occ b).
Proof. exact atom_line_is_format. Qed.
Print Assumptions C06_atom_line_is_source_format.

(* CRYST1: the line produced by the format string of the source from six numeric texts, the space-group name
   (any tidy name of at most 11 characters; "P 1" when empty) and Z is 80 characters long and is read back exactly *)
Theorem C06_cryst1_roundtrip : forall a b c al be ga hm z rest,
  length a = 9%nat -> length b = 9%nat -> length c = 9%nat ->
  length al = 7%nat -> length be = 7%nat -> length ga = 7%nat ->
  tidy hm -> (length hm <= 11)%nat -> tidy z -> (length z <= 4)%nat ->
  exists line, cryst_line [a; b; c; al; be; ga] hm z = Some line /\ length line = 80%nat /\
    read_cryst (line ++ rest) 81 = ([a; b; c; al; be; ga], match hm with [] => P1 | _ => hm end, z).
Proof. exact cryst1_roundtrip. Qed.
Print Assumptions C06_cryst1_roundtrip.

(* HELIX: the line the format string of the source produces (with columns 72-76 blanked when the length is not
   given) is 80 columns + newline and the record handler (do_helix of Pdb/Records.v, the model that is compared
   with gemmi on whole files) reads back both residue addresses, the class and the length, for every fitting helix *)
Theorem C06_helix_roundtrip : forall h, fits_hx h ->
  exists line, helix_line h = Some line /\ length line = 81%nat /\
  forall s rest, do_helix s (line ++ rest) 81 = helix_result s h (if x_len h <? 0 then -1 else x_len h).
Proof. exact helix_roundtrip. Qed.
Print Assumptions C06_helix_roundtrip.

(* PADDING AND LINE ENDS, HELIX: whatever follows column 40 and whatever the line length (>= 40), both residue
   addresses and the class come from columns 1-40 alone; so when the length is not given the line may end anywhere
   from column 40 to column 72, and when it is given the line may end right after it (LF, CR or NUL next): the
   record is read exactly as from the full 80 columns *)
Theorem C06_helix_padding_no_length : forall h, fits_hx h -> x_len h < 0 ->
  forall s rest len, (40 <= len <= 72)%nat ->
  do_helix s (concat (helix_head h) ++ rest) len = helix_result s h (-1).
Proof. exact helix_padding_no_length. Qed.
Print Assumptions C06_helix_padding_no_length.

Theorem C06_helix_padding_with_length : forall h, fits_hx h -> 0 <= x_len h ->
  forall s c0 rest len, is_term c0 = true -> (72 < len)%nat ->
  do_helix s (concat (helix_head h) ++ repeat 32 32 ++ rjust 4 (print_dec (x_len h)) ++ c0 :: rest) len =
  helix_result s h (x_len h).
Proof. exact helix_padding_with_length. Qed.
Print Assumptions C06_helix_padding_with_length.

Theorem C06_helix_example : fits_hx ex_helix /\
  helix_line ex_helix = Some ([72;69;76;73;88;32;32;32;49;50;32;32;49;50;32;65;76;65;32;65;32;32;32;45;51;66;32;48;80;82;65;65;32;65;48;48;48;32;32;53]
                              ++ repeat 32 40 ++ [10]).
Proof. exact ex_helix_fits. Qed.
Print Assumptions C06_helix_example.

(* PADDING AND LINE ENDS, ATOM / HETATM (the second sentence of the property, for the record that carries the model):
   columns 1-78 of the line gemmi writes, followed by ANY two bytes d1 d2 in a line of any length > 78, give back every
   field but the charge from columns 1-78 alone ... *)
Theorem C06_atom_record_head : forall t xyz occ b d1 d2 len rest, fits t xyz occ b -> (78 < len)%nat ->
  read_atom (concat (atom_head t xyz occ b) ++ [d1; d2] ++ rest) len =
  mkRd (t_het t) (t_serial t) (t_name t) (t_altloc t) (t_resname t) (t_chain t) (Some (t_seqnum t), t_icode t)
       (t_segment t)
       (Some (match t_el t with [e] => (32, e) | [e1; e2] => (e1, e2) | _ => (0, 0) end))
       (read_charge d1 d2) xyz occ b.
Proof. exact atom_head_read. Qed.
Print Assumptions C06_atom_record_head.

(* ... hence a record with blank charge columns is read identically when its two trailing blanks are stripped (LF then
   NUL in columns 79-80), when CR LF follows column 78, when one blank is left before LF or CR, and when it is complete;
   the full line is columns 1-78 plus two blanks (atom_line_neutral) *)
Theorem C06_atom_record_padding : forall t xyz occ b d1 d2 len rest rest', fits t xyz occ b -> t_charge t = 0 ->
  neutral_tail d1 d2 -> (78 < len)%nat ->
  read_atom (concat (atom_head t xyz occ b) ++ [d1; d2] ++ rest) len = read_atom (atom_line t xyz occ b ++ rest') 81.
Proof. exact atom_line_padding. Qed.
Print Assumptions C06_atom_record_padding.

Theorem C06_atom_line_neutral : forall t xyz occ b, t_charge t = 0 ->
  atom_line t xyz occ b = concat (atom_head t xyz occ b) ++ [32; 32].
Proof. exact atom_line_neutral. Qed.
Print Assumptions C06_atom_line_neutral.

(* SHEET: the 80-column line that the format string of the source produces for a strand (with or without the two
   registration atoms) is read back by do_sheet exactly: sheet id, both residue addresses, sense, and the two atom
   addresses (no address when they are not given) *)
Theorem C06_sheet_roundtrip : forall t, fits_st t ->
  exists line, sheet_line t = Some line /\ length line = 80%nat /\
  forall s rest, do_sheet s (line ++ rest) 81 = sheet_result s t (fst (hb_addrs t)) (snd (hb_addrs t)).
Proof. exact sheet_roundtrip. Qed.
Print Assumptions C06_sheet_roundtrip.

(* PADDING, SHEET without registration atoms: the line may end anywhere from column 40 to column 67 *)
Theorem C06_sheet_padding_no_hbond : forall t, fits_st t -> st_hb t = None ->
  forall s rest len, (40 <= len <= 67)%nat ->
  do_sheet s (concat (sheet_head t) ++ rest) len = sheet_result s t no_addr no_addr.
Proof. exact sheet_padding_no_hbond. Qed.
Print Assumptions C06_sheet_padding_no_hbond.

Theorem C06_sheet_example : fits_st ex_strand /\
  sheet_line ex_strand = Some
    [83;72;69;69;84;32;32;32;32;50;32;32;32;65;32;51;32;84;89;82;32;65;32;32;49;48;32;32;71;76;89;32;65;32;32;49;53;65;45;49;
     32;32;79;32;32;76;69;85;32;65;32;32;49;50;32;32;32;78;32;32;86;65;76;32;65;32;32;32;51;32;32;32;32;32;32;32;32;32;32;32].
Proof. exact ex_strand_fits. Qed.
Print Assumptions C06_sheet_example.
