(* Property C02: text-format readers are safe on arbitrary and truncated input.
   Memory safety and termination of the C++ cannot be theorems about a Gallina model; what is proved is
   the logic that is meant to guarantee them, for the parsers that are modelled in full: the PIR/FASTA
   reader never indexes outside its string or an empty vector and always returns or throws; the triplet
   parser terminates on every byte string. (The Hall-symbol model predicted an out-of-bounds write that
   was confirmed and repaired; see known_findings.json.) Everything else in C02 is decided by the
   sanitizer-instrumented runs over every entry point. *)
From GV Require Import Base.Str Sym.Op Sym.Triplet Sym.Group Sym.HallSafe Readers.Pir Readers.PirProofs Readers.TripletTotal.
From GV Require Readers.OperExpr Readers.OperExprProofs.
Local Open Scope Z_scope.

Theorem C02_pir_total_in_bounds : forall s,
  match read_pir_or_fasta s with POob => False | PFuel => False | _ => True end.
Proof. exact pir_total_in_bounds. Qed.
Print Assumptions C02_pir_total_in_bounds.

Theorem C02_triplet_part_terminates : forall s nt, parse_triplet_part s nt <> OutOfFuel.
Proof. exact parse_triplet_part_terminates. Qed.
Print Assumptions C02_triplet_part_terminates.

Theorem C02_triplet_terminates : forall s nt, parse_triplet s nt <> OutOfFuel.
Proof. exact parse_triplet_terminates. Qed.
Print Assumptions C02_triplet_terminates.

(* the Hall-symbol interpreter (symops_from_hall: tokens, rotation and translation symbols, implicit axes, change of
   basis, Dimino closure): the only array it indexes with a value derived from its input is
   Op::tran[principal_axis - 'x']; the model makes that index explicit (HOob when outside {0,1,2}).
   For EVERY byte string the repaired interpreter stays inside the array. *)
Theorem C02_hall_symbol_in_bounds : forall s, symops_from_hall s <> HOob.
Proof.
  intros s. unfold symops_from_hall. pose proof (generators_from_hall_in_bounds s) as H.
  destruct (generators_from_hall s) as [g| |]; [destruct (add_missing_elements g); discriminate|discriminate|contradiction].
Qed.
Print Assumptions C02_hall_symbol_in_bounds.


(* parse_operation_expr (src/mmcif.cpp; _pdbx_struct_assembly_gen.oper_expression, Readers/OperExpr.v): for EVERY byte
   string the loop stops (the fuel of the model, length + 1, is never used up), no substring is requested beyond the end
   of the text (std::out_of_range), and the operation names returned number at most a million plus the length of the text:
   the repaired code refuses wider ranges. *)
Theorem C02_operation_expr_total : forall expr,
  match OperExpr.parse_operation_expr expr with
  | OperExpr.Done r => 0 <= OperExpr.total r <= OperExpr.cap + 2 + Z.of_nat (length expr)
  | OperExpr.Throw => True
  | OperExpr.OutOfFuel | OperExpr.OutOfRange => False
  end.
Proof. exact OperExprProofs.parse_operation_expr_total. Qed.
Print Assumptions C02_operation_expr_total.

(* before the repair there was no bound: the 12-byte text 1-2000000000 stood for two billion names *)
Theorem C02_operation_expr_nocap_refuted :
  OperExprProofs.loop_nocap_first [49; 45; 50; 48; 48; 48; 48; 48; 48; 48; 48; 48] = 2000000000 /\
  OperExpr.parse_operation_expr [49; 45; 50; 48; 48; 48; 48; 48; 48; 48; 48; 48] = OperExpr.Throw.
Proof. exact OperExprProofs.nocap_witness. Qed.
Print Assumptions C02_operation_expr_nocap_refuted.
