(* Model of gemmi::UnitCell (include/gemmi/unitcell.hpp) over an abstract ordered field with one
   adjoined square root.  Executable definitions only; the SAME definitions are instantiated
   - at R   (Geo/CellR.v, theorems), with rD := sqrt(discriminant), and
   - at Q(sqrt D) (Geo/CellQ.v, extracted and compared with the C++ doubles).
   sqrt occurs in calculate_properties only as sqrt(D) (volume) and sqrt(1 - cos^2 alpha* );
   the cell carries rD = sqrt D as a field element and sin alpha* is rD/(sin beta sin gamma)
   (CellR.sar_is_sqrt proves that this is the coded sqrt(1 - cos_alphar^2)). *)
From Coq Require Import ZArith List Bool.
Import ListNotations.

Record Ops (T : Type) : Type := mkOps {
  o0 : T; o1 : T;
  oadd : T -> T -> T; osub : T -> T -> T; omul : T -> T -> T; odiv : T -> T -> T;
  oopp : T -> T;
  oltb : T -> T -> bool;      (* x < y *)
  ornd : T -> T;              (* C round(): nearest integer, halves away from zero *)
  oZ : Z -> T }.
Arguments o0 {T}. Arguments o1 {T}. Arguments oadd {T}. Arguments osub {T}. Arguments omul {T}.
Arguments odiv {T}. Arguments oopp {T}. Arguments oltb {T}. Arguments ornd {T}. Arguments oZ {T}.

Section Model.
Context {T : Type} (O : Ops T).
Local Notation "0" := (o0 O).
Local Notation "1" := (o1 O).
Local Infix "+" := (oadd O).
Local Infix "-" := (osub O).
Local Infix "*" := (omul O).
Local Infix "/" := (odiv O).
Local Notation "- x" := (oopp O x) (at level 35, right associativity).
Local Notation "x <? y" := (oltb O x y).
Local Notation two := (oadd O (o1 O) (o1 O)).

Definition vec : Type := (T * T * T)%type.
Definition mat : Type := (vec * vec * vec)%type.      (* rows *)
Definition smat : Type := (T * T * T * T * T * T)%type. (* u11 u22 u33 u12 u13 u23 *)
Definition zmat : Type := ((Z * Z * Z) * (Z * Z * Z) * (Z * Z * Z))%type.

(* exact-90 flags stand for the tests alpha == 90. of the code; a set flag goes with cos = 0, sin = 1 *)
Record cell : Type := mkCell {
  ea : T; eb : T; ec : T;
  ca : T; cb : T; cg : T;
  sa : T; sb : T; sg : T;
  r90a : bool; r90b : bool; r90g : bool;
  rD : T }.

Definition discr (c : cell) : T :=
  1 - ca c * ca c - cb c * cb c - cg c * cg c + two * ca c * cb c * cg c.

(* calculate_properties *)
Definition volume (c : cell) : T := ea c * eb c * ec c * rD c.
Definition ar (c : cell) : T := eb c * ec c * sa c / volume c.
Definition br (c : cell) : T := ea c * ec c * sb c / volume c.
Definition cr (c : cell) : T := ea c * eb c * sg c / volume c.
Definition car_sb (c : cell) : T := (cb c * cg c - ca c) / sg c.
Definition car (c : cell) : T := car_sb c / sb c.
Definition cbr (c : cell) : T := (ca c * cg c - cb c) / (sa c * sg c).
Definition cgr (c : cell) : T := (ca c * cb c - cg c) / (sa c * sb c).
Definition sar (c : cell) : T := rD c / (sb c * sg c).

Definition orth (c : cell) : mat :=
  ((ea c, eb c * cg c, ec c * cb c),
   (0,    eb c * sg c, - (ec c * car_sb c)),
   (0,    0,           ec c * sb c * sar c)).

Definition frac (c : cell) : mat :=
  let o12 := - cg c / (sg c * ea c) in
  let o13 := - (cg c * car_sb c + cb c * sg c) / (sar c * sb c * sg c * ea c) in
  let o23 := car c / (sar c * sg c * eb c) in
  ((1 / ea c, o12, o13),
   (0, 1 / (eb c * sg c), o23),
   (0, 0, 1 / (ec c * sb c * sar c))).

(* math.hpp *)
Definition mvmul (m : mat) (v : vec) : vec :=
  let '((a00,a01,a02),(a10,a11,a12),(a20,a21,a22)) := m in
  let '(x,y,z) := v in
  (a00 * x + a01 * y + a02 * z, a10 * x + a11 * y + a12 * z, a20 * x + a21 * y + a22 * z).
Definition mmul (m n : mat) : mat :=
  let '((a00,a01,a02),(a10,a11,a12),(a20,a21,a22)) := m in
  let '((b00,b01,b02),(b10,b11,b12),(b20,b21,b22)) := n in
  ((a00*b00 + a01*b10 + a02*b20, a00*b01 + a01*b11 + a02*b21, a00*b02 + a01*b12 + a02*b22),
   (a10*b00 + a11*b10 + a12*b20, a10*b01 + a11*b11 + a12*b21, a10*b02 + a11*b12 + a12*b22),
   (a20*b00 + a21*b10 + a22*b20, a20*b01 + a21*b11 + a22*b21, a20*b02 + a21*b12 + a22*b22)).
Definition det (m : mat) : T :=
  let '((a00,a01,a02),(a10,a11,a12),(a20,a21,a22)) := m in
  a00 * (a11*a22 - a21*a12) + a01 * (a12*a20 - a22*a10) + a02 * (a10*a21 - a20*a11).
Definition ident : mat := ((1,0,0),(0,1,0),(0,0,1)).
Definition len_sq (v : vec) : T := let '(x,y,z) := v in x*x + y*y + z*z.
Definition vsub (p q : vec) : vec :=
  let '(x,y,z) := p in let '(x',y',z') := q in (x - x', y - y', z - z').
Definition vadd (p q : vec) : vec :=
  let '(x,y,z) := p in let '(x',y',z') := q in (x + x', y + y', z + z').
(* column_dot(i,j) for the six pairs, in SMat33 order 00 11 22 01 02 12 *)
Definition gram (m : mat) : smat :=
  let '((a00,a01,a02),(a10,a11,a12),(a20,a21,a22)) := m in
  (a00*a00 + a10*a10 + a20*a20, a01*a01 + a11*a11 + a21*a21, a02*a02 + a12*a12 + a22*a22,
   a00*a01 + a10*a11 + a20*a21, a00*a02 + a10*a12 + a20*a22, a01*a02 + a11*a12 + a21*a22).

(* rot_as_mat33: mult = 1.0 / Op::DEN *)
Definition rotmat (r : zmat) : mat :=
  let m := 1 / oZ O 24 in
  let '((a,b,c),(d,e,f),(g,h,i)) := r in
  ((m * oZ O a, m * oZ O b, m * oZ O c), (m * oZ O d, m * oZ O e, m * oZ O f),
   (m * oZ O g, m * oZ O h, m * oZ O i)).

Definition orthogonalize (c : cell) (f : vec) : vec := mvmul (orth c) f.
Definition fractionalize (c : cell) (p : vec) : vec := mvmul (frac c) p.

(* metric_tensor(): {a*a, b*b, c*c, a*orth[0][1], a*orth[0][2], b*c*cos_alpha} *)
Definition metric_tensor (c : cell) : smat :=
  (ea c * ea c, eb c * eb c, ec c * ec c, ea c * (eb c * cg c), ea c * (ec c * cb c), eb c * ec c * ca c).
Definition reciprocal_metric_tensor (c : cell) : smat :=
  (ar c * ar c, br c * br c, cr c * cr c, ar c * br c * cgr c, ar c * cr c * cbr c, br c * cr c * car c).

Definition calculate_1_d2 (c : cell) (h k l : T) : T :=
  let arh := ar c * h in let brk := br c * k in let crl := cr c * l in
  arh * arh + brk * brk + crl * crl +
  two * (arh * brk * cgr c + arh * crl * cbr c + brk * crl * car c).

(* SMat33 algebra used for statements: r^T U r, and M^T U M *)
Definition r_u_r (u : smat) (h k l : T) : T :=
  let '(u11,u22,u33,u12,u13,u23) := u in
  h*h*u11 + k*k*u22 + l*l*u33 + two * (h*k*u12 + h*l*u13 + k*l*u23).
Definition smat_as_mat (u : smat) : mat :=
  let '(u11,u22,u33,u12,u13,u23) := u in ((u11,u12,u13),(u12,u22,u23),(u13,u23,u33)).
Definition transpose (m : mat) : mat :=
  let '((a00,a01,a02),(a10,a11,a12),(a20,a21,a22)) := m in
  ((a00,a10,a20),(a01,a11,a21),(a02,a12,a22)).
Definition sym_part (m : mat) : smat :=
  let '((a00,a01,a02),(a10,a11,a12),(a20,a21,a22)) := m in (a00,a11,a22,a01,a02,a12).
Definition congr (u : smat) (m : mat) : smat :=
  sym_part (mmul (transpose m) (mmul (smat_as_mat u) m)).

(* reciprocal(): UnitCell(ar, br, cr, acosd(cos_alphar), ...): the new cell has these cosines,
   positive sines, and its own sqrt of the discriminant = D / (sin a sin b sin g) *)
Definition reciprocal (c : cell) : cell :=
  mkCell (ar c) (br c) (cr c) (car c) (cbr c) (cgr c)
         (rD c / (sb c * sg c)) (rD c / (sa c * sg c)) (rD c / (sa c * sb c))
         false false false
         (rD c * rD c / (sa c * sb c * sg c)).

(* is_compatible_with_groupops: |metric[i] - other[i]| > eps -> false *)
Definition oabs (x : T) : T := if x <? 0 then - x else x.
Definition compat_devs1 (c : cell) (r : zmat) : list T :=
  let '(m11,m22,m33,m12,m13,m23) := metric_tensor c in
  let '(g00,g11,g22,g01,g02,g12) := gram (mmul (orth c) (rotmat r)) in
  [oabs (m11 - g00); oabs (m22 - g11); oabs (m33 - g22);
   oabs (m23 - g12); oabs (m13 - g02); oabs (m12 - g01)].
Definition compat_devs (c : cell) (ops : list zmat) : list T := flat_map (compat_devs1 c) ops.
Definition is_compatible (c : cell) (ops : list zmat) (eps : T) : bool :=
  forallb (fun d => negb (eps <? d)) (compat_devs c ops).

(* changed_basis_backward: the new cell is built by set_from_vectors from the columns of
   orth * rot(op); its metric tensor is the Gram matrix of those columns *)
Definition changed_basis_backward_metric (c : cell) (r : zmat) : smat :=
  gram (mmul (orth c) (rotmat r)).

(* Box<Position>::extend and orthogonalize_box *)
Definition omin (x y : T) : T := if y <? x then y else x.   (* if (p < min) min = p *)
Definition omax (x y : T) : T := if x <? y then y else x.   (* if (p > max) max = p *)
Definition extend (b : vec * vec) (p : vec) : vec * vec :=
  let '((x0,y0,z0),(x1,y1,z1)) := b in let '(x,y,z) := p in
  ((omin x0 x, omin y0 y, omin z0 z), (omax x1 x, omax y1 y, omax z1 z)).
(* the angle test of orthogonalize_box.
   pinned snapshot:  alpha != 90. || beta == 90. || gamma == 90.   (box_oblique_pinned)
   repaired:         alpha != 90. || beta != 90. || gamma != 90.   (box_oblique) *)
Definition box_oblique_pinned (c : cell) : bool := negb (r90a c) || r90b c || r90g c.
Definition box_oblique (c : cell) : bool := negb (r90a c) || negb (r90b c) || negb (r90g c).
Definition orthogonalize_box_with (oblique : bool) (c : cell) (fmin fmax : vec) : vec * vec :=
  let '(x0,y0,z0) := fmin in let '(x1,y1,z1) := fmax in
  let r := (orthogonalize c fmin, orthogonalize c fmax) in
  if oblique then
    fold_left extend
      (map (orthogonalize c) [(x0,y0,z1); (x0,y1,z1); (x0,y1,z0); (x1,y1,z0); (x1,y0,z0); (x1,y0,z1)]) r
  else r.
Definition orthogonalize_box_pinned (c : cell) := orthogonalize_box_with (box_oblique_pinned c) c.
(* the code as it is now (after the repair) *)
Definition orthogonalize_box (c : cell) := orthogonalize_box_with (box_oblique c) c.
Definition corners (fmin fmax : vec) : list vec :=
  let '(x0,y0,z0) := fmin in let '(x1,y1,z1) := fmax in
  [(x0,y0,z0); (x0,y0,z1); (x0,y1,z0); (x0,y1,z1); (x1,y0,z0); (x1,y0,z1); (x1,y1,z0); (x1,y1,z1)].
Definition oleb (x y : T) : bool := negb (y <? x).
Definition in_box (b : vec * vec) (p : vec) : bool :=
  let '((x0,y0,z0),(x1,y1,z1)) := b in let '(x,y,z) := p in
  oleb x0 x && oleb x x1 && oleb y0 y && oleb y y1 && oleb z0 z && oleb z z1.
Definition box_has (b : vec * vec) (c : cell) (fmin fmax : vec) : bool :=
  forallb (fun f => in_box b (orthogonalize c f)) (corners fmin fmax).
Definition box_has_corners (c : cell) (fmin fmax : vec) : bool :=
  box_has (orthogonalize_box c fmin fmax) c fmin fmax.
Definition box_has_corners_pinned (c : cell) (fmin fmax : vec) : bool :=
  box_has (orthogonalize_box_pinned c fmin fmax) c fmin fmax.

(* Fractional::wrap_to_zero, distance_sq(Fractional, Fractional), search_pbc_images (crystal) *)
Definition vround (v : vec) : vec := let '(x,y,z) := v in (ornd O x, ornd O y, ornd O z).
Definition wrap_to_zero (v : vec) : vec := vsub v (vround v).
Definition distance_sq (c : cell) (p1 p2 : vec) : T :=
  len_sq (mvmul (orth c) (wrap_to_zero (vsub p1 p2))).
(* find_nearest_pbc_image(fref, fpos): (dist_sq, pbc_shift as field elements) *)
Definition find_nearest_pbc_image (c : cell) (fref fpos : vec) : T * vec :=
  let diff := vsub fpos fref in
  let ns := vround diff in
  let '(nx,ny,nz) := ns in
  (len_sq (mvmul (orth c) (vsub diff ns)), (- nx, - ny, - nz)).

End Model.
