(* The geometric half of NeighborSearch::for_each_cell over the reals: an atom image within the search radius
   of the query point lies in a bin the walk visits, with the lattice shift it is reported with.
   Uses the Coq standard library's axiomatisation of R. *)
From Coq Require Import Reals Lra Lia ZArith Psatz List.
From Flocq Require Import Core.Raux.
From GV Require Import Geo.Neighbor Geo.NeighborProofs.
Local Open Scope R_scope.

(* bins of two coordinates no further apart than k bin widths differ by at most k *)
Lemma floor_window : forall x y (k : Z), Rabs (x - y) <= IZR k -> (Z.abs (Zfloor x - Zfloor y) <= k)%Z.
Proof.
  intros x y k H. apply Rabs_le_inv in H. destruct H as [H1 H2].
  pose proof (Zfloor_lb x) as Lx. pose proof (Zfloor_ub x) as Ux.
  pose proof (Zfloor_lb y) as Ly. pose proof (Zfloor_ub y) as Uy.
  assert (A : (Zfloor x < Zfloor y + k + 1)%Z).
  { apply lt_IZR. rewrite !plus_IZR. simpl (IZR 1). lra. }
  assert (B : (Zfloor y < Zfloor x + k + 1)%Z).
  { apply lt_IZR. rewrite !plus_IZR. simpl (IZR 1). lra. }
  lia.
Qed.

(* Cauchy-Schwarz in three dimensions (Lagrange's identity) *)
Lemma cauchy_schwarz3 : forall a1 a2 a3 b1 b2 b3,
  (a1 * b1 + a2 * b2 + a3 * b3)² <= (a1² + a2² + a3²) * (b1² + b2² + b3²).
Proof.
  intros. unfold Rsqr.
  pose proof (Rle_0_sqr (a1 * b2 - a2 * b1)). pose proof (Rle_0_sqr (a1 * b3 - a3 * b1)).
  pose proof (Rle_0_sqr (a2 * b3 - a3 * b2)). unfold Rsqr in *. nra.
Qed.

(* a fractional coordinate is the projection on a reciprocal axis vector s of length ar: two points no further
   apart than R differ in that coordinate by at most R * ar *)
Lemma frac_coordinate_bound : forall s1 s2 s3 ar d1 d2 d3 R,
  0 <= ar -> 0 <= R -> s1² + s2² + s3² = ar² -> d1² + d2² + d3² <= R² ->
  Rabs (s1 * d1 + s2 * d2 + s3 * d3) <= R * ar.
Proof.
  intros s1 s2 s3 ar d1 d2 d3 R Har HR Hs Hd.
  pose proof (cauchy_schwarz3 s1 s2 s3 d1 d2 d3) as CS. rewrite Hs in CS.
  set (v := s1 * d1 + s2 * d2 + s3 * d3) in *.
  assert (Q : 0 <= R * ar) by (apply Rmult_le_pos; assumption).
  assert (P : v * v <= (R * ar) * (R * ar)).
  { unfold Rsqr in *. eapply Rle_trans; [exact CS|].
    replace (R * ar * (R * ar)) with (ar * ar * (R * R)) by ring.
    apply Rmult_le_compat_l; [nra|exact Hd]. }
  set (M := R * ar) in *. clearbody v M.
  apply Rabs_le. split; nra.
Qed.

Lemma Zfloor_add_Z : forall x (k : Z), Zfloor (x + IZR k) = (Zfloor x + k)%Z.
Proof.
  intros x k. apply Zfloor_imp. rewrite !plus_IZR. simpl (IZR 1).
  pose proof (Zfloor_lb x). pose proof (Zfloor_ub x). lra.
Qed.

(* One axis of the periodic walk. The fractional coordinate along the axis is an affine function of the
   position with linear part s, |s| = ar (the reciprocal cell length). A stored mark has wrapped coordinate
   fa in [0, 1) and sits in bin floor(fa n); its lattice copy fa + d is the one located at x. If x is within R of
   the query q and the walk visits ku >= R * ar * n bins on each side of the query's bin, then the mark's bin is
   visited with exactly the shift d. *)
Theorem axis_complete : forall (n ku d : Z) (fq fa R ar s1 s2 s3 q1 q2 q3 x1 x2 x3 off : R),
  (0 < n)%Z -> 0 <= ar -> 0 <= R ->
  s1² + s2² + s3² = ar² ->
  fq = s1 * q1 + s2 * q2 + s3 * q3 + off ->
  fa + IZR d = s1 * x1 + s2 * x2 + s3 * x3 + off ->
  0 <= fa < 1 ->
  (x1 - q1)² + (x2 - q2)² + (x3 - q3)² <= R² ->
  R * ar * IZR n <= IZR ku ->
  in_window (Zfloor (fq * IZR n)) ku n (Zfloor (fa * IZR n)) d.
Proof.
  intros n ku d fq fa R ar s1 s2 s3 q1 q2 q3 x1 x2 x3 off Hn Har HR Hs Hq Hx Hfa Hd Hk.
  assert (Hn' : 0 < IZR n) by (apply IZR_lt; exact Hn).
  unfold in_window. split.
  - split.
    + apply Zfloor_lub. simpl (IZR 0). nra.
    + apply lt_IZR. eapply Rle_lt_trans; [apply Zfloor_lb|]. nra.
  - assert (E : (Zfloor (fa * IZR n) + d * n)%Z = Zfloor ((fa + IZR d) * IZR n)).
    { rewrite <- Zfloor_add_Z. f_equal. rewrite mult_IZR. ring. }
    rewrite E.
    pose proof (frac_coordinate_bound s1 s2 s3 ar (x1 - q1) (x2 - q2) (x3 - q3) R Har HR Hs Hd) as B.
    assert (D : (fa + IZR d) * IZR n - fq * IZR n = (s1 * (x1 - q1) + s2 * (x2 - q2) + s3 * (x3 - q3)) * IZR n).
    { rewrite Hx, Hq. ring. }
    assert (W : Rabs ((fa + IZR d) * IZR n - fq * IZR n) <= IZR ku).
    { rewrite D, Rabs_mult, (Rabs_pos_eq (IZR n)) by lra.
      eapply Rle_trans; [apply Rmult_le_compat_r; [lra|exact B]|exact Hk]. }
    apply floor_window in W. lia.
Qed.

(* Three axes: the mark's slot and its lattice shift are in the list of (slot, shift) pairs the walk produces *)
Theorem walk_complete : forall (nu nv nw ku kv kw du dv dw : Z) (fqx fqy fqz fax fay faz : R),
  (0 < nu)%Z -> (0 < nv)%Z -> (0 < nw)%Z -> (0 <= ku)%Z -> (0 <= kv)%Z -> (0 <= kw)%Z ->
  in_window (Zfloor (fqx * IZR nu)) ku nu (Zfloor (fax * IZR nu)) du ->
  in_window (Zfloor (fqy * IZR nv)) kv nv (Zfloor (fay * IZR nv)) dv ->
  in_window (Zfloor (fqz * IZR nw)) kw nw (Zfloor (faz * IZR nw)) dw ->
  In (index_q nu nv (Zfloor (fax * IZR nu)) (Zfloor (fay * IZR nv)) (Zfloor (faz * IZR nw)), (du, dv, dw))
     (walk nu nv nw (Zfloor (fqx * IZR nu)) (Zfloor (fqy * IZR nv)) (Zfloor (fqz * IZR nw)) ku kv kw).
Proof.
  intros nu nv nw ku kv kw du dv dw fqx fqy fqz fax fay faz Hnu Hnv Hnw Hku Hkv Hkw Wu Wv Ww.
  destruct (walk_bijective_l nu nv nw (Zfloor (fqx * IZR nu)) (Zfloor (fqy * IZR nv)) (Zfloor (fqz * IZR nw))
              ku kv kw Hnu Hnv Hnw Hku Hkv Hkw) as [_ H].
  apply H. eexists _, _, _. split; [reflexivity|]. split; [exact Wu|]. split; [exact Wv|exact Ww].
Qed.
