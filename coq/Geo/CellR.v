(* The Geo/Cell.v model instantiated at the real numbers, and the C11 theorems. *)
From Coq Require Import Reals Lra Lia ZArith List Bool Psatz.
From GV Require Import Geo.Cell.
Import ListNotations.
Local Open Scope R_scope.

Definition Rltb (x y : R) : bool := if Rlt_dec x y then true else false.
(* C round(): halves away from zero *)
Definition Rround (x : R) : R :=
  if Rle_dec 0 x then IZR (Int_part (x + / 2)) else - IZR (Int_part (- x + / 2)).
Definition RO : Ops R := mkOps R 0 1 Rplus Rminus Rmult Rdiv Ropp Rltb Rround IZR.

Definition rcell := cell (T := R).

Record Valid (c : rcell) : Prop := mkValid {
  v_a : 0 < ea c; v_b : 0 < eb c; v_c : 0 < ec c;
  v_sa : 0 < sa c; v_sb : 0 < sb c; v_sg : 0 < sg c;
  v_pa : sa c * sa c + ca c * ca c = 1;
  v_pb : sb c * sb c + cb c * cb c = 1;
  v_pg : sg c * sg c + cg c * cg c = 1;
  v_rD : 0 < rD c;
  v_D : rD c * rD c = discr RO c;
  v_fa : r90a c = true -> ca c = 0 /\ sa c = 1;
  v_fb : r90b c = true -> cb c = 0 /\ sb c = 1;
  v_fg : r90g c = true -> cg c = 0 /\ sg c = 1 }.

Ltac tup := repeat match goal with |- (_, _) = (_, _) => apply f_equal2 end.
Ltac unf := cbv [mmul mvmul frac orth ident car car_sb cbr cgr sar ar br cr volume det discr gram
                 metric_tensor reciprocal_metric_tensor calculate_1_d2 r_u_r len_sq transpose
                 oadd osub omul odiv oopp o0 o1 oZ RO
                 ea eb ec ca cb cg sa sb sg rD r90a r90b r90g] in *.

Ltac destr c H :=
  destruct c as [a b c0 ca0 cb0 cg0 sa0 sb0 sg0 fa fb fg r];
  destruct H as [Ha Hb Hc Hsa Hsb Hsg Hpa Hpb Hpg Hr HD Hfa Hfb Hfg]; unf.

Lemma frac_orth_inverse_l : forall c, Valid c ->
  mmul RO (frac RO c) (orth RO c) = ident RO /\ mmul RO (orth RO c) (frac RO c) = ident RO.
Proof.
  intros c H. destr c H.
  split; tup; field; repeat split; lra.
Qed.

(* the three Pythagorean relations and sqrt(D)^2 = D as rewrite rules for [ring [...]] *)
Ltac rels :=
  match goal with
  | Hpa : ?sa * ?sa + ?ca * ?ca = 1, Hpb : ?sb * ?sb + ?cb * ?cb = 1, Hpg : ?sg * ?sg + ?cg * ?cg = 1 |- _ =>
    assert (Ea : sa * sa = 1 - ca * ca) by lra;
    assert (Eb : sb * sb = 1 - cb * cb) by lra;
    assert (Eg : sg * sg = 1 - cg * cg) by lra
  end.
Ltac nz := repeat split; lra.
Ltac idl4 Ea Eb Eg HD :=
  first [ ring [Ea Eb Eg HD]
        | field_simplify_eq; [ ring [Ea Eb Eg HD] | nz ]
        | field_simplify_eq; ring [Ea Eb Eg HD] ].

(* sin alpha* as coded: sqrt(1 - cos_alphar^2) is the model's rD / (sin beta sin gamma) *)
Lemma sar_is_sqrt : forall c, Valid c -> sar RO c = sqrt (1 - car RO c * car RO c).
Proof.
  intros c H. destr c H. rels.
  assert (E : 1 - (cb0 * cg0 - ca0) / sg0 / sb0 * ((cb0 * cg0 - ca0) / sg0 / sb0) = r / (sb0 * sg0) * (r / (sb0 * sg0))).
  { field_simplify_eq; [ | split; lra]. ring [Ea Eb Eg HD]. }
  symmetry. apply sqrt_lem_1.
  - rewrite E. apply Rle_0_sqr.
  - apply Rlt_le. apply Rdiv_lt_0_compat; nra.
  - symmetry; exact E.
Qed.

Lemma rD_is_sqrt : forall c, Valid c -> rD c = sqrt (discr RO c).
Proof.
  intros c H. destruct H. symmetry. apply sqrt_lem_1; try lra. rewrite <- v_D0. nra.
Qed.

Lemma volume_is_det_l : forall c, Valid c ->
  volume RO c = det RO (orth RO c) /\ volume RO c = ea c * eb c * ec c * sqrt (discr RO c) /\ 0 < volume RO c.
Proof.
  intros c H. pose proof (rD_is_sqrt c H) as Hs. destr c H. split; [ | split ].
  - field. split; lra.
  - rewrite <- Hs. reflexivity.
  - repeat apply Rmult_lt_0_compat; assumption.
Qed.

(* G* = G^-1 for the closed forms the code uses *)
Lemma recip_metric_inverse_l : forall c, Valid c ->
  mmul RO (smat_as_mat (metric_tensor RO c)) (smat_as_mat (reciprocal_metric_tensor RO c)) = ident RO /\
  mmul RO (smat_as_mat (reciprocal_metric_tensor RO c)) (smat_as_mat (metric_tensor RO c)) = ident RO.
Proof.
  intros c H. destr c H. rels. cbv [smat_as_mat].
  split; tup; idl4 Ea Eb Eg HD.
Qed.

(* orth^T orth = G, frac frac^T = G* *)
Lemma orth_gram : forall c, Valid c -> gram RO (orth RO c) = metric_tensor RO c.
Proof.
  intros c H. destr c H. rels.
  tup; idl4 Ea Eb Eg HD.
Qed.

Lemma one_over_d2_l : forall c h k l, Valid c ->
  calculate_1_d2 RO c h k l = r_u_r RO (reciprocal_metric_tensor RO c) h k l /\
  calculate_1_d2 RO c h k l = len_sq RO (mvmul RO (transpose (frac RO c)) (h, k, l)).
Proof.
  intros c h k l H. destr c H. rels. split.
  - ring.
  - idl4 Ea Eb Eg HD.
Qed.


Lemma reciprocal_valid : forall c, Valid c -> Valid (reciprocal RO c).
Proof.
  intros c H. destr c H. rels.
  assert (Hv : 0 < a * b * c0 * r) by (repeat apply Rmult_lt_0_compat; assumption).
  constructor; cbv [reciprocal ea eb ec ca cb cg sa sb sg rD r90a r90b r90g discr oadd osub omul odiv oopp o0 o1 RO ar br cr car cbr cgr car_sb volume];
    try (intros; discriminate);
    try (apply Rdiv_lt_0_compat; repeat apply Rmult_lt_0_compat; assumption).
  - idl4 Ea Eb Eg HD.
  - idl4 Ea Eb Eg HD.
  - idl4 Ea Eb Eg HD.
  - idl4 Ea Eb Eg HD.
Qed.

(* the reciprocal of the reciprocal has the original edges, cosines, sines and sqrt D *)
Lemma reciprocal_involutive_l : forall c, Valid c ->
  let rr := reciprocal RO (reciprocal RO c) in
  ea rr = ea c /\ eb rr = eb c /\ ec rr = ec c /\ ca rr = ca c /\ cb rr = cb c /\ cg rr = cg c /\
  sa rr = sa c /\ sb rr = sb c /\ sg rr = sg c /\ rD rr = rD c.
Proof.
  intros c H. destr c H. rels.
  cbv [reciprocal ea eb ec ca cb cg sa sb sg rD r90a r90b r90g discr oadd osub omul odiv oopp o0 o1 RO
       ar br cr car cbr cgr car_sb volume].
  repeat split; idl4 Ea Eb Eg HD.
Qed.

Lemma reciprocal_metric : forall c, metric_tensor RO (reciprocal RO c) = reciprocal_metric_tensor RO c.
Proof.
  intros c. cbv [metric_tensor reciprocal_metric_tensor reciprocal ea eb ec ca cb cg omul RO].
  tup; ring.
Qed.


(* ---- change of basis on metric tensors *)
Ltac dmat M := destruct M as [[[[?m00 ?m01] ?m02] [[?m10 ?m11] ?m12]] [[?m20 ?m21] ?m22]].
Ltac dsmat G := destruct G as [[[[[?g11 ?g22] ?g33] ?g12] ?g13] ?g23].
Ltac unc := cbv [congr sym_part mmul transpose smat_as_mat ident gram oadd osub omul odiv oopp o0 o1 RO].

Lemma congr_mul : forall G P M, congr RO (congr RO G P) M = congr RO G (mmul RO P M).
Proof. intros G P M. dsmat G. dmat P. dmat M. unc. tup; ring. Qed.

Lemma congr_ident : forall G, congr RO G (ident RO) = G.
Proof. intros G. dsmat G. unc. tup; ring. Qed.

Lemma gram_mul : forall A M, gram RO (mmul RO A M) = congr RO (gram RO A) M.
Proof. intros A M. dmat A. dmat M. unc. tup; ring. Qed.

Lemma gram_orth_mul : forall c M, Valid c ->
  gram RO (mmul RO (orth RO c) M) = congr RO (metric_tensor RO c) M.
Proof. intros c M H. rewrite gram_mul, orth_gram by assumption. reflexivity. Qed.

Lemma change_basis_roundtrip_l : forall G P M,
  mmul RO P M = ident RO -> congr RO (congr RO G P) M = G.
Proof. intros G P M E. rewrite congr_mul, E. apply congr_ident. Qed.

Lemma changed_basis_metric : forall c r, Valid c ->
  changed_basis_backward_metric RO c r = congr RO (metric_tensor RO c) (rotmat RO r).
Proof. intros c r H. unfold changed_basis_backward_metric. apply gram_orth_mul; assumption. Qed.

(* ---- compatibility with a group of operations *)
Definition smat_close (u v : smat (T := R)) (eps : R) : Prop :=
  let '(u11,u22,u33,u12,u13,u23) := u in
  let '(v11,v22,v33,v12,v13,v23) := v in
  Rabs (u11 - v11) <= eps /\ Rabs (u22 - v22) <= eps /\ Rabs (u33 - v33) <= eps /\
  Rabs (u23 - v23) <= eps /\ Rabs (u13 - v13) <= eps /\ Rabs (u12 - v12) <= eps.

Lemma oabs_Rabs : forall x, oabs RO x = Rabs x.
Proof.
  intros x. unfold oabs, oltb, oopp, o0, RO, Rltb, Rabs.
  destruct (Rlt_dec x 0); destruct (Rcase_abs x); lra.
Qed.
Lemma nlt_true : forall eps d, negb (Rltb eps d) = true <-> d <= eps.
Proof. intros. unfold Rltb. destruct (Rlt_dec eps d); simpl; split; intros; try lra; discriminate. Qed.

Lemma compat1 : forall c r eps, Valid c ->
  (forallb (fun d => negb (oltb RO eps d)) (compat_devs1 RO c r) = true <->
   smat_close (metric_tensor RO c) (congr RO (metric_tensor RO c) (rotmat RO r)) eps).
Proof.
  intros c r eps H. unfold compat_devs1. rewrite gram_orth_mul by assumption.
  destruct (metric_tensor RO c) as [[[[[m11 m22] m33] m12] m13] m23].
  destruct (congr RO _ _) as [[[[[g00 g11] g22] g01] g02] g12].
  cbn [forallb smat_close]. rewrite !oabs_Rabs. cbn [oltb RO osub].
  rewrite !andb_true_iff, !nlt_true. tauto.
Qed.

Lemma compatible_iff_metric_l : forall c ops eps, Valid c ->
  (is_compatible RO c ops eps = true <->
   Forall (fun r => smat_close (metric_tensor RO c) (congr RO (metric_tensor RO c) (rotmat RO r)) eps) ops).
Proof.
  intros c ops eps H. unfold is_compatible, compat_devs.
  induction ops as [ | r ops IH]; cbn [flat_map].
  - simpl. split; intros; [constructor | reflexivity].
  - rewrite forallb_app, andb_true_iff, IH, compat1 by assumption.
    split.
    + intros [A B]. constructor; assumption.
    + intros F. inversion F; subst. split; assumption.
Qed.

Lemma smat_close_0 : forall u v, smat_close u v 0 <-> u = v.
Proof.
  intros u v. dsmat u. dsmat v. cbn [smat_close]. split.
  - intros (A & B & C & D & E & F).
    assert (Z : forall x y, Rabs (x - y) <= 0 -> x = y).
    { intros x y K. pose proof (Rabs_pos (x - y)). assert (Rabs (x - y) = 0) by lra.
      destruct (Req_dec (x - y) 0) as [e|e]; [lra | apply Rabs_no_R0 in e; contradiction]. }
    apply Z in A, B, C, D, E, F. subst. reflexivity.
  - intros E. inversion E; subst. unfold Rminus. rewrite !Rplus_opp_r, Rabs_R0. lra.
Qed.

Lemma compatible_exact_l : forall c ops, Valid c ->
  (is_compatible RO c ops 0 = true <->
   forall r, In r ops -> congr RO (metric_tensor RO c) (rotmat RO r) = metric_tensor RO c).
Proof.
  intros c ops H. rewrite compatible_iff_metric_l by assumption. rewrite Forall_forall.
  split; intros K r Hr; specialize (K r Hr); [ symmetry; apply smat_close_0 | apply smat_close_0; symmetry ]; assumption.
Qed.


(* ---- rounding and periodic distances *)
Lemma Int_part_unique : forall y m, IZR m <= y < IZR m + 1 -> Int_part y = m.
Proof.
  intros y m [A B]. unfold Int_part.
  assert (E : (m + 1)%Z = up y).
  { apply tech_up; rewrite plus_IZR; simpl; lra. }
  lia.
Qed.

Lemma Rround_unique : forall x m, Rabs (x - IZR m) < / 2 -> Rround x = IZR m.
Proof.
  intros x m H. apply Rabs_def2 in H. destruct H as [H1 H2].
  unfold Rround. destruct (Rle_dec 0 x) as [P | N].
  - rewrite (Int_part_unique (x + / 2) m); [reflexivity | lra].
  - rewrite (Int_part_unique (- x + / 2) (- m)%Z); [ rewrite opp_IZR; lra | rewrite opp_IZR; lra ].
Qed.

(* x is not half-way between two integers *)
Definition NoTie (x : R) : Prop := exists m : Z, Rabs (x - IZR m) < / 2.

Lemma Rround_shift : forall x n, NoTie x -> Rround (x + IZR n) = Rround x + IZR n.
Proof.
  intros x n [m H]. rewrite (Rround_unique x m H).
  rewrite <- plus_IZR. apply Rround_unique. rewrite plus_IZR.
  replace (x + IZR n - (IZR m + IZR n)) with (x - IZR m) by ring. exact H.
Qed.

Definition NoTie3 (v : vec (T := R)) : Prop := let '(x, y, z) := v in NoTie x /\ NoTie y /\ NoTie z.
Definition zvec (n1 n2 n3 : Z) : vec (T := R) := (IZR n1, IZR n2, IZR n3).

Lemma wrap_shift : forall d n1 n2 n3, NoTie3 d ->
  wrap_to_zero RO (vadd RO d (zvec n1 n2 n3)) = wrap_to_zero RO d.
Proof.
  intros [[x y] z] n1 n2 n3 (Hx & Hy & Hz).
  cbv [wrap_to_zero vround vsub vadd zvec ornd oadd osub RO].
  rewrite !Rround_shift by assumption. tup; ring.
Qed.

Lemma pbc_distance_invariant_l : forall c p q n1 n2 n3,
  NoTie3 (vsub RO p q) ->
  distance_sq RO c (vadd RO p (zvec n1 n2 n3)) q = distance_sq RO c p q /\
  distance_sq RO c p (vadd RO q (zvec n1 n2 n3)) = distance_sq RO c p q.
Proof.
  intros c p q n1 n2 n3 H. unfold distance_sq. split.
  - replace (vsub RO (vadd RO p (zvec n1 n2 n3)) q) with (vadd RO (vsub RO p q) (zvec n1 n2 n3)).
    + rewrite wrap_shift by assumption. reflexivity.
    + destruct p as [[? ?] ?], q as [[? ?] ?]. cbv [vsub vadd zvec oadd osub RO]. tup; ring.
  - replace (vsub RO p (vadd RO q (zvec n1 n2 n3))) with (vadd RO (vsub RO p q) (zvec (- n1) (- n2) (- n3))).
    + rewrite wrap_shift by assumption. reflexivity.
    + destruct p as [[? ?] ?], q as [[? ?] ?]. cbv [vsub vadd zvec oadd osub RO]. rewrite !opp_IZR. tup; ring.
Qed.

(* find_nearest_pbc_image reports the same squared distance, reached with the reported shift *)
Lemma nearest_image_dist : forall c fref fpos,
  fst (find_nearest_pbc_image RO c fref fpos) = distance_sq RO c fpos fref /\
  fst (find_nearest_pbc_image RO c fref fpos) =
    len_sq RO (mvmul RO (orth RO c) (vadd RO (vsub RO fpos fref) (snd (find_nearest_pbc_image RO c fref fpos)))).
Proof.
  intros c fref fpos. unfold find_nearest_pbc_image, distance_sq, wrap_to_zero.
  destruct (vround RO (vsub RO fpos fref)) as [[nx ny] nz] eqn:E. cbn [fst snd]. split; [reflexivity | ].
  reflexivity.
Qed.


(* ---- orthogonalize_box *)
Definition vle (p q : vec (T := R)) : Prop :=
  let '(x, y, z) := p in let '(x', y', z') := q in x <= x' /\ y <= y' /\ z <= z'.

Lemma oleb_true : forall x y, oleb RO x y = true <-> x <= y.
Proof. intros. unfold oleb. cbn [oltb RO]. apply nlt_true. Qed.
Lemma in_box_iff : forall b p, in_box RO b p = true <-> vle (fst b) p /\ vle p (snd b).
Proof.
  intros [[[x0 y0] z0] [[x1 y1] z1]] [[x y] z]. cbn [in_box fst snd vle].
  rewrite !andb_true_iff, !oleb_true. tauto.
Qed.
Lemma omin_spec : forall x y, omin RO x y <= x /\ omin RO x y <= y.
Proof. intros. unfold omin. cbn [oltb RO]. unfold Rltb. destruct (Rlt_dec y x); lra. Qed.
Lemma omax_spec : forall x y, x <= omax RO x y /\ y <= omax RO x y.
Proof. intros. unfold omax. cbn [oltb RO]. unfold Rltb. destruct (Rlt_dec x y); lra. Qed.

Lemma vle_trans : forall p q r, vle p q -> vle q r -> vle p r.
Proof. intros [[? ?] ?] [[? ?] ?] [[? ?] ?]. cbn [vle]. intros. lra. Qed.
Lemma vle_refl : forall p, vle p p.
Proof. intros [[? ?] ?]. cbn [vle]. lra. Qed.

Lemma extend_spec : forall b q,
  vle (fst (extend RO b q)) (fst b) /\ vle (fst (extend RO b q)) q /\
  vle (snd b) (snd (extend RO b q)) /\ vle q (snd (extend RO b q)).
Proof.
  intros [[[x0 y0] z0] [[x1 y1] z1]] [[x y] z]. cbn [extend fst snd vle].
  pose proof (omin_spec x0 x). pose proof (omin_spec y0 y). pose proof (omin_spec z0 z).
  pose proof (omax_spec x1 x). pose proof (omax_spec y1 y). pose proof (omax_spec z1 z). lra.
Qed.

Lemma fold_extend_spec : forall l b,
  (vle (fst (fold_left (extend RO) l b)) (fst b) /\ vle (snd b) (snd (fold_left (extend RO) l b))) /\
  forall q, In q l -> vle (fst (fold_left (extend RO) l b)) q /\ vle q (snd (fold_left (extend RO) l b)).
Proof.
  induction l as [ | p l IH]; intros b; cbn [fold_left].
  - split; [ split; apply vle_refl | intros q [] ].
  - destruct (IH (extend RO b p)) as [[A B] C]. destruct (extend_spec b p) as (E1 & E2 & E3 & E4).
    split; [ split; eapply vle_trans; eassumption | ].
    intros q [-> | Hq]; [ split; eapply vle_trans; eassumption | apply C; assumption ].
Qed.

Lemma sar_pos : forall c, Valid c -> 0 < sar RO c.
Proof. intros c H. destr c H. apply Rdiv_lt_0_compat; nra. Qed.

(* with all eight corners used, or with a diagonal matrix, the box contains every corner *)
Lemma box_contains_corners_with : forall c obl fmin fmax, Valid c -> vle fmin fmax ->
  (obl = false -> cg c = 0 /\ cb c = 0 /\ car_sb RO c = 0) ->
  box_has RO (orthogonalize_box_with RO obl c fmin fmax) c fmin fmax = true.
Proof.
  intros c obl [[x0 y0] z0] [[x1 y1] z1] H (Lx & Ly & Lz) Hd.
  pose proof (sar_pos c H) as Hs. destruct H.
  assert (P1 : 0 <= ea c * (x1 - x0)) by nra.
  assert (P2 : 0 <= eb c * sg c * (y1 - y0)) by (apply Rmult_le_pos; nra).
  assert (P3 : 0 <= ec c * sb c * sar RO c * (z1 - z0))
    by (apply Rmult_le_pos; [ apply Rlt_le; apply Rmult_lt_0_compat; [ apply Rmult_lt_0_compat; assumption | assumption ] | lra ]).
  unfold box_has. cbn [corners forallb]. rewrite !andb_true_iff, !in_box_iff.
  unfold orthogonalize_box_with. destruct obl.
  - set (l := map _ _).
    destruct (fold_extend_spec l (orthogonalize RO c (x0, y0, z0), orthogonalize RO c (x1, y1, z1))) as [[A B] C].
    cbn [fst snd] in A, B.
    assert (C1 := C _ (or_introl eq_refl)).
    assert (C2 := C _ (or_intror (or_introl eq_refl))).
    assert (C3 := C _ (or_intror (or_intror (or_introl eq_refl)))).
    assert (C4 := C _ (or_intror (or_intror (or_intror (or_introl eq_refl))))).
    assert (C5 := C _ (or_intror (or_intror (or_intror (or_intror (or_introl eq_refl)))))).
    assert (C6 := C _ (or_intror (or_intror (or_intror (or_intror (or_intror (or_introl eq_refl))))))).
    clear C. subst l.
    destruct (fold_left _ _ _) as [[[bx0 by0] bz0] [[bx1 by1] bz1]].
    cbv [orthogonalize mvmul orth vle fst snd oadd osub omul oopp o0 o1 RO] in *.
    repeat split; lra.
  - destruct (Hd eq_refl) as (E1 & E2 & E3).
    cbv [orthogonalize mvmul orth vle fst snd oadd osub omul oopp o0 o1 RO] in *.
    rewrite E1, E2, E3. repeat split; nra.
Qed.


Lemma box_contains_corners_l : forall c fmin fmax, Valid c -> vle fmin fmax ->
  box_has RO (orthogonalize_box_with RO (box_oblique c) c fmin fmax) c fmin fmax = true.
Proof.
  intros c fmin fmax H L. apply box_contains_corners_with; try assumption.
  unfold box_oblique. intros E.
  apply orb_false_iff in E. destruct E as [E Eg]. apply orb_false_iff in E. destruct E as [Ea Eb].
  apply negb_false_iff in Ea, Eb, Eg.
  destruct (v_fa c H Ea) as [A1 A2]. destruct (v_fb c H Eb) as [B1 B2]. destruct (v_fg c H Eg) as [G1 G2].
  repeat split; try assumption.
  cbv [car_sb osub omul odiv RO]. rewrite A1, B1, G1, G2. field.
Qed.

(* the pinned test skips the six extra corners when alpha = 90 and beta, gamma are oblique *)
Definition wit_cell : rcell :=
  mkCell 10 20 30 0 (3/5) (5/13) 1 (4/5) (12/13) true false false (sqrt (2079/4225)).

Lemma wit_valid : Valid wit_cell.
Proof.
  constructor; cbv [wit_cell ea eb ec ca cb cg sa sb sg rD r90a r90b r90g discr oadd osub omul o1 RO];
    try lra; try (intros; discriminate); try (intros; split; lra).
  - apply sqrt_lt_R0. lra.
  - rewrite sqrt_sqrt by lra. field.
Qed.

Lemma box_corners_refuted_l : exists (c : rcell) fmin fmax,
  Valid c /\ vle fmin fmax /\ box_has_corners_pinned RO c fmin fmax = false.
Proof.
  exists wit_cell, (0, 0, 0), (1, 1, 1). split; [ exact wit_valid | ]. split; [ cbn; lra | ].
  unfold box_has_corners_pinned, box_has. cbn [corners forallb].
  match goal with |- ?b1 && (?b2 && ?rest) = false =>
    assert (E : b2 = false); [ | rewrite E; destruct b1; reflexivity ] end.
  apply not_true_is_false. intros K. apply in_box_iff in K. destruct K as [K1 K2].
  cbv [orthogonalize_box_pinned orthogonalize_box_with box_oblique_pinned wit_cell r90a r90b r90g negb orb
       orthogonalize mvmul orth car_sb sar vle fst snd ea eb ec ca cb cg sa sb sg rD
       oadd osub omul odiv oopp o0 o1 RO] in K1.
  lra.
Qed.
