(* UnitCell::get_hkl_limits(dmin) = (int(a/dmin), int(b/dmin), int(c/dmin)) bounds the loops of for_all_reflections
   (include/gemmi/reciproc.hpp). Over the reals: a reflection with d >= dmin has |h| <= a/dmin, for ANY cell (however
   oblique), so no reflection of the resolution sphere lies outside the scanned box.
   s = reciprocal-lattice vector of the reflection (|s| = 1/d), av = the cell's a axis as a vector (|av| = a); the
   reciprocal basis is dual to the direct one, so s . av = h (this is frac * orth = I, property C11). *)
From Coq Require Import Reals Lra Lia ZArith Psatz.
From Flocq Require Import Core.Raux.
From GV Require Import Geo.NeighborReal.
Local Open Scope R_scope.

Theorem hkl_limit_sufficient : forall (h : Z) (a1 a2 a3 s1 s2 s3 a invd dmin : R),
  0 < dmin -> 0 <= a -> 0 <= invd ->
  a1² + a2² + a3² = a² -> s1² + s2² + s3² = invd² -> s1 * a1 + s2 * a2 + s3 * a3 = IZR h ->
  invd <= / dmin ->
  (Z.abs h <= Zfloor (a / dmin))%Z.
Proof.
  intros h a1 a2 a3 s1 s2 s3 a invd dmin Hd Ha Hi Ea Es Eh Hres.
  assert (B : Rabs (IZR h) <= a * invd).
  { rewrite (Rmult_comm a invd). rewrite <- Eh. replace (s1 * a1 + s2 * a2 + s3 * a3) with (a1 * s1 + a2 * s2 + a3 * s3) by ring.
    apply (frac_coordinate_bound a1 a2 a3 a s1 s2 s3 invd); try assumption.
    rewrite Es. apply Rle_refl. }
  assert (C : a * invd <= a / dmin).
  { unfold Rdiv. apply Rmult_le_compat_l; assumption. }
  assert (D : Rabs (IZR h) <= a / dmin) by lra.
  rewrite <- abs_IZR in D.
  apply Zfloor_lub in D. exact D.
Qed.
