(* Model of the integer part of gemmi::NeighborSearch (include/gemmi/neighbor.hpp): the walk of
   for_each_cell over bins and lattice shifts. Executable definitions only. *)
From Coq Require Import ZArith QArith Qround List Bool.
Import ListNotations.
Local Open Scope Z_scope.

(* the lambda `shift` of for_each_cell; C++ / is truncating division *)
Definition shift (j n : Z) : Z :=
  if j <? 0 then Z.quot (j + 1) n - 1
  else if j >=? n then Z.quot j n
  else 0.

Fixpoint zrange (lo : Z) (len : nat) : list Z :=
  match len with O => [] | S m => lo :: zrange (lo + 1) m end.

(* one axis: for (u = u0; u < uend; ++u) with u0 = centre - k, uend = u0 + 2k + 1: (bin, shift) *)
Definition axis_walk (c k n : Z) : list (Z * Z) :=
  map (fun u => let d := shift u n in (u - d * n, d)) (zrange (c - k) (Z.to_nat (2 * k + 1))).

Definition index_q (nu nv u v w : Z) : Z := (w * nv + v) * nu + u.

(* periodic branch: loops w (outer), v, u (inner); reports (index into grid.data, (du, dv, dw)) *)
Definition walk_out (nu nv : Z) (e : (Z * Z) * ((Z * Z) * (Z * Z))) : Z * (Z * Z * Z) :=
  let '((bw, dw), ((bv, dv), (bu, du))) := e in (index_q nu nv bu bv bw, (du, dv, dw)).
Definition walk (nu nv nw cu cv cw ku kv kw : Z) : list (Z * (Z * Z * Z)) :=
  map (walk_out nu nv)
      (list_prod (axis_walk cw kw nw) (list_prod (axis_walk cv kv nv) (axis_walk cu ku nu))).

(* non-periodic branch: the window is clamped to the grid, no shifts *)
Definition axis_clamped (c k n : Z) : list Z :=
  let lo := Z.max 0 (c - k) in let hi := Z.min (c - k + 2 * k + 1) n in
  zrange lo (Z.to_nat (hi - lo)).
Definition walk_clamped (nu nv nw cu cv cw ku kv kw : Z) : list (Z * (Z * Z * Z)) :=
  map (fun e : Z * (Z * Z) => let '(w, (v, u)) := e in (index_q nu nv u v w, (0, 0, 0)))
      (list_prod (axis_clamped cw kw nw) (list_prod (axis_clamped cv kv nv) (axis_clamped cu ku nu))).

(* bins_to_visit(k, recip_length, n) with ratio = radius_specified * recip_length * n taken as a rational *)
Definition bins_to_visit (k : Z) (ratio : Q) : Z :=
  if Qle_bool ratio (1 + (1 # 1000000000)) then k
  else Z.min (Qceiling (inject_Z k * ratio)) (2147483647 / 4).
