(* C20 theorems about the integer walk of NeighborSearch::for_each_cell. *)
From Coq Require Import ZArith QArith Qround List Bool Lia ZifyBool.
From GV Require Import Geo.Neighbor.
Import ListNotations.
Local Open Scope Z_scope.
Ltac Zify.zify_post_hook ::= Z.to_euclidean_division_equations.

Lemma shift_is_floor_div : forall j n, 0 < n ->
  shift j n = j / n /\ 0 <= j - shift j n * n < n.
Proof.
  intros j n Hn. unfold shift.
  destruct (j <? 0) eqn:E1; [ | destruct (j >=? n) eqn:E2 ]; split; try lia; nia.
Qed.

Lemma in_zrange : forall len lo x, In x (zrange lo len) <-> lo <= x < lo + Z.of_nat len.
Proof.
  induction len as [ | m IH]; intros lo x; cbn [zrange In].
  - lia.
  - rewrite IH. lia.
Qed.
Lemma NoDup_zrange : forall len lo, NoDup (zrange lo len).
Proof.
  induction len as [ | m IH]; intros lo; cbn [zrange]; constructor.
  - rewrite in_zrange. lia.
  - apply IH.
Qed.

Lemma NoDup_map_inj_in : forall (A B : Type) (f : A -> B) l,
  (forall x y, In x l -> In y l -> f x = f y -> x = y) -> NoDup l -> NoDup (map f l).
Proof.
  intros A B f l. induction l as [ | a l IH]; intros Hinj Hnd; cbn [map]; constructor.
  - inversion Hnd as [ | ? ? Hna Hnd']; subst. intros Hin. apply in_map_iff in Hin.
    destruct Hin as (y & Hy & Hyl). apply Hna.
    rewrite <- (Hinj y a) ; [ assumption | right; assumption | left; reflexivity | assumption ].
  - inversion Hnd; subst. apply IH; [ | assumption ].
    intros x y Hx Hy. apply Hinj; right; assumption.
Qed.
Lemma NoDup_app_intro : forall (A : Type) (l1 l2 : list A),
  NoDup l1 -> NoDup l2 -> (forall x, In x l1 -> ~ In x l2) -> NoDup (l1 ++ l2).
Proof.
  intros A l1. induction l1 as [ | a l1 IH]; intros l2 H1 H2 Hd; cbn [app]; [ assumption | ].
  inversion H1; subst. constructor.
  - rewrite in_app_iff. intros [K | K]; [ contradiction | apply (Hd a); [ left; reflexivity | assumption ] ].
  - apply IH; try assumption. intros x Hx. apply Hd. right; assumption.
Qed.
Lemma NoDup_list_prod : forall (A B : Type) (la : list A) (lb : list B),
  NoDup la -> NoDup lb -> NoDup (list_prod la lb).
Proof.
  intros A B la lb Ha Hb. induction la as [ | a la IH]; cbn [list_prod]; [ constructor | ].
  inversion Ha; subst. apply NoDup_app_intro.
  - apply NoDup_map_inj_in; [ | assumption ]. intros x y _ _ E. inversion E; reflexivity.
  - apply IH; assumption.
  - intros [x y] Hin. apply in_map_iff in Hin. destruct Hin as (y' & E & _). inversion E; subst.
    rewrite in_prod_iff. intros [K _]. contradiction.
Qed.

(* one axis: every (bin, shift) whose unwrapped position bin + shift*n lies in the window, exactly once *)
Lemma axis_walk_spec : forall c k n, 0 < n -> 0 <= k ->
  NoDup (axis_walk c k n) /\
  forall b d, In (b, d) (axis_walk c k n) <-> (0 <= b < n /\ c - k <= b + d * n <= c + k).
Proof.
  intros c k n Hn Hk. unfold axis_walk. split.
  - apply NoDup_map_inj_in; [ | apply NoDup_zrange ].
    intros x y _ _ E. cbv zeta in E. injection E as E1 E2. rewrite E2 in E1. lia.
  - intros b d. rewrite in_map_iff. split.
    + intros (u & E & Hu). apply in_zrange in Hu. inversion E; subst.
      destruct (shift_is_floor_div u n Hn) as [_ R]. lia.
    + intros [Hb Hw]. exists (b + d * n). split.
      * destruct (shift_is_floor_div (b + d * n) n Hn) as [S R].
        assert (Ed : shift (b + d * n) n = d) by (rewrite S; nia).
        rewrite Ed. f_equal. lia.
      * apply in_zrange. lia.
Qed.

Lemma index_q_inj : forall nu nv u v w u' v' w',
  0 <= u < nu -> 0 <= u' < nu -> 0 <= v < nv -> 0 <= v' < nv ->
  index_q nu nv u v w = index_q nu nv u' v' w' -> u = u' /\ v = v' /\ w = w'.
Proof.
  unfold index_q. intros nu nv u v w u' v' w' Hu Hu' Hv Hv' E.
  assert (A : w * nv + v = w' * nv + v').
  { assert (K : (w * nv + v - (w' * nv + v')) * nu = u' - u) by lia.
    assert (K2 : -1 < w * nv + v - (w' * nv + v') < 1) by nia. lia. }
  assert (B : w = w').
  { assert (K : (w - w') * nv = v' - v) by lia.
    assert (K2 : -1 < w - w' < 1) by nia. lia. }
  subst w'. split; [ nia | split; [ lia | reflexivity ] ].
Qed.

(* the whole walk: every (bin index, lattice shift) whose unwrapped bin coordinates lie in the
   (2ku+1)(2kv+1)(2kw+1) window around the query's bin is visited exactly once - also when an axis has
   fewer bins than the window is wide (1 or 2 bins), where the same bin recurs with different shifts *)
Definition in_window (c k n b d : Z) : Prop := 0 <= b < n /\ c - k <= b + d * n <= c + k.

Lemma walk_bijective_l : forall nu nv nw cu cv cw ku kv kw,
  0 < nu -> 0 < nv -> 0 < nw -> 0 <= ku -> 0 <= kv -> 0 <= kw ->
  NoDup (walk nu nv nw cu cv cw ku kv kw) /\
  forall idx du dv dw,
    In (idx, (du, dv, dw)) (walk nu nv nw cu cv cw ku kv kw) <->
    exists bu bv bw, idx = index_q nu nv bu bv bw /\
      in_window cu ku nu bu du /\ in_window cv kv nv bv dv /\ in_window cw kw nw bw dw.
Proof.
  intros nu nv nw cu cv cw ku kv kw Hnu Hnv Hnw Hku Hkv Hkw.
  destruct (axis_walk_spec cu ku nu Hnu Hku) as [Du Iu].
  destruct (axis_walk_spec cv kv nv Hnv Hkv) as [Dv Iv].
  destruct (axis_walk_spec cw kw nw Hnw Hkw) as [Dw Iw].
  unfold walk. split.
  - apply NoDup_map_inj_in.
    + intros [[bw dw] [[bv dv] [bu du]]] [[bw' dw'] [[bv' dv'] [bu' du']]] H1 H2 E.
      apply in_prod_iff in H1. destruct H1 as [H1w H1]. apply in_prod_iff in H1. destruct H1 as [H1v H1u].
      apply in_prod_iff in H2. destruct H2 as [H2w H2]. apply in_prod_iff in H2. destruct H2 as [H2v H2u].
      apply Iu in H1u, H2u. apply Iv in H1v, H2v.
      cbn [walk_out] in E. inversion E as [[E1 E2 E3 E4]]. subst.
      destruct (index_q_inj nu nv bu bv bw bu' bv' bw') as (A & B & C); try tauto.
      subst. reflexivity.
    + apply NoDup_list_prod; [ assumption | apply NoDup_list_prod; assumption ].
  - intros idx du dv dw. rewrite in_map_iff. split.
    + intros ([[bw dw'] [[bv dv'] [bu du']]] & E & Hin).
      apply in_prod_iff in Hin. destruct Hin as [Hw Hin]. apply in_prod_iff in Hin. destruct Hin as [Hv Hu].
      cbn [walk_out] in E. inversion E; subst.
      exists bu, bv, bw. unfold in_window. rewrite <- Iu, <- Iv, <- Iw. tauto.
    + intros (bu & bv & bw & E & Wu & Wv & Ww). unfold in_window in *.
      exists ((bw, dw), ((bv, dv), (bu, du))). split; [ cbn [walk_out]; subst; reflexivity | ].
      rewrite !in_prod_iff, Iu, Iv, Iw. tauto.
Qed.

(* the clamped walk of the non-periodic branch: the bins of the window that exist, each once *)
Lemma axis_clamped_spec : forall c k n,
  NoDup (axis_clamped c k n) /\
  forall b, In b (axis_clamped c k n) <-> (0 <= b < n /\ c - k <= b <= c + k).
Proof.
  intros c k n. unfold axis_clamped. split; [ apply NoDup_zrange | ].
  intros b. rewrite in_zrange. lia.
Qed.

(* bins_to_visit covers k radii: ku bins of width w = radius / ratio span at least k * radius,
   up to the 1e-9 slack the code allows itself *)
Lemma bins_to_visit_covers_l : forall k ratio, (0 <= k)%Z -> (0 <= ratio)%Q ->
  (bins_to_visit k ratio < 2147483647 / 4)%Z ->
  (inject_Z k * ratio <= inject_Z (bins_to_visit k ratio) * (1 + (1 # 1000000000)))%Q.
Proof.
  intros k ratio Hk Hr Hcap. unfold bins_to_visit in *.
  assert (Hk' : (0 <= inject_Z k)%Q) by (change 0%Q with (inject_Z 0); rewrite <- Zle_Qle; assumption).
  destruct (Qle_bool ratio (1 + (1 # 1000000000))) eqn:E.
  - apply Qle_bool_iff in E.
    rewrite (Qmult_comm (inject_Z k) ratio), (Qmult_comm (inject_Z k)).
    apply Qmult_le_compat_r; assumption.
  - assert (Em : Z.min (Qceiling (inject_Z k * ratio)) (2147483647 / 4) = Qceiling (inject_Z k * ratio)) by lia.
    rewrite Em.
    pose proof (Qle_ceiling (inject_Z k * ratio)) as C.
    assert (P : (0 <= inject_Z k * ratio)%Q) by (apply Qmult_le_0_compat; assumption).
    set (c := inject_Z (Qceiling (inject_Z k * ratio))) in *.
    assert (Pc : (0 <= c)%Q) by (eapply Qle_trans; eassumption).
    eapply Qle_trans; [ exact C | ].
    rewrite <- (Qmult_1_r c) at 1.
    rewrite (Qmult_comm c 1), (Qmult_comm c).
    apply Qmult_le_compat_r; [ | assumption ].
    unfold Qle; simpl; lia.
Qed.
