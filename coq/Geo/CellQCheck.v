(* Evaluations of the executable Q(sqrt D) model: the rational witness that refutes the pinned angle test of
   orthogonalize_box, and non-vacuity examples for the C11 theorems. *)
From Coq Require Import ZArith QArith List Bool.
From GV Require Import Geo.Cell Geo.CellQ.
Import ListNotations.
Local Open Scope Q_scope.

(* alpha = 90 exactly, cos beta = 3/5, cos gamma = 5/13 (beta = 53.13, gamma = 67.38 degrees), a b c = 10 20 30 *)
Definition witD : Q := q_discr 0 (3#5) (5#13).
Definition witq : cell (T := qe) :=
  qcell 10 20 30 0 (3#5) (5#13) (1, 0) (4#5, 0) (12#13, 0) true false false.
Definition q3 (x y z : Q) : vec (T := qe) := ((x, 0), (y, 0), (z, 0)).

Lemma box_corners_refuted_q : exists D c fmin fmax,
  qcell_valid D c = true /\ box_has_corners_pinned (QO D) c fmin fmax = false.
Proof. exists witD, witq, (q3 0 0 0), (q3 1 1 1). split; vm_compute; reflexivity. Qed.

(* the corner (0,0,1) has y = -30/4, below the reported minimum 0 *)
Example witness_corner :
  snd (fst (orthogonalize (QO witD) witq (q3 0 0 1))) = ((-15#2), 0) /\
  snd (fst (fst (orthogonalize_box_pinned (QO witD) witq (q3 0 0 0) (q3 1 1 1)))) = (0, 0).
Proof. split; vm_compute; reflexivity. Qed.

(* with the repaired test the same cell and box are fine *)
Example witness_repaired :
  box_has (QO witD) (orthogonalize_box_with (QO witD) (box_oblique witq) witq (q3 0 0 0) (q3 1 1 1)) witq (q3 0 0 0) (q3 1 1 1) = true.
Proof. vm_compute. reflexivity. Qed.

(* non-vacuity: a valid triclinic cell; frac * orth evaluates to the identity, 1/d^2 of (1,-2,3) *)
Definition exD : Q := q_discr (7#25) (5#13) (3#5).
Definition exq : cell (T := qe) :=
  qcell 10 20 30 (7#25) (5#13) (3#5) (24#25, 0) (12#13, 0) (4#5, 0) false false false.
Example ex_valid : qcell_valid exD exq = true.
Proof. vm_compute. reflexivity. Qed.
Definition qe_mat_eqb (m n : mat (T := qe)) : bool :=
  let '((a,b,c),(d,e,f),(g,h,i)) := m in let '((a',b',c'),(d',e',f'),(g',h',i')) := n in
  qe_eqb a a' && qe_eqb b b' && qe_eqb c c' && qe_eqb d d' && qe_eqb e e' && qe_eqb f f' &&
  qe_eqb g g' && qe_eqb h h' && qe_eqb i i'.
Example ex_inverse :
  qe_mat_eqb (mmul (QO exD) (frac (QO exD) exq) (orth (QO exD) exq)) (ident (QO exD)) = true.
Proof. vm_compute. reflexivity. Qed.
Example ex_d2 :
  qe_eqb (calculate_1_d2 (QO exD) exq (1,0) (-2,0) (3,0))
         (r_u_r (QO exD) (reciprocal_metric_tensor (QO exD) exq) (1,0) (-2,0) (3,0)) = true.
Proof. vm_compute. reflexivity. Qed.
