(* Executable instance of the Geo/Cell.v model: the field Q(sqrt D), elements p + q*sqrt D as pairs (p, q).
   All arithmetic is exact; the order is decided exactly by comparing squares. This is what is extracted and
   compared with gemmi's doubles. No proofs in this file. *)
From Coq Require Import ZArith QArith Qabs Qround List Bool.
From GV Require Import Geo.Cell.
Import ListNotations.
Local Open Scope Q_scope.

Definition qe : Type := (Q * Q)%type.

Section QE.
Variable D : Q.

Definition qe_add (x y : qe) : qe := (Qred (fst x + fst y), Qred (snd x + snd y)).
Definition qe_sub (x y : qe) : qe := (Qred (fst x - fst y), Qred (snd x - snd y)).
Definition qe_opp (x : qe) : qe := (Qred (- fst x), Qred (- snd x)).
Definition qe_mul (x y : qe) : qe :=
  (Qred (fst x * fst y + snd x * snd y * D), Qred (fst x * snd y + snd x * fst y)).
Definition qe_inv (x : qe) : qe :=
  let n := fst x * fst x - snd x * snd x * D in (Qred (fst x / n), Qred (- snd x / n)).
Definition qe_div (x y : qe) : qe := qe_mul x (qe_inv y).

(* p + q sqrt D > 0 *)
Definition qe_pos (x : qe) : bool :=
  let p := fst x in let q := snd x in
  match p ?= 0, q ?= 0 with
  | Gt, Gt | Gt, Eq | Eq, Gt => true
  | Gt, Lt => match q * q * D ?= p * p with Lt => true | _ => false end
  | Lt, Gt => match p * p ?= q * q * D with Lt => true | _ => false end
  | _, _ => false
  end.
Definition qe_ltb (x y : qe) : bool := qe_pos (qe_sub y x).
Definition qe_leb (x y : qe) : bool := negb (qe_ltb y x).

(* C round() on a rational: halves away from zero *)
Definition q_round (p : Q) : Z :=
  let f := Qfloor (Qabs p + (1 # 2))%Q in
  match (p ?= 0)%Q with Lt => (- f)%Z | _ => f end.
(* a rational approximation of sqrt D, good to about 1e-20 relative *)
Definition sqrtD_approx : Q :=
  let s := (10 ^ 20)%Z in
  (Z.sqrt (Qnum D * Zpos (Qden D) * s * s) # (Qden D * Z.to_pos s)).
Definition qe_is_round (x : qe) (n : Z) : bool :=
  let lo := (inject_Z n - (1 # 2), 0) in
  let hi := (inject_Z n + (1 # 2), 0) in
  if qe_ltb x (0, 0) then qe_ltb lo x && qe_leb x hi else qe_leb lo x && qe_ltb x hi.
Definition qe_round (x : qe) : qe :=
  let n :=
    match snd x ?= 0 with
    | Eq => q_round (fst x)
    | _ => let n0 := q_round (fst x + snd x * sqrtD_approx) in
           if qe_is_round x n0 then n0
           else if qe_is_round x (n0 - 1)%Z then (n0 - 1)%Z
           else if qe_is_round x (n0 + 1)%Z then (n0 + 1)%Z else n0
    end in
  (inject_Z n, 0).

Definition QO : Ops qe :=
  mkOps qe (0, 0) (1, 0) qe_add qe_sub qe_mul qe_div qe_opp qe_ltb qe_round (fun z => (inject_Z z, 0)).

End QE.

(* a cell whose cosines are rational; sines and sqrt D are elements of Q(sqrt D) *)
Definition q_discr (ca cb cg : Q) : Q := Qred (1 - ca * ca - cb * cb - cg * cg + 2 * ca * cb * cg).
Definition qcell (a b c ca cb cg : Q) (sa sb sg : qe) (fa fb fg : bool) : cell (T := qe) :=
  mkCell (a, 0) (b, 0) (c, 0) (ca, 0) (cb, 0) (cg, 0) sa sb sg fa fb fg (0, 1).

(* the sines really are sines, and (0,1) really is sqrt D: checked per cell by the driver *)
Definition qe_eqb (x y : qe) : bool := Qeq_bool (fst x) (fst y) && Qeq_bool (snd x) (snd y).
Definition qcell_valid (D : Q) (c : cell (T := qe)) : bool :=
  let O := QO D in
  let one := o1 O in
  let sq x := omul O x x in
  qe_eqb (oadd O (sq (sa c)) (sq (ca c))) one && qe_eqb (oadd O (sq (sb c)) (sq (cb c))) one &&
  qe_eqb (oadd O (sq (sg c)) (sq (cg c))) one &&
  qe_pos D (sa c) && qe_pos D (sb c) && qe_pos D (sg c) &&
  qe_pos D (ea c) && qe_pos D (eb c) && qe_pos D (ec c) &&
  match D ?= 0 with Gt => true | _ => false end &&
  qe_eqb (discr O c) (D, 0) &&
  (negb (r90a c) || (qe_eqb (ca c) (0,0) && qe_eqb (sa c) one)) &&
  (negb (r90b c) || (qe_eqb (cb c) (0,0) && qe_eqb (sb c) one)) &&
  (negb (r90g c) || (qe_eqb (cg c) (0,0) && qe_eqb (sg c) one)).
