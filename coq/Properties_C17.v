(* Property C17: anomalous f' and f'' are pure, well-behaved functions of element and energy.
   Statements only; proofs live in Sf/FprimeProofs.v.  The orbital table (Sf/Fprime_gen.v, 1249 rows for
   Z = 3..92) is regenerated from src/fprime.cpp on every run.  Purity (array = scalar calls, any order, any
   thread), "outputs untouched outside 3..92", absence of spurious poles and the documentation values are
   runtime facts of the implementation: they are decided by the oracles of harness/h_sf_fprime.hpp. *)
From Coq Require Import ZArith QArith List Reals.
From GV Require Import Sf.Fprime Sf.Fprime_gen Sf.FprimeProofs.
Import ListNotations.

(* index table: Z = 3..92, offsets contiguous, strictly increasing, ending at the row count; per orbital:
   nparm in {10,11} and consistent with the presence of the 6th energy / 11th cross-section, binden > 0,
   energies positive and descending, tabulated energies are the Gauss nodes of the sigma variant selected by
   nparm (within 10%), distinct interpolation abscissae, at least 3 usable cross-section points for aknint *)
Theorem C17_fprime_table_wf : table_wf_b fp_index fp_rows fp_kpcor = true.
Proof. exact fprime_table_wf. Qed.
Print Assumptions C17_fprime_table_wf.

Theorem C17_fprime_orbitals_wf : forall z off n, In (z, off, n) fp_index ->
  (0 < n)%Z /\ forall i, (i < Z.to_nat n)%nat ->
    let o := nth (Z.to_nat off + i) fp_rows (0%Z, 0%Q, [], []) in
    (o_nparm o = 10 \/ o_nparm o = 11)%Z /\ (3 <= usable_points o)%nat.
Proof. exact fprime_orbitals_wf. Qed.
Print Assumptions C17_fprime_orbitals_wf.

(* f'' of the real-number instance of the model of cromer() (Aitken interpolation of the log cross-sections,
   edge condition bena <= energa) is non-negative for every orbital list and energy.
   partial: f' (the four sigma integrands and Gauss quadrature) is not modelled *)
Theorem C17_fpp_nonneg_partial : forall (orbs : list orb) (energy_ev : R), (0 <= energy_ev)%R ->
  (0 <= cromer_f2R orbs energy_ev)%R.
Proof. exact fpp_nonneg. Qed.
Print Assumptions C17_fpp_nonneg_partial.
