(* Property C03: binary-format readers are safe on arbitrary and truncated input (CCP4 map set-up, gzip buffer
   growth, memory stream). Statements only; proofs live in Map/C03Proofs.v.
   The snapshot's code is kept in the model as *_orig and REFUTED; the repaired code (fix: commits) is proved safe. *)
From GV Require Import Map.GridIndex Map.GridOps Map.Setup Map.MapSg Map.SetupProofs Map.Stream Map.GzGrow Map.C03Proofs Map.SymmSafe Map.SetupFull.
From GV Require Mtz.Data Mtz.DataProofs.
Local Open Scope Z_scope.

(* --- the snapshot: headers that pass every test the reader makes (MAPC/MAPR/MAPS a permutation, supported mode,
   NSYMBT small) drive setup() into a remainder by zero, an index outside the new grid, a wrapped point count *)
Theorem C03_ccp4_setup_orig_refuted :
  exists h g dflt smode, axis_positions (h_axes h) <> GridIndex.Exc /\
    (setup_core_orig h g dflt smode = GridIndex.Trap \/ setup_core_orig h g dflt smode = GridIndex.Oob).
Proof. exact setup_orig_refuted. Qed.
Print Assumptions C03_ccp4_setup_orig_refuted.

Theorem C03_ccp4_setup_orig_wild_index_refuted :
  setup_core_orig hdr_neg_sampling (grid_for hdr_neg_sampling) (-1) 1 = GridIndex.Oob /\
  setup_core_orig hdr_wrap (grid_for hdr_wrap) (-1) 1 = GridIndex.Oob /\
  setup_core_orig hdr_start_overflow (grid_for hdr_start_overflow) (-1) 1 = GridIndex.Trap.
Proof. exact (conj setup_orig_wild_index (conj setup_orig_count_wraps setup_orig_int_overflow)). Qed.
Print Assumptions C03_ccp4_setup_orig_wild_index_refuted.

(* --- the repaired setup(): for EVERY header and every data vector of point_count elements, in every set-up mode,
   the re-indexing returns or throws; `safe r` = r is neither an out-of-buffer access nor an arithmetic trap.
   No validity assumption on the header: the proof uses only the tests made by the code. (The symmetry expansion
   that follows in Full mode is covered by C09_scaled_ops_in_range for grids accepted by check_grid_factors.) *)
Theorem C03_ccp4_setup_in_bounds : forall h g dflt smode,
  Z.of_nat (length (g_data g)) = point_count (g_n g) -> safe (setup_core h g dflt smode).
Proof. exact ccp4_setup_in_bounds. Qed.
Print Assumptions C03_ccp4_setup_in_bounds.

(* --- the symmetry expansion that follows in Full mode (symmetrize_using_ops with any reducer): for every tabulated
   setting and every grid accepted by check_grid_factors every mate index stays inside the data/visited buffers *)
Theorem C03_symmetry_expansion_in_bounds : forall r, In r sg_table ->
  forall nu nv nw, nu > 0 -> nv > 0 -> nw > 0 -> nu * nv * nw < two64 ->
  check_grid_factors (row_gops r) nu nv nw = true ->
  forall func data, Z.of_nat (length data) = nu * nv * nw ->
  safe (symmetrize_using_ops func nu nv nw (scaled_ops_except_id (sg_number r) (row_gops r) nu nv nw) data).
Proof. exact symmetrize_in_bounds. Qed.
Print Assumptions C03_symmetry_expansion_in_bounds.

(* --- THE WHOLE setup(): re-indexing followed, in Full mode, by the symmetry expansion. The repaired code tests
   check_grid_factors on the header's sampling before symmetrize_nondefault, so the hypothesis of the theorem above is
   established by the code itself: for EVERY header (any space-group number, any sampling), every grid the reader can
   produce, every default value and every mode, setup() returns or throws. *)
Theorem C03_ccp4_setup_whole_in_bounds : forall h g dflt smode,
  Z.of_nat (length (g_data g)) = point_count (g_n g) -> safe (setup_sg h g dflt smode).
Proof. exact ccp4_setup_full_in_bounds. Qed.
Print Assumptions C03_ccp4_setup_whole_in_bounds.

(* the code before that repair: one stored point, P 4/n (number 85), sampling 3 x 1 x 1 - the expansion indexes
   visited[] outside its bounds; the repaired code throws *)
Theorem C03_ccp4_setup_without_compat_refuted :
  setup_gen setup_core no_compat sgops hdr_incompatible (mkGrid (1, 1, 1) 0 [7]) (-1) 0 = Oob /\
  setup_sg hdr_incompatible (mkGrid (1, 1, 1) 0 [7]) (-1) 0 = Exc.
Proof. exact setup_without_compat_refuted. Qed.
Print Assumptions C03_ccp4_setup_without_compat_refuted.

(* --- gzip growth loop. Snapshot: with a size estimate of 0 and data present the loop never ends, whatever budget *)
Theorem C03_gz_growth_orig_refuted : exists est total, 0 <= est /\ 0 < total /\
  forall fuel, uncompress grow_orig fuel est total = None.
Proof. exact gz_growth_refuted. Qed.
Print Assumptions C03_gz_growth_orig_refuted.

(* repaired: for every estimate and every real size the function finishes within `total` iterations, with an
   exception (3 GiB cap) or with exactly `total` bytes *)
Theorem C03_gz_growth_terminates : forall est total, 0 <= est -> 0 <= total ->
  uncompress grow (Z.to_nat total) est total = Some None \/
  uncompress grow (Z.to_nat total) est total = Some (Some total).
Proof. exact uncompress_terminates. Qed.
Print Assumptions C03_gz_growth_terminates.

(* --- MemoryStream. Snapshot: skip() leaves the buffer and read_rest() then uses a range outside it *)
Theorem C03_stream_orig_refuted : exists size ops, forallb sop_ok ops = true /\
  existsb (fun r => negb (range_ok size r) || (size <? s_cur r)) (run step_orig size 0 ops) = true.
Proof. exact stream_orig_refuted. Qed.
Print Assumptions C03_stream_orig_refuted.

(* repaired: over arbitrary sequences of read/skip/gets/getc/read_rest the cursor stays in [0, size] and every
   copied range lies inside the buffer *)
Theorem C03_stream_never_past_end : forall ops size cur, 0 <= cur <= size -> forallb sop_ok ops = true ->
  Forall (sres_ok size) (run step size cur ops).
Proof. exact stream_never_past_end. Qed.
Print Assumptions C03_stream_never_past_end.

(* --- MTZ: the first 20 bytes. Snapshot: any int64 is taken as the header offset and turned into a word count
   (offset - 21) and a byte position 4*(offset - 1) in signed arithmetic; a 20-byte prologue with the 64-bit escape
   and offset 2^62 + 21 passes every test and overflows *)
Theorem C03_mtz_offset_orig_refuted : exists b same off,
  Mtz.Data.read_first_raw b = Some (same, off) /\ 2 ^ 63 <= 4 * (off - 1).
Proof.
  exists ([77; 84; 90; 32] ++ Mtz.Data.enc32 (-1) ++ [68; 65; 0; 0] ++ Mtz.Data.enc64 (2 ^ 62 + 21)), true, (2 ^ 62 + 21).
  split; vm_compute; [reflexivity|discriminate].
Qed.
Print Assumptions C03_mtz_offset_orig_refuted.

(* repaired: whatever the 20 bytes are, an accepted header offset gives a non-negative word count and a byte
   position inside int64 (the data block [80, 80 + 4n) is then read through the stream of C03_stream_never_past_end) *)
Theorem C03_mtz_offset_arithmetic_safe : forall b same off, Mtz.Data.read_first b = Some (same, off) ->
  21 <= off /\ 0 <= off - 1 - 20 /\ 4 * (off - 1) < 2 ^ 63 /\ 4 * (off - 1 - 20) < 2 ^ 63.
Proof. exact Mtz.DataProofs.read_first_offset_range. Qed.
Print Assumptions C03_mtz_offset_arithmetic_safe.
