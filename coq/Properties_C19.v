(* C19: editing a CIF document through the DOM API keeps it rectangular and predictable. *)
From Coq Require Import ZArith List Bool.
From GV Require Import Base.Str Dom.Dom Dom.DomProofs.
Import ListNotations.

Theorem C19_set_nth_length : forall A (l : list A) n x, length (set_nth n x l) = length l.
Proof. exact set_nth_length. Qed.
Print Assumptions C19_set_nth_length.
