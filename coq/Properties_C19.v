(* C19: editing a CIF document through the DOM API keeps it rectangular and predictable.
   Statements over the reference model coq/Dom/Dom.v (tied to gemmi by harness/h_dom.cpp + extract/dom_drv.ml). *)
From Coq Require Import ZArith List Bool.
From GV Require Import Base.Str Dom.Dom Dom.DomProofs Dom.DomSafe Dom.DomRefine.
Import ListNotations.

(* Every operation -- accepted, rejected with an exception, with any arguments -- keeps every loop of
   every block rectangular: length values = k * length tags (so no values without tags). *)
Theorem C19_rectangular_step : forall d o, Rect d -> Rect (s_doc (step d o)).
Proof. exact step_rect. Qed.
Print Assumptions C19_rectangular_step.

(* ... hence every history, of ANY length, from any rectangular document *)
Theorem C19_rectangular : forall ops d, Rect d -> Rect (run d ops).
Proof. exact run_rect. Qed.
Print Assumptions C19_rectangular.

Theorem C19_rectangular_fold : forall ops d, Rect d ->
  Rect (fold_left (fun d o => s_doc (step d o)) ops d).
Proof. exact fold_rect. Qed.
Print Assumptions C19_rectangular_fold.

Theorem C19_rectangular_from_empty : forall ops, Rect (run [] ops).
Proof. exact run_rect_empty. Qed.
Print Assumptions C19_rectangular_from_empty.

(* An operation rejected with an exception leaves the document EXACTLY as it was -- for every
   operation with the strong guarantee (all but init_loop / init_mmcif_loop / find_or_add /
   remove_rows, which are only covered by C19_rectangular_step). *)
Theorem C19_rejected_unchanged : forall d o,
  strong_guarantee o = true -> s_st (step d o) = SErr -> s_doc (step d o) = d.
Proof. exact step_err_unchanged. Qed.
Print Assumptions C19_rejected_unchanged.

(* lookup after edit: set_pair then find_value, whatever the letter case and wherever the tag was *)
Theorem C19_find_value_after_set_pair : forall items tag value,
  find_value (after_set_pair items tag value) tag = Some value.
Proof. exact find_value_set_pair. Qed.
Print Assumptions C19_find_value_after_set_pair.

Theorem C19_set_pair_is_after_set_pair : forall items tag value, is_tag tag = true ->
  o_items (blk_set_pair items tag value) = after_set_pair items tag value /\
  o_st (blk_set_pair items tag value) = SOk.
Proof. exact blk_set_pair_items. Qed.
Print Assumptions C19_set_pair_is_after_set_pair.

(* ... and what must NOT change: any other tag (case-insensitively different) keeps its value,
   provided the tag set is not a column of a loop (set_pair replaces such a loop as a whole). *)
Theorem C19_set_pair_other_tags_untouched : forall items tag value tag',
  (forall tags vals, In (Loop tags vals) items -> find_tag_lc tags (to_lower tag) = None) ->
  to_lower tag' <> to_lower tag ->
  find_value (after_set_pair items tag value) tag' = find_value items tag'.
Proof. exact find_value_set_pair_other. Qed.
Print Assumptions C19_set_pair_other_tags_untouched.

(* row counts *)
Theorem C19_add_row_count : forall tags vals new pos,
  tags <> [] -> rect_loop tags vals -> length new = length tags ->
  l_st (loop_apply tags vals (LAddRow new pos)) = SOk /\
  loop_length tags (l_vals (loop_apply tags vals (LAddRow new pos))) = S (loop_length tags vals).
Proof. exact add_row_count. Qed.
Print Assumptions C19_add_row_count.

Theorem C19_add_row_wrong_length_rejected : forall tags vals new pos,
  length new <> length tags ->
  l_st (loop_apply tags vals (LAddRow new pos)) = SErr /\
  l_vals (loop_apply tags vals (LAddRow new pos)) = vals.
Proof. exact add_row_wrong_length. Qed.
Print Assumptions C19_add_row_wrong_length_rejected.

Theorem C19_pop_row_count : forall tags vals,
  tags <> [] -> rect_loop tags vals -> 0 < loop_length tags vals ->
  l_st (loop_apply tags vals LPopRow) = SOk /\
  S (loop_length tags (l_vals (loop_apply tags vals LPopRow))) = loop_length tags vals /\
  l_vals (loop_apply tags vals LPopRow) = firstn (length vals - length tags) vals.
Proof. exact pop_row_count. Qed.
Print Assumptions C19_pop_row_count.

(* sizes of the flat-table algorithms *)
Theorem C19_insert_columns_size : forall A len w n pos (v : A) data,
  pos <= w -> length data = len * w -> length (insert_cols len w n pos v data) = len * (w + n).
Proof. exact insert_cols_length. Qed.
Print Assumptions C19_insert_columns_size.

Theorem C19_remove_column_size : forall k nw p data,
  p <= nw -> length data = k * S nw -> length (remove_col nw p data) = k * nw.
Proof. exact remove_col_length. Qed.
Print Assumptions C19_remove_column_size.

(* No dangling reference: the handle returned by find / find_any / find_or_add / find_mmcif_category
   points at a loop item of the (possibly edited) block and all its column positions are in range. *)
Theorem C19_table_handle_well_formed : forall items f items' t,
  run_finder items f = (items', Some t) -> tab_wf items' t.
Proof. exact run_finder_wf. Qed.
Print Assumptions C19_table_handle_well_formed.

(* No operation on a fresh handle reaches an undefined-behaviour outcome of the model (out-of-range
   index, wrong item kind).  PARTIAL: ensure_loop / remove_rows are excluded, because on a pairs table
   that names the SAME pair twice the C++ reads a destroyed item (assumption: finder tags distinct). *)
Theorem C19_no_undefined_behaviour_partial : forall d o,
  op_no_dup_hazard o = true -> s_st (step d o) <> SUB.
Proof. exact step_no_ub. Qed.
Print Assumptions C19_no_undefined_behaviour_partial.

(* Refinement: the in-place copy loop of vector_remove_column, as an index-level array program that
   reads and writes ONE array, computes the list-level specification used by the model (no element is
   read after it was overwritten: the write cursor stays strictly below the read cursor). *)
Theorem C19_remove_column_refines : forall nw pos a, remove_column_prog nw pos a = remove_col nw pos a.
Proof. exact remove_column_refines. Qed.
Print Assumptions C19_remove_column_refines.
