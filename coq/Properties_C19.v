(* C19: editing a CIF document through the DOM API keeps it rectangular and predictable.
   Statements over the reference model coq/Dom/Dom.v (tied to gemmi by harness/h_dom.cpp + extract/dom_drv.ml). *)
From Coq Require Import ZArith List Bool.
From GV Require Import Base.Str Dom.Dom Dom.DomProofs.
Import ListNotations.

(* Every operation -- accepted, rejected with an exception, with any arguments -- keeps every loop of
   every block rectangular: length values = k * length tags (so no values without tags). *)
Theorem C19_rectangular_step : forall d o, Rect d -> Rect (s_doc (step d o)).
Proof. exact step_rect. Qed.
Print Assumptions C19_rectangular_step.

(* ... hence every history, of ANY length, from any rectangular document *)
Theorem C19_rectangular : forall ops d, Rect d -> Rect (run d ops).
Proof. exact run_rect. Qed.
Print Assumptions C19_rectangular.

Theorem C19_rectangular_fold : forall ops d, Rect d ->
  Rect (fold_left (fun d o => s_doc (step d o)) ops d).
Proof. exact fold_rect. Qed.
Print Assumptions C19_rectangular_fold.

Theorem C19_rectangular_from_empty : forall ops, Rect (run [] ops).
Proof. intro ops. apply run_rect. exact rect_empty_doc. Qed.
Print Assumptions C19_rectangular_from_empty.
